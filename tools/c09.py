"""C09 - tensor-structure operations act on the subsystem indices they name.

Three layers, all run on every check:
  1. proof step: coq/Props/C09.v (model coq/Model/C09.v, proofs coq/Proofs/C09.v)
  2. correspondence (K): the Gallina model is evaluated by vm_compute on the
     same generated exact inputs as the real kernels
        ptrace_csr / ptrace_csr_dense / ptrace_dia / ptrace_dense,
        permute.dimensions_csr / dimensions_dense,
        Dimensions._get_tensor_perm / _get_tensor_shape,
        expand_operator (new_order + permute), tensor_swap (flat index map),
        partial_transpose (dense and sparse method), _one_subsystem_apply (operator
        channel), the reshuffle permutation
        lists (spy on Qobj.permute; incl. the private Compound branch),
        tensor() of square and rectangular factors (left-nested loop and Kronecker
        model), the kron kernels on pairs (kron_csr entry by entry), the positions
        tensor_contract hands to _tensor_contract_single (spy, all Qobj types)
     and a tiny translator (T) re-reads `contract_at` of
     tensor._tensor_contract_single and checks it is the modelled expression
  3. implementation-level oracle: NumPy reshape/transpose/einsum reference for
     Qobj.ptrace / permute / tensor / expand_operator / tensor_swap /
     tensor_contract / partial_transpose / subsystem_apply / reshuffle /
     super_tensor / to_tensor_rep on Gaussian-integer objects, including the
     dims labels of the result.
"""
import ast
import itertools
import json
import os
import time
import random

import numpy as np

import vlib
from vlib import clist

HEADER = ("From Coq Require Import List Arith ZArith Bool.\nImport ListNotations.\n"
          "From QV Require Import Model.C09.\n")
LET = 'abcdefghijklmnopqrstuvwxyzABCDEFGHIJKLMNOPQRSTUVWXYZ'


# ------------------------------------------------------------------ helpers
def prod(l):
    r = 1
    for x in l:
        r *= int(x)
    return r


def canon(l):
    """qutip stores an all-ones list of subsystem dimensions as [1]."""
    return [1] if all(x == 1 for x in l) else list(l)


def rand_dims(rng, maxf=5, maxtot=36, minf=1, pool=(1, 1, 2, 2, 3, 3, 4, 5)):
    while True:
        n = rng.randint(minf, maxf)
        d = [rng.choice(pool) for _ in range(n)]
        if prod(d) <= maxtot:
            return d


def rand_mat(rng, r, c, dens=0.5):
    """Gaussian-integer matrix as nested lists of [re, im]."""
    return [[[rng.randint(-5, 5), rng.randint(-5, 5)] if rng.random() < dens
             else [0, 0] for _ in range(c)] for _ in range(r)]


def to_np(m):
    a = np.array(m, dtype=float)
    if a.size == 0:
        return np.zeros((len(m), 0), dtype=complex)
    return a[..., 0] + 1j * a[..., 1]


def from_np(a):
    a = np.asarray(a)
    return [[[int(round(z.real)), int(round(z.imag))] for z in row] for row in a]


def exact(a):
    a = np.asarray(a)
    return bool(np.all(a.real == np.round(a.real)) and np.all(a.imag == np.round(a.imag)))


def cg(z):
    def one(v):
        v = int(v)
        return "(%d)%%Z" % v if v < 0 else "%d%%Z" % v
    return "(%s, %s)" % (one(z[0]), one(z[1]))


def centries(es):
    return clist(es, lambda e: "(%d, %d, %s)" % (e[0], e[1], cg(e[2])))


def cnats(l):
    return clist(l, lambda x: str(int(x)))


def cmat(m):
    return clist(m, lambda row: clist(row, cg))


def pv(s):
    return vlib.parse_coq_value(s)


def gmat(v):
    """parsed Coq list (list (Z*Z)) -> nested [re, im]"""
    return [[[int(z[0]), int(z[1])] for z in row] for row in v]


def csr_entries(data):
    sp = data.as_scipy()
    es = []
    for r in range(sp.shape[0]):
        for p in range(sp.indptr[r], sp.indptr[r + 1]):
            z = sp.data[p]
            es.append((r, int(sp.indices[p]), [int(z.real), int(z.imag)]))
    return es


def dia_entries(data):
    sp = data.as_scipy()
    es = []
    for i, off in enumerate(sp.offsets):
        off = int(off)
        start = max(0, off)
        end = min(data.shape[0] + off, data.shape[1])
        for col in range(start, end):
            z = sp.data[i, col]
            es.append((col - off, col, [int(z.real), int(z.imag)]))
    return es


def dense_entries(m):
    return [(r, c, z) for r, row in enumerate(m) for c, z in enumerate(row)
            if z != [0, 0]]


# ------------------------------------------------ crash-safe implementation runs
INFLIGHT = {"path": None}


def note_inflight(obj):
    """Record the input about to be handed to a compiled kernel, so that a
    crash of the interpreter (segfault in a broken kernel) still yields a
    concrete failing input."""
    if INFLIGHT["path"]:
        with open(INFLIGHT["path"], "w") as f:
            json.dump(obj, f, default=str)


def run_forked(fn, tag):
    """Run fn() in a forked child; returns ("ok", value) or
    ("crash", signal, last noted input)."""
    import pickle
    d = os.path.join(vlib.VERIF, "replays", "C09")
    os.makedirs(d, exist_ok=True)
    path = os.path.join(d, ".inflight_%s_%d.json" % (tag, os.getpid()))
    r, w = os.pipe()
    pid = os.fork()
    if pid == 0:
        try:
            os.close(r)
            INFLIGHT["path"] = path
            val = fn()
            with os.fdopen(w, "wb") as f:
                pickle.dump(val, f)
            os._exit(0)
        except BaseException:
            import traceback
            traceback.print_exc()
            os._exit(3)
    os.close(w)
    # watchdog: a child that neither finishes nor crashes within the limit is
    # killed and reported like a crash (with the last noted input)
    import select
    import signal
    limit = float(os.environ.get("VERIF_C09_CHILD_LIMIT", "1500"))
    t0 = time.time()
    chunks = []
    timed_out = False
    while True:
        left = limit - (time.time() - t0)
        if left <= 0:
            timed_out = True
            break
        rd, _, _ = select.select([r], [], [], min(left, 5.0))
        if rd:
            b = os.read(r, 1 << 16)
            if not b:
                break
            chunks.append(b)
    os.close(r)
    if timed_out:
        try:
            os.kill(pid, signal.SIGKILL)
        except OSError:
            pass
    blob = b"" if timed_out else b"".join(chunks)
    _, status = os.waitpid(pid, 0)
    last = None
    if os.path.exists(path):
        try:
            last = json.load(open(path))
        except Exception:
            last = None
        os.remove(path)
    if os.WIFSIGNALED(status) or not blob:
        sig = os.WTERMSIG(status) if os.WIFSIGNALED(status) else -1
        return ("crash", sig, last)
    return ("ok", pickle.loads(blob))


# ---------------------------------------------------------- correspondence
def corr_cases(dist, rng, scale):
    """Returns list of dicts {kind, key, expr, impl, nontrivial, info}."""
    import qutip
    from qutip import Qobj
    from qutip.core import data as _data
    from qutip.core.data import permute as _perm
    from qutip.core.dimensions import Dimensions
    cases = []

    def bump(k):
        dist[k] = dist.get(k, 0) + 1

    # ---- A. ptrace kernels
    for _ in range(40 * scale):
        dims = rand_dims(rng)
        N = prod(dims)
        n = len(dims)
        malformed = rng.random() < 0.15
        sel = rng.sample(range(n), rng.randint(0, n))
        nr = N
        if malformed:
            kind = rng.choice(["dup", "range", "shape", "zero"])
            if kind == "dup" and sel:
                sel = sel + [rng.choice(sel)]
            elif kind == "range":
                sel = sel + [n + rng.randint(0, 2)]
            elif kind == "shape":
                dims = dims + [2]
            else:
                dims = dims[:-1] + [0]
            rng.shuffle(sel)
            bump("ptrace:malformed:" + kind)
        M = rand_mat(rng, nr, nr, rng.choice([0.1, 0.3, 0.8]))
        A = to_np(M)
        for fmt in ("CSR", "CSRd", "Dia", "Dense"):
            if fmt == "Dia" and malformed:
                continue       # ptrace_dia tests len(sel) before parsing
            if fmt in ("CSR", "CSRd"):
                d = _data.to("CSR", _data.Dense(A))
                es = csr_entries(d)
                fn = _data.ptrace_csr if fmt == "CSR" else _data.ptrace_csr_dense
            elif fmt == "Dia":
                d = _data.to("Dia", _data.Dense(A))
                es = dia_entries(d)
                fn = _data.ptrace_dia
            else:
                d = _data.Dense(A)
                es = dense_entries(M)
                fn = _data.ptrace_dense
            note_inflight({"op": "kernel:ptrace_" + fmt,
                           "params": {"dims": dims, "sel": sel, "matrix": M, "fmt": fmt}})
            try:
                out = fn(d, list(dims), list(sel))
                arr = out.to_array()
                impl = ("ok", arr.shape[0], from_np(arr)) if exact(arr) else ("inexact",)
            except ValueError:
                impl = ("err", "EValue")
            except IndexError:
                impl = ("err", "EIndex")
            except Exception as e:          # any other exception type
                impl = ("err", type(e).__name__)
            if fmt == "Dense":
                expr = ("match ptrace_dense_spec G g0 gadd %s %s %d %d %s with "
                        "inl e => inl e | inr p => inr p end"
                        % (cnats(dims), cnats(sel), nr, nr, centries(es)))
            else:
                expr = ("match ptrace_sparse G %s %s %d %d %s with inl e => inl e "
                        "| inr p => inr (fst p, to_dense G g0 gadd (fst p) (fst p) (snd p)) end"
                        % (cnats(dims), cnats(sel), nr, nr, centries(es)))
            cases.append({"kind": "ptrace_" + fmt, "expr": expr, "impl": impl,
                          "nontrivial": n >= 2 and 0 < len(sel) < n and not malformed,
                          "info": {"dims": dims, "sel": sel, "matrix": M, "fmt": fmt}})
            bump("ptrace:" + fmt)

    # ---- B. permute.dimensions
    for _ in range(50 * scale):
        dims = rand_dims(rng)
        N = prod(dims)
        n = len(dims)
        order = list(range(n))
        rng.shuffle(order)
        bad = rng.random() < 0.12
        if bad:
            kind = rng.choice(["dup", "range", "len", "zero"])
            if kind == "dup" and n >= 2:
                order[0] = order[1]
            elif kind == "range":
                order[rng.randrange(n)] = n + rng.randint(0, 1)
            elif kind == "len":
                order = order + [n]
            else:
                dims = list(dims)
                dims[rng.randrange(n)] = 0
            bump("permute:malformed:" + kind)
        shape_kind = rng.choice(["ket", "bra", "oper", "oper", "oper_sparse"])
        Nn = max(1, prod(dims)) if 0 not in dims else N
        if shape_kind == "ket":
            nr, nc = Nn, 1
        elif shape_kind == "bra":
            nr, nc = 1, Nn
        else:
            nr, nc = Nn, Nn
        dens = {"ket": 0.6, "bra": 0.6, "oper": rng.choice([0.3, 0.8]),
                "oper_sparse": 1.2 / max(4, Nn)}[shape_kind]
        M = rand_mat(rng, nr, nc, dens)
        A = to_np(M)
        for fmt in ("CSR", "Dense"):
            note_inflight({"op": "kernel:permute_" + fmt,
                           "params": {"dims": dims, "order": order, "matrix": M, "fmt": fmt,
                                      "shape": [nr, nc]}})
            try:
                if fmt == "CSR":
                    d = _data.to("CSR", _data.Dense(A))
                    es = csr_entries(d)
                    out = _perm.dimensions_csr(d, list(dims), list(order))
                else:
                    d = _data.Dense(A)
                    out = _perm.dimensions_dense(d, list(dims), list(order))
                arr = out.to_array()
                impl = ("ok", from_np(arr)) if exact(arr) else ("inexact",)
            except ValueError:
                impl = ("err",)
            except Exception as e:
                impl = ("err", type(e).__name__)
            if fmt == "CSR":
                expr = ("match dimensions_csr G %s %s %d %d %s with inl e => inl e | "
                        "inr p => inr (fst p, to_dense G g0 gadd %d %d (snd p)) end"
                        % (cnats(dims), cnats(order), nr, nc, centries(es), nr, nc))
            else:
                expr = ("match dimensions_dense G g0 %s %s %d %d %s with inl e => inl e | "
                        "inr p => inr (PFull, p) end"
                        % (cnats(dims), cnats(order), nr, nc, cmat(M)))
            cases.append({"kind": "permute_" + fmt, "expr": expr, "impl": impl,
                          "nontrivial": n >= 2 and order != list(range(n)) and not bad,
                          "info": {"dims": dims, "order": order, "matrix": M,
                                   "fmt": fmt, "shape": [nr, nc]}})
            bump("permute:%s:%s" % (fmt, shape_kind))

    # ---- C. Dimensions._get_tensor_perm / _get_tensor_shape
    def side(rng, superlike):
        if superlike:
            l = rand_dims(rng, 3, 6, pool=(1, 1, 2, 3))
            r = rand_dims(rng, 3, 6, pool=(1, 1, 2, 3))
            return [l, r]
        return rand_dims(rng, 4, 24)

    for _ in range(40 * scale):
        t = rng.choice(["oper", "ket", "bra", "super", "operket"])
        if t == "oper":
            dims = [side(rng, False), side(rng, False)]
        elif t == "ket":
            dims = [side(rng, False), [1]]
        elif t == "bra":
            dims = [[1], side(rng, False)]
        elif t == "super":
            dims = [side(rng, True), side(rng, True)]
        else:
            dims = [side(rng, True), [1]]

        def coq_side(s):
            if s and isinstance(s[0], list):
                l, r = s
                if all(x == 1 for x in l + r):
                    return "steps [1]", [1]
                l, r = canon(l), canon(r)
                return "steps_super %s %s" % (cnats(l), cnats(r)), l + r
            s = canon(s)
            return "steps %s" % cnats(s), s
        stl, fl = coq_side(dims[0])
        str_, fr = coq_side(dims[1])
        try:
            D = Dimensions(dims)
            st = D.step()
            impl = ("ok", [int(x) for x in st[0]], [int(x) for x in st[1]],
                    [int(x) for x in D._get_tensor_perm()],
                    [int(x) for x in D._get_tensor_shape()])
        except Exception as e:
            impl = ("err", type(e).__name__)
        expr = ("(%s, %s, true, get_tensor_perm (%s) (%s) %s %s, "
                "get_tensor_shape (%s) (%s) %s %s)" % (
                    stl, str_, stl, str_, cnats(fl), cnats(fr),
                    stl, str_, cnats(fl), cnats(fr)))
        cases.append({"kind": "tensor_perm", "expr": expr, "impl": impl,
                      "nontrivial": len(fl) + len(fr) >= 3, "info": {"dims": dims}})
        bump("tensor_perm:" + t)
        if len(set(impl[1])) < len(impl[1]) or len(set(impl[2])) < len(impl[2]):
            bump("tensor_perm:tied-steps")

    # ---- D. expand_operator = permute(kron(oper, identities), new_order)
    for _ in range(20 * scale):
        dims = rand_dims(rng, 4, 30)
        n = len(dims)
        if all(x == 1 for x in dims):
            continue
        targets = rng.sample(range(n), rng.randint(1, n))
        od = [dims[t] for t in targets]
        if all(x == 1 for x in od) and len(od) > 1:
            continue
        O = rand_mat(rng, prod(od), prod(od), 0.6)
        fmt = rng.choice(["CSR", "Dense"])
        qo = Qobj(to_np(O), dims=[od, od]).to(fmt)
        rest = [q for q in range(n) if q not in targets]
        pre = to_np(O)
        for q in rest:
            pre = np.kron(pre, np.eye(dims[q]))
        note_inflight({"op": "expand", "params": {"dims": dims, "targets": targets,
                                                  "oper": O, "fmt": fmt}})
        try:
            out = qutip.expand_operator(qo, list(dims), list(targets), dtype=fmt)
            arr = out.full()
            impl = ("ok", from_np(arr), out.dims)
        except Exception as e:
            impl = ("err", type(e).__name__)
        Np = prod(dims)
        expr = ("match dimensions_dense G g0 (expand_pre_dims %s %s) (expand_new_order %d %s) "
                "%d %d %s with inl e => inl e | inr p => inr (PFull, p) end"
                % (cnats(dims), cnats(targets), n, cnats(targets), Np, Np, cmat(from_np(pre))))
        cases.append({"kind": "expand", "expr": expr, "impl": impl,
                      "nontrivial": n >= 2,
                      "info": {"dims": dims, "targets": targets, "oper": O, "fmt": fmt}})
        bump("expand:" + fmt)

    # ---- E. tensor_swap flat index map (kets, bras, rectangular operators)
    for _ in range(25 * scale):
        t = rng.choice(["oper", "ket", "bra", "super", "operket"])
        stl_e = str_e = None
        qdims = None
        if t in ("super", "operket"):
            pool2 = (2, 2, 3) if rng.random() < 0.6 else (1, 2, 2, 3)
            while True:
                a_ = [rng.choice(pool2) for _ in range(rng.randint(1, 2))]
                b_ = [rng.choice(pool2) for _ in range(rng.randint(1, 2))]
                if (prod(a_) <= 4 and prod(b_) <= 4 and not all(x == 1 for x in a_)
                        and not all(x == 1 for x in b_)):
                    break
            fl = a_ + a_
            stl_e = "steps_super %s %s" % (cnats(a_), cnats(a_))
            if t == "super":
                fr = b_ + b_
                str_e = "steps_super %s %s" % (cnats(b_), cnats(b_))
                qdims = [[a_, a_], [b_, b_]]
            else:
                fr = [1]
                qdims = [[a_, a_], [1]]
        else:
            fl = rand_dims(rng, 3, 12) if t != "bra" else [1]
            fr = rand_dims(rng, 3, 12) if t != "ket" else [1]
            if all(x == 1 for x in fl) and len(fl) > 1:
                fl = [1]
            if all(x == 1 for x in fr) and len(fr) > 1:
                fr = [1]
            qdims = [fl, fr]
        stl_e = stl_e or "steps %s" % cnats(fl)
        str_e = str_e or "steps %s" % cnats(fr)
        n = len(fl) + len(fr) - (1 if t == "operket" else 0)
        idx = list(range(n))
        rng.shuffle(idx)
        pairs = [(idx[2 * i], idx[2 * i + 1]) for i in range(rng.randint(1, max(1, n // 2)))
                 if 2 * i + 1 < n]
        if not pairs:
            continue
        tot = prod(fl) * prod(fr)
        A = np.arange(tot).reshape(prod(fl), prod(fr)).astype(complex)
        try:
            out = qutip.tensor_swap(Qobj(A, dims=qdims), *pairs)
            flat = [int(round(x.real)) for x in out.full().ravel()]
            where = [0] * tot
            for g, f in enumerate(flat):
                where[f] = g
            impl = ("ok", where)
        except Exception as e:
            impl = ("err", type(e).__name__)
        if impl[0] == "err" and t in ("super", "operket"):
            continue          # qutip refuses the relabelled dims
        expr = ("map (tensor_swap_index (%s) (%s) %s %s %s) (seq 0 %d)"
                % (stl_e, str_e, cnats(fl), cnats(fr),
                   clist(pairs, lambda p: "(%d, %d)" % p), tot))
        cases.append({"kind": "tensor_swap_index", "expr": expr, "impl": impl,
                      "nontrivial": tot > 2,
                      "info": {"dims": qdims, "pairs": pairs}})
        bump("tensor_swap_index:" + t)
    # ---- G. reshuffle: the permutation lists built by _to_super_of_tensor /
    #         _to_tensor_of_super (observed at the Qobj.permute call they make)
    def spy_reshuffle(q):
        rec = {}
        orig = Qobj.permute

        def spy(self, order):
            rec.setdefault("order", order)
            return orig(self, order)
        Qobj.permute = spy
        try:
            out = qutip.reshuffle(q)
            return ("ok", rec.get("order"), out.dims)
        except Exception as e:
            return ("err", type(e).__name__)
        finally:
            Qobj.permute = orig

    for _ in range(15 * scale):
        kind = rng.choice(["super", "operator-ket"])
        k = rng.randint(2, 4)
        ds = []
        for _k in range(k):
            while True:
                d = [rng.choice([1, 2, 2, 3]) for _ in range(rng.randint(1, 3))]
                if not all(x == 1 for x in d) and prod(d) <= 4:
                    break
            ds.append(d)
        if prod([prod(d) for d in ds]) > (8 if kind == "super" else 30):
            ds = ds[:2]
        ns = [len(d) for d in ds]
        note_inflight({"op": "reshuffle_perm", "params": {"factor_dims": ds, "kind": kind}})
        if kind == "super":
            qs = [Qobj(np.zeros((prod(d) ** 2,) * 2), dims=[[d, d], [d, d]]) for d in ds]
        else:
            qs = [qutip.operator_to_vector(Qobj(np.zeros((prod(d),) * 2), dims=[d, d])) for d in ds]
        r1 = spy_reshuffle(qutip.tensor(*qs))
        impl = r1 if r1[0] == "err" else ("ok", [[int(x) for x in part] for part in r1[1]])
        expr = "sot_lists 0 %s" % cnats(ns)
        cases.append({"kind": "reshuffle_sot", "expr": expr, "impl": impl, "nontrivial": True,
                      "info": {"factor_dims": ds, "kind": kind}})
        bump("reshuffle_sot:" + kind)
        # the other direction, on a superoperator / operator-ket over a composite space
        D = [x for d in ds for x in d if x > 1]
        if len(D) >= 2 and prod(D) <= (8 if kind == "super" else 30):
            if kind == "super":
                q = Qobj(np.zeros((prod(D) ** 2,) * 2), dims=[[D, D], [D, D]])
            else:
                q = qutip.operator_to_vector(Qobj(np.zeros((prod(D),) * 2), dims=[D, D]))
            r2 = spy_reshuffle(q)
            impl = r2 if r2[0] == "err" else ("ok", [int(x) for part in r2[1] for x in part])
            cases.append({"kind": "reshuffle_tos", "expr": "tensor_of_super_order %d" % len(D),
                          "impl": impl, "nontrivial": True, "info": {"dims": D, "kind": kind}})
            bump("reshuffle_tos:" + kind)

    # ---- H. the Compound branch of the private _to_tensor_of_super (reshuffle()
    #         never sends a Compound there; called directly, tie only)
    from qutip.core.superoperator import _to_tensor_of_super

    def spy_private(q):
        rec = {}
        orig = Qobj.permute

        def spy(self, order):
            rec.setdefault("order", order)
            return orig(self, order)
        Qobj.permute = spy
        try:
            _to_tensor_of_super(q)
            return ("ok", [int(x) for part in rec.get("order") for x in part])
        except Exception as e:
            return ("err", type(e).__name__)
        finally:
            Qobj.permute = orig

    for _ in range(6 * scale):
        while True:
            ds = [[rng.choice([2, 2, 2, 3]) for _ in range(rng.randint(1, 3))]
                  for _k in range(rng.randint(2, 3))]
            if prod([prod(d) for d in ds]) <= 8:
                break
        ns = [len(d) for d in ds]
        qs = [Qobj(np.zeros((prod(d) ** 2,) * 2), dims=[[d, d], [d, d]]) for d in ds]
        note_inflight({"op": "private_tos", "params": {"factor_dims": ds}})
        impl = spy_private(qutip.tensor(*qs))
        cases.append({"kind": "private_tos_compound", "expr": "tos_compound_order 0 %s" % cnats(ns),
                      "impl": impl, "nontrivial": True, "info": {"factor_dims": ds}})
        bump("private_tos_compound")

    # ---- I. partial_transpose, dense and sparse method
    for _ in range(12 * scale):
        d = rand_dims(rng, 4, 20)
        if all(x == 1 for x in d):
            continue
        Nn = prod(d)
        mask = [rng.randint(0, 1) for _ in d]
        M = rand_mat(rng, Nn, Nn, rng.choice([0.3, 0.7]))
        fmt = rng.choice(["CSR", "Dense", "Dia"])
        q = Qobj(to_np(M), dims=[d, d]).to(fmt)
        for method in ("dense", "sparse"):
            note_inflight({"op": "partial_transpose",
                           "params": {"dims": d, "mask": mask, "matrix": M, "fmt": fmt}})
            try:
                out = qutip.partial_transpose(q, mask, method=method)
                impl = ("ok", from_np(out.full()))
            except Exception as e:
                impl = ("err", type(e).__name__)
            expr = ("to_dense G g0 gadd %d %d (pt_entries_%s G %s %s %s)"
                    % (Nn, Nn, method, cnats(d), clist(mask, lambda b: "true" if b else "false"),
                       centries(dense_entries(M))))
            cases.append({"kind": "ptranspose_" + method, "expr": expr, "impl": impl,
                          "nontrivial": len(d) >= 2 and 0 < sum(mask) < len(d),
                          "info": {"dims": d, "mask": mask, "matrix": M, "fmt": fmt}})
            bump("ptranspose:" + method)

    # ---- J. subsystem_apply: _one_subsystem_apply with an operator channel
    from qutip.core.subsystem_apply import _one_subsystem_apply
    for _ in range(8 * scale):
        d = rand_dims(rng, 4, 12)
        if all(x == 1 for x in d):
            continue
        idx = rng.randrange(len(d))
        Nn = prod(d)
        M = rand_mat(rng, Nn, Nn, 0.6)
        U = rand_mat(rng, d[idx], d[idx], 0.9)
        note_inflight({"op": "subsystem_apply_one", "params": {"dims": d, "idx": idx}})
        try:
            out = _one_subsystem_apply(Qobj(to_np(M), dims=[d, d]), Qobj(to_np(U)), idx)
            arr = out.full()
            impl = ("ok", from_np(arr)) if exact(arr) else ("inexact",)
        except Exception as e:
            impl = ("err", type(e).__name__)
        expr = "one_subsystem_apply_U %s %d %s %s" % (cnats(d), idx, cmat(U), cmat(M))
        cases.append({"kind": "subsys_one", "expr": expr, "impl": impl, "nontrivial": len(d) >= 2,
                      "info": {"dims": d, "idx": idx, "matrix": M, "U": U}})
        bump("subsys_one")

    # ---- L. tensor_contract: the positions handed to _tensor_contract_single
    #         (spy), all Qobj types; model = contract_relabel after the tensor perm
    import importlib
    _qt = importlib.import_module("qutip.core.tensor")
    from qutip.core.dimensions import (flatten as _flat, unflatten as _unfl,
                                       enumerate_flat as _enum, deep_remove as _drm)
    for _ in range(15 * scale):
        t = rng.choice(["oper", "ket", "super", "operket"])
        pool2 = (1, 2, 2, 3)
        if t in ("super", "operket"):
            while True:
                a_ = [rng.choice(pool2) for _ in range(rng.randint(1, 2))]
                b_ = [rng.choice(pool2) for _ in range(rng.randint(1, 2))]
                if (prod(a_) <= 4 and prod(b_) <= 4 and not all(x == 1 for x in a_)
                        and not all(x == 1 for x in b_)):
                    break
            fl = a_ + a_
            stl_e = "steps_super %s %s" % (cnats(a_), cnats(a_))
            if t == "super":
                fr, str_e, qdims = b_ + b_, "steps_super %s %s" % (cnats(b_), cnats(b_)), [[a_, a_], [b_, b_]]
            else:
                fr, str_e, qdims = [1], "steps [1]", [[a_, a_], [1]]
        else:
            fl = rand_dims(rng, 3, 12)
            fr = rand_dims(rng, 3, 12) if t == "oper" else [1]
            if all(x == 1 for x in fl):
                fl = [2]
            if all(x == 1 for x in fr):
                fr = [1]
            stl_e, str_e, qdims = "steps %s" % cnats(fl), "steps %s" % cnats(fr), [fl, fr]
        flat = fl + fr
        n = len(flat)
        cand = [(i, j) for i in range(n) for j in range(i + 1, n) if flat[i] == flat[j]]
        rng.shuffle(cand)
        used, pairs = set(), []
        for i, j in cand:
            if i in used or j in used or rng.random() < 0.4:
                continue
            pairs.append((i, j) if rng.random() < 0.5 else (j, i))
            used |= {i, j}
        if not pairs:
            continue
        rec = []
        orig = _qt._tensor_contract_single

        def spy(arr, i, j, _rec=rec, _orig=orig):
            _rec.append((int(i), int(j)))
            return _orig(arr, i, j)
        q = Qobj(np.zeros((prod(fl), prod(fr))), dims=qdims)
        if q.dims != qdims:
            continue
        note_inflight({"op": "tensor_contract_positions", "params": {"dims": qdims, "pairs": pairs}})
        _qt._tensor_contract_single = spy
        try:
            try:
                qutip.tensor_contract(q, *pairs)
            except Exception:
                pass            # the final Qobj may be refused; the calls were made
        finally:
            _qt._tensor_contract_single = orig
        if len(rec) != len(pairs):
            continue
        impl = ("ok", [list(x) for x in rec])
        expr = ("contract_relabel (seq 0 %d) (map (fun p => (nth (fst p) (get_tensor_perm (%s) (%s) %s %s) 0, "
                "nth (snd p) (get_tensor_perm (%s) (%s) %s %s) 0)) %s)"
                % (n, stl_e, str_e, cnats(fl), cnats(fr), stl_e, str_e, cnats(fl), cnats(fr),
                   clist(pairs, lambda p: "(%d, %d)" % p)))
        cases.append({"kind": "contract_positions", "expr": expr, "impl": impl,
                      "nontrivial": len(pairs) >= 1 and n >= 3,
                      "info": {"dims": qdims, "pairs": [list(x) for x in pairs]}})
        bump("contract_positions:" + t)

    # ---- F. tensor(): the left-nested loop (tensor_data) and the right-nested
    #         Kronecker product (kron_rc), rectangular factors included
    for _ in range(12 * scale):
        k = rng.randint(1, 4)
        square = rng.random() < 0.4
        while True:
            dl = [rng.choice([1, 2, 2, 3]) for _ in range(k)]
            dr = list(dl) if square else [rng.choice([1, 1, 2, 3]) for _ in range(k)]
            if prod(dl) * prod(dr) <= 400:
                break
        Ms = [rand_mat(rng, a_, b_, 0.8) for a_, b_ in zip(dl, dr)]
        fmts = [rng.choice(["CSR", "Dense", "Dia"]) for _ in dl]
        note_inflight({"op": "tensor", "params": {"dl": dl, "dr": dr, "factors": Ms, "fmts": fmts}})
        try:
            out = qutip.tensor(*[Qobj(to_np(M), dims=[[a_], [b_]]).to(f)
                                 for M, a_, b_, f in zip(Ms, dl, dr, fmts)])
            impl = ("ok", from_np(out.full()))
        except Exception as e:
            impl = ("err", type(e).__name__)
        facs = clist(Ms, lambda M: "(mat_of_list G g0 %s)" % cmat(M))
        expr = ("(map (fun i => map (fun j => tensor_data G g1 gmul %s %s %s i j) (seq 0 %d)) (seq 0 %d), "
                "map (fun i => map (fun j => kron_rc G g1 gmul %s %s %s i j) (seq 0 %d)) (seq 0 %d))"
                % (facs, cnats(dl), cnats(dr), prod(dr), prod(dl),
                   facs, cnats(dl), cnats(dr), prod(dr), prod(dl)))
        cases.append({"kind": "kron", "expr": expr, "impl": impl, "nontrivial": k >= 2,
                      "info": {"dl": dl, "dr": dr, "factors": Ms, "fmts": fmts}})
        bump("kron:" + ("square" if square else "rect"))

    # ---- K. the kron kernels on a pair: kron_csr entry by entry, the others
    #         by their meaning kron2
    for _ in range(10 * scale):
        sl = (rng.randint(1, 4), rng.randint(1, 4))
        sr = (rng.randint(1, 4), rng.randint(1, 4))
        ML = rand_mat(rng, sl[0], sl[1], 0.6)
        MR = rand_mat(rng, sr[0], sr[1], 0.6)
        fl_, fr_ = rng.choice(["CSR", "Dense", "Dia"]), rng.choice(["CSR", "Dense", "Dia"])
        note_inflight({"op": "kron_pair", "params": {"ML": ML, "MR": MR, "fmts": [fl_, fr_]}})
        L = _data.to(fl_, _data.Dense(to_np(ML)))
        R = _data.to(fr_, _data.Dense(to_np(MR)))
        try:
            out = _data.kron(L, R)
            impl = ("ok", from_np(out.to_array()))
        except Exception as e:
            impl = ("err", type(e).__name__)
        expr = ("map (fun i => map (fun j => kron2 G gmul (mat_of_list G g0 %s) (mat_of_list G g0 %s) "
                "%d %d i j) (seq 0 %d)) (seq 0 %d)"
                % (cmat(ML), cmat(MR), sr[0], sr[1], sl[1] * sr[1], sl[0] * sr[0]))
        cases.append({"kind": "kron2", "expr": expr, "impl": impl, "nontrivial": True,
                      "info": {"ML": ML, "MR": MR, "fmts": [fl_, fr_]}})
        bump("kron2:%s-%s" % (fl_, fr_))
        Lc = _data.to("CSR", _data.Dense(to_np(ML)))
        Rc = _data.to("CSR", _data.Dense(to_np(MR)))
        try:
            out = _data.kron_csr(Lc, Rc)
            impl = ("ok", int(out.as_scipy().nnz), from_np(out.to_array()))
        except Exception as e:
            impl = ("err", type(e).__name__)
        expr = ("let E := kron_csr_entries G gmul %d %d %s %s in "
                "(length E, to_dense G g0 gadd %d %d E)"
                % (sr[0], sr[1], centries(csr_entries(Lc)), centries(csr_entries(Rc)),
                   sl[0] * sr[0], sl[1] * sr[1]))
        cases.append({"kind": "kron_csr", "expr": expr, "impl": impl, "nontrivial": True,
                      "info": {"ML": ML, "MR": MR}})
        bump("kron_csr")
    note_inflight(None)
    return cases, dist


def compare_case(c, val):
    """True when the model value (parsed) equals the implementation's."""
    k, impl = c["kind"], c["impl"]
    if impl[0] == "inexact":
        return False
    if k.startswith("ptrace_"):
        if impl[0] == "err":
            return val == ("inl", impl[1])
        return (isinstance(val, tuple) and val[0] == "inr"
                and int(val[1][0]) == impl[1] and gmat(val[1][1]) == impl[2])
    if k.startswith("permute_") or k == "expand":
        if impl[0] == "err":
            return isinstance(val, tuple) and val[0] == "inl" and len(impl) == 1 + (k == "expand")
        return (isinstance(val, tuple) and val[0] == "inr" and gmat(val[1][1]) == impl[1])
    if k == "tensor_perm":
        return (impl[0] == "ok" and list(val[0]) == impl[1] and list(val[1]) == impl[2]
                and val[2] is True and list(val[3]) == impl[3] and list(val[4]) == impl[4])
    if k == "reshuffle_sot":
        return impl[0] == "ok" and [list(val[0]), list(val[1])] == impl[1]
    if k == "subsys_one":
        return impl[0] == "ok" and gmat(val) == impl[1]
    if k.startswith("ptranspose_"):
        return impl[0] == "ok" and gmat(val) == impl[1]
    if k == "private_tos_compound":
        return impl[0] == "ok" and list(val) == impl[1]
    if k == "reshuffle_tos":
        return impl[0] == "ok" and list(val) == impl[1]
    if k == "kron":
        return impl[0] == "ok" and gmat(val[0]) == impl[1] and gmat(val[1]) == impl[1]
    if k == "contract_positions":
        return impl[0] == "ok" and [list(x) for x in val] == impl[1]
    if k == "kron2":
        return impl[0] == "ok" and gmat(val) == impl[1]
    if k == "kron_csr":
        return impl[0] == "ok" and int(val[0]) == impl[1] and gmat(val[1]) == impl[2]
    if k == "tensor_swap_index":
        return impl[0] == "ok" and list(val) == impl[1]
    return False


# ------------------------------------------------- translator: contract_at
def translate_contract_at():
    """Reads tensor._tensor_contract_single and returns the Coq term of the
    expression assigned to `contract_at` (fails closed)."""
    src = open(os.path.join(vlib.REPO, "qutip", "core", "tensor.py")).read()
    tree = ast.parse(src)
    fn = [f for f in ast.walk(tree) if isinstance(f, ast.FunctionDef)
          and f.name == "_tensor_contract_single"]
    if len(fn) != 1 or [a.arg for a in fn[0].args.args] != ["arr", "i", "j"]:
        raise ValueError("unexpected _tensor_contract_single signature")
    asg = [s for s in ast.walk(fn[0]) if isinstance(s, ast.Assign)
           and len(s.targets) == 1 and isinstance(s.targets[0], ast.Name)
           and s.targets[0].id == "contract_at"]
    if len(asg) != 1:
        raise ValueError("contract_at assignment not found")
    ret = [s for s in fn[0].body if isinstance(s, ast.Return)]
    if len(ret) != 1 or "axis=contract_at" not in ast.unparse(ret[0]) \
            or "np.sum(arr[sl]" not in ast.unparse(ret[0]):
        raise ValueError("unexpected use of contract_at")

    def tr(e):
        if isinstance(e, ast.Name) and e.id in ("i", "j"):
            return e.id
        if isinstance(e, ast.Constant) and isinstance(e.value, int) and e.value >= 0:
            return str(e.value)
        if isinstance(e, ast.BinOp) and isinstance(e.op, ast.Add):
            return "(%s + %s)" % (tr(e.left), tr(e.right))
        if isinstance(e, ast.IfExp):
            return "(if %s then %s else %s)" % (trb(e.test), tr(e.body), tr(e.orelse))
        if (isinstance(e, ast.Call) and isinstance(e.func, ast.Name)
                and e.func.id == "min" and len(e.args) == 2 and not e.keywords):
            return "(Nat.min %s %s)" % (tr(e.args[0]), tr(e.args[1]))
        if (isinstance(e, ast.Call) and isinstance(e.func, ast.Name)
                and e.func.id == "abs" and len(e.args) == 1 and not e.keywords
                and isinstance(e.args[0], ast.BinOp) and isinstance(e.args[0].op, ast.Sub)):
            # |a - b| on naturals
            return "(absdiff %s %s)" % (tr(e.args[0].left), tr(e.args[0].right))
        raise ValueError("unsupported expression: " + ast.dump(e)[:80])

    def trb(e):
        if (isinstance(e, ast.Compare) and len(e.ops) == 1
                and isinstance(e.ops[0], ast.Eq)):
            return "(%s =? %s)" % (tr(e.left), tr(e.comparators[0]))
        if isinstance(e, ast.BoolOp):
            op = " || " if isinstance(e.op, ast.Or) else " && "
            return "(" + op.join(trb(v) for v in e.values) + ")"
        raise ValueError("unsupported test: " + ast.dump(e)[:80])
    return "fun i j : nat => " + tr(asg[0].value)


# ------------------------------------------------------------------ oracle
def label_tensor(A, dims):
    """One axis per entry of flatten(dims), in that order (independent of
    qutip: super-like sides are column stacked: [[l],[r]] has r slowest)."""
    def side(s):
        if s and isinstance(s[0], list):
            l, r = s
            return list(r) + list(l), list(range(len(l), len(l) + len(r))) + list(range(len(l)))
        return list(s), list(range(len(s)))
    sl, ll = side(dims[0])
    sr, lr = side(dims[1])
    T = A.reshape(sl + sr)
    lab = ll + [len(sl) + x for x in lr]
    return T.transpose(np.argsort(lab))


def from_label_tensor(T, dims):
    def side(s):
        if s and isinstance(s[0], list):
            l, r = s
            return list(range(len(l), len(l) + len(r))) + list(range(len(l)))
        return list(range(len(s)))
    ll = side(dims[0])
    lr = side(dims[1])
    lab = ll + [len(ll) + x for x in lr]
    A = T.transpose(lab)
    from qutip.core.dimensions import flatten
    return A.reshape(prod(flatten(dims[0])), prod(flatten(dims[1])))


def ref_ptrace(A, dims, sel):
    n = len(dims)
    sel = sorted(sel)
    T = A.reshape(list(dims) + list(dims))
    row = list(range(n))
    col = [i if i not in sel else n + i for i in range(n)]
    R = np.einsum(T, row + col, [row[i] for i in sel] + [col[i] for i in sel])
    k = prod([dims[i] for i in sel])
    return R.reshape(k, k)


def canon_dims(nd):
    """expected dims label through qutip's own normal form of dims lists"""
    from qutip.core.dimensions import Dimensions
    return Dimensions(nd).as_list()


def ref_super_of_tensor(Ss, ns):
    """Matrix of the superoperator of the tensor-product space acting as the
    tensor of the maps S_k (column stacking), pure NumPy.  S_k is
    (n_k^2 x n_k^2); row index b*n + a <-> output element (a, b), column index
    e*n + c <-> input element (c, e)."""
    k = len(Ss)
    T = None
    for S, n in zip(Ss, ns):
        X = S.reshape(n, n, n, n)           # [b, a, e, c]
        T = X if T is None else np.multiply.outer(T, X)
    # axes: for factor q: 4q + (0:b, 1:a, 2:e, 3:c)
    order = ([4 * q + 0 for q in range(k)] + [4 * q + 1 for q in range(k)]
             + [4 * q + 2 for q in range(k)] + [4 * q + 3 for q in range(k)])
    N = prod(ns)
    return T.transpose(order).reshape(N * N, N * N)


def per_subsystem_super(R, D):
    """A superoperator over the composite space D rearranged as the tensor
    product of superoperator spaces over each subsystem (pure NumPy)."""
    m = len(D)
    T = R.reshape(list(D) * 4)              # [B.., A.., E.., C..]
    rows = [x for q in range(m) for x in (q, m + q)]
    cols = [x for q in range(m) for x in (2 * m + q, 3 * m + q)]
    return T.transpose(rows + cols).reshape(R.shape)


def vec_np(X):
    return X.reshape(-1, order="F")


def reshuffle_composite_case(p, bad):
    """reshuffle / super_tensor / composite on factors over composite spaces,
    against the definition: the result acts as the tensor of the maps."""
    import qutip
    from qutip import Qobj
    ds = p["factor_dims"]
    fmt = p.get("fmt", "CSR")
    ns = [prod(d) for d in ds]
    D = [x for d in ds for x in d]
    N = prod(ns)
    k = len(ds)
    pending = []

    def guarded(fn):
        """super_tensor / composite split every factor into one superoperator
        space per subsystem; over a 1-dimensional subsystem that space is a
        scalar and qutip refuses the mixture (reported once, the other
        sub-checks still run)."""
        try:
            return fn()
        except TypeError as e:
            if any(x == 1 for x in D) and "compound space of super and non super" in str(e):
                pending.append(bad("tensor.super_tensor:unit-subsystem-in-factor",
                                   "TypeError:compound-of-super-and-non-super",
                                   "super_tensor/composite raise %r for a factor over a composite "
                                   "space with a 1-dimensional subsystem" % (e,)))
                return None
            raise
    if p["kind"] == "super":
        Ss = [to_np(m) for m in p["factors"]]
        qs = [Qobj(S, dims=[[d, d], [d, d]]).to(fmt) for S, d in zip(Ss, ds)]
        ref = ref_super_of_tensor(Ss, ns)
        expd = canon_dims([[D, D], [D, D]])
        # the reference itself: acts on a product operator as the tensor of the maps
        As = [to_np(m) for m in p["probes"]]
        big = np.array([[1]], dtype=complex)
        outs = np.array([[1]], dtype=complex)
        for S, A, n in zip(Ss, As, ns):
            big = np.kron(big, A)
            outs = np.kron(outs, (S @ vec_np(A)).reshape(n, n, order="F"))
        if not np.array_equal(ref @ vec_np(big), vec_np(outs)):
            raise AssertionError("reference is not the tensor of the maps")
        T = qutip.tensor(*qs)
        if k >= 2:
            R = qutip.reshuffle(T)
            if R.full().shape != ref.shape or not np.array_equal(R.full(), ref):
                return bad("superoperator.reshuffle:tensor-of-supers", "wrong-array",
                           "reshuffle(tensor(S1, S2, ...)) does not act as S1 (x) S2 (x) ... "
                           "on the tensor-product space")
            if R.dims != expd:
                return bad("superoperator.reshuffle:tensor-of-supers", "wrong-dims",
                           "dims %r expected %r" % (R.dims, expd))
        st = guarded(lambda: qutip.super_tensor(*qs))
        if st is None:
            pass
        elif not np.array_equal(st.full(), ref):
            return bad("tensor.super_tensor:composite-factors", "wrong-array",
                       "super_tensor does not act as the tensor of the maps")
        elif st.dims != expd:
            return bad("tensor.super_tensor:composite-factors", "wrong-dims",
                       "dims %r expected %r" % (st.dims, expd))
        # reshuffle of a superoperator over a composite space: one
        # superoperator space per subsystem
        if len(D) >= 2 and all(x > 1 for x in D):
            back = qutip.reshuffle(Qobj(ref, dims=[[D, D], [D, D]]).to(fmt))
            ref2 = per_subsystem_super(ref, D)
            if not np.array_equal(back.full(), ref2):
                return bad("superoperator.reshuffle:super-of-tensor", "wrong-array",
                           "reshuffle(super over composite space) is not the per-subsystem regrouping")
            side = [[x] for x in D for _ in (0, 1)]
            if back.dims != [side, side]:
                return bad("superoperator.reshuffle:super-of-tensor", "wrong-dims",
                           "dims %r expected %r" % (back.dims, [side, side]))
        # composite(): operators are promoted with to_super
        Us = [to_np(m) for m in p["unitaries"]]
        args, SsC = [], []
        for q, (S, U, d, isop) in enumerate(zip(Ss, Us, ds, p["as_oper"])):
            if isop and all(x > 1 for x in d):
                # (to_super drops 1-dimensional subsystems from the dims of a
                # promoted operator: not a tensor-structure operation of C09)
                args.append(Qobj(U, dims=[d, d]).to(fmt))
                SsC.append(np.kron(U.conj(), U))
            else:
                args.append(qs[q])
                SsC.append(S)
        if any(not x for x in p["as_oper"]):
            comp = guarded(lambda: qutip.composite(*args))
            refc = ref_super_of_tensor(SsC, ns)
            if comp is None:
                pass
            elif not np.array_equal(comp.full(), refc):
                return bad("tensor.composite:composite-factors", "wrong-array",
                           "composite does not act as the tensor of the maps")
            elif comp.dims != expd:
                return bad("tensor.composite:composite-factors", "wrong-dims",
                           "dims %r expected %r" % (comp.dims, expd))
        return pending[0] if pending else None
    # operator-kets
    Xs = [to_np(m) for m in p["factors"]]
    vs = [qutip.operator_to_vector(Qobj(X, dims=[d, d]).to(fmt)) for X, d in zip(Xs, ds)]
    big = np.array([[1]], dtype=complex)
    for X in Xs:
        big = np.kron(big, X)
    ref = vec_np(big).reshape(-1, 1)
    expd = canon_dims([[D, D], [1]])
    if k >= 2:
        R = qutip.reshuffle(qutip.tensor(*vs))
        if R.full().shape != ref.shape or not np.array_equal(R.full(), ref):
            return bad("superoperator.reshuffle:tensor-of-operator-kets", "wrong-array",
                       "reshuffle(tensor(vec(X1), vec(X2), ...)) is not vec(X1 (x) X2 (x) ...)")
        if R.dims != expd:
            return bad("superoperator.reshuffle:tensor-of-operator-kets", "wrong-dims",
                       "dims %r expected %r" % (R.dims, expd))
    st = guarded(lambda: qutip.super_tensor(*vs))
    if st is None:
        return pending[0]
    if st.full().shape != ref.shape or not np.array_equal(st.full(), ref):
        return bad("tensor.super_tensor:operator-kets", "wrong-array",
                   "super_tensor of operator-kets is not vec of the tensor product")
    if st.dims != expd:
        return bad("tensor.super_tensor:operator-kets", "wrong-dims",
                   "dims %r expected %r" % (st.dims, expd))
    return None


def oracle_case(op, p):
    """Runs one property instance on the implementation.  Returns None when
    the property holds, else (site, signature, what)."""
    import qutip
    from qutip import Qobj
    from qutip.core.dimensions import (flatten, unflatten, enumerate_flat, deep_remove,
                                       to_tensor_rep, from_tensor_rep,
                                       dims_idxs_to_tensor_idxs)
    fmt = p.get("fmt", "CSR")

    def bad(site, sig, what):
        return (site, sig, what)

    try:
        if op == "ptrace":
            kind, dims, sel = p["kind"], p["dims"], p["sel"]
            A = to_np(p["matrix"])
            if kind in ("ket", "bra"):
                q = Qobj(A, dims=[dims, [1] * len(dims)]).to(fmt)
                rho = A @ A.conj().T
                if kind == "bra":
                    q = q.dag()
            elif kind == "super":
                q = Qobj(A, dims=[[dims, dims], [dims, dims]]).to(fmt)
                dims = dims + dims
                rho = A
            else:
                q = Qobj(A, dims=[dims, dims]).to(fmt)
                rho = A
            out = q.ptrace(list(sel))
            ref = ref_ptrace(rho, dims, sel)
            expd = [canon([dims[i] for i in sorted(sel)])] * 2
            if out.full().shape != ref.shape or not np.array_equal(out.full(), ref):
                return bad("Qobj.ptrace:" + kind, "wrong-array", "partial trace differs from the einsum reference")
            if out.dims != expd:
                return bad("Qobj.ptrace:" + kind, "wrong-dims", "dims %r, expected %r" % (out.dims, expd))
            return None
        if op == "ptrace_operket":
            dims, sel = p["dims"], p["sel"]
            A = to_np(p["matrix"])
            qx = Qobj(A, dims=[dims, dims]).to(fmt)
            ref = ref_ptrace(A, dims, sel)
            scalar = all(dims[i] == 1 for i in sel)
            for form in ("operator-ket", "operator-bra"):
                v = qutip.operator_to_vector(qx)
                if form == "operator-bra":
                    v = v.dag()
                try:
                    o = v.ptrace(list(sel))
                except TypeError as e:
                    return bad("Qobj.ptrace:" + form,
                               ("scalar-result" if scalar else "non-scalar-result") + ":TypeError",
                               "ptrace of an %s raises %r" % (form, e))
                got = o.full().ravel()
                want = ref.ravel(order="F") if form == "operator-ket" else ref.conj().ravel(order="F")
                if got.shape != want.shape or not np.array_equal(got, want):
                    return bad("Qobj.ptrace:" + form, "wrong-array", "operator-ket ptrace differs")
                kd = canon([dims[i] for i in sorted(sel)])
                # a superoperator space over a 1-dimensional system is a scalar
                expd = canon_dims([[kd, kd], [1]] if form == "operator-ket" else [[1], [kd, kd]])
                if o.dims != expd:
                    return bad("Qobj.ptrace:" + form, "wrong-dims", "dims %r expected %r" % (o.dims, expd))
            return None
        if op == "ptrace_product":
            ds, sel = p["dims"], p["sel"]
            As = [to_np(m) for m in p["factors"]]
            T = qutip.tensor(*[Qobj(A, dims=[[d], [d]]).to(fmt) for A, d in zip(As, ds)])
            out = T.ptrace(list(sel))
            c = 1
            ref = np.array([[1]], dtype=complex)
            for i in range(len(ds)):
                if i in sel:
                    ref = np.kron(ref, As[i])
                else:
                    c = c * np.trace(As[i])
            if not np.array_equal(out.full(), ref * c):
                return bad("Qobj.ptrace:product", "wrong-array",
                           "ptrace of a product is not kept factors times traces")
            return None
        if op == "permute":
            kind, dims, order = p["kind"], p["dims"], p["order"]
            A = to_np(p["matrix"])
            n = len(dims)
            nd = canon([dims[o] for o in order])
            if kind == "oper":
                q = Qobj(A, dims=[dims, dims]).to(fmt)
                ref = A.reshape(dims + dims).transpose(order + [n + o for o in order]).reshape(A.shape)
                expd = [nd, nd]
            elif kind == "ket":
                q = Qobj(A, dims=[dims, [1] * n]).to(fmt)
                ref = A.reshape(dims).transpose(order).reshape(A.shape)
                expd = [nd, [1] * n]
            elif kind == "bra":
                q = Qobj(A, dims=[[1] * n, dims]).to(fmt)
                ref = A.reshape(dims).transpose(order).reshape(A.shape)
                expd = [[1] * n, nd]
            else:   # super: order acts on the left and right operator spaces alike
                q = Qobj(A, dims=[[dims, dims], [dims, dims]]).to(fmt)
                dd = dims + dims
                fo = order + [n + o for o in order]
                m = 2 * n
                # rows and columns are column-stacked operators: axes (r..., l...)
                T = label_tensor(A, [[dims, dims], [dims, dims]])
                ref = from_label_tensor(T.transpose(fo + [m + x for x in fo]),
                                        [[nd, nd], [nd, nd]] if nd != [1] or True else None)
                expd = [[nd, nd], [nd, nd]]
                order = [order, [n + o for o in order]]
            out = q.permute(order)
            if kind != "super":
                expd = [canon(expd[0]), canon(expd[1])]
            if not np.array_equal(out.full(), ref):
                return bad("Qobj.permute:" + kind, "wrong-array", "permute differs from reshape/transpose")
            if out.dims != expd:
                return bad("Qobj.permute:" + kind, "wrong-dims", "dims %r expected %r" % (out.dims, expd))
            if kind in ("oper", "ket", "bra"):
                back = out.permute([int(x) for x in np.argsort(order)])
                if not np.array_equal(back.full(), A) or back.dims != q.dims:
                    return bad("Qobj.permute:" + kind, "round-trip", "permuting back is not the identity")
            return None
        if op == "tensor":
            dl, dr = p["dl"], p["dr"]
            Ms = [to_np(m) for m in p["factors"]]
            qs = [Qobj(M, dims=[[a], [b]]).to(f) for M, a, b, f in zip(Ms, dl, dr, p["fmts"])]
            out = qutip.tensor(*qs)
            ref = Ms[0]
            for m in Ms[1:]:
                ref = np.kron(ref, m)
            if not np.array_equal(out.full(), ref):
                return bad("tensor.tensor", "wrong-array", "tensor differs from np.kron")
            if out.dims != [canon(dl), canon(dr)]:
                return bad("tensor.tensor", "wrong-dims", "dims %r" % (out.dims,))
            return None
        if op == "expand":
            dims, targets = p["dims"], p["targets"]
            od = [dims[t] for t in targets]
            O = to_np(p["oper"])
            qo = Qobj(O, dims=[od, od]).to(fmt)
            n = len(dims)
            try:
                out = qutip.expand_operator(qo, list(dims), list(targets), dtype=fmt)
            except IndexError as e:
                sig = ("all-ones-dims" if all(d == 1 for d in dims) else "other-dims") + ":IndexError"
                return bad("tensor.expand_operator", sig, "expand_operator raises %r" % (e,))
            T = O.reshape(od + od)
            full = np.zeros(list(dims) + list(dims), dtype=complex)
            rest = [q for q in range(n) if q not in targets]
            for idx in itertools.product(*[range(x) for x in dims]):
                for jt in itertools.product(*[range(dims[t]) for t in targets]):
                    jdx = list(idx)
                    for t, v in zip(targets, jt):
                        jdx[t] = v
                    full[tuple(idx) + tuple(jdx)] = T[tuple(idx[t] for t in targets) + tuple(jt)]
            ref = full.reshape(prod(dims), prod(dims))
            if not np.array_equal(out.full(), ref):
                return bad("tensor.expand_operator", "wrong-array",
                           "expand_operator is not the operator tensored with identities at the targets")
            if out.dims != [canon(dims)] * 2:
                return bad("tensor.expand_operator", "wrong-dims", "dims %r" % (out.dims,))
            return None
        if op in ("tensor_swap", "tensor_contract", "tensor_rep"):
            dims = p["dims"]
            A = to_np(p["matrix"])
            q = Qobj(A, dims=dims).to(fmt)
            if q.dims != dims:
                return None
            fl = flatten(dims)
            n = len(fl)
            T = label_tensor(A, dims)
            unit = any(d == 1 for d in fl)
            if op == "tensor_rep":
                t2 = to_tensor_rep(q)
                if t2.shape != T.shape or not np.array_equal(t2, T):
                    return bad("dimensions.to_tensor_rep", "wrong-array", "to_tensor_rep axes are not the dims labels")
                back = from_tensor_rep(t2, q.dims)
                if back.dims != q.dims or not np.array_equal(back.full(), A):
                    return bad("dimensions.from_tensor_rep", "round-trip", "from_tensor_rep(to_tensor_rep(q)) != q")
                return None
            pairs = [tuple(x) for x in p["pairs"]]
            if op == "tensor_swap":
                perm = list(range(n))
                for i, j in pairs:
                    perm[i], perm[j] = perm[j], perm[i]
                nd = unflatten([fl[x] for x in perm], enumerate_flat(dims))
                try:
                    expd = canon_dims(nd)
                except Exception:
                    return None          # relabelled dims are not a legal dims list
                out = qutip.tensor_swap(q, *pairs)
                ref = from_label_tensor(T.transpose(perm), nd)
                ok = out.full().shape == ref.shape and np.array_equal(out.full(), ref)
                if not ok:
                    return bad("tensor.tensor_swap",
                               ("1-dimensional-factor-present" if unit else "no-1-dimensional-factor")
                               + ":wrong-array",
                               "tensor_swap does not exchange the named indices")
                if out.dims != expd:
                    return bad("tensor.tensor_swap", "wrong-dims", "dims %r expected %r" % (out.dims, expd))
                return None
            used = set(x for pr in pairs for x in pr)
            cd = unflatten(fl, deep_remove(enumerate_flat(dims), *used))
            sub = list(range(n))
            for i, j in pairs:
                sub[j] = sub[i]
            keep = [i for i in range(n) if i not in used]
            R = np.einsum(T, sub, [sub[i] for i in keep])
            ref = from_label_tensor(R, cd)
            # does a pair reach _tensor_contract_single as (i, i-1)?
            tp = dims_idxs_to_tensor_idxs(dims, pairs)
            axis = list(range(n))
            desc = False
            for a, b in tp:
                ia, ib = axis.index(a), axis.index(b)
                desc = desc or ia == ib + 1
                axis.remove(a)
                axis.remove(b)
            tag = "descending-adjacent-tensor-pair" if desc else "other-pair-order"
            try:
                out = qutip.tensor_contract(q, *pairs)
            except ValueError as e:
                return bad("tensor.tensor_contract", tag + ":ValueError",
                           "tensor_contract raises %r" % (e,))
            except TypeError as e:
                ones = all(x == 1 for x in flatten(cd))
                return bad("tensor.tensor_contract",
                           ("all-ones-result" if ones and q.superrep else "other-result") + ":TypeError",
                           "tensor_contract raises %r" % (e,))
            ok = out.full().shape == ref.shape and np.array_equal(out.full(), ref)
            if not ok:
                return bad("tensor.tensor_contract", tag + ":wrong-array",
                           "tensor_contract does not sum over the named index pairs")
            if out.dims != canon_dims(cd):
                return bad("tensor.tensor_contract", "wrong-dims", "dims %r" % (out.dims,))
            return None
        if op == "partial_transpose":
            d, mask = p["dims"], p["mask"]
            A = to_np(p["matrix"])
            q = Qobj(A, dims=[d, d]).to(fmt)
            n = len(d)
            perm = [(n + i if mask[i] else i) for i in range(n)] + \
                   [(i if mask[i] else n + i) for i in range(n)]
            ref = A.reshape(d + d).transpose(perm).reshape(A.shape)
            for method in ("dense", "sparse"):
                out = qutip.partial_transpose(q, mask, method=method)
                if not np.array_equal(out.full(), ref):
                    return bad("partial_transpose:" + method, "wrong-array", "partial transpose differs")
                if out.dims != q.dims:
                    return bad("partial_transpose:" + method, "wrong-dims", "dims changed")
            return None
        if op == "subsystem_apply":
            d, mask, ds = p["dims"], p["mask"], p["dsub"]
            A = to_np(p["matrix"])
            q = Qobj(A, dims=[d, d]).to(fmt)
            n = len(d)
            U = to_np(p["U"])
            out = qutip.subsystem_apply(q, Qobj(U), mask)
            big = np.array([[1]], dtype=complex)
            for i in range(n):
                big = np.kron(big, U if mask[i] else np.eye(d[i]))
            ref = big @ A @ big.conj().T
            if not np.array_equal(out.full(), ref) or out.dims != q.dims:
                return bad("subsystem_apply:oper", "wrong-array", "U applied to the masked subsystems differs")
            S = to_np(p["S"])
            out = qutip.subsystem_apply(q, Qobj(S, dims=[[[ds], [ds]]] * 2), mask)
            T = A.reshape(d + d).astype(complex)
            S4 = S.reshape(ds, ds, ds, ds)        # [c', r', c, r] (column stacking)
            a, b, c_, e = 40, 41, 42, 43
            for i in range(n):
                if mask[i]:
                    src = [(e if k == i else (c_ if k == n + i else k)) for k in range(2 * n)]
                    dst = [(b if k == i else (a if k == n + i else k)) for k in range(2 * n)]
                    T = np.einsum(S4, [a, b, c_, e], T, src, dst)
            ref = T.reshape(A.shape)
            if not np.array_equal(out.full(), ref) or out.dims != q.dims:
                return bad("subsystem_apply:super", "wrong-array", "S applied to the masked subsystems differs")
            return None
        if op == "reshuffle_composite":
            return reshuffle_composite_case(p, bad)
        if op == "super_tensor":
            d = p["dims"]
            Us = [Qobj(to_np(m)).to(fmt) for m in p["factors"]]
            lhs = qutip.super_tensor(*[qutip.sprepost(U, U.dag()) for U in Us])
            TU = qutip.tensor(*Us)
            rhs = qutip.sprepost(TU, TU.dag())
            if not np.array_equal(lhs.full(), rhs.full()):
                return bad("tensor.super_tensor", "wrong-array",
                           "super_tensor(S(U1), S(U2)) != S(tensor(U1, U2))")
            if lhs.dims != rhs.dims:
                return bad("tensor.super_tensor", "wrong-dims", "%r vs %r" % (lhs.dims, rhs.dims))
            r = qutip.reshuffle(lhs)
            n = len(d)
            # independent: tensor-of-supers has labels (l1, r1, l2, r2, ...) per side
            T = label_tensor(lhs.full(), lhs.dims)
            m = 2 * n
            o = [x for k in range(n) for x in (k, n + k)]
            tdims = [[[d[k]], [d[k]]] for k in range(n)]
            # side of a tensor of supers: each factor column-stacked, factors in order
            sideT = T.transpose(o + [m + x for x in o])
            # memory order of one side: for factor k: (r_k, l_k)
            mem = [x for k in range(n) for x in (2 * k + 1, 2 * k)]
            ref = sideT.transpose(mem + [m + x for x in mem]).reshape(lhs.shape)
            if not np.array_equal(r.full(), ref):
                return bad("superoperator.reshuffle", "wrong-array", "reshuffle is not the index regrouping")
            Tn = qutip.tensor(*[qutip.sprepost(U, U.dag()) for U in Us])
            if r.dims != Tn.dims or not np.array_equal(r.full(), Tn.full()):
                return bad("superoperator.reshuffle", "wrong-dims",
                           "reshuffle(super_tensor(S...)) is not tensor(S...): %r" % (r.dims,))
            rr = qutip.reshuffle(r)
            if not np.array_equal(rr.full(), lhs.full()) or rr.dims != lhs.dims:
                return bad("superoperator.reshuffle", "round-trip", "reshuffle twice is not the identity")
            return None
    except NotImplementedError:
        return None       # qutip refuses the structure explicitly
    except Exception as e:
        return bad("%s" % op, "exception:" + type(e).__name__, "%s raises %r" % (op, e))
    raise ValueError("unknown op " + op)


WITNESSES = [
    ("reshuffle_composite", {
        "kind": "super", "fmt": "CSR", "factor_dims": [[2, 2], [2]],
        "factors": [[[[(r * 16 + c) % 7 - 3, (r + 2 * c) % 3 - 1] for c in range(16)] for r in range(16)],
                    [[[(r * 4 + c) % 5 - 2, (r * c) % 3 - 1] for c in range(4)] for r in range(4)]],
        "probes": [[[[r + 2 * c, r - c] for c in range(4)] for r in range(4)],
                   [[[1 + r, c] for c in range(2)] for r in range(2)]],
        "unitaries": [[[[(r + c) % 3, r - c] for c in range(4)] for r in range(4)],
                      [[[r + 1, c] for c in range(2)] for r in range(2)]],
        "as_oper": [False, True]}),
    ("reshuffle_composite", {
        "kind": "operator-ket", "fmt": "Dense", "factor_dims": [[2, 3], [2]],
        "factors": [[[[r * 6 + c, r - c] for c in range(6)] for r in range(6)],
                    [[[1 + r, 2 * c] for c in range(2)] for r in range(2)]]}),
    ("tensor_swap", {"dims": [[2, 1, 3], [1]], "pairs": [[1, 2]], "fmt": "Dense",
                     "matrix": [[[k, 0]] for k in range(6)]}),
    ("tensor_contract", {"dims": [[3, 3], [3, 2]], "pairs": [[2, 1]], "fmt": "Dense",
                         "matrix": [[[r * 6 + c, 0] for c in range(6)] for r in range(9)]}),
    ("tensor_contract", {"dims": [[2, 3], [3, 2]], "pairs": [[2, 1]], "fmt": "Dense",
                         "matrix": [[[r * 6 + c, 0] for c in range(6)] for r in range(6)]}),
    ("ptrace_operket", {"dims": [2, 1], "sel": [1], "fmt": "CSR",
                        "matrix": [[[1, 0], [2, 0]], [[3, 0], [4, 0]]]}),
    ("ptrace_operket", {"dims": [2, 3], "sel": [], "fmt": "Dense",
                        "matrix": [[[r * 6 + c, 1] for c in range(6)] for r in range(6)]}),
    ("expand", {"dims": [1, 1], "targets": [1], "fmt": "CSR", "oper": [[[3, 0]]]}),
    ("tensor_contract", {"dims": [[[1, 2], [1, 2]], [1]], "pairs": [[3, 1]], "fmt": "Dense",
                         "matrix": [[[1, 0]], [[2, 0]], [[3, 0]], [[4, 0]]]}),
]


def gen_oracle_case(rng):
    op = rng.choice(["ptrace", "ptrace", "ptrace_operket", "ptrace_product", "permute", "permute",
                     "tensor", "expand", "tensor_swap", "tensor_swap", "tensor_contract",
                     "tensor_contract", "tensor_rep", "partial_transpose", "subsystem_apply",
                     "super_tensor", "reshuffle_composite", "reshuffle_composite"])
    fmt = rng.choice(["CSR", "Dense", "Dia"])
    p = {"fmt": fmt}

    def nontrivial_dims(maxf, maxtot, minf=1, pool=(1, 1, 2, 2, 3, 3, 4, 5)):
        while True:
            d = rand_dims(rng, maxf, maxtot, minf, pool)
            if not all(x == 1 for x in d):
                return d
    if op == "ptrace":
        kind = rng.choice(["oper", "oper", "ket", "bra", "super"])
        d = nontrivial_dims(5, 36) if kind != "super" else nontrivial_dims(3, 6)
        N = prod(d)
        nsel = len(d) * (2 if kind == "super" else 1)
        p.update(kind=kind, dims=d, sel=rng.sample(range(nsel), rng.randint(0, nsel)))
        if kind in ("ket", "bra"):
            p["matrix"] = rand_mat(rng, N, 1, 0.7)
        elif kind == "super":
            p["matrix"] = rand_mat(rng, N * N, N * N, 0.3)
        else:
            p["matrix"] = rand_mat(rng, N, N, rng.choice([0.1, 0.4, 0.8]))
    elif op == "ptrace_operket":
        d = nontrivial_dims(3, 8)
        p.update(dims=d, sel=rng.sample(range(len(d)), rng.randint(0, len(d))),
                 matrix=rand_mat(rng, prod(d), prod(d), 0.7))
    elif op == "ptrace_product":
        d = nontrivial_dims(4, 36, 2)
        p.update(dims=d, sel=rng.sample(range(len(d)), rng.randint(0, len(d))),
                 factors=[rand_mat(rng, x, x, 0.8) for x in d])
    elif op == "permute":
        kind = rng.choice(["oper", "oper", "ket", "bra", "super"])
        d = nontrivial_dims(5, 36) if kind != "super" else nontrivial_dims(3, 6, pool=(2, 2, 3, 1))
        if kind == "super" and any(x == 1 for x in d) and all(x == 1 for x in d):
            d = [2]
        N = prod(d)
        o = list(range(len(d)))
        rng.shuffle(o)
        shape = {"oper": (N, N), "ket": (N, 1), "bra": (1, N), "super": (N * N, N * N)}[kind]
        p.update(kind=kind, dims=d, order=o,
                 matrix=rand_mat(rng, shape[0], shape[1], rng.choice([0.05, 0.3, 0.8])))
    elif op == "tensor":
        k = rng.randint(2, 4)
        dl = [rng.choice([1, 2, 3]) for _ in range(k)]
        dr = [rng.choice([1, 2, 3]) for _ in range(k)]
        p.update(dl=dl, dr=dr, factors=[rand_mat(rng, a, b, 0.7) for a, b in zip(dl, dr)],
                 fmts=[rng.choice(["CSR", "Dense", "Dia"]) for _ in range(k)])
    elif op == "expand":
        d = rand_dims(rng, 4, 30)
        t = rng.sample(range(len(d)), rng.randint(1, len(d)))
        od = [d[x] for x in t]
        if all(x == 1 for x in od) and len(od) > 1 and not all(x == 1 for x in d):
            t = t[:1]
            od = od[:1]
        if all(x == 1 for x in d):
            t = t[:1]
            od = od[:1]
        p.update(dims=d, targets=t, oper=rand_mat(rng, prod(od), prod(od), 0.6),
                 fmt=rng.choice(["CSR", "Dense"]))
    elif op in ("tensor_swap", "tensor_contract", "tensor_rep"):
        typ = rng.choice(["oper", "oper", "ket", "super", "operket"])
        if typ == "oper":
            dims = [nontrivial_dims(3, 12), nontrivial_dims(3, 12)]
        elif typ == "ket":
            dims = [nontrivial_dims(4, 24), [1]]
        elif typ == "super":
            a = nontrivial_dims(2, 4, pool=(1, 2, 2, 3))
            b = nontrivial_dims(2, 4, pool=(1, 2, 2, 3))
            dims = [[a, a], [b, b]]
        else:
            a = nontrivial_dims(2, 6, pool=(1, 2, 2, 3))
            dims = [[a, a], [1]]
        from qutip.core.dimensions import flatten
        fl = flatten(dims)
        n = len(fl) - (1 if typ in ("ket", "operket") else 0)
        shape = (prod(flatten(dims[0])), prod(flatten(dims[1])))
        p.update(dims=dims, matrix=rand_mat(rng, shape[0], shape[1], 0.7))
        if op == "tensor_swap":
            idx = list(range(n))
            rng.shuffle(idx)
            p["pairs"] = [[idx[2 * i], idx[2 * i + 1]]
                          for i in range(rng.randint(1, max(1, n // 2))) if 2 * i + 1 < n]
            if not p["pairs"]:
                op = "tensor_rep"
        elif op == "tensor_contract":
            cand = [(i, j) for i in range(n) for j in range(i + 1, n) if fl[i] == fl[j]]
            rng.shuffle(cand)
            used, pairs = set(), []
            for i, j in cand:
                if i in used or j in used or rng.random() < 0.5:
                    continue
                pairs.append([i, j] if rng.random() < 0.5 else [j, i])
                used |= {i, j}
            from qutip.core.dimensions import unflatten, enumerate_flat, deep_remove

            def nonempty(x):
                return (len(x) > 0 and all(nonempty(y) for y in x)) if isinstance(x, list) else True
            cd = unflatten(fl, deep_remove(enumerate_flat(dims), *used)) if pairs else []
            if not pairs or not nonempty(cd):
                op = "tensor_rep"
            else:
                p["pairs"] = pairs
    elif op == "partial_transpose":
        d = nontrivial_dims(4, 24)
        p.update(dims=d, mask=[rng.randint(0, 1) for _ in d],
                 matrix=rand_mat(rng, prod(d), prod(d), 0.5))
    elif op == "subsystem_apply":
        ds = rng.choice([2, 3])
        while True:
            d = [rng.choice([ds, ds, 1, 2]) for _ in range(rng.randint(1, 3))]
            mask = [x == ds and rng.random() < 0.7 for x in d]
            if any(mask) and prod(d) <= 18:
                break
        p.update(dims=d, mask=mask, dsub=ds, matrix=rand_mat(rng, prod(d), prod(d), 0.6),
                 U=rand_mat(rng, ds, ds, 0.8), S=rand_mat(rng, ds * ds, ds * ds, 0.5))
    elif op == "reshuffle_composite":
        kind = rng.choice(["super", "super", "operator-ket"])
        cap = 8 if kind == "super" else 18
        while True:
            k = rng.randint(1, 3)
            ds = []
            for _ in range(k):
                while True:
                    d = [rng.choice([1, 2, 2, 3]) for _ in range(rng.randint(1, 3))]
                    if not all(x == 1 for x in d) and prod(d) <= 6:
                        break
                ds.append(d)
            if prod([prod(d) for d in ds]) <= cap:
                break
        ns = [prod(d) for d in ds]
        p.update(kind=kind, factor_dims=ds)
        if kind == "super":
            p.update(factors=[rand_mat(rng, n * n, n * n, 0.5) for n in ns],
                     probes=[rand_mat(rng, n, n, 0.8) for n in ns],
                     unitaries=[rand_mat(rng, n, n, 0.8) for n in ns],
                     as_oper=[rng.random() < 0.4 for _ in ns])
        else:
            p.update(factors=[rand_mat(rng, n, n, 0.8) for n in ns])
    elif op == "super_tensor":
        d = [rng.choice([2, 3]) for _ in range(rng.randint(2, 3))]
        if prod(d) > 12:
            d = d[:2]
        p.update(dims=d, factors=[rand_mat(rng, x, x, 0.8) for x in d])
    return op, p


def oracle_batch(rng, ncases):
    res = []
    for k in range(ncases + len(WITNESSES)):
        if k < len(WITNESSES):
            op, p = WITNESSES[k]
        else:
            op, p = gen_oracle_case(rng)
        note_inflight({"op": op, "params": p})
        res.append((op, p, oracle_case(op, p)))
    note_inflight(None)
    return res


def report_crash(ctx, where, sig, last):
    op = (last or {}).get("op", "?")
    ctx.violation("crash:" + str(op), "signal-%s" % sig,
                  "the interpreter died (signal %s) inside %s while running %s on the recorded "
                  "input" % (sig, where, op),
                  last or {"op": None, "params": None}, found_input=last is not None)


def run_oracle(ctx, rng, ncases, extra=None):
    dist = ctx.cov.setdefault("input_distribution", {})
    st = run_forked(lambda: oracle_batch(rng, ncases), "oracle")
    if st[0] == "crash":
        report_crash(ctx, "the implementation-level oracle", st[1], st[2])
        return 1
    nviol = 0
    for op, p, r in st[1]:
        dist["oracle:" + op] = dist.get("oracle:" + op, 0) + 1
        ctx.count_case(("oracle", op, json.dumps(p, sort_keys=True)), nontrivial=True)
        if r is not None:
            site, sig, what = r
            detail = {"op": op, "params": p}
            if extra:
                detail.update(extra)
            ctx.violation(site, sig, what, detail)
            nviol += 1
    return nviol


# ---------------------------------------------------------------------- run
def run(ctx):
    rng = random.Random(ctx.seed * 7919 + 9)
    scale = 2 if ctx.quick else 14
    ctx.cov["rule"] = (
        "correspondence case = (kernel, dims list, selection/order/targets/pairs, exact "
        "Gaussian-integer matrix, storage format); non-trivial when at least two factors are "
        "involved and the selection/order is proper and the input is well formed; distinct by "
        "the full case.  Oracle case = one tensor-structure operation on a Qobj compared with "
        "a NumPy reshape/transpose/einsum reference, dims labels included.")
    ctx.cov["trusted_base"] += [
        "Model/C09.v is hand-written; tied to ptrace.pyx, permute.pyx, dimensions.py and "
        "tensor.py by the exact correspondence run on every check (vm_compute vs the real "
        "kernels) and, for `contract_at`, by a Python-ast translator",
        "NumPy reshape/transpose/einsum/kron (the oracle's reference, and the meaning given to "
        "ptrace_dense / indices_dense / tensor_swap's dense path)",
        "csr.from_coo_pointers / Dense `+=` / clean_dia add up duplicate entries (modelled by "
        "`den`); scipy/qutip format conversion used to build the inputs",
        "the payload is an arbitrary commutative monoid in the theorems and Gaussian integers "
        "when executed: every float operation of the kernels on these inputs is exact",
    ]

    def search(failed, log):
        run_oracle(ctx, random.Random(ctx.seed + 101), 400,
                   {"failed_theorems": failed})

    ctx.log("start proof step")
    vlib.standard_proof_step(ctx, ["Props/C09.vo"], ["Props/C09.v"], search)
    ctx.log("proof step done")

    # translator obligation: contract_at in the source is the modelled expression
    try:
        term = translate_contract_at()
        ok, out = vlib.coq_eval(
            "tx_C09_contract_at_%d" % ctx.seed,
            HEADER + "Definition gen_contract_at := %s.\n"
            "Goal forallb (fun p => gen_contract_at (fst p) (snd p) =? "
            "contract_at_code (fst p) (snd p)) (list_prod (seq 0 9) (seq 0 9)) = true.\n"
            "Proof. vm_compute. reflexivity. Qed.\n" % term)
    except ValueError as e:
        ok, out, term = False, str(e), None
    ctx.add_obligation("gen:tensor._tensor_contract_single.contract_at = Model.contract_at_code", ok)
    if not ok:
        before = len(ctx.violations) + len(ctx.known)
        run_oracle(ctx, random.Random(ctx.seed + 55), 300, {"translated": term})
        if len(ctx.violations) == 0 or len(ctx.violations) + len(ctx.known) == before:
            ctx.violation("tx:tensor._tensor_contract_single", "contract_at-differs",
                          "contract_at in tensor.py is no longer the modelled expression",
                          {"translated": term, "log": out[-1500:]}, found_input=False)

    # correspondence
    ctx.log("translator obligation done")
    st = run_forked(lambda: corr_cases({}, rng, scale), "corr")
    if st[0] == "crash":
        report_crash(ctx, "the correspondence run", st[1], st[2])
        cases = []
    else:
        cases, d2 = st[1]
        ctx.cov.setdefault("input_distribution", {}).update(d2)
    ctx.log("%d correspondence cases generated and run on the implementation" % len(cases))
    try:
        vals = vlib.coq_eval_values("cases_C09_%d" % ctx.seed, HEADER,
                                    [c["expr"] for c in cases], chunk=25, timeout=900)
    except RuntimeError as e:
        ctx.violation("corr:C09:model-eval", "coqc", "model evaluation failed",
                      {"log": str(e)[-2000:]}, found_input=False)
        vals = None
    mism = {}
    if vals is not None:
        for c, v in zip(cases, vals):
            ctx.count_case((c["kind"], json.dumps(c["info"], sort_keys=True)),
                           nontrivial=c["nontrivial"])
            ctx.cov["traces_validated_against_impl"] += 1
            try:
                same = compare_case(c, pv(v))
            except Exception:
                same = False
            if not same:
                mism.setdefault(c["kind"], []).append((c, v))
        for kind, lst in mism.items():
            # smallest disagreeing cases first; look for one on which the
            # implementation itself violates the property
            lst.sort(key=lambda cv: len(json.dumps(cv[0]["info"])))
            st = run_forked(lambda: find_failing(kind, lst[:15]), "search")
            c, v = lst[0]
            if st[0] == "crash":
                report_crash(ctx, "the witness search after a correspondence mismatch", st[1], st[2])
            elif st[1] is not None:
                k, op, p, r = st[1]
                c, v = lst[k]
                ctx.violation("corr:" + r[0], r[1],
                              "model and implementation disagree (%d cases of %s); the "
                              "implementation violates the property: %s" % (len(lst), kind, r[2]),
                              {"op": op, "params": p, "model": v[:2000], "impl": str(c["impl"])[:2000]})
            else:
                ctx.violation("corr:" + kind, "model-differs",
                              "model and implementation disagree on %d cases of %s" % (len(lst), kind),
                              {"case": c["info"], "model": v[:2000], "impl": str(c["impl"])[:2000]},
                              found_input=False)
        for c in (cases[:3] + cases[-2:]) if cases else []:
            ctx.sample({"kind": c["kind"], "info": {k: v for k, v in c["info"].items()
                                                    if k not in ("matrix", "oper")},
                        "impl": str(c["impl"])[:300]})

    ctx.log("correspondence compared (%d kinds disagree)" % len(mism))
    # implementation-level oracle: always
    run_oracle(ctx, rng, 1500 if ctx.quick else 20000)
    ctx.cov["explanation"] = (
        "Props/C09.v: mixed-radix round trip; tensor table sizes; _i2_k_t = (kept index, traced "
        "index) and is a bijection with inverse merge; the sparse partial-trace loop equals the "
        "sum over traced multi-indices for every dims/selection/commutative-monoid payload; "
        "_Indexer.single moves digit order[i] to place i, is a bijection, obeys the permutation "
        "law on entries and the inverse-order round trip; index.all() path = direct path; "
        "contract_at is NumPy's diagonal axis for every index pair; _tensor_order is a sorting "
        "permutation and the identity on simple spaces, so tensor_swap exchanges the named "
        "digits for every dims list (1-dimensional factors included); reshuffle orders inverse "
        "(bounded); partial trace of a Kronecker product = kept factors times traces of the "
        "others for any number of factors, dims, selection and commutative semiring; "
        "expand_operator new_order right (bounded).  The model is tied to the source by exact "
        "correspondence on %d generated cases; the oracle checks the property itself on real "
        "Qobj against NumPy." % len(cases))


def well_formed(info):
    dims = list(info["dims"])
    if any(d < 1 for d in dims):
        return False
    A = info["matrix"]
    nr, nc = len(A), len(A[0]) if A else 0
    if "sel" in info:
        sel = list(info["sel"])
        return (nr == nc == prod(dims) and len(set(sel)) == len(sel)
                and all(0 <= x < len(dims) for x in sel))
    order = list(info["order"])
    return (sorted(order) == list(range(len(dims)))
            and {nr, nc} <= {1, prod(dims)} and max(nr, nc) == prod(dims))


def kernel_oracle_ptrace(info):
    """the property checked on one data-layer ptrace kernel directly"""
    from qutip.core import data as _data
    if not well_formed(info):
        return None
    A = to_np(info["matrix"])
    fmt = info["fmt"]
    ref = ref_ptrace(A, list(info["dims"]), list(info["sel"]))
    try:
        d = _data.to({"CSRd": "CSR"}.get(fmt, fmt), _data.Dense(A))
        fn = {"CSR": _data.ptrace_csr, "CSRd": _data.ptrace_csr_dense,
              "Dia": _data.ptrace_dia, "Dense": _data.ptrace_dense}[fmt]
        out = fn(d, list(info["dims"]), list(info["sel"])).to_array()
    except Exception as e:
        return ("data.ptrace_" + fmt, "exception:" + type(e).__name__,
                "kernel raises %r on a well-formed input" % (e,))
    if out.shape != ref.shape or not np.array_equal(out, ref):
        return ("data.ptrace_" + fmt, "wrong-array", "kernel differs from the einsum reference")
    return None


def kernel_oracle_permute(info):
    from qutip.core import data as _data
    from qutip.core.data import permute as _perm
    if not well_formed(info):
        return None
    A = to_np(info["matrix"])
    dims, order = list(info["dims"]), list(info["order"])
    n = len(dims)
    if A.shape[0] == A.shape[1] and A.shape[0] > 1:
        ref = A.reshape(dims + dims).transpose(order + [n + o for o in order]).reshape(A.shape)
    else:
        ref = A.reshape(dims).transpose(order).reshape(A.shape)
    try:
        if info["fmt"] == "CSR":
            out = _perm.dimensions_csr(_data.to("CSR", _data.Dense(A)), dims, order).to_array()
        else:
            out = _perm.dimensions_dense(_data.Dense(A), dims, order).to_array()
    except Exception as e:
        return ("data.permute.dimensions_" + info["fmt"], "exception:" + type(e).__name__,
                "kernel raises %r on a well-formed input" % (e,))
    if not np.array_equal(out, ref):
        return ("data.permute.dimensions_" + info["fmt"], "wrong-array",
                "kernel differs from reshape/transpose")
    return None


def kron_pair_oracle(info):
    """_data.kron of a pair against np.kron"""
    from qutip.core import data as _data
    ML, MR = to_np(info["ML"]), to_np(info["MR"])
    ref = np.kron(ML, MR)
    for f1, f2 in ([info["fmts"]] if "fmts" in info else []) + [["CSR", "CSR"]]:
        try:
            out = _data.kron(_data.to(f1, _data.Dense(ML)), _data.to(f2, _data.Dense(MR))).to_array()
        except Exception as e:
            return ("data.kron:%s-%s" % (f1, f2), "exception:" + type(e).__name__, "kron raises %r" % (e,))
        if out.shape != ref.shape or not np.array_equal(out, ref):
            return ("data.kron:%s-%s" % (f1, f2), "wrong-array", "kron differs from np.kron")
    return None


def find_failing(kind, lst):
    """Among disagreeing correspondence cases, the first on which the
    implementation violates the property itself: (k, op, params, result)."""
    for k, (c, v) in enumerate(lst):
        info = c["info"]
        tries = []
        if kind.startswith("ptrace_"):
            tries.append(("kernel:" + kind, info, kernel_oracle_ptrace))
        elif kind.startswith("permute_"):
            tries.append(("kernel:" + kind, info, kernel_oracle_permute))
        elif kind == "expand":
            tries.append(("expand", {"dims": info["dims"], "targets": info["targets"],
                                     "oper": info["oper"], "fmt": info["fmt"]}, None))
        elif kind == "tensor_swap_index":
            from qutip.core.dimensions import flatten as _fl
            nr_, nc_ = prod(_fl(info["dims"][0])), prod(_fl(info["dims"][1]))
            tries.append(("tensor_swap",
                          {"dims": info["dims"], "pairs": [list(x) for x in info["pairs"]],
                           "fmt": "Dense",
                           "matrix": [[[r * nc_ + cc, 0] for cc in range(nc_)]
                                      for r in range(nr_)]}, None))
        elif kind == "contract_positions":
            from qutip.core.dimensions import flatten as _fl2
            nr_, nc_ = prod(_fl2(info["dims"][0])), prod(_fl2(info["dims"][1]))
            tries.append(("tensor_contract",
                          {"dims": info["dims"], "pairs": info["pairs"], "fmt": "Dense",
                           "matrix": [[[r * nc_ + cc, 1] for cc in range(nc_)]
                                      for r in range(nr_)]}, None))
        elif kind in ("kron2", "kron_csr"):
            tries.append(("kron_pair", info, kron_pair_oracle))
        elif kind == "reshuffle_sot":
            ds = info["factor_dims"]
            ns2 = [prod(d) for d in ds]
            if info["kind"] == "super":
                pr = {"kind": "super", "fmt": "Dense", "factor_dims": ds,
                      "factors": [[[[(r * n * n + 3 * cc) % 7 - 3, (r + 2 * cc) % 3 - 1]
                                    for cc in range(n * n)] for r in range(n * n)] for n in ns2],
                      "probes": [[[[r + 2 * cc, r - cc] for cc in range(n)] for r in range(n)] for n in ns2],
                      "unitaries": [[[[r + cc, 1] for cc in range(n)] for r in range(n)] for n in ns2],
                      "as_oper": [False] * len(ds)}
            else:
                pr = {"kind": "operator-ket", "fmt": "Dense", "factor_dims": ds,
                      "factors": [[[[r * n + cc, r - cc] for cc in range(n)] for r in range(n)] for n in ns2]}
            tries.append(("reshuffle_composite", pr, None))
        elif kind.startswith("ptranspose_"):
            tries.append(("partial_transpose", info, None))
        elif kind == "subsys_one":
            dd = info["dims"]
            ds_ = dd[info["idx"]]
            tries.append(("subsystem_apply",
                          {"dims": dd, "mask": [k2 == info["idx"] for k2 in range(len(dd))],
                           "dsub": ds_, "matrix": info["matrix"], "U": info["U"], "fmt": "Dense",
                           "S": [[[1 if r == cc else 0, 0] for cc in range(ds_ * ds_)]
                                 for r in range(ds_ * ds_)]}, None))
        elif kind == "kron":
            tries.append(("tensor", info, None))
        elif kind == "tensor_perm":
            d = info["dims"]
            from qutip.core.dimensions import flatten
            sh = (prod(flatten(d[0])), prod(flatten(d[1])))
            mat = [[[r * sh[1] + cc, 1] for cc in range(sh[1])] for r in range(sh[0])]
            tries.append(("tensor_rep", {"dims": d, "fmt": "Dense", "matrix": mat}, None))
            # the tensor order is what tensor_swap relies on: try every single swap
            n = len(flatten(d))
            for i in range(n):
                for j in range(i + 1, n):
                    tries.append(("tensor_swap", {"dims": d, "fmt": "Dense", "matrix": mat,
                                                  "pairs": [[i, j]]}, None))
        for op, p, fn in tries:
            note_inflight({"op": op, "params": p})
            r = fn(p) if fn else oracle_case(op, p)
            if r is not None:
                return (k, op, p, r)
    return None


def replay(ctx, payload):
    d = payload["detail"]
    op, p = d.get("op"), d.get("params")
    if op is None or p is None:
        return

    def one():
        note_inflight({"op": op, "params": p})
        if op == "kron_pair":
            return kron_pair_oracle(p)
        if op.startswith("kernel:"):
            return kernel_oracle_ptrace(p) if "ptrace" in op else kernel_oracle_permute(p)
        return oracle_case(op, p)
    st = run_forked(one, "replay")
    if st[0] == "crash":
        ctx.violation(payload["site"], payload["signature"],
                      "the interpreter died (signal %s) on the recorded input" % st[1],
                      {"op": op, "params": p})
    elif st[1] is not None:
        ctx.violation(payload["site"], payload["signature"], st[1][2], {"op": op, "params": p})
