"""C02 - Qobj arithmetic is matrix arithmetic with consistent dimension
bookkeeping.

Tie (K): Model/C02.v (Space/Dimensions constructors, attributes, equality,
hash keys, dims rules of the arithmetic methods) is evaluated by vm_compute
on generated nested dims lists / operand pairs and compared exactly with the
real qutip.core.dimensions and Qobj methods.
Oracle: random Qobj expression trees against NumPy on the dense matrices,
with the dims predicted by composing the operands' labels.
"""
import itertools
import json
import random

import numpy as np

import vlib
from vlib import cnat, clist, cbool

HEADER = ("From Coq Require Import List ZArith NArith Bool.\nImport ListNotations.\n"
          "From QV Require Import Model.C02.\n")
REPS = {None: "None", "super": "(Some RSuper)", "choi": "(Some RChoi)", "chi": "(Some RChi)"}
REPN = {"RSuper": "super", "RChoi": "choi", "RChi": "chi", "RMixed": "mixed"}
TYPES = {"TScalar": "scalar", "TKet": "ket", "TBra": "bra", "TOper": "oper",
         "TOperKet": "operator-ket", "TOperBra": "operator-bra", "TSuper": "super"}


def cnl(x):
    if isinstance(x, list):
        return "(NL %s)" % clist(x, cnl)
    return "(NI %d%%N)" % x


def depth(x):
    if not isinstance(x, list):
        return 0
    return 1 + max([depth(y) for y in x] + [0])


# ---------------------------------------------------------------- generators
def gen_flat(rng, allow_one=True):
    k = rng.choice([1, 1, 2, 2, 3])
    pool = [1, 2, 2, 3, 4] if allow_one else [2, 3, 4]
    return [rng.choice(pool) for _ in range(k)]


def gen_side(rng, kind):
    """one side (to or from) of a Dimensions list"""
    if kind == "flat":
        return gen_flat(rng)
    if kind == "one":
        return [1] * rng.choice([1, 1, 2])
    if kind == "super":
        a = gen_flat(rng)
        return [a, list(a)] if rng.random() < 0.7 else [a, gen_flat(rng)]
    if kind == "supertensor":
        a, b = gen_flat(rng), gen_flat(rng)
        return [a, list(a), b, list(b)]
    if kind == "wrapped":
        return [gen_flat(rng)]
    if kind == "int":
        return rng.choice([1, 2, 3])
    if kind == "supersuper":
        a = gen_flat(rng, False)
        return [[a, list(a)], [list(a), list(a)]]
    if kind == "refactor":
        return rng.choice([[2, 2], [4], [2, 3], [6], [3, 2], [2, 2, 2], [4, 2], [2, 4], [8],
                           [1, 4], [2, 1, 2], [2, 6], [12], [3, 4], [4, 3], [2, 2, 3]])
    if kind == "bad":
        return rng.choice([[], [2, [3]], [[2], [3], [4]], [0], [[2], 3], [[]], [[2], [2], [3]],
                           [[[2], [2]], [3]], [2, 0]])
    raise KeyError(kind)


def gen_dims(rng):
    r = rng.random()
    if r < 0.07:
        kinds = ("bad", rng.choice(["flat", "super"]))
        if rng.random() < 0.5:
            kinds = kinds[::-1]
    else:
        k1 = rng.choice(["flat", "flat", "flat", "one", "super", "super", "supertensor",
                         "wrapped", "int", "supersuper", "refactor", "refactor"])
        if k1 in ("super", "supertensor", "supersuper"):
            k2 = rng.choice([k1, k1, "one", "super", "flat"])
        else:
            k2 = rng.choice(["flat", "flat", "one", k1, "int"])
        kinds = (k1, k2)
    to = gen_side(rng, kinds[0])
    if rng.random() < 0.45 and kinds[0] == kinds[1]:
        frm = json.loads(json.dumps(to))
    else:
        frm = gen_side(rng, kinds[1])
    rep = rng.choice([None, None, "super", "choi", "chi"])
    lst = [to, frm]
    if rng.random() < 0.03:
        lst = rng.choice([[to], [to, frm, frm], []])
    return lst, rep


# ---------------------------------------------------------- implementation
def err_name(e):
    n = type(e).__name__
    return n if n in ("ValueError", "TypeError", "NotImplementedError", "IndexError") else "Other:" + n


def impl_dims(lst, rep, tidy):
    import qutip
    from qutip.core.dimensions import Dimensions
    qutip.settings.core["auto_tidyup_dims"] = tidy
    try:
        d = Dimensions(json.loads(json.dumps(lst)), rep=rep)
        return d, None
    except Exception as e:
        return None, err_name(e)
    finally:
        qutip.settings.core["auto_tidyup_dims"] = True


def observe_impl(d):
    return (d.as_list(), d.type, tuple(int(x) for x in d.shape), d.superrep, bool(d.issquare),
            ([int(x) for x in d.to_.flat()], [int(x) for x in d.from_.flat()]),
            ([int(x) for x in d.to_.step()], [int(x) for x in d.from_.step()]))


# ------------------------------------------------------------------- model
def un_nl(v):
    if isinstance(v, tuple) and v[0] == "NI":
        return v[1]
    if isinstance(v, tuple) and v[0] == "NL":
        return [un_nl(x) for x in v[1]]
    raise ValueError(v)


def un_rep(v):
    if v is None:
        return None
    assert v[0] == "Some"
    return REPN[v[1]]


def observe_model(v):
    """parsed Coq value of observe_dims -> same shape as observe_impl"""
    al, ty, sh, sr, sq, fl, st = v
    return ([un_nl(x) for x in al], TYPES[ty], tuple(sh), un_rep(sr), sq,
            (list(fl[0]), list(fl[1])), (list(st[0]), list(st[1])))


def dims_expr(lst, rep, tidy):
    fuel = depth(lst) + 2
    return "dims_of_list %s %d%%nat %s %s" % (cbool(tidy), fuel, clist(lst, cnl), REPS[rep])


def parse_res(s, f):
    v = vlib.parse_coq_value(s)
    if isinstance(v, tuple) and v[0] == "Ok":
        return ("ok", f(v[1]))
    if isinstance(v, tuple) and v[0] == "Err":
        return ("err", v[1])
    raise ValueError(s)


# --------------------------------------------------------------------- run
def run(ctx):
    rng = random.Random(ctx.seed * 1009 + 2)
    ctx.cov["rule"] = (
        "dims correspondence: generated nested dims lists (flat, with 1s, extra list layer, "
        "super, tensor of supers, super of super, rectangular, int sides, malformed) x rep x "
        "auto_tidyup_dims; pair cases compare ==, hash-equality and @; Qobj cases compare the "
        "dims/type/shape outcome or the exception class of + - @ * dag trans pow proj and "
        "scalar promotion with the model, and the matrix with NumPy; distinct by input")
    ctx.cov["trusted_base"] += [
        "Model/C02.v is hand-written (value semantics; the _stored_dims flyweight caches are "
        "not modelled); tied to dimensions.py / qobj.py by exact correspondence",
        "Python's hash is modelled by the key it is applied to (tuple/int structure)",
        "matrix values: NumPy on the operands' dense integer matrices is the reference"]

    def search(failed, log):
        oracle(ctx, random.Random(ctx.seed + 5), 400)

    vlib.standard_proof_step(ctx, ["Props/C02.vo"], ["Props/C02.v"], search)

    n = 500 if ctx.quick else 5000
    cases = [gen_dims(rng) + (rng.random() < 0.8,) for _ in range(n)]
    # --- single Dimensions
    exprs = ["match %s with Ok d => Ok (observe_dims d) | Err e => Err e end" % dims_expr(l, r, t)
             for (l, r, t) in cases]
    # --- pairs: eq / hash key eq / matmul
    pairs = []
    good = [c for c in cases if impl_dims(*c)[0] is not None]
    for _ in range(n // 2):
        a = rng.choice(good)
        if rng.random() < 0.5:
            # a likely-composable partner: from of a = to of b
            b = ([a[0][1], rng.choice(good)[0][1]], a[1], a[2])
            if rng.random() < 0.5:
                b = (a[0], rng.choice([a[1], "choi", "super", None]), a[2])
        else:
            b = rng.choice(good)
        pairs.append((a, b))
    for a, b in pairs:
        ea, eb = dims_expr(*a), dims_expr(a_tidy(b, a)[0], b[1], a[2])
        exprs.append(
            "match %s, %s with Ok x, Ok y => Ok (dims_eqb x y, "
            "match dims_key x, dims_key y with kx, ky => "
            "(fix keq (p q : hkey) : bool := match p, q with "
            "| KInt n, KInt m => N.eqb n m | KRep r, KRep s => rep_eqb r s "
            "| KTuple l, KTuple k => (fix go l k := match l, k with [], [] => true "
            "| u :: l', v :: k' => keq u v && go l' k' | _, _ => false end) l k "
            "| _, _ => false end) kx ky end, "
            "match dims_matmul x y with Ok d => Ok (observe_dims d) | Err e => Err e end) "
            "| _, _ => Err ValueError end" % (ea, eb))
    try:
        vals = vlib.coq_eval_values("cases_C02", HEADER, exprs, chunk=300)
    except RuntimeError as e:
        ctx.violation("corr:C02:model-eval", "coqc", "model evaluation failed",
                      {"log": str(e)[-1500:]}, found_input=False)
        return
    dist = {"ok": 0, "err": {}, "types": {}}
    for (l, r, t), v in zip(cases, vals[:len(cases)]):
        d, e = impl_dims(l, r, t)
        im = ("err", e) if d is None else ("ok", observe_impl(d))
        mo = parse_res(v, observe_model)
        ctx.count_case(("dims", json.dumps(l), r, t), nontrivial=d is not None)
        ctx.cov["traces_validated_against_impl"] += 1
        if d is None:
            dist["err"][e] = dist["err"].get(e, 0) + 1
        else:
            dist["ok"] += 1
            dist["types"][d.type] = dist["types"].get(d.type, 0) + 1
            # printing and parsing again gives an equal, hash-equal object
            # (C02_nested_roundtrip on the implementation)
            try:
                import qutip
                qutip.settings.core["auto_tidyup_dims"] = t
                # the same representation argument as at construction (d.superrep
                # does not show it for 1-dimensional superoperator spaces)
                d2 = type(d)(json.loads(json.dumps(d.as_list())), rep=r)
                same = (d2 == d and hash(d2) == hash(d))
                why = "parsed %s" % (d2.as_list(),)
            except Exception as ex:
                same, why = False, "raised %s: %s" % (type(ex).__name__, ex)
            finally:
                qutip.settings.core["auto_tidyup_dims"] = True
            if not same:
                ctx.violation("dimensions.as_list", "print-parse-roundtrip",
                              "Dimensions(d.as_list(), rep=<same rep>) is not equal / hash-equal to d "
                              "for d = Dimensions(%s, rep=%s): %s" % (l, r, why),
                              {"dims": l, "rep": r, "auto_tidyup_dims": t, "as_list": d.as_list()})
        if im != mo:
            ctx.violation("corr:dimensions.Dimensions", "construct",
                          "model and implementation disagree on Dimensions(%s, rep=%s)" % (l, r),
                          {"dims": l, "rep": r, "auto_tidyup_dims": t, "impl": im, "model": mo},
                          found_input=True)
    for (a, b), v in zip(pairs, vals[len(cases):]):
        b = (a_tidy(b, a)[0], b[1], a[2])
        da, _ = impl_dims(*a)
        db, eb = impl_dims(*b)
        if da is None or db is None:
            continue
        try:
            mm = ("ok", observe_impl(da @ db))
        except Exception as e:
            mm = ("err", err_name(e))
        im = (da == db, hash(da) == hash(db) if da == db else None, mm)
        pv = vlib.parse_coq_value(v)
        assert pv[0] == "Ok", v
        meq, mkeq, mmm = pv[1]
        mmm = ("ok", observe_model(mmm[1])) if mmm[0] == "Ok" else ("err", mmm[1])
        mo = (meq, mkeq if meq else None, mmm)
        ctx.count_case(("pair", json.dumps(a[0]), a[1], json.dumps(b[0]), b[1]))
        ctx.cov["traces_validated_against_impl"] += 1
        if da == db and hash(da) != hash(db):
            ctx.violation("dimensions.__eq__/__hash__", "eq-not-hash-eq",
                          "equal Dimensions with different hashes: %s rep=%s vs %s rep=%s" % (
                              a[0], a[1], b[0], b[1]), {"a": a, "b": b})
        elif im != mo:
            ctx.violation("corr:dimensions.Dimensions", "pair",
                          "model and implementation disagree on ==/hash/@ of a pair",
                          {"a": a, "b": b, "impl": im, "model": mo}, found_input=True)
    # --- hypotheses of C02_nested_roundtrip on what the constructors build:
    #     every constructed space is well-formed (wfb) and round-trips in the model
    HW = HEADER + "From QV Require Import Proofs.C02_nested.\n"
    wexprs = []
    for (l, r, t) in cases:
        wexprs.append(
            "match %s with Ok d => Some (wfb %s (rep_of %s) (d_to d) && wfb %s (rep_of %s) (d_from d), "
            "match from_list %s 12 (as_list (d_to d)) %s with Ok s => space_eqb s (d_to d) | Err _ => false end) "
            "| Err _ => None end" % (dims_expr(l, r, t), cbool(t), REPS[r], cbool(t), REPS[r],
                                     cbool(t), REPS[r]))
    wvals = vlib.coq_eval_values("cases_C02w", HW, wexprs, chunk=300)
    nwf = 0
    for (l, r, t), v in zip(cases, wvals):
        pv = vlib.parse_coq_value(v)
        if pv is None or pv == "None":
            continue
        ok_wf, ok_rt = pv[1]
        nwf += 1
        if not (ok_wf and ok_rt):
            ctx.violation("corr:C02:wfb", json.dumps(l)[:60],
                          "a constructed space is outside the well-formedness predicate of "
                          "C02_nested_roundtrip (wfb=%s, model round trip=%s) for Dimensions(%s, rep=%s, tidy=%s)"
                          % (ok_wf, ok_rt, l, r, t), {"dims": l, "rep": r, "auto_tidyup_dims": t},
                          found_input=False)
    dist["wfb_checked"] = nwf
    ctx.cov["input_distribution"] = dist
    ctx.sample({"dims": cases[0][0], "rep": cases[0][1], "tidy": cases[0][2]})
    qobj_corr(ctx, rng, good, 300 if ctx.quick else 3000)
    state_corr(ctx, rng, 300 if ctx.quick else 3000)
    oracle(ctx, rng, 150 if ctx.quick else 2500)
    ctx.cov["explanation"] = (
        "Theorems of Props/C02.v (equality is structural and hash-consistent, type/shape "
        "inference, composition) hold for all spaces; the model is tied to dimensions.py and "
        "the Qobj methods by exact comparison; matrix values are checked against NumPy.")


def a_tidy(b, a):
    return b


# ----------------------------------------------- Qobj methods: dims rules
def rand_qobj(rng, dimsobj):
    import qutip
    sh = dimsobj.shape
    re = np.array([[rng.randint(-3, 3) for _ in range(sh[1])] for _ in range(sh[0])], dtype=float)
    im = np.array([[rng.randint(-3, 3) for _ in range(sh[1])] for _ in range(sh[0])], dtype=float)
    arr = re + 1j * im
    q = qutip.Qobj(arr, dims=dimsobj)
    fmt = rng.choice(["dense", "csr", "dia"])
    return q.to(fmt), arr


def outcome_impl(fn):
    import qutip
    try:
        r = fn()
    except Exception as e:
        return ("raise", err_name(e)), None
    if isinstance(r, qutip.Qobj):
        return ("dims", observe_impl(r._dims)), r
    if r is NotImplemented:
        return ("raise", "TypeError"), None
    return ("number",), r


def outcome_model(s):
    v = vlib.parse_coq_value(s)
    if v == "ONumberResult":
        return ("number",)
    if v[0] == "ORaise":
        return ("raise", v[1])
    return ("dims", observe_model(v[1]))


def qobj_corr(ctx, rng, good, n):
    import qutip
    good = [g for g in good if np.prod(impl_dims(*g)[0].shape) <= 400]
    exprs, thunks, keys = [], [], []
    for _ in range(n):
        a = rng.choice(good)
        da, _ = impl_dims(*a)
        op = rng.choice(["add", "sub", "matmul", "mul", "same", "swap", "swap", "swap", "pow",
                         "proj", "add_num", "add_zero", "matmul", "inv", "inv"])
        ea = dims_expr(*a)
        qa, arr_a = rand_qobj(rng, da)
        if op in ("add", "sub", "matmul"):
            if rng.random() < 0.6:
                b = a if op != "matmul" else ([a[0][1], rng.choice(good)[0][1]], a[1], a[2])
                if rng.random() < 0.25:
                    b = (b[0], rng.choice(["choi", "super", None]), b[2])
            else:
                b = rng.choice(good)
            db, e = impl_dims(*b)
            if db is None or np.prod(db.shape) > 400:
                continue
            qb, arr_b = rand_qobj(rng, db)
            eb = dims_expr(*b)
            if op == "matmul":
                coq = ("match %s, %s with Ok x, Ok y => qobj_matmul x y | _, _ => ORaise OutOfFuel end"
                       % (ea, eb))
                th = (lambda qa=qa, qb=qb: qa @ qb)
                ref = (lambda arr_a=arr_a, arr_b=arr_b: arr_a @ arr_b)
            else:
                coq = ("match %s, %s with Ok x, Ok y => qobj_add x (OQobj y) | _, _ => ORaise OutOfFuel end"
                       % (ea, eb))
                if op == "add":
                    th = (lambda qa=qa, qb=qb: qa + qb)
                    ref = (lambda arr_a=arr_a, arr_b=arr_b: arr_a + arr_b)
                else:
                    th = (lambda qa=qa, qb=qb: qa - qb)
                    ref = (lambda arr_a=arr_a, arr_b=arr_b: arr_a - arr_b)
            key = (op, json.dumps(a[0]), a[1], json.dumps(b[0]), b[1])
        else:
            z = rng.choice([2, -1, 1j, 0.5, 1 + 2j])
            sw = rng.random() < 0.5
            if op == "swap" and arr_a.shape[0] == arr_a.shape[1] and rng.random() < 0.6:
                # a Hermitian matrix (also with different row / column labels)
                arr_a = arr_a + arr_a.conj().T
                qa = qutip.Qobj(arr_a, dims=da).to(rng.choice(["dense", "csr", "dia"]))
            if op == "inv" and arr_a.shape[0] == arr_a.shape[1]:
                # make the operand safely invertible (exact small integers)
                arr_a = arr_a + 9 * np.eye(arr_a.shape[0])
                qa = qutip.Qobj(arr_a, dims=da).to(rng.choice(["dense", "csr", "dia"]))
            table = {
                "inv": ("qobj_inv x", lambda qa=qa: qa.inv(), lambda a=arr_a: np.linalg.inv(a)),
                "mul": ("qobj_same x", lambda qa=qa, z=z: qa * z, lambda a=arr_a, z=z: a * z),
                "same": ("qobj_same x", lambda qa=qa: -qa.conj(), lambda a=arr_a: -a.conj()),
                # history: the cached flags are read before dag() half of the time
                # (dag() has a shortcut for cached-Hermitian objects)
                "swap": ("qobj_swap x",
                         lambda qa=qa, sw=sw, z=z: ((qa.isherm, qa.isunitary) if z in (2, -1, 1j) else None,
                                                   qa.dag() if sw else qa.trans().conj())[1],
                         lambda a=arr_a: a.conj().T),
                "pow": ("qobj_pow x", lambda qa=qa: qa ** 2, lambda a=arr_a: a @ a),
                "proj": ("qobj_proj x", lambda qa=qa: qa.proj(),
                         lambda a=arr_a: (a @ a.conj().T if a.shape[1] == 1
                                          else a.conj().T @ a)),
                "add_num": ("qobj_add x ONumber", lambda qa=qa, z=z: qa + z,
                            lambda a=arr_a, z=z: a + z * np.eye(a.shape[0])),
                "add_zero": ("qobj_add x OZero", lambda qa=qa: qa + 0, lambda a=arr_a: a),
            }
            c, th, ref = table[op]
            coq = "match %s with Ok x => %s | Err e => ORaise OutOfFuel end" % (ea, c)
            key = (op, json.dumps(a[0]), a[1], str(z))
        exprs.append("match %s with ODims d => ODims d | o => o end" % coq)
        # print dims through observe_dims for comparison
        exprs[-1] = ("match %s with ODims d => (1%%nat, Some (observe_dims d), ValueError) "
                     "| ONumberResult => (2%%nat, None, ValueError) | ORaise e => (3%%nat, None, e) end" % coq)
        thunks.append((th, ref))
        keys.append(key)
    vals = vlib.coq_eval_values("cases_C02q", HEADER, exprs, chunk=300)
    for key, (th, ref), v in zip(keys, thunks, vals):
        pv = vlib.parse_coq_value(v)
        if pv[0] == 1:
            mo = ("dims", observe_model(pv[1][1]))
        elif pv[0] == 2:
            mo = ("number",)
        else:
            mo = ("raise", pv[2])
        im, r = outcome_impl(th)
        ctx.count_case(("qobj",) + key)
        ctx.cov["traces_validated_against_impl"] += 1
        if im != mo:
            ctx.violation("corr:qobj." + key[0], "dims-outcome",
                          "dims outcome of Qobj.%s differs from composing the operands' labels" % key[0],
                          {"case": key, "impl": im, "model": mo}, found_input=True)
            continue
        if im[0] == "dims" or im[0] == "number":
            want = ref()
            got = r.full() if im[0] == "dims" else np.array([[r]])
            if got.shape != np.shape(want) and im[0] == "number":
                want = np.array(want).reshape(1, 1)
            if got.shape != np.shape(want) or not np.array_equal(got, want):
                if not (got.shape == np.shape(want) and np.allclose(got, want, atol=1e-12)):
                    ctx.violation("qobj." + key[0], "matrix",
                                  "matrix of Qobj.%s is not the NumPy expression on the operands" % key[0],
                                  {"case": key, "got": np.array2string(got), "want": np.array2string(np.array(want))})


# ------------------------- overlap / matrix_element / __call__: dims rules
def _rand_arr(rng, sh):
    return np.array([[complex(rng.randint(-3, 3), rng.randint(-3, 3)) for _ in range(sh[1])]
                     for _ in range(sh[0])])


def state_corr(ctx, rng, n):
    """Qobj.overlap, Qobj.matrix_element and Qobj.__call__ against the model's
    dims rule (accepted exactly when the labels compose) and against NumPy."""
    import qutip
    spaces = [[2], [3], [2, 2], [4], [2, 3], [3, 2], [6], [1, 2], [2, 1, 2], [1], [2, 2, 2], [8]]

    def ones(h):
        return [1] * len(h) if rng.random() < 0.5 else [1]

    def mk(kind):
        h, g = rng.choice(spaces), rng.choice(spaces)
        if rng.random() < 0.6:
            g = list(h)
        if kind == "ket":
            return [h, ones(h)], None
        if kind == "bra":
            return [ones(h), h], None
        if kind == "oper":
            return [h, g], None
        if kind == "super":
            h2, g2 = (list(h), list(g)) if rng.random() < 0.6 else (rng.choice(spaces), rng.choice(spaces))
            return [[h, g], [h2, g2]], rng.choice([None, "super", "super", "choi"])
        if kind == "opket":
            return [[h, g], [1]], rng.choice([None, "super"])
        raise KeyError(kind)

    def derive(src, kind):
        """an operand whose labels compose with `src` (a dims list), mostly"""
        lst = src[0]
        flat = isinstance(lst[0][0], int)
        if rng.random() < 0.3:
            return mk(kind)
        if flat:
            to, frm = lst
        else:               # super: oper dims it acts on
            to, frm = lst[1]
        if kind == "ket":
            return [list(frm if rng.random() < 0.7 else to), ones(frm)], None
        if kind == "bra":
            return [ones(to), list(to if rng.random() < 0.7 else frm)], None
        if kind == "oper":
            return [list(to), list(frm)], None
        return mk(kind)

    def qobj(spec):
        lst, rep = spec
        D = qutip.core.dimensions.Dimensions(json.loads(json.dumps(lst)), rep=rep)
        if np.prod(D.shape) > 4096:
            return None, None
        arr = _rand_arr(rng, D.shape)
        q = qutip.Qobj(arr, dims=D).to(rng.choice(["dense", "csr", "dia"]))
        return q, arr

    def vec(q, a):
        return a if q.isket else a.conj().T

    def as_op(q, a):
        if q.isoper:
            return a
        v = vec(q, a)
        return v @ v.conj().T

    exprs, thunks, keys = [], [], []
    for _ in range(n):
        op = rng.choice(["overlap", "overlap", "matel", "call", "call"])
        try:
            if op == "overlap":
                sa = mk(rng.choice(["ket", "bra", "oper", "oper", "super", "opket"]))
                sb = derive(sa, rng.choice(["ket", "bra", "oper"]))
                (qa, a), (qb, b) = qobj(sa), qobj(sb)
                if qa is None or qb is None:
                    continue
                coq = ("match %s, %s with Ok x, Ok y => qobj_overlap x y | _, _ => ORaise OutOfFuel end"
                       % (dims_expr(sa[0], sa[1], True), dims_expr(sb[0], sb[1], True)))
                th = (lambda qa=qa, qb=qb: qa.overlap(qb))
                # vectors: <self|other>, except ket.overlap(bra) which qutip defines (and its
                # test-suite pins) as the conjugate, i.e. the natural product <other|self>
                ref = (lambda qa=qa, qb=qb, a=a, b=b: np.trace(as_op(qa, a).conj().T @ as_op(qb, b))
                       if (qa.isoper or qb.isoper) else
                       (np.conj if (qa.isket and qb.isbra) else (lambda z: z))(
                           (vec(qa, a).conj().T @ vec(qb, b))[0, 0]))
                key = ("overlap", json.dumps(sa), json.dumps(sb))
            elif op == "matel":
                so = mk(rng.choice(["oper", "oper", "oper", "super", "ket"]))
                sbr = derive(so, rng.choice(["bra", "ket"]))
                if sbr[0] and rng.random() < 0.7 and isinstance(so[0][0][0], int):
                    # bra side must carry the operator's row labels
                    h = so[0][0]
                    sbr = ([list(h), ones(h)], None) if rng.random() < 0.5 else ([ones(h), list(h)], None)
                sk = derive(so, rng.choice(["ket", "ket", "bra"]))
                (qo, o), (qbr, br), (qk, k) = qobj(so), qobj(sbr), qobj(sk)
                if qo is None or qbr is None or qk is None:
                    continue
                coq = ("match %s, %s, %s with Ok x, Ok y, Ok z => qobj_matrix_element x y z "
                       "| _, _, _ => ORaise OutOfFuel end"
                       % (dims_expr(so[0], so[1], True), dims_expr(sbr[0], sbr[1], True),
                          dims_expr(sk[0], sk[1], True)))
                th = (lambda qo=qo, qbr=qbr, qk=qk: qo.matrix_element(qbr, qk))
                ref = (lambda qbr=qbr, br=br, o=o, qk=qk, k=k:
                       (vec(qbr, br).conj().T @ o @ vec(qk, k))[0, 0])
                key = ("matrix_element", json.dumps(so), json.dumps(sbr), json.dumps(sk))
            else:
                ss = mk(rng.choice(["oper", "super", "super", "super", "ket"]))
                so = derive(ss, rng.choice(["ket", "oper", "oper", "bra", "super"]))
                (qs, sarr), (qo, o) = qobj(ss), qobj(so)
                if qs is None or qo is None:
                    continue
                coq = ("match %s, %s with Ok x, Ok y => qobj_call true 8%%nat x y "
                       "| _, _ => ORaise OutOfFuel end"
                       % (dims_expr(ss[0], ss[1], True), dims_expr(so[0], so[1], True)))
                th = (lambda qs=qs, qo=qo: qs(qo))

                def ref(qs=qs, qo=qo, sarr=sarr, o=o):
                    if qs.isoper:
                        return sarr @ o
                    x = o @ o.conj().T if qo.isket else o
                    out = sarr @ x.reshape(-1, 1, order="F")
                    rows = int(np.prod(qs.dims[0][0]))
                    return out.reshape((rows, -1), order="F")
                key = ("call", json.dumps(ss), json.dumps(so))
        except Exception:
            continue
        exprs.append("match %s with ODims d => (1%%nat, Some (observe_dims d), ValueError) "
                     "| ONumberResult => (2%%nat, None, ValueError) | ORaise e => (3%%nat, None, e) end" % coq)
        thunks.append((th, ref))
        keys.append(key)
    vals = vlib.coq_eval_values("cases_C02s", HEADER, exprs, chunk=300)
    for key, (th, ref), v in zip(keys, thunks, vals):
        pv = vlib.parse_coq_value(v)
        mo = ("dims", observe_model(pv[1][1])) if pv[0] == 1 else (("number",) if pv[0] == 2 else ("raise",))
        im, r = outcome_impl(th)
        if im[0] == "raise":
            im = ("raise",)
        ctx.count_case(("qobj",) + key)
        ctx.cov["traces_validated_against_impl"] += 1
        if im != mo:
            ctx.violation("corr:qobj." + key[0], "dims-outcome",
                          "Qobj.%s: accepted / rejected / result labels differ from composing the "
                          "operands' labels" % key[0],
                          {"case": key, "impl": im, "model": mo}, found_input=True)
            continue
        if im[0] in ("dims", "number"):
            want = np.array(ref())
            got = r.full() if im[0] == "dims" else np.array(r)
            if got.shape != want.shape or not np.allclose(got, want, atol=1e-9):
                ctx.violation("qobj." + key[0], "matrix",
                              "value of Qobj.%s is not the NumPy expression on the operands" % key[0],
                              {"case": key, "got": np.array2string(got), "want": np.array2string(want)})


# ------------------------------------------------------------------ oracle
def oracle(ctx, rng, n):
    """Random expression trees: matrix = NumPy expression, shape/dims consistent,
    non-composing labels rejected although raw shapes agree."""
    import qutip
    from qutip import Qobj
    structs = [[[2], [2]], [[3], [3]], [[2, 2], [2, 2]], [[4], [4]], [[2, 2], [4]], [[4], [2, 2]],
               [[2], [1]], [[1], [2]], [[2, 2], [1]], [[4], [1]], [[1], [4]], [[1, 2], [2, 1]],
               [[[2], [2]], [[2], [2]]], [[[2], [2]], [1]], [[2, 3], [2, 3]], [[3, 2], [3, 2]], [[6], [6]]]

    def leaf():
        d = rng.choice(structs)
        D = qutip.core.dimensions.Dimensions(json.loads(json.dumps(d)))
        sh = D.shape
        arr = np.array([[complex(rng.randint(-2, 2), rng.randint(-2, 2)) for _ in range(sh[1])]
                        for _ in range(sh[0])])
        return Qobj(arr, dims=d).to(rng.choice(["csr", "dense", "dia"])), arr, d

    for _ in range(n):
        (qa, a, da), (qb, b, db) = leaf(), leaf()
        ctx.count_case(("oracle", json.dumps(da), json.dumps(db)))
        # equal raw shapes but different labels must be rejected by + and -
        if a.shape == b.shape and qa.dims != qb.dims:
            for name, f in (("add", lambda: qa + qb), ("sub", lambda: qa - qb)):
                try:
                    f()
                    ctx.violation("qobj." + name, "accepts-mismatched-dims",
                                  "Qobj.%s accepted operands with dims %s and %s" % (name, qa.dims, qb.dims),
                                  {"dims_a": qa.dims, "dims_b": qb.dims})
                except (ValueError, TypeError):
                    pass
        if a.shape[1] == b.shape[0] and qa.dims[1] != qb.dims[0]:
            try:
                qa @ qb
                ctx.violation("qobj.matmul", "accepts-mismatched-dims",
                              "Qobj.@ accepted operands with dims %s and %s" % (qa.dims, qb.dims),
                              {"dims_a": qa.dims, "dims_b": qb.dims})
            except (ValueError, TypeError):
                pass
        # inverse: labels exchanged, composes with the operand on both sides
        if a.shape[0] == a.shape[1] and a.shape[0] > 1:
            ai = a + 7 * np.eye(a.shape[0])
            qi = Qobj(ai, dims=da).to(rng.choice(["csr", "dense", "dia"]))
            try:
                inv = qi.inv()
                if inv.dims != [qi.dims[1], qi.dims[0]]:
                    ctx.violation("qobj.inv", "dims-not-exchanged",
                                  "Qobj.inv of dims %s has dims %s" % (qi.dims, inv.dims),
                                  {"dims": qi.dims, "result_dims": inv.dims})
                else:
                    left, right = inv @ qi, qi @ inv
                    for pr, name in ((left, "inv@A"), (right, "A@inv")):
                        if not np.allclose(pr.full(), np.eye(a.shape[0]), atol=1e-9):
                            ctx.violation("qobj.inv", "not-inverse", "%s is not the identity" % name,
                                          {"dims": qi.dims, "a": np.array2string(ai)})
            except (TypeError, ValueError) as e:
                ctx.violation("qobj.inv", "inverse-does-not-compose",
                              "Qobj.inv of a square matrix with dims %s raised or does not compose: %s" % (qi.dims, e),
                              {"dims": qi.dims})
        # a depth-3 tree on compatible operands
        try:
            qc = Qobj(b.reshape(b.shape) if False else np.array(a) * 0 + 1j, dims=da)
            c = np.array(a) * 0 + 1j
            tree = [
                ("(a+c)*2-a", lambda: (qa + qc) * 2 - qa, lambda: (a + c) * 2 - a),
                ("a.dag()@a", lambda: qa.dag() @ qa, lambda: a.conj().T @ a),
                ("-(a@a.dag()).trans()", lambda: -(qa @ qa.dag()).trans(), lambda: -(a @ a.conj().T).T),
                ("(2-a)", lambda: 2 - qa, lambda: 2 * np.eye(a.shape[0]) - a),
                ("a/2j", lambda: qa / 2j, lambda: a / 2j),
                ("(a@a.dag())**3", lambda: (qa @ qa.dag()) ** 3,
                 lambda: np.linalg.matrix_power(a @ a.conj().T, 3)),
                ("a.tr()", lambda: qa.tr(), lambda: np.trace(a)),
                ("a.conj()", lambda: qa.conj(), lambda: a.conj()),
                ("a.overlap(c)", lambda: qa.overlap(qc),
                 lambda: (np.vdot(a.ravel(), c.ravel()) if a.shape[1] == 1 and a.shape[0] > 1
                          else np.vdot(c.ravel(), a.ravel()) if a.shape[0] == 1
                          else np.trace(a.conj().T @ c))),
            ]
            name, f, g = rng.choice(tree)
            try:
                r = f()
            except (TypeError, ValueError):
                continue
            want = g()
            got = r.full() if isinstance(r, Qobj) else np.array(r)
            if isinstance(r, Qobj) and r.shape != tuple(np.shape(want)):
                continue
            if not np.allclose(got, want, atol=1e-9):
                ctx.violation("qobj.expr", name, "expression %s differs from NumPy" % name,
                              {"expr": name, "dims": da, "a": np.array2string(a),
                               "got": np.array2string(got), "want": np.array2string(np.array(want))})
            if isinstance(r, Qobj) and tuple(r._dims.shape) != r.data.shape:
                ctx.violation("qobj.expr", "shape-vs-dims", "result dims shape differs from data shape",
                              {"expr": name, "dims": r.dims, "shape": r.data.shape})
        except Exception:
            continue
