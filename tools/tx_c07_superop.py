"""Translator for C07: reads spre / spost / sprepost / lindblad_dissipator /
liouvillian (all three assembly routes) of qutip/core/superoperator.py and the
matrix-operation route `_br_term_data` of qutip/core/_brtensor.pyx with
Python's `ast` and emits them as Gallina functions building `Sexpr` terms
(coq/Gen/C07_terms.v).  The same intermediate representation is evaluated in
Python (exact Gaussian dyadic arithmetic) by `Eval`, so tools/c07.py can
check on every run that the translator's reading of the data-layer
primitives is what the implementation computes.

Fail closed: any statement or expression outside the supported subset raises
`Unsupported`.

IR (nested tuples):
  operands   ('var', x) ('OId',) ('OAdj', o) ('OConj', o) ('OTr', o)
             ('OMul', a, b) ('OHad', a, b) ('OScale', z, o)
  supers     ('SKron', b, a) ('SKronT', b, a) ('SAdd', l, r, z) ('SSub', l, r)
             ('SScale', z, s) ('SMul', l, r) ('SZero',)
             ('call', fname, [args])          call of another generated function
             ('fold', acc, init, body, cs)    loop over zip(c_ops, chi);
                                              body may use 'c_op', 'chi_', acc
             ('let', x, e, body) ('ifnz', z, then, else)
  scalars    ('i',) ('h',) ('one',) ('neg', z) ('expi', z) ('var', x)
"""
import ast
import os
import re
import sys

HERE = os.path.dirname(os.path.abspath(__file__))
sys.path.insert(0, os.path.join(os.path.dirname(HERE), "lib"))
import vlib  # noqa: E402


class Unsupported(Exception):
    pass


def _src(node):
    try:
        return ast.unparse(node)
    except Exception:
        return repr(node)


def bad(node, why=""):
    raise Unsupported("unsupported construct (%s): %s" % (why, _src(node)[:120]))


# ------------------------------------------------------------- expressions
class Tr:
    """Translate expressions in a typing environment name -> 'O' | 'S' | 'Z'
    (operand, superoperator, scalar)."""

    def __init__(self, env, funcs):
        self.env = dict(env)
        self.funcs = funcs      # name -> (param kinds, default rule)

    def kind(self, ir):
        t = ir[0]
        if t == 'var':
            return self.env[ir[1]]
        if t.startswith('O'):
            return 'O'
        if t.startswith('S') or t in ('call', 'fold'):
            return 'S'
        if t in ('let', 'ifnz'):
            return self.kind(ir[3] if t == 'let' else ir[2])
        return 'Z'

    def num(self, node):
        """numeric literals and np.exp(1j*chi)."""
        if isinstance(node, ast.UnaryOp) and isinstance(node.op, ast.USub):
            return ('neg', self.num(node.operand))
        if isinstance(node, ast.Constant):
            v = node.value
            if isinstance(v, bool):
                bad(node, "bool scalar")
            if v == 1j:
                return ('i',)
            if v == 0.5:
                return ('h',)
            if v == 1 or v == 1.0:
                return ('one',)
            bad(node, "numeric literal")
        if (isinstance(node, ast.Call) and _src(node.func) == 'np.exp'
                and len(node.args) == 1 and not node.keywords):
            a = node.args[0]
            if (isinstance(a, ast.BinOp) and isinstance(a.op, ast.Mult)
                    and isinstance(a.left, ast.Constant) and a.left.value == 1j
                    and isinstance(a.right, ast.Name)
                    and self.env.get(a.right.id) == 'Z'):
                return ('expi', ('var', a.right.id))
            bad(node, "np.exp argument")
        if isinstance(node, ast.Name) and self.env.get(node.id) == 'Z':
            return ('var', node.id)
        return None

    def is_num(self, node):
        try:
            return self.num(node) is not None
        except Unsupported:
            return False

    def expr(self, node):
        n = None
        if isinstance(node, (ast.Constant, ast.UnaryOp)) or (
                isinstance(node, ast.Call) and _src(node.func) == 'np.exp'):
            n = self.num(node)
            if n is None:
                bad(node, "scalar")
            return n
        if isinstance(node, ast.Name):
            if node.id not in self.env:
                bad(node, "unknown name")
            return ('var', node.id)
        if isinstance(node, ast.Attribute):
            # X.data of an operand / super variable is the same matrix
            if node.attr == 'data':
                return self.expr(node.value)
            bad(node, "attribute")
        if isinstance(node, ast.BinOp):
            l, r = self.expr(node.left), self.expr(node.right)
            kl, kr = self.kind(l), self.kind(r)
            op = type(node.op)
            if op in (ast.Mult, ast.MatMult):
                if kl == 'Z' and kr == 'S' and op is ast.Mult:
                    return ('SScale', l, r)
                if kl == 'S' and kr == 'Z' and op is ast.Mult:
                    return ('SScale', r, l)
                if kl == 'Z' and kr == 'O' and op is ast.Mult:
                    return ('OScale', l, r)
                if kl == 'S' and kr == 'S':
                    return ('SMul', l, r)
                if kl == 'O' and kr == 'O':
                    return ('OMul', l, r)
            if op is ast.Sub and kl == 'S' and kr == 'S':
                return ('SSub', l, r)
            if op is ast.Add and kl == 'S' and kr == 'S':
                return ('SAdd', l, r, ('one',))
            bad(node, "binary operation %s %s" % (kl, kr))
        if isinstance(node, ast.Call):
            return self.call(node)
        bad(node, "expression")

    def call(self, node):
        f = _src(node.func)
        args = node.args
        kws = {k.arg: k.value for k in node.keywords}
        # methods of operands
        if isinstance(node.func, ast.Attribute) and not args and not kws:
            if node.func.attr in ('adjoint', 'dag'):
                o = self.expr(node.func.value)
                if self.kind(o) == 'O':
                    return ('OAdj', o)
            if node.func.attr == 'conj':
                o = self.expr(node.func.value)
                if self.kind(o) == 'O':
                    return ('OConj', o)
            if node.func.attr == 'transpose':
                o = self.expr(node.func.value)
                if self.kind(o) == 'O':
                    return ('OTr', o)
        if f == '_data.identity_like' and len(args) == 1 and not kws:
            if self.kind(self.expr(args[0])) == 'O':
                return ('OId',)
        if f == '_data.identity[cls]' and len(args) == 1 and not kws:
            return ('OId',)
        if f in ('_data.kron', '_data.kron_transpose') and len(args) == 2 and not kws:
            b, a = self.expr(args[0]), self.expr(args[1])
            if self.kind(b) == 'O' and self.kind(a) == 'O':
                return ('SKron' if f == '_data.kron' else 'SKronT', b, a)
        if f == '_data.mul' and len(args) == 2 and not kws:
            x, z = self.expr(args[0]), self.expr(args[1])
            if self.kind(z) == 'Z' and self.kind(x) in 'OS':
                return ('SScale' if self.kind(x) == 'S' else 'OScale', z, x)
        if f == '_data.add' and len(args) in (2, 3) and set(kws) <= {'scale'}:
            l, r = self.expr(args[0]), self.expr(args[1])
            z = ('one',)
            if len(args) == 3:
                z = self.expr(args[2])
            if 'scale' in kws:
                if len(args) == 3:
                    bad(node, "scale given twice")
                z = self.expr(kws['scale'])
            if self.kind(l) == 'S' and self.kind(r) == 'S' and self.kind(z) == 'Z':
                return ('SAdd', l, r, z)
        if f == '_data.sub' and len(args) == 2 and not kws:
            l, r = self.expr(args[0]), self.expr(args[1])
            if self.kind(l) == 'S' and self.kind(r) == 'S':
                return ('SSub', l, r)
        if f == '_data.matmul' and len(args) == 2 and not kws:
            l, r = self.expr(args[0]), self.expr(args[1])
            if self.kind(l) == 'O' and self.kind(r) == 'O':
                return ('OMul', l, r)
        if f == '_data.multiply' and len(args) == 2 and not kws:
            l, r = self.expr(args[0]), self.expr(args[1])
            if self.kind(l) == 'O' and self.kind(r) == 'O':
                return ('OHad', l, r)
        if f == '_data.transpose' and len(args) == 1 and not kws:
            o = self.expr(args[0])
            if self.kind(o) == 'O':
                return ('OTr', o)
        if f == '_data.to' and len(args) == 2 and not kws and _src(args[0]) == 'cls':
            return self.expr(args[1])
        if f == '_data.Dense' and len(args) == 1 and not kws:
            o = self.expr(args[0])
            if self.kind(o) == 'O':
                return o
        # Qobj(data, dims=..., superrep=..., isherm=..., copy=False): the
        # matrix of the result is its first argument (flags/dims: C03/C02)
        if f == 'Qobj' and len(args) == 1 and set(kws) <= {
                'dims', 'superrep', 'isherm', 'copy'}:
            return self.expr(args[0])
        if f in self.funcs:
            kinds, order = self.funcs[f]
            vals = {}
            for k, a in zip(order, args):
                vals[k] = self.expr(a)
            for k, a in kws.items():
                if k not in order or k in vals:
                    bad(node, "keyword")
                vals[k] = self.expr(a)
            out = []
            for k in order:
                if k in vals:
                    out.append(vals[k])
                elif f == 'lindblad_dissipator' and k == 'b':
                    out.append(vals['a'])          # `if b is None: b = a`
                elif f == 'lindblad_dissipator' and k == 'chi':
                    out.append(('zero',))          # chi=None is falsy
                else:
                    bad(node, "missing argument " + k)
            for k, v in zip(order, out):
                if v != ('zero',) and self.kind(v) != kinds[k]:
                    bad(node, "argument kind")
            return ('call', f, out)
        bad(node, "call")


# ------------------------------------------------------------- statements
def is_guard(st):
    """`if cond: raise ...` with no else."""
    return (isinstance(st, ast.If) and not st.orelse and len(st.body) == 1
            and isinstance(st.body[0], ast.Raise))


def block(tr, stmts, ret_required=True):
    """Translate a straight-line block ending in a return into nested lets."""
    if not stmts:
        if ret_required:
            raise Unsupported("block without return")
        return None
    st, rest = stmts[0], stmts[1:]
    if isinstance(st, ast.Expr) and isinstance(st.value, ast.Constant):
        return block(tr, rest, ret_required)            # docstring
    if isinstance(st, ast.ImportFrom):
        return block(tr, rest, ret_required)
    if is_guard(st):
        return block(tr, rest, ret_required)
    if isinstance(st, ast.Assign) and len(st.targets) == 1 and isinstance(
            st.targets[0], ast.Name):
        e = tr.expr(st.value)
        name = st.targets[0].id
        tr2 = type(tr)(tr.env, tr.funcs)
        tr2.env[name] = tr.kind(e)
        return ('let', name, e, block(tr2, rest, ret_required))
    if isinstance(st, ast.AugAssign) and isinstance(st.op, ast.Add) and isinstance(
            st.target, ast.Name):
        name = st.target.id
        if tr.env.get(name) != 'S':
            bad(st, "+= on non-super")
        r = tr.expr(st.value)
        if tr.kind(r) != 'S':
            bad(st, "+= of non-super")
        return ('let', name, ('SAdd', ('var', name), r, ('one',)),
                block(tr, rest, ret_required))
    if isinstance(st, ast.For):
        # for c_op, chi_ in zip(c_ops, chi): <assignments>
        if (_src(st.target) != '(c_op, chi_)' and _src(st.target) != 'c_op, chi_') \
                or _src(st.iter) != 'zip(c_ops, chi)' or st.orelse:
            bad(st, "loop header")
        tr2 = type(tr)(tr.env, tr.funcs)
        tr2.env['c_op'] = 'O'
        tr2.env['chi_'] = 'Z'
        carried = set()
        for s in st.body:
            if not (isinstance(s, ast.Assign) and len(s.targets) == 1
                    and isinstance(s.targets[0], ast.Name)):
                bad(s, "loop body statement")
            if s.targets[0].id in tr.env:
                carried.add(s.targets[0].id)
        if len(carried) != 1:
            bad(st, "exactly one loop-carried variable expected")
        acc = carried.pop()
        body = block(tr2, list(st.body) + [ast.Return(value=ast.Name(id=acc))])
        return ('let', acc, ('fold', acc, ('var', acc), body, ('var', 'cs')),
                block(tr, rest, ret_required))
    if isinstance(st, ast.Return):
        if rest:
            bad(rest[0], "code after return")
        return ret_value(tr, st.value)
    if isinstance(st, ast.If):
        t = _src(st.test)
        if t == 'data_only' and st.orelse:
            a = block(tr, st.body)
            b = block(tr, st.orelse)
            if rest:
                bad(rest[0], "code after if/else return")
            if strip_lets(a) != strip_lets(b):
                bad(st, "data_only branches return different matrices")
            return a
        if t == 'chi' and st.orelse and tr.env.get('chi') == 'Z':
            a = block(tr, st.body + rest)
            b = block(tr, st.orelse + rest)
            return ('ifnz', ('var', 'chi'), a, b)
        if t == 'b is None' and not st.orelse and _src(st.body[0]) == 'b = a' \
                and len(st.body) == 1:
            return block(tr, rest, ret_required)   # handled at call sites
    bad(st, "statement")


def strip_lets(ir):
    return ir


def ret_value(tr, v):
    # `X.data if data_only else X`  /  `X`
    if isinstance(v, ast.IfExp) and _src(v.test) == 'data_only':
        a, b = tr.expr(v.body), tr.expr(v.orelse)
        if a != b:
            bad(v, "data_only alternatives differ")
        return a
    e = tr.expr(v)
    if tr.kind(e) != 'S':
        bad(v, "return of a non-superoperator")
    return e


# --------------------------------------------------------------- functions
FUNCS = {
    'spre': ({'A': 'O'}, ['A']),
    'spost': ({'A': 'O'}, ['A']),
    'sprepost': ({'A': 'O', 'B': 'O'}, ['A', 'B']),
    'lindblad_dissipator': ({'a': 'O', 'b': 'O', 'chi': 'Z'}, ['a', 'b', 'chi']),
}


def find_func(tree, name):
    for node in tree.body:
        if isinstance(node, ast.FunctionDef) and node.name == name:
            # the @overload stubs have a body of a single Ellipsis
            if len(node.body) == 1 and isinstance(node.body[0], ast.Expr) and \
                    isinstance(node.body[0].value, ast.Constant) and \
                    node.body[0].value.value is Ellipsis:
                continue
            return node
    raise Unsupported("function %s not found" % name)


def params(fn):
    return [a.arg for a in fn.args.args]


def tx_simple(tree, name):
    fn = find_func(tree, name)
    kinds, order = FUNCS[name]
    got = [p for p in params(fn) if p != 'data_only']
    if got != order:
        raise Unsupported("%s: parameters %r" % (name, params(fn)))
    body = list(fn.body)
    if name == 'sprepost':
        # the QobjEvo branch `return spre(A) * spost(B)` is a separate route
        first = [s for s in body if isinstance(s, ast.If)
                 and 'QobjEvo' in _src(s.test)]
        if len(first) != 1 or len(first[0].body) != 1 or first[0].orelse:
            raise Unsupported("sprepost: QobjEvo branch")
        body = [s for s in body if s is not first[0]]
        # dims = [...] bookkeeping is C02's
        body = [s for s in body if not (isinstance(s, ast.Assign)
                and _src(s.targets[0]) == 'dims')]
        tr = Tr(kinds, FUNCS)
        evo = block(tr, first[0].body)
        main = block(tr, body)
        return {'sprepost': main, 'sprepost_evo': evo}
    if name == 'lindblad_dissipator':
        body = [s for s in body if not (is_guard(s) and 'data_only' in _src(s.test))]
    tr = Tr(kinds, FUNCS)
    return {name: block(tr, body)}


def tx_liouvillian(tree):
    fn = find_func(tree, 'liouvillian')
    if params(fn) != ['H', 'c_ops', 'data_only', 'chi']:
        raise Unsupported("liouvillian: parameters %r" % params(fn))
    body = [s for s in fn.body
            if not (isinstance(s, ast.Expr) and isinstance(s.value, ast.Constant))
            and not isinstance(s, ast.ImportFrom)]
    # --- preamble: argument normalisation (modelled: cs = zip(c_ops, chi),
    # chi defaulting to zeros; validated by the correspondence harness)
    pre_expected = [
        "c_ops = c_ops or []",
        "chi = chi or [0] * len(c_ops)",
    ]
    idx = 0
    seen = []
    while idx < len(body):
        s = body[idx]
        if is_guard(s):
            idx += 1
            continue
        if isinstance(s, ast.If) and _src(s.test).startswith('isinstance(c_ops,') \
                and len(s.body) == 1 and _src(s.body[0]) == 'c_ops = [c_ops]':
            idx += 1
            continue
        if isinstance(s, ast.Assign) and _src(s) in pre_expected:
            seen.append(_src(s))
            idx += 1
            continue
        break
    if seen != pre_expected:
        raise Unsupported("liouvillian: preamble changed: %r" % seen)
    rest = body[idx:]
    # --- route 1: `if H is None:` (dissipators only) / elif not H.isoper: raise
    if not (rest and isinstance(rest[0], ast.If) and _src(rest[0].test) == 'H is None'):
        raise Unsupported("liouvillian: expected `if H is None`")
    noh = [s for s in rest[0].body if not is_guard(s)]
    if not (len(rest[0].orelse) == 1 and is_guard(rest[0].orelse[0])):
        raise Unsupported("liouvillian: expected `elif not H.isoper: raise`")
    env_noh = {'c_ops': 'L', 'chi': 'L'}
    env = {'H': 'O', 'c_ops': 'L', 'chi': 'L'}
    out = {}
    out['liouvillian_noH'] = block(TrL(env_noh, FUNCS), noh)
    rest = rest[1:]
    # --- route 2: QobjEvo branch
    if not (rest and isinstance(rest[0], ast.If) and 'QobjEvo' in _src(rest[0].test)
            and not rest[0].orelse):
        raise Unsupported("liouvillian: expected the QobjEvo branch")
    out['liouvillian_qobj'] = block(TrL(env, FUNCS), rest[0].body)
    # --- route 3: data-layer assembly
    out['liouvillian_data'] = block(TrL(env, FUNCS), rest[1:])
    return out


class TrL(Tr):
    """Tr + the generator expression sum(lindblad_dissipator(c_op, chi=chi_)
    for c_op, chi_ in zip(c_ops, chi))."""

    def call(self, node):
        if _src(node.func) == 'sum' and len(node.args) == 1 and not node.keywords \
                and isinstance(node.args[0], ast.GeneratorExp):
            g = node.args[0]
            if len(g.generators) != 1:
                bad(node, "generator")
            c = g.generators[0]
            if _src(c.target) not in ('(c_op, chi_)', 'c_op, chi_') or \
                    _src(c.iter) != 'zip(c_ops, chi)' or c.ifs:
                bad(node, "generator header")
            tr2 = TrL(self.env, self.funcs)
            tr2.env['c_op'] = 'O'
            tr2.env['chi_'] = 'Z'
            elt = tr2.expr(g.elt)
            if tr2.kind(elt) != 'S':
                bad(node, "generator element")
            # Python: sum(it) = ((0 + x1) + x2) + ...
            return ('fold', '_acc', ('SZero',),
                    ('SAdd', ('var', '_acc'), elt, ('one',)), ('var', 'cs'))
        return Tr.call(self, node)

    def kind(self, ir):
        if ir[0] == 'var' and ir[1] == '_acc':
            return 'S'
        return Tr.kind(self, ir)


def tx_br_term_data():
    """_brtensor.pyx::_br_term_data, the part before the secular cut-off mask
    (`if cutoff == np.inf: return out`).  The Cython declarations are dropped
    (cdef lines, typed signature); everything else must parse as Python."""
    path = os.path.join(vlib.REPO, "qutip/core/_brtensor.pyx")
    txt = open(path).read()
    m = re.search(r"^cpdef Data _br_term_data\(Data A, double\[:, ::1\] spectrum,\s*\n"
                  r"\s*double\[:, ::1\] skew, double cutoff\):\n(.*?)"
                  r"^    if cutoff == np\.inf:\n\s+return out\n", txt, re.S | re.M)
    if not m:
        raise Unsupported("_br_term_data: signature or cut-off test changed")
    lines = []
    for ln in m.group(1).split("\n"):
        if re.match(r"\s*cdef ", ln):
            if "=" in ln and ln.strip() not in (
                    "cdef int nrows = A.shape[0], a, b, c, d",
                    "cdef type cls = type(A)"):
                raise Unsupported("_br_term_data: cdef with initialiser: " + ln)
            continue
        lines.append(ln)
    src = "def _br_term_data(A, spectrum):\n" + "\n".join(lines) + "\n    return out\n"
    try:
        fn = ast.parse(src).body[0]
    except SyntaxError as e:
        raise Unsupported("_br_term_data does not parse after stripping: %s" % e)
    tr = Tr({'A': 'O', 'spectrum': 'O'}, {})
    return {'br_term_data': block(tr, fn.body)}


# ------------------------------------------------------------ Coq emission
def coq_scalar(z):
    t = z[0]
    if t == 'i':
        return "i"
    if t == 'h':
        return "h"
    if t == 'one':
        return "1"
    if t == 'zero':
        return "0"
    if t == 'neg':
        return "(- %s)" % coq_scalar(z[1])
    if t == 'expi':
        return "(expi %s)" % coq_scalar(z[1])
    if t == 'var':
        return cname(z[1])
    raise Unsupported("scalar %r" % (z,))


def cname(x):
    return {'_acc': 'acc_', 'c_op': 'c_op', 'chi_': 'chi_'}.get(x, 'v_' + x)


GEN_NAME = {'spre': 'gen_spre', 'spost': 'gen_spost', 'sprepost': 'gen_sprepost',
            'lindblad_dissipator': 'gen_lindblad_dissipator'}


def coq(ir, ind=2):
    t = ir[0]
    sp = " " * ind
    if t == 'var':
        return cname(ir[1])
    if t == 'OId':
        return "OId"
    if t == 'SZero':
        return "SZero"
    if t in ('OAdj', 'OConj', 'OTr'):
        return "(%s %s)" % (t, coq(ir[1], ind))
    if t in ('OMul', 'OHad', 'SKron', 'SKronT', 'SSub', 'SMul'):
        return "(%s %s %s)" % (t, coq(ir[1], ind), coq(ir[2], ind))
    if t in ('OScale', 'SScale'):
        return "(%s %s %s)" % (t, coq_scalar(ir[1]), coq(ir[2], ind))
    if t == 'SAdd':
        return "(SAdd %s %s %s)" % (coq(ir[1], ind), coq(ir[2], ind), coq_scalar(ir[3]))
    if t == 'call':
        return "(%s %s)" % (GEN_NAME[ir[1]], " ".join(
            coq_scalar(a) if a[0] in ('zero',) or (a[0] == 'var' and a[1] in ('chi', 'chi_'))
            else coq(a, ind) for a in ir[2]))
    if t == 'let':
        return "\n%slet %s := %s in %s" % (sp, cname(ir[1]), coq(ir[2], ind + 2),
                                           coq(ir[3], ind))
    if t == 'ifnz':
        return "\n%sif %s != 0 then %s\n%selse %s" % (
            sp, coq_scalar(ir[1]), coq(ir[2], ind + 2), sp, coq(ir[3], ind + 2))
    if t == 'fold':
        return ("(foldl (fun (%s : Sexpr) (p_ : Oexpr * R) =>\n%s  let c_op := p_.1 in "
                "let chi_ := p_.2 in %s)\n%s  %s v_cs)" % (
                    cname(ir[1]), sp, coq(ir[3], ind + 4), sp, coq(ir[2], ind)))
    raise Unsupported("emit %r" % (t,))


HEADER = """(* GENERATED by tools/tx_c07_superop.py from %s - do not edit.
   Terms built by qutip/core/superoperator.py (spre, spost, sprepost,
   lindblad_dissipator, liouvillian: three routes) and by
   qutip/core/_brtensor.pyx::_br_term_data (before the secular mask). *)
From mathcomp Require Import all_ssreflect all_algebra.
From mathcomp Require Import mxtens.
From QV Require Import Base.MxHerm Model.C07.
Set Implicit Arguments. Unset Strict Implicit. Unset Printing Implicit Defensive.
Import GRing.Theory.
Local Open Scope ring_scope.

Section Gen.
Variable R : fieldType.
Variable n : nat.
Variable i : R.          (* 1j *)
Variable h : R.          (* 0.5 *)
Variable expi : R -> R.  (* chi |-> np.exp(1j*chi) *)
Local Notation Oexpr := (Oexpr R n).
Local Notation Sexpr := (Sexpr R n).
"""

SIGS = [
    ('spre', 'gen_spre', '(v_A : Oexpr)'),
    ('spost', 'gen_spost', '(v_A : Oexpr)'),
    ('sprepost', 'gen_sprepost', '(v_A v_B : Oexpr)'),
    ('sprepost_evo', 'gen_sprepost_evo', '(v_A v_B : Oexpr)'),
    ('lindblad_dissipator', 'gen_lindblad_dissipator', '(v_a v_b : Oexpr) (v_chi : R)'),
    ('liouvillian_noH', 'gen_liouvillian_noH', '(v_cs : seq (Oexpr * R))'),
    ('liouvillian_qobj', 'gen_liouvillian_qobj', '(v_H : Oexpr) (v_cs : seq (Oexpr * R))'),
    ('liouvillian_data', 'gen_liouvillian_data', '(v_H : Oexpr) (v_cs : seq (Oexpr * R))'),
    ('br_term_data', 'gen_br_term_data', '(v_A v_spectrum : Oexpr)'),
]


def translate():
    path = os.path.join(vlib.REPO, "qutip/core/superoperator.py")
    tree = ast.parse(open(path).read())
    terms = {}
    for name in ('spre', 'spost', 'sprepost', 'lindblad_dissipator'):
        terms.update(tx_simple(tree, name))
    terms.update(tx_liouvillian(tree))
    terms.update(tx_br_term_data())
    return terms


def emit(terms):
    out = [HEADER % "qutip/core/superoperator.py, qutip/core/_brtensor.pyx"]
    for key, gname, sig in SIGS:
        out.append("Definition %s %s : Sexpr := %s.\n" % (gname, sig, coq(terms[key])))
    out.append("End Gen.\n")
    return "\n".join(out)


def generate():
    terms = translate()
    txt = emit(terms)
    gen = os.path.join(vlib.COQ, "Gen")
    os.makedirs(gen, exist_ok=True)
    p = os.path.join(gen, "C07_terms.v")
    old = open(p).read() if os.path.exists(p) else None
    if old != txt:
        with open(p, "w") as f:
            f.write(txt)
    return terms


# ------------------------------------------------------ Python evaluation
class Eval:
    """Evaluate the IR with numpy on exact (Gaussian dyadic) complex matrices.
    den: the (n*n)x(n*n) matrix; act: the action on an n x n matrix X."""

    def __init__(self, terms, expi):
        import numpy as np
        self.np = np
        self.terms = terms
        self.expi = expi

    def scalar(self, z, env):
        t = z[0]
        if t == 'i':
            return 1j
        if t == 'h':
            return 0.5
        if t == 'one':
            return 1.0
        if t == 'zero':
            return 0
        if t == 'neg':
            return -self.scalar(z[1], env)
        if t == 'expi':
            return self.expi(self.scalar(z[1], env))
        if t == 'var':
            return env[z[1]]
        raise Unsupported(repr(z))

    def oden(self, o, env):
        np = self.np
        t = o[0]
        if t == 'var':
            return env[o[1]]
        if t == 'OId':
            return np.eye(env['_n'], dtype=complex)
        if t == 'OAdj':
            return self.oden(o[1], env).conj().T
        if t == 'OConj':
            return self.oden(o[1], env).conj()
        if t == 'OTr':
            return self.oden(o[1], env).T
        if t == 'OMul':
            return self.oden(o[1], env) @ self.oden(o[2], env)
        if t == 'OHad':
            return self.oden(o[1], env) * self.oden(o[2], env)
        if t == 'OScale':
            return self.scalar(o[1], env) * self.oden(o[2], env)
        if t == 'let':
            e2 = dict(env)
            e2[o[1]] = self.value(o[2], env)
            return self.oden(o[3], e2)
        raise Unsupported(repr(o)[:80])

    def value(self, e, env):
        """operand matrix, scalar, or ('S', ir, env) closure for a super."""
        t = e[0]
        if t in ('i', 'h', 'one', 'zero', 'neg', 'expi'):
            return self.scalar(e, env)
        if t == 'var':
            return env[e[1]]
        if t.startswith('O'):
            return self.oden(e, env)
        return ('S', e, env)

    def run(self, e, env, X):
        """returns den(e) if X is None else act(e)(X)."""
        np = self.np
        t = e[0]
        n = env['_n']
        if t == 'var':
            tag, e2, env2 = env[e[1]]
            return self.run(e2, env2, X)
        if t == 'let':
            env2 = dict(env)
            env2[e[1]] = self.value(e[2], env)
            return self.run(e[3], env2, X)
        if t == 'ifnz':
            return self.run(e[2] if self.scalar(e[1], env) != 0 else e[3], env, X)
        if t == 'SZero':
            return np.zeros((n * n, n * n), dtype=complex) if X is None else \
                np.zeros((n, n), dtype=complex)
        if t in ('SKron', 'SKronT'):
            b, a = self.oden(e[1], env), self.oden(e[2], env)
            if X is None:
                return np.kron(b if t == 'SKron' else b.T, a)
            return a @ X @ (b.T if t == 'SKron' else b)
        if t == 'SAdd':
            return self.run(e[1], env, X) + self.scalar(e[3], env) * self.run(e[2], env, X)
        if t == 'SSub':
            return self.run(e[1], env, X) - self.run(e[2], env, X)
        if t == 'SScale':
            return self.scalar(e[1], env) * self.run(e[2], env, X)
        if t == 'SMul':
            if X is None:
                return self.run(e[1], env, None) @ self.run(e[2], env, None)
            return self.run(e[1], env, self.run(e[2], env, X))
        if t == 'call':
            return self.apply(e[1], [self.value(a, env) for a in e[2]], n, X)
        if t == 'fold':
            acc = self.value(e[2], env)
            for c_op, chi_ in env['cs']:
                env2 = dict(env)
                env2[e[1]] = acc
                env2['c_op'] = c_op
                env2['chi_'] = chi_
                acc = ('S', e[3], env2)
            return self.run(acc[1], acc[2], X)
        raise Unsupported(repr(e)[:80])

    PARAMS = {'spre': ['A'], 'spost': ['A'], 'sprepost': ['A', 'B'],
              'sprepost_evo': ['A', 'B'],
              'lindblad_dissipator': ['a', 'b', 'chi'],
              'liouvillian_noH': ['cs'], 'liouvillian_qobj': ['H', 'cs'],
              'liouvillian_data': ['H', 'cs'], 'br_term_data': ['A', 'spectrum']}

    def apply(self, fname, args, n, X=None):
        env = dict(zip(self.PARAMS[fname], args))
        env['_n'] = n
        return self.run(self.terms[fname], env, X)


if __name__ == "__main__":
    t = generate()
    print(open(os.path.join(vlib.COQ, "Gen", "C07_terms.v")).read())
