#!/bin/sh
# tools/prep_seed.sh <ID_k> ["avoid text"] : scratch worktree /tmp/seed_<ID_k> with TASK.md for an independent mutant writer
set -e
N="$1"; D=/tmp/seed_$N
[ -d "$D" ] && { echo "$D exists"; exit 1; }
/verif/tools/mk_seed_wt.sh "$D" >/dev/null
cp /verif/.prompts/seed/$N.txt "$D/TASK.md"
cat >> "$D/TASK.md" <<EOF

IMPORTANT ENVIRONMENT RULES
 * NEVER use \`git stash\` (the stash is shared between worktrees of the same repository and other people are working in sibling worktrees): to run something without your change use \`git -C $D diff -- qutip > /tmp/seed_${N}_my.patch; git -C $D apply -R /tmp/seed_${N}_my.patch\` and re-apply with \`git -C $D apply /tmp/seed_${N}_my.patch\` (rebuild extensions in between if a .pyx changed).
 * Run every python / pytest command with a private home and single-threaded BLAS:  \`HOME=${D}_home OMP_NUM_THREADS=1 OPENBLAS_NUM_THREADS=1 MKL_NUM_THREADS=1\` (mkdir -p ${D}_home first).  qutip's test-suite deletes files under ~/.qutip and in the current directory; never run pytest with the worktree root's parent as cwd and never share HOME.
 * The machine is heavily loaded: prefer the directly relevant test files over whole directories, use -n 4, and be patient with timeouts (allow 30+ minutes for a test run).
$2
EOF
mkdir -p ${D}_home
echo "$D prepared"
