"""Translator (T) for C18: reads qutip/solver/steadystate.py with `ast` and
emits coq/Gen/C18_bookkeeping.v - the index / permutation bookkeeping of

    _permute_wbm, _permute_rcm, _reverse_rcm          (whole bodies)
    _steadystate_direct                               (weight row, right-hand
        side, order of the reorderings, reversal, unstacking, Hermitisation)

as Gallina terms over the primitives of coq/Model/C18.v (argsort, perm_rows,
perm_rows_mx, perm_full, stack, unstack, fdiag, fouter, fadd, one_element,
adjoint).  The results of scipy's maximum_bipartite_matching /
reverse_cuthill_mckee and of _data.solve are inputs of the generated terms
(oracles).  coq/Proofs/C18_gen.v proves the generated terms equal to the
model the theorems are stated over, so an edit of the bookkeeping either
regenerates the same terms or breaks that proof.

Fails closed: any statement or expression outside the subset raises
Unsupported.  Works on the AST: comments, layout and local names do not
reach the output."""
import ast
import os

import vlib


class Unsupported(Exception):
    pass


def _u(node):
    return ast.unparse(node)


def _is_call(node, dotted):
    return isinstance(node, ast.Call) and _u(node.func) == dotted


class Env:
    def __init__(self):
        self.kind = {}      # python name -> 'mx' | 'vec' | 'perm' | 'scalar'
        self.coq = {}       # python name -> coq identifier currently bound

    def bind(self, name, kind, coq=None):
        self.kind[name] = kind
        self.coq[name] = coq or name

    def get(self, name, kind=None):
        if name not in self.kind:
            raise Unsupported("unknown name %s" % name)
        if kind and self.kind[name] != kind:
            raise Unsupported("%s is a %s, expected %s" % (name, self.kind[name], kind))
        return self.coq[name]


def _int_const(node):
    if isinstance(node, ast.Constant) and isinstance(node.value, int) \
            and not isinstance(node.value, bool) and node.value >= 0:
        return node.value
    raise Unsupported("index is not a non-negative integer literal: " + _u(node))


def expr(node, env, oracles):
    """returns (coq_term, kind)"""
    if isinstance(node, ast.Name):
        return env.get(node.id), env.kind[node.id]
    if isinstance(node, ast.Attribute) and node.attr == "data" and isinstance(node.value, ast.Name):
        return env.get(node.value.id, "mx"), "mx"                       # A.data
    if _is_call(node, "np.argsort") and len(node.args) == 1 and not node.keywords:
        t, k = expr(node.args[0], env, oracles)
        if k != "perm":
            raise Unsupported("argsort of a non-permutation")
        return "(argsort %s)" % t, "perm"
    for fn, oname in (("scipy.sparse.csgraph.maximum_bipartite_matching", "m_oracle"),
                      ("scipy.sparse.csgraph.reverse_cuthill_mckee", "r_oracle")):
        if _is_call(node, fn):
            if len(node.args) != 1 or node.keywords or not (
                    _is_call(node.args[0], _u(node.args[0].func)) and
                    isinstance(node.args[0].func, ast.Attribute) and
                    node.args[0].func.attr == "as_scipy" and
                    isinstance(node.args[0].func.value, ast.Name)):
                raise Unsupported("unexpected arguments of " + fn)
            env.get(node.args[0].func.value.id, "mx")
            oracles.append(oname)
            return oname, "perm"
    if _is_call(node, "_data.permute.indices"):
        if len(node.args) != 3:
            raise Unsupported("permute.indices needs 3 positional arguments")
        x, kx = expr(node.args[0], env, oracles)
        for kw in node.keywords:
            if kw.arg != "dtype" or _u(kw.value) != "type(%s)" % _u(node.args[0]):
                raise Unsupported("permute.indices keyword " + _u(kw.value))

        def perm_or_none(a):
            if isinstance(a, ast.Constant) and a.value is None:
                return None
            t, k = expr(a, env, oracles)
            if k != "perm":
                raise Unsupported("permute.indices with a non-permutation")
            return t
        p, q = perm_or_none(node.args[1]), perm_or_none(node.args[2])
        if kx == "vec":
            if p is None or q is not None:
                raise Unsupported("vector permuted other than by rows")
            return "(perm_rows %s %s)" % (p, x), "vec"
        if kx == "mx":
            if p is None:
                raise Unsupported("column-only permutation")
            if q is None:
                return "(perm_rows_mx %s %s)" % (p, x), "mx"
            return "(perm_full %s %s %s)" % (p, q, x), "mx"
        raise Unsupported("permute.indices of a " + kx)
    if _is_call(node, "_data.diag"):
        if len(node.args) != 2 or [k.arg for k in node.keywords] not in ([], ["dtype"]):
            raise Unsupported("diag arguments")
        lst = node.args[0]
        if not (isinstance(lst, ast.BinOp) and isinstance(lst.op, ast.Mult)
                and isinstance(lst.left, ast.List) and len(lst.left.elts) == 1
                and isinstance(lst.right, ast.Name) and lst.right.id == "n"):
            raise Unsupported("diag of something else than [w] * n")
        w, kw_ = expr(lst.left.elts[0], env, oracles)
        if kw_ != "scalar":
            raise Unsupported("diag entries are not scalars")
        return "(fdiag zero %s %d)" % (w, _int_const(node.args[1])), "mx"
    if _is_call(node, "_data.column_stack") and len(node.args) == 1 and not node.keywords:
        t, k = expr(node.args[0], env, oracles)
        if k != "mx":
            raise Unsupported("column_stack of a non-matrix")
        return "(stack n %s)" % t, "vec"
    if _is_call(node, "_data.column_unstack") and len(node.args) == 2 and not node.keywords:
        t, k = expr(node.args[0], env, oracles)
        if k != "vec" or _u(node.args[1]) != "n":
            raise Unsupported("column_unstack arguments")
        return "(unstack n %s)" % t, "mx"
    if isinstance(node, ast.Call) and isinstance(node.func, ast.Subscript) \
            and _u(node.func.value) == "_data.one_element":
        if len(node.args) != 3 or node.keywords or _u(node.args[0]) != "(N, 1)":
            raise Unsupported("one_element shape")
        pos = node.args[1]
        if not (isinstance(pos, ast.Tuple) and len(pos.elts) == 2 and _int_const(pos.elts[1]) == 0):
            raise Unsupported("one_element position")
        r = _int_const(pos.elts[0])
        v = node.args[2]
        if isinstance(v, ast.Constant) and v.value == 1 and not isinstance(v.value, bool):
            vt = "one"
        else:
            vt, k = expr(v, env, oracles)
            if k != "scalar":
                raise Unsupported("one_element value")
        return "(one_element zero %d %s)" % (r, vt), "vec"
    if _is_call(node, "_data.matmul") and len(node.args) == 2 and not node.keywords:
        c, kc = expr(node.args[0], env, oracles)
        rn = node.args[1]
        if not (isinstance(rn, ast.Call) and isinstance(rn.func, ast.Attribute)
                and rn.func.attr == "transpose" and not rn.args):
            raise Unsupported("matmul whose right factor is not a transposed vector")
        r, kr = expr(rn.func.value, env, oracles)
        if kc != "vec" or kr != "vec":
            raise Unsupported("matmul of other things than column x row")
        return "(fouter mul %s %s)" % (c, r), "mx"
    if _is_call(node, "_data.add") and len(node.args) == 2 and not node.keywords:
        a, ka = expr(node.args[0], env, oracles)
        b, kb = expr(node.args[1], env, oracles)
        if ka != "mx" or kb != "mx":
            raise Unsupported("add of non-matrices")
        return "(fadd add %s %s)" % (a, b), "mx"
    if isinstance(node, ast.Call) and isinstance(node.func, ast.Attribute) \
            and node.func.attr == "adjoint" and not node.args and not node.keywords:
        t, k = expr(node.func.value, env, oracles)
        if k != "mx":
            raise Unsupported("adjoint of a non-matrix")
        return "(adjoint cj %s)" % t, "mx"
    raise Unsupported("expression outside the subset: " + _u(node)[:80])


def small_function(fn, kinds):
    """fn: ast.FunctionDef whose body is assignments + one return.
    kinds: kinds of the parameters.  Returns (params, oracles, lets, ret)."""
    env = Env()
    params = [a.arg for a in fn.args.args]
    if len(params) != len(kinds):
        raise Unsupported("signature of %s changed" % fn.name)
    for p, k in zip(params, kinds):
        env.bind(p, k)
    oracles, lets, ret = [], [], None
    for st in fn.body:
        if isinstance(st, ast.Expr) and isinstance(st.value, ast.Constant):
            continue                                   # docstring
        if isinstance(st, ast.Assign) and len(st.targets) == 1 and isinstance(st.targets[0], ast.Name):
            t, k = expr(st.value, env, oracles)
            name = st.targets[0].id
            env.bind(name, k)
            lets.append((name, t))
        elif isinstance(st, ast.Return) and st is fn.body[-1]:
            v = st.value
            elts = v.elts if isinstance(v, ast.Tuple) else [v]
            ret = []
            for e in elts:
                t, k = expr(e, env, oracles)
                ret.append((t, k))
        else:
            raise Unsupported("statement outside the subset in %s: %s" % (fn.name, _u(st)[:80]))
    if ret is None:
        raise Unsupported("%s does not end in a return" % fn.name)
    return params, oracles, lets, ret


def emit_small(name, fn, kinds, want_oracle, want_ret):
    params, oracles, lets, ret = small_function(fn, kinds)
    if oracles != want_oracle:
        raise Unsupported("%s: oracle calls %s, expected %s" % (fn.name, oracles, want_oracle))
    if [k for _, k in ret] != want_ret:
        raise Unsupported("%s returns %s, expected %s" % (fn.name, [k for _, k in ret], want_ret))
    ty = {"mx": "fmx T", "vec": "fvec T", "perm": "seq nat"}
    args = " ".join("(%s : %s)" % (o, "seq nat") for o in oracles)
    args += " " + " ".join("(%s : %s)" % (p, ty[k]) for p, k in zip(params, kinds))
    body = "".join("  let %s := %s in\n" % (n, t) for n, t in lets)
    body += "  (" + ", ".join(t for t, _ in ret) + ")"
    return "Definition %s %s :=\n%s.\n" % (name, args.strip(), body)


# --------------------------------------------------------- _steadystate_direct
def _match(st, text):
    if _u(st) != text:
        raise Unsupported("expected `%s`, found `%s`" % (text, _u(st)[:100]))


def direct_function(fn):
    if [a.arg for a in fn.args.args] != ["A", "weight"] or fn.args.kwarg is None:
        raise Unsupported("signature of _steadystate_direct changed")
    body = [st for st in fn.body
            if not (isinstance(st, ast.Expr) and isinstance(st.value, ast.Constant))]
    it = iter(body)
    st = next(it)
    if not (isinstance(st, ast.If) and _u(st.test) == "weight"):
        raise Unsupported("weight prelude changed: " + _u(st)[:60])
    # the automatic weight (mean absolute entry) is numerics: any non-zero
    # scalar will do for the theorems; only require that nothing else is set
    for sub in ast.walk(st):
        if isinstance(sub, ast.Assign):
            for t in sub.targets:
                if _u(t) not in ("weight", "A_np"):
                    raise Unsupported("weight prelude assigns " + _u(t))
    _match(next(it), "N = A.shape[0]")
    _match(next(it), "n = int(N ** 0.5)")
    _match(next(it), "dtype = type(A.data)")
    st = next(it)
    if not (isinstance(st, ast.If) and _u(st.test) == "dtype == _data.Dia"
            and len(st.body) == 1 and _u(st.body[0]) == "dtype = _data.CSR" and not st.orelse):
        raise Unsupported("dtype selection changed")
    env = Env()
    env.bind("A", "mx")
    env.bind("weight", "scalar")
    oracles = []
    lets = []
    # the four assembling assignments (any local names)
    for _ in range(4):
        st = next(it)
        if not (isinstance(st, ast.Assign) and len(st.targets) == 1
                and isinstance(st.targets[0], ast.Name)):
            raise Unsupported("assembly statement: " + _u(st)[:80])
        t, k = expr(st.value, env, oracles)
        env.bind(st.targets[0].id, k)
        lets.append((st.targets[0].id, t, k))
    if oracles:
        raise Unsupported("oracle call inside the assembly")
    steps = []           # ordered: 'wbm', 'rcm'

    def reorder_if(st, opt, call_txt, extra):
        if not (isinstance(st, ast.If) and _u(st.test) == "kw.pop('%s', False)" % opt
                and len(st.body) == 1 and isinstance(st.body[0], ast.If) and not st.orelse):
            raise Unsupported("%s block changed" % opt)
        inner = st.body[0]
        if _u(inner.test) != "isinstance(L, _data.CSR)":
            raise Unsupported("%s guard changed: %s" % (opt, _u(inner.test)))
        got = [_u(x) for x in inner.body]
        if got != [call_txt] + extra:
            raise Unsupported("%s body changed: %s" % (opt, got))
        if len(inner.orelse) != 1 or not _u(inner.orelse[0]).startswith("warn("):
            raise Unsupported("%s else-branch changed" % opt)

    st = next(it)
    reorder_if(st, "use_wbm", "L, b = _permute_wbm(L, b)", [])
    steps.append("wbm")
    _match(next(it), "use_rcm = False")
    st = next(it)
    reorder_if(st, "use_rcm", "L, b, perm = _permute_rcm(L, b)", ["use_rcm = True"])
    steps.append("rcm")
    st = next(it)
    if not (isinstance(st, ast.If) and _u(st.test) == "kw.pop('use_precond', False)"):
        raise Unsupported("use_precond block changed")
    for sub in ast.walk(st):
        if isinstance(sub, (ast.Assign, ast.AugAssign)):
            tg = sub.targets if isinstance(sub, ast.Assign) else [sub.target]
            for t in tg:
                if _u(t) != "kw['M']":
                    raise Unsupported("use_precond block assigns " + _u(t))
    _match(next(it), "method = kw.pop('method', None)")
    _match(next(it), "steadystate = _data.solve(L, b, method, options=kw)")
    st = next(it)
    if not (isinstance(st, ast.If) and _u(st.test) == "use_rcm" and not st.orelse
            and [_u(x) for x in st.body] == ["steadystate = _reverse_rcm(steadystate, perm)"]):
        raise Unsupported("reversal block changed")
    # post-processing
    env2 = Env()
    env2.bind("steadystate", "vec", "x")
    post = []
    st = next(it)
    if not (isinstance(st, ast.Assign) and isinstance(st.targets[0], ast.Name)):
        raise Unsupported("unstack statement")
    t, k = expr(st.value, env2, [])
    env2.bind(st.targets[0].id, k)
    post.append((st.targets[0].id, t))
    st = next(it)
    if not (isinstance(st, ast.Assign) and isinstance(st.value, ast.BinOp)
            and isinstance(st.value.op, ast.Mult) and isinstance(st.value.right, ast.Constant)
            and st.value.right.value == 0.5):
        raise Unsupported("Hermitisation statement: " + _u(st)[:80])
    t, k = expr(st.value.left, env2, [])
    env2.bind(st.targets[0].id, k)
    post.append((st.targets[0].id, t))
    st = next(it)
    if not (isinstance(st, ast.Return) and _is_call(st.value, "Qobj")
            and _u(st.value.args[0]) == post[-1][0]
            and {k.arg: _u(k.value) for k in st.value.keywords}
            == {"dims": "A._dims[0].oper", "isherm": "True"}):
        raise Unsupported("return statement changed: " + _u(st)[:100])
    if list(it):
        raise Unsupported("statements after the return")
    # names of the assembled matrix / rhs: the ones handed to the reorderings
    if env.kind.get("L") != "mx" or env.kind.get("b") != "vec":
        raise Unsupported("assembled system is not called L, b")
    return lets, steps, post


def generate():
    path = os.path.join(vlib.REPO, "qutip", "solver", "steadystate.py")
    tree = ast.parse(open(path).read())
    fns = {n.name: n for n in tree.body if isinstance(n, ast.FunctionDef)}
    for need in ("_permute_wbm", "_permute_rcm", "_reverse_rcm", "_steadystate_direct"):
        if need not in fns:
            raise Unsupported("function %s not found" % need)
    out = ["(* GENERATED by tools/tx_c18_bookkeeping.py from qutip/solver/steadystate.py - do not edit *)",
           "From mathcomp Require Import all_ssreflect.",
           "From QV Require Import Model.C18.",
           "Set Implicit Arguments.", "Unset Strict Implicit.", "Unset Printing Implicit Defensive.",
           "Section Gen.", "Variable T : Type.",
           "Variables (zero one : T) (add mul : T -> T -> T) (cj : T -> T).", ""]
    out.append(emit_small("g_permute_wbm", fns["_permute_wbm"], ["mx", "vec"],
                          ["m_oracle"], ["mx", "vec"]))
    out.append(emit_small("g_permute_rcm", fns["_permute_rcm"], ["mx", "vec"],
                          ["r_oracle"], ["mx", "vec", "perm"]))
    out.append(emit_small("g_reverse_rcm", fns["_reverse_rcm"], ["vec", "perm"], [], ["vec"]))
    lets, steps, post = direct_function(fns["_steadystate_direct"])
    if steps != ["wbm", "rcm"]:
        raise Unsupported("order of the reorderings changed: %s" % steps)
    asm = "".join("  let %s := %s in\n" % (n, t) for n, t, _ in lets)
    out.append("Definition g_assemble (n : nat) (weight : T) (A : fmx T) :=\n%s  (L, b).\n" % asm)
    out.append(
        "Definition g_direct_system (n : nat) (weight : T) (A : fmx T) (wbm rcm : option (seq nat)) :=\n"
        "  let (L, b) := g_assemble n weight A in\n"
        "  let (L, b) := match wbm with Some m => g_permute_wbm m L b | None => (L, b) end in\n"
        "  match rcm with\n"
        "  | Some r => let '(L, b, perm) := g_permute_rcm r L b in (L, b, Some perm)\n"
        "  | None => (L, b, None)\n"
        "  end.\n")
    pst = "".join("  let %s := %s in\n" % (n, t) for n, t in post)
    out.append(
        "(* the source multiplies by the literal 0.5 afterwards: this is 2 * rho_ss *)\n"
        "Definition g_direct_post2 (n : nat) (x : fvec T) (perm : option (seq nat)) :=\n"
        "  let x := match perm with Some p => g_reverse_rcm x p | None => x end in\n"
        "%s  %s.\n" % (pst, post[-1][0]))
    out.append("End Gen.\n")
    text = "\n".join(out)
    gen = os.path.join(vlib.COQ, "Gen")
    os.makedirs(gen, exist_ok=True)
    p = os.path.join(gen, "C18_bookkeeping.v")
    old = open(p).read() if os.path.exists(p) else None
    if old != text:
        with open(p, "w") as f:
            f.write(text)
    return {"file": "Gen/C18_bookkeeping.v", "functions": ["_permute_wbm", "_permute_rcm",
            "_reverse_rcm", "_steadystate_direct"], "text": text}


if __name__ == "__main__":
    print(generate()["text"])
