"""Run every translator once (setup): writes coq/Gen/*.v from /repo."""
import importlib
import os
import sys
HERE = os.path.dirname(os.path.abspath(__file__))
sys.path.insert(0, HERE)
sys.path.insert(0, os.path.join(os.path.dirname(HERE), "tools"))
TRANSLATORS = []  # module names in tools/ exposing generate()
for name in sorted(os.listdir(os.path.join(os.path.dirname(HERE), "tools"))):
    if name.startswith("tx_") and name.endswith(".py"):
        TRANSLATORS.append(name[:-3])
rc = 0
for t in TRANSLATORS:
    m = importlib.import_module(t)
    try:
        m.generate()
        print("generated", t)
    except Exception as e:  # fail closed but keep going so make reports it
        print("translator", t, "failed:", e)
        rc = 1
sys.exit(0)
