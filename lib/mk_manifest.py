"""Regenerate /verif/MANIFEST.json from the table below (keeps it valid)."""
import json
import os
HERE = os.path.dirname(os.path.abspath(__file__))
VERIF = os.path.dirname(HERE)
BASELINE = ("cd /repo && env -u QUTIP_VERIF_HOOKS /venv/bin/python -m pytest -ra -q "
            "-p no:cacheprovider --timeout=900 --continue-on-collection-errors")

# id -> dict(text, note, technique, design_ref)
CLAIMED = {
 "C14": dict(
   text=("Machine-checked proof (Coq 8.16) over a small-step model of "
         "_generic_pmap/serial_map for every schedule, worker count, failing "
         "subset, fail_fast setting and expiry point: in-flight bound, "
         "exactly-once delivery to the reducer, positional results, errors "
         "never dropped, fewer than num_workers submissions after a stop "
         "signal, serial/parallel agreement.  The model is tied to "
         "parallel.py on every run by exact trace correspondence under a "
         "scripted executor, wait and clock."),
   note=("Trusted: Coq kernel, vm_compute, the scripted executor standing "
         "for ProcessPoolExecutor/loky/MPI and the OS scheduler, the "
         "hand-written model (validated by correspondence, not generated). "
         "Not proved: termination bound of the model loop (fuel), real "
         "process-pool behaviour (smoke run only)."),
   technique="Coq proof by invariant induction over schedules + trace correspondence (vm_compute) against the real _generic_pmap",
   design_ref="3/C14"),
 "C03": dict(
   text=("Machine-checked proof (Coq 8.16 + MathComp) that every flag site of the source "
         "(one theorem per Qobj(...) construction / in-place update in qobj.py, tensor.py, "
         "superoperator.py, solver_base.py) attaches isherm/isunitary values that are sound "
         "for the data it attaches them to, for all dimensions, all operand matrices over any "
         "field with involution, and all tri-state cache states; an induction over every finite "
         "history of operations and cache reads (C03_all_histories); and the consumer lemmas "
         "(trace/diag real, dag shortcut).  The flag expressions are regenerated from the "
         "current source by an ast translator on every run, validated against the flags real "
         "operations attach, and an oracle compares every definite cached answer with "
         "recomputation over ~10^4 operation/operand/cache-state/history combinations."),
   note=("Trusted: Coq kernel, MathComp 1.15, translator tx_c03_flags.py (fails closed), "
         "Section hypotheses on expm / solver evolution / unitary similarity, exact versions "
         "of the tolerance predicates.  Oracle-only (no theorem): trunc_neg, literal flags in "
         "superop_reps.py, QobjEvo.__call__ (Cython), tidyup, Qobj.data setter, transform "
         "with a non-unitary matrix.  Seven genuine defects were found and fixed (known_findings.json)."),
   technique="Coq/MathComp proof per generated flag term + induction over histories; ast translator regenerated each run; run-time flag correspondence; recomputation oracle",
   design_ref="3/C03"),
}

NOT_YET = {}


def main():
    props = [json.loads(l) for l in open(os.path.join(VERIF, "properties.jsonl"))]
    checks = []
    na = []
    for p in props:
        pid = p["id"]
        if pid in CLAIMED:
            c = CLAIMED[pid]
            checks.append({
                "property_id": pid,
                "quick_cmd": "./check %s --tier quick" % pid,
                "thorough_cmd": "./check %s --tier thorough" % pid,
                "evidence_file": "/verif/evidence/%s.json" % pid,
                "replay_cmd_template": "./check %s --replay {path}" % pid,
                "engine": "coq-proof+correspondence",
                "level_claimed": {"category": "proof", "text": c["text"],
                                  "design_ref": c["design_ref"]},
                "level_note": c["note"],
                "technique": c["technique"],
            })
        else:
            na.append({"property_id": pid,
                       "reason": NOT_YET.get(pid, "check not built yet in this round (planned at proof level, see DESIGN.md section 3); not claimed until its model, theorems and tie run clean on the unchanged tree")})
    man = {
        "version": 1,
        "setup_cmd": "./setup.sh",
        "hooks": {"guard": "QUTIP_VERIF_HOOKS",
                  "enable": "no source hooks are used; checks export QUTIP_VERIF_HOOKS=1 and rebuild extensions with `python setup.py build_ext --inplace` in /repo",
                  "baseline_off_cmd": BASELINE,
                  "source_commits": [],
                  "add_only": True},
        "engines": [{"name": "coq-proof+correspondence", "path": "/verif/check",
                     "serves_properties": sorted(CLAIMED),
                     "kind_free_text": "Coq 8.16 models/theorems in /verif/coq; Python translators and correspondence harnesses in /verif/tools; shared driver lib/vlib.py"}],
        "checks": checks,
        "not_applicable": na,
        "notes": "See DESIGN.md.  known_findings.json lists genuine defects (fixed or known).",
    }
    with open(os.path.join(VERIF, "MANIFEST.json"), "w") as f:
        json.dump(man, f, indent=1)
    print("MANIFEST.json: %d claimed, %d not claimed" % (len(checks), len(na)))


if __name__ == "__main__":
    main()
