"""Regenerate /verif/MANIFEST.json from the table below (keeps it valid)."""
import json
import os
HERE = os.path.dirname(os.path.abspath(__file__))
VERIF = os.path.dirname(HERE)
BASELINE = ("cd /repo && env -u QUTIP_VERIF_HOOKS /venv/bin/python -m pytest -ra -q "
            "-p no:cacheprovider --timeout=900 --continue-on-collection-errors")

# claims live in lib/claims/<ID>.json: {text, note, technique, design_ref}
CLAIMED = {}
_cd = os.path.join(HERE, "claims")
for _f in sorted(os.listdir(_cd)):
    if _f.endswith(".json"):
        CLAIMED[_f[:-5]] = json.load(open(os.path.join(_cd, _f)))

NOT_YET = {}


def main():
    props = [json.loads(l) for l in open(os.path.join(VERIF, "properties.jsonl"))]
    checks = []
    na = []
    for p in props:
        pid = p["id"]
        if pid in CLAIMED:
            c = CLAIMED[pid]
            checks.append({
                "property_id": pid,
                "quick_cmd": "./check %s --tier quick" % pid,
                "thorough_cmd": "./check %s --tier thorough" % pid,
                "evidence_file": "/verif/evidence/%s.json" % pid,
                "replay_cmd_template": "./check %s --replay {path}" % pid,
                "engine": "coq-proof+correspondence",
                "level_claimed": {"category": "proof", "text": c["text"],
                                  "design_ref": c["design_ref"]},
                "level_note": c["note"],
                "technique": c["technique"],
            })
        else:
            na.append({"property_id": pid,
                       "reason": NOT_YET.get(pid, "check not built yet in this round (planned at proof level, see DESIGN.md section 3); not claimed until its model, theorems and tie run clean on the unchanged tree")})
    man = {
        "version": 1,
        "setup_cmd": "./setup.sh",
        "hooks": {"guard": "QUTIP_VERIF_HOOKS",
                  "enable": "no source hooks are used; checks export QUTIP_VERIF_HOOKS=1 and rebuild extensions with `python setup.py build_ext --inplace` in /repo",
                  "baseline_off_cmd": BASELINE,
                  "source_commits": [],
                  "add_only": True},
        "engines": [{"name": "coq-proof+correspondence", "path": "/verif/check",
                     "serves_properties": sorted(CLAIMED),
                     "kind_free_text": "Coq 8.16 models/theorems in /verif/coq; Python translators and correspondence harnesses in /verif/tools; shared driver lib/vlib.py"}],
        "checks": checks,
        "not_applicable": na,
        "notes": "See DESIGN.md.  known_findings.json lists genuine defects (fixed or known).",
    }
    with open(os.path.join(VERIF, "MANIFEST.json"), "w") as f:
        json.dump(man, f, indent=1)
    print("MANIFEST.json: %d claimed, %d not claimed" % (len(checks), len(na)))


if __name__ == "__main__":
    main()
