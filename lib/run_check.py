import importlib
import os
import sys
sys.path.insert(0, os.path.dirname(os.path.abspath(__file__)))
sys.path.insert(0, os.path.join(os.path.dirname(os.path.dirname(os.path.abspath(__file__))), "tools"))
import vlib


def main():
    if len(sys.argv) < 2:
        print("usage: ./check <ID> --tier quick|thorough [--replay FILE]")
        return 2
    pid = sys.argv[1]
    mod = importlib.import_module(pid.lower())
    return vlib.main(mod.run, pid, getattr(mod, 'replay', None))


if __name__ == "__main__":
    sys.exit(main())
