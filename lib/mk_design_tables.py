"""Regenerate the data-driven tables of DESIGN.md (between the markers
<!-- BEGIN:<name> --> and <!-- END:<name> -->) from known_findings.json,
lib/claims/*.json, seeded/*/meta.json, selftest/ and evidence/*.json."""
import glob
import json
import os
import re
import subprocess

HERE = os.path.dirname(os.path.abspath(__file__))
VERIF = os.path.dirname(HERE)


def esc(s):
    return str(s).replace("|", "\\|").replace("\n", " ")


def findings_table():
    kf = json.load(open(os.path.join(VERIF, "known_findings.json")))
    rows = ["| property | status | commit | site | what failed |", "|---|---|---|---|---|"]
    for k in sorted(kf, key=lambda k: (k["property"], k.get("status"), str(k["match"].get("site")))):
        what = k["what"]
        what = re.sub(r"^fixed: property=C\d\d \w+ ", "", what)
        rows.append("| %s | %s | %s | `%s` | %s |" % (
            k["property"], k["status"], k.get("commit", ""), esc(k["match"].get("site")),
            esc(what[:420])))
    nf = sum(1 for k in kf if k["status"] == "fixed")
    nk = sum(1 for k in kf if k["status"] == "known")
    head = "%d entries: %d fixed by `fix:` commits in /repo, %d recorded as known findings.\n\n" % (
        len(kf), nf, nk)
    return head + "\n".join(rows)


def claims_table():
    rows = ["| id | theorems / obligations (last run) | evaluations (quick) | technique |", "|---|---|---|---|"]
    for f in sorted(glob.glob(os.path.join(VERIF, "lib", "claims", "*.json"))):
        pid = os.path.basename(f)[:-5]
        c = json.load(open(f))
        ev = os.path.join(VERIF, "evidence", pid + ".json")
        ob = evn = ""
        if os.path.exists(ev):
            e = json.load(open(ev))
            ob = "%s/%s" % (e["coverage"].get("discharged"), e["coverage"].get("obligations"))
            evn = "%s (%s distinct, tier %s)" % (e["coverage"].get("evaluations"),
                                                e["coverage"].get("distinct_nontrivial"), e["tier"])
        rows.append("| %s | %s | %s | %s |" % (pid, ob, evn, esc(c["technique"])))
    return "\n".join(rows)


def claim_texts():
    props = {}
    for line in open(os.path.join(VERIF, "properties.jsonl")):
        if line.strip():
            q = json.loads(line)
            props[q["id"]] = q.get("title", "")
    out = []
    for f in sorted(glob.glob(os.path.join(VERIF, "lib", "claims", "*.json"))):
        pid = os.path.basename(f)[:-5]
        c = json.load(open(f))
        out.append("**%s - %s.**  *Claimed:* %s  *Limits and trusted parts:* %s\n" % (
            pid, props.get(pid, ""), c["text"].strip(), c["note"].strip()))
    return "\n".join(out)


def trust_table():
    rows = ["| id | tier of last run | Print Assumptions other than *Closed under the global context* | coqchk -o (thorough tier): modules, Axioms |",
            "|---|---|---|---|"]
    for f in sorted(glob.glob(os.path.join(VERIF, "evidence", "*.json"))):
        e = json.load(open(f))
        pa = [a for a in e["coverage"].get("print_assumptions", [])
              if a.strip() != "Closed under the global context"]
        pa_txt = "none" if not pa else "; ".join(sorted(set(esc(a)[:260] for a in pa)))
        ck = e["coverage"].get("coqchk") or []
        if isinstance(ck, str):          # some checks run coqchk themselves and store one summary
            m = re.search(r"Axioms:? ?(.*?)( \* Constants|$)", ck)
            ck_txt = "own coqchk run: Axioms %s" % (esc(m.group(1))[:200] if m else esc(ck)[:200])
            ck = []
        elif ck and not all(isinstance(c, dict) for c in ck):
            ck_txt = esc(str(ck))[:300]
            ck = []
        if ck:
            parts = []
            for c in ck:
                m = re.search(r"\* Axioms: (.*?) \* Constants", c.get("summary", ""))
                if m:
                    txt = esc(m.group(1))[:200]
                else:
                    m2 = re.search(r"Axioms:(.*)", c.get("summary", ""))
                    txt = ("rc=%s" % c.get("rc")) + ((" " + esc(m2.group(1))[:220]) if m2 else
                                                    (" (skipped / not finished)" if c.get("rc") not in (0,) else ""))
                parts.append("%s: %s" % (c["module"].replace("QV.Props.", ""), txt))
            ck_txt = "; ".join(parts)
        elif not e["coverage"].get("coqchk"):
            ck_txt = "(not run in this tier)"
        rows.append("| %s | %s | %s | %s |" % (e["property_id"], e["tier"], pa_txt, ck_txt))
    return "\n".join(rows)


def numbers():
    nthm = 0
    for f in glob.glob(os.path.join(VERIF, "coq", "Props", "*.v")):
        nthm += len(re.findall(r"^(Theorem|Example|Lemma|Corollary) ", open(f).read(), flags=re.M))
    nfix = len(subprocess.check_output(["git", "-C", "/repo", "log", "--format=%h", "df0229a..HEAD"]).decode().split())
    kf = json.load(open(os.path.join(VERIF, "known_findings.json")))
    metas = [json.load(open(f)) for f in glob.glob(os.path.join(VERIF, "seeded", "*", "meta.json"))]
    first = sum(1 for m in metas if m.get("caught"))
    other = sum(1 for m in metas if m.get("caught_by_other_property"))
    final = sum(1 for m in metas if not m.get("caught_by_other_property") and (
        m.get("caught") or m.get("after_strengthening") or (m.get("regression") or {}).get("caught")))
    vfiles = len([f for d in ("Base", "Model", "Proofs", "Props") for f in glob.glob(os.path.join(VERIF, "coq", d, "*.v"))])
    vlines = sum(len(open(f).read().split("\n")) for d in ("Base", "Model", "Proofs", "Props")
                 for f in glob.glob(os.path.join(VERIF, "coq", d, "*.v")))
    return ("Numbers at the last regeneration: %d hand-written Coq files (%d lines) under `coq/Base|Model|Proofs|Props`, "
            "%d statements (`Theorem` / `Example`) in `coq/Props`, all 20 properties claimed; "
            "%d `fix:` commits in /repo (%d findings recorded as fixed, %d as known); "
            "%d independently written seeded changes stored, %d caught by the quick check as it was when they "
            "arrived, %d caught by it now after the strengthening recorded per change, %d outside the statement of the "
            "property they were written for and caught by another property's check." % (
                vfiles, vlines, nthm, nfix, sum(1 for k in kf if k["status"] == "fixed"),
                sum(1 for k in kf if k["status"] == "known"), len(metas), first, final, other))


def seeded_table():
    rows = ["| change | property | what it does | needs | confirmed (demo fails with / passes without; tests) | our check |",
            "|---|---|---|---|---|---|"]
    for f in sorted(glob.glob(os.path.join(VERIF, "seeded", "*", "meta.json"))):
        m = json.load(open(f))
        c = m.get("confirmed", {})
        conf = "%s / %s; %s" % (c.get("demo_fails_with_change"), c.get("demo_passes_without_change"),
                                "stable tests pass" if c.get("existing_tests_pass") else
                                ("tests: %s" % c.get("existing_tests_pass")))
        if m.get("caught"):
            res = "caught" + (" with concrete input" if m.get("caught_with_concrete_input") else
                              " (no-failing-input-found)")
        else:
            res = "MISSED" if m.get("check_exit") == 0 else "exit %s" % m.get("check_exit")
            if m.get("caught_by_other_property"):
                res = "not caught by %s (outside its statement), caught by %s" % (
                    m["property"], m["caught_by_other_property"])
        rg = m.get("regression")
        if rg:
            if rg.get("status") == "ran":
                res += "; re-run on HEAD %s: %s" % (rg.get("head"), "caught" + (
                    " with input" if rg.get("caught_with_concrete_input") else " (no input)")
                    if rg.get("caught") else "NOT caught")
            else:
                res += "; re-run on HEAD %s: %s" % (rg.get("head"), rg.get("status"))
        if m.get("after_strengthening"):
            a = m["after_strengthening"]
            if isinstance(a, dict):
                a = a.get("summary") or a.get("result") or "; ".join("%s: %s" % kv for kv in a.items())
            res += "; " + str(a)
        rows.append("| %s | %s | %s | %s | %s | %s |" % (
            os.path.basename(os.path.dirname(f)), m["property"], esc(m.get("summary", ""))[:260],
            esc(m.get("needs", ""))[:260], conf, res))
    return "\n".join(rows)


def fix_commits():
    out = subprocess.check_output(["git", "-C", "/repo", "log", "--reverse", "--format=%h %s",
                                   "df0229a..HEAD"]).decode().strip().split("\n")
    return "\n".join("* `%s`" % l for l in out if l)


TABLES = {"findings": findings_table, "claims": claims_table, "seeded": seeded_table,
          "claimtexts": claim_texts, "trust": trust_table, "numbers": numbers,
          "fixcommits": fix_commits}


def main():
    p = os.path.join(VERIF, "DESIGN.md")
    t = open(p).read()
    for name, fn in TABLES.items():
        b, e = "<!-- BEGIN:%s -->" % name, "<!-- END:%s -->" % name
        if b in t and e in t:
            i, j = t.index(b) + len(b), t.index(e)
            t = t[:i] + "\n" + fn() + "\n" + t[j:]
    open(p, "w").write(t)


if __name__ == "__main__":
    main()
