"""Shared machinery for the per-property checks (see DESIGN.md section 2.3).

Every check is `tools/cXX.py` exposing `run(ctx)`.  This module gives it:
  * build of /repo's extension modules (so edited .pyx is what runs),
  * Coq builds under `timeout`, per-theorem status from the Props file,
  * evaluation of generated `cases_*.v` files by `vm_compute`,
  * violation / known-finding reporting and replay files,
  * the evidence writer.
"""
import fcntl
import hashlib
import json
import os
import re
import subprocess
import sys
import time

VERIF = os.path.dirname(os.path.dirname(os.path.abspath(__file__)))
REPO = os.environ.get("VERIF_REPO", "/repo")
COQ = os.path.join(VERIF, "coq")
PY = "/venv/bin/python"
GUARD = "QUTIP_VERIF_HOOKS"

TRUSTED_COMMON = [
    "Coq 8.16.1 kernel (coqc; coqchk in thorough tier); vm_compute used for "
    "finite computations and for running the models; no native_compute",
    "No Axiom/Parameter/Conjecture/Admitted/admit in /verif/coq (grep gate in "
    "setup.sh and in every check run); no kernel check switched off",
    "Python harness lib/vlib.py and the per-property tools/*.py "
    "(generators, translators, canonicalisation, diffing)",
    "The bridge 'complex doubles approximate a commutative ring with an "
    "involutive conjugation' (rounding is outside every theorem)",
]


def env_for_impl():
    e = dict(os.environ)
    e["PYTHONPATH"] = REPO
    e["PYTHONHASHSEED"] = "0"
    e[GUARD] = "1"
    e["OMP_NUM_THREADS"] = "1"
    e["OPENBLAS_NUM_THREADS"] = "1"
    e["MKL_NUM_THREADS"] = "1"
    e["QUTIP_NUM_PROCESSES"] = "1"
    return e


class Lock:
    def __init__(self, name):
        self.path = os.path.join(VERIF, ".lock_" + name)

    def __enter__(self):
        self.f = open(self.path, "w")
        fcntl.flock(self.f, fcntl.LOCK_EX)
        return self

    def __exit__(self, *a):
        fcntl.flock(self.f, fcntl.LOCK_UN)
        self.f.close()


def sh(cmd, timeout=600, cwd=None, env=None):
    """Run a shell command, return (rc, combined output)."""
    try:
        p = subprocess.run(cmd, shell=isinstance(cmd, str), cwd=cwd, env=env,
                           stdout=subprocess.PIPE, stderr=subprocess.STDOUT,
                           timeout=timeout)
        return p.returncode, p.stdout.decode("utf8", "replace")
    except subprocess.TimeoutExpired as e:
        out = (e.stdout or b"").decode("utf8", "replace")
        return 124, out + "\n[timeout after %ss]" % timeout


def build_ext():
    """Rebuild /repo's Cython extensions in place so .pyx edits are live."""
    with Lock("build_ext"):
        rc, out = sh([PY, "setup.py", "build_ext", "--inplace", "-j", "8"],
                     timeout=1500, cwd=REPO, env=env_for_impl())
    return rc == 0, out[-3000:]


def grep_gate():
    """No Admitted/admit/Axiom/... anywhere in the Coq development."""
    bad = []
    pat = re.compile(r"\b(Admitted|admit|Axiom|Axioms|Parameter|Parameters|"
                     r"Conjecture|Admit Obligations|bypass_check)\b|"
                     r"Unset Guard|Unset Positivity|Unset Universe|"
                     r"type-in-type|impredicative-set")
    for root, _, files in os.walk(COQ):
        for f in files:
            if not f.endswith(".v"):
                continue
            p = os.path.join(root, f)
            try:
                txt = open(p).read()
            except OSError:
                continue        # a temporary Gen file of a concurrent run
            # strip comments (non nested is enough for our files)
            txt2 = re.sub(r"\(\*.*?\*\)", "", txt, flags=re.S)
            for m in pat.finditer(txt2):
                bad.append("%s: %s" % (os.path.relpath(p, COQ), m.group(0)))
            # Variable / Hypothesis / Context outside a Section declare axioms
            depth = 0
            for line in txt2.split("\n"):
                s = line.strip()
                if re.match(r"^(Section|Module)\s+\w+", s) and not s.startswith("Module Import"):
                    depth += 1
                elif re.match(r"^End\s+\w+\s*\.", s):
                    depth = max(0, depth - 1)
                elif depth == 0 and re.match(
                        r"^(Local\s+|Global\s+)?(Hypothesis|Hypotheses|Variable|Variables|Context)\b", s):
                    bad.append("%s: %s outside a Section" % (os.path.relpath(p, COQ), s[:60]))
    return bad


def coq_make(targets, timeout=900, jobs=8):
    """make the given .vo targets (paths relative to coq/)."""
    with Lock("coq"):
        mk = os.path.join(COQ, "Makefile")
        cp = os.path.join(COQ, "_CoqProject")
        if (not os.path.exists(mk)
                or os.path.getmtime(cp) > os.path.getmtime(mk)):
            sh("coq_makefile -f _CoqProject -o Makefile", cwd=COQ)
        rc, out = sh(["timeout", str(timeout), "make", "-j", str(jobs)]
                     + list(targets), timeout=timeout + 30, cwd=COQ)
    return rc == 0, out


def coqc_file(relpath, timeout=600):
    """Compile one file with coqc directly (always re-checks it);
    returns (ok, output)."""
    with Lock("coq"):
        rc, out = sh(["timeout", str(timeout), "coqc", "-q", "-Q", ".", "QV",
                      "-w", "none", relpath], timeout=timeout + 30, cwd=COQ)
    return rc == 0, out


_THM = re.compile(r"^\s*(Theorem|Lemma|Example|Corollary)\s+([A-Za-z0-9_']+)",
                  re.M)


def theorems_in(relpath):
    txt = open(os.path.join(COQ, relpath)).read()
    res = []
    for m in _THM.finditer(txt):
        line = txt.count("\n", 0, m.start()) + 1
        res.append((m.group(2), line))
    return res


def check_props(relpath, timeout=600):
    """Compile a Props file.  Returns dict with obligations, discharged,
    failed (name of the first theorem that does not check, if any),
    assumptions (text printed by Print Assumptions) and the raw log."""
    thms = theorems_in(relpath)
    ok, out = coqc_file(relpath, timeout)
    res = {"file": relpath, "theorems": [t for t, _ in thms],
           "obligations": len(thms), "log": out[-4000:], "ok": ok}
    if ok:
        res["discharged"] = len(thms)
        res["failed"] = []
    else:
        m = re.search(r'line (\d+), characters', out)
        bad_line = int(m.group(1)) if m else 0
        good = [t for t, l in thms if l < bad_line]
        # the theorem containing the error line is the last one starting
        # before it
        failed = good[-1:] if good else [t for t, _ in thms[:1]]
        if failed and failed[0] in good:
            good.remove(failed[0])
        res["discharged"] = len(good)
        res["failed"] = failed + [t for t, l in thms if l > bad_line]
    # "Closed under the global context", or "Axioms:" followed by the list of
    # constants (up to the next Print Assumptions answer / end of output)
    ass = re.findall(r"(Closed under the global context|Axioms:\n(?:(?!Closed under the global context|Axioms:).*\n?)*)",
                     out)
    res["assumptions"] = sorted(set(" ".join(a.split()) for a in ass))
    return res


def coq_eval(name, text, timeout=600):
    """Write coq/Gen/<name>.v, compile it, return (ok, output)."""
    gen = os.path.join(COQ, "Gen")
    os.makedirs(gen, exist_ok=True)
    path = os.path.join(gen, name + ".v")
    with open(path, "w") as f:
        f.write(text)
    rc, out = sh(["timeout", str(timeout), "coqc", "-q", "-Q", ".", "QV",
                  "-w", "none", "Gen/%s.v" % name], timeout=timeout + 30,
                 cwd=COQ)
    for ext in (".vo", ".glob", ".vok", ".vos"):
        try:
            os.remove(os.path.join(gen, name + ext))
        except OSError:
            pass
    try:
        os.remove(os.path.join(gen, "." + name + ".aux"))
    except OSError:
        pass
    return rc == 0, out


def coq_eval_values(name, header, exprs, timeout=600, chunk=400, par=8):
    """Evaluate a list of Coq expressions with vm_compute; each is printed
    on its own marker line.  Returns list of strings (whitespace-normalised)
    or raises RuntimeError with the coqc log."""
    import concurrent.futures as cf
    chunks = [exprs[i:i + chunk] for i in range(0, len(exprs), chunk)]

    def one(k):
        body = [header]
        for j, e in enumerate(chunks[k]):
            body.append('Eval vm_compute in (%s).' % e)
        ok, out = coq_eval("%s_%d" % (name, k), "\n".join(body), timeout)
        if not ok:
            raise RuntimeError(out[-3000:])
        # each Eval prints "     = value\n     : type"
        vals = re.findall(r"^\s*= (.*?)\n\s*: ", out, flags=re.S | re.M)
        vals = [re.sub(r"\s+", " ", v).strip() for v in vals]
        if len(vals) != len(chunks[k]):
            raise RuntimeError("parse mismatch %d vs %d\n%s" % (
                len(vals), len(chunks[k]), out[-2000:]))
        return vals

    res = []
    with cf.ThreadPoolExecutor(max_workers=par) as ex:
        for vals in ex.map(one, range(len(chunks))):
            res.extend(vals)
    return res


# ---------------------------------------------------------------- Coq literals
def cz(n):
    n = int(n)
    return "(%d)%%Z" % n if n < 0 else "%d%%Z" % n


def cnat(n):
    return "%d%%nat" % int(n)


def cbool(b):
    return "true" if b else "false"


def clist(xs, f=str):
    return "[" + "; ".join(f(x) for x in xs) + "]"


def copt(x, f=str):
    return "None" if x is None else "(Some %s)" % f(x)


def parse_coq_value(s):
    """Parse the subset of printed Coq values we use into Python:
    numbers (with optional %Z/%nat), true/false, lists [a; b], tuples (a, b),
    None / Some x, constructor applications `C a b` -> ('C', a, b)."""
    toks = re.findall(r"\[|\]|\(|\)|;|,|-?\d+|[A-Za-z_][A-Za-z0-9_'.]*|%[a-zA-Z]+|\"[^\"]*\"", s)
    toks = [t for t in toks if not t.startswith("%")]
    pos = [0]

    def peek():
        return toks[pos[0]] if pos[0] < len(toks) else None

    def nxt():
        t = toks[pos[0]]
        pos[0] += 1
        return t

    def atom():
        t = nxt()
        if t == "[":
            items = []
            if peek() == "]":
                nxt()
                return items
            while True:
                items.append(expr())
                t2 = nxt()
                if t2 == "]":
                    return items
                assert t2 == ";", (t2, s[:200])
        if t == "(":
            items = [expr()]
            while peek() == ",":
                nxt()
                items.append(expr())
            assert nxt() == ")"
            return items[0] if len(items) == 1 else tuple(items)
        if re.fullmatch(r"-?\d+", t):
            return int(t)
        if t == "true":
            return True
        if t == "false":
            return False
        if t == "None":
            return None
        if t.startswith('"'):
            return t[1:-1]
        return ("#ctor", t)

    def expr():
        a = atom()
        if isinstance(a, tuple) and len(a) == 2 and a[0] == "#ctor":
            args = []
            while peek() is not None and peek() not in ("]", ")", ";", ","):
                args.append(atom_noapp())
            if a[1] == "Some" and len(args) == 1:
                return ("Some", args[0])
            return (a[1],) + tuple(args) if args else a[1]
        return a

    def atom_noapp():
        a = atom()
        if isinstance(a, tuple) and len(a) == 2 and a[0] == "#ctor":
            return a[1]
        return a

    v = expr()
    return v


# ------------------------------------------------------------------- context
class Ctx:
    def __init__(self, pid, tier, seed, replay=None):
        self.pid = pid
        self.tier = tier
        self.seed = seed
        self.replay = replay
        self.t0 = time.time()
        self.violations = []      # unlisted violations
        self.known = []
        self.cov = {"obligations": 0, "discharged": 0, "samples": [],
                    "evaluations": 0, "distinct_nontrivial": 0,
                    "traces_validated_against_impl": 0,
                    "checker_cmd": "", "trusted_base": list(TRUSTED_COMMON),
                    "rule": "", "explanation": ""}
        self.assumptions = []
        self.notes = []
        self._distinct = set()
        kf = os.path.join(VERIF, "known_findings.json")
        self.known_findings = []
        if os.path.exists(kf):
            # several writers edit this file while checks are built in
            # parallel: read under the same lock and ignore trailing garbage
            with Lock("known"):
                txt = open(kf).read()
            self.known_findings, _ = json.JSONDecoder().raw_decode(txt)
        self._nrep = 0
        self._seen = set()

    @property
    def quick(self):
        return self.tier == "quick"

    def log(self, *a):
        print("[%s %6.1fs]" % (self.pid, time.time() - self.t0), *a,
              flush=True)

    # -- coverage accounting
    def count_case(self, key, nontrivial=True):
        """key: any hashable/serialisable description of the case."""
        self.cov["evaluations"] += 1
        if nontrivial:
            h = hashlib.sha1(repr(key).encode()).hexdigest()
            if h not in self._distinct:
                self._distinct.add(h)
                self.cov["distinct_nontrivial"] = len(self._distinct)

    def sample(self, obj, maxn=6):
        if len(self.cov["samples"]) < maxn:
            self.cov["samples"].append(obj)

    def add_props(self, res):
        """res from check_props."""
        self.cov["obligations"] += res["obligations"]
        self.cov["discharged"] += res["discharged"]
        self.cov.setdefault("theorems", []).extend(res["theorems"])
        self.cov.setdefault("print_assumptions", []).extend(res["assumptions"])
        if not self.cov["checker_cmd"]:
            self.cov["checker_cmd"] = "cd /verif/coq && coqc -q -Q . QV %s" % res["file"]

    def add_obligation(self, name, ok):
        self.cov["obligations"] += 1
        self.cov["discharged"] += 1 if ok else 0
        self.cov.setdefault("theorems", []).append(name)

    # -- violations
    def violation(self, site, signature, what, detail, found_input=True):
        """Report a violation.  site/signature identify it for
        known_findings.json matching; detail is the replay payload."""
        key = (site, repr(signature))
        if key in self._seen:
            return None
        self._seen.add(key)
        if sum(1 for s, _ in self._seen if s == site) > 4:
            return None          # enough examples for this site
        self._nrep += 1
        d = os.path.join(VERIF, "replays", self.pid)
        os.makedirs(d, exist_ok=True)
        path = os.path.join(d, "%s_%s.json" % (
            re.sub(r"[^A-Za-z0-9_.-]", "_", site)[:60],
            hashlib.sha1(repr(signature).encode()).hexdigest()[:8]))
        payload = {"property": self.pid, "site": site, "signature": signature,
                   "what": what, "failing_input_found": found_input,
                   "seed": self.seed, "detail": detail}
        with open(path, "w") as f:
            json.dump(payload, f, indent=1, default=str)
        for k in self.known_findings:
            if (k.get("status") == "known" and k.get("property") == self.pid
                    and k["match"].get("site") == site
                    and k["match"].get("signature") == signature):
                print("KNOWN-FINDING: property=%s %s" % (self.pid, k["what"]),
                      flush=True)
                self.known.append(path)
                return path
        tail = "" if found_input else " no-failing-input-found"
        print("VIOLATION property=%s replay=%s%s" % (self.pid, path, tail),
              flush=True)
        self.log("  ->", what)
        self.violations.append(path)
        return path

    def finish(self, level="proof"):
        cov = self.cov
        if not cov["samples"]:
            cov["samples"] = ["(no sample recorded)"]
        ev = {"property_id": self.pid, "tier": self.tier, "seed": self.seed,
              "level": level, "coverage": cov,
              "assumptions": self.assumptions,
              "wall_s": round(time.time() - self.t0, 2),
              "violations": len(self.violations),
              "known_findings_reported": len(self.known),
              "notes": self.notes}
        # evidence/ describes /repo only: a run against another tree (seeded
        # change, scratch copy) writes its evidence aside
        evdir = os.path.join(VERIF, "evidence")
        if os.path.realpath(REPO) != "/repo":
            evdir = os.path.join(VERIF, ".evidence_scratch", os.path.basename(REPO.rstrip("/")))
        os.makedirs(evdir, exist_ok=True)
        with open(os.path.join(evdir, self.pid + ".json"), "w") as f:
            json.dump(ev, f, indent=1, default=str)
        self.log("obligations %d discharged %d; evaluations %d distinct %d; "
                 "violations %d known %d" % (
                     cov["obligations"], cov["discharged"],
                     cov["evaluations"], cov["distinct_nontrivial"],
                     len(self.violations), len(self.known)))
        return 1 if self.violations else 0


def standard_proof_step(ctx, make_targets, props_files, search=None):
    """Steps 2 of DESIGN 2.3: build deps, compile each Props file, record
    obligations.  When a theorem no longer checks: call search(failed) which
    should look for a concrete failing input and report it; if it reports
    nothing, a no-failing-input-found violation is raised here."""
    ctx.cov["checker_cmd"] = ("cd /verif/coq && make %s && " % " ".join(make_targets)
                              + " && ".join("coqc -q -Q . QV %s" % p for p in props_files))
    bad = grep_gate()
    if bad:
        ctx.violation("grep-gate", bad[:3], "forbidden declarations in coq/: %s" % bad[:5],
                      {"found": bad}, found_input=False)
        return False
    ok, out = coq_make(make_targets)
    all_ok = True
    if not ok:
        all_ok = False
        m = re.search(r'File "([^"]+)", line (\d+)', out)
        failed = ["make:%s" % (m.group(1) + ":" + m.group(2) if m else "?")]
        ctx.cov["obligations"] += 1
        before = len(ctx.violations) + len(ctx.known)
        if search:
            search(failed, out)
        if len(ctx.violations) + len(ctx.known) == before:
            ctx.violation("proof:" + failed[0], failed,
                          "proof development no longer builds: %s" % failed[0],
                          {"theorem": failed[0], "log": out[-3000:]},
                          found_input=False)
        return False
    for pf in props_files:
        res = check_props(pf)
        ctx.add_props(res)
        for a in res["assumptions"]:
            if a != "Closed under the global context":
                ctx.notes.append("Print Assumptions: " + a)
        if not res["ok"]:
            all_ok = False
            before = len(ctx.violations) + len(ctx.known)
            if search:
                search(res["failed"], res["log"])
            if len(ctx.violations) + len(ctx.known) == before:
                ctx.violation("proof:" + pf, res["failed"][:1],
                              "theorem %s in %s no longer checks" % (
                                  res["failed"][:1], pf),
                              {"theorem": res["failed"], "file": pf,
                               "log": res["log"]}, found_input=False)
    if all_ok and not ctx.quick and os.environ.get("VERIF_NO_COQCHK") != "1" \
            and "coqchk" not in ctx.cov:
        coqchk_props(ctx, props_files)
    return all_ok


def coqchk_props(ctx, props_files, timeout=1500):
    """Thorough tier: re-check the compiled Props files (and everything they
    depend on) with the independent checker and record the axiom summary."""
    for pf in props_files:
        mod = "QV." + pf[:-2].replace("/", ".")
        with Lock("coq"):
            rc, out = sh(["timeout", str(timeout), "coqchk", "-silent", "-o", "-Q", ".", "QV", mod],
                         timeout=timeout + 30, cwd=COQ)
        m = re.search(r"CONTEXT SUMMARY.*", out, flags=re.S)
        summary = re.sub(r"\s+", " ", m.group(0))[:1500] if m else out[-800:]
        ctx.cov.setdefault("coqchk", []).append({"module": mod, "rc": rc, "summary": summary})
        ctx.add_obligation("coqchk:" + mod, rc == 0)
        if rc != 0:
            ctx.violation("coqchk:" + pf, "rc=%d" % rc, "coqchk rejects %s" % mod,
                          {"output": out[-2500:]}, found_input=False)


def main(run_fn, pid, replay_fn=None):
    import argparse
    ap = argparse.ArgumentParser()
    ap.add_argument("--tier", default=os.environ.get("VERIF_TIER", "quick"))
    ap.add_argument("--replay", default=None)
    ap.add_argument("--seed", type=int,
                    default=int(os.environ.get("VERIF_SEED", "0")))
    a = ap.parse_args(sys.argv[2:] if len(sys.argv) > 1 and
                      sys.argv[1] == pid else None)
    ctx = Ctx(pid, a.tier, a.seed, a.replay)
    okb, out = build_ext()
    if not okb:
        ctx.violation("build", "build_ext", "/repo does not build", {"log": out},
                      found_input=False)
        return ctx.finish()
    if a.replay and replay_fn is not None:
        payload = json.load(open(a.replay))
        replay_fn(ctx, payload)
        ctx.log("replay finished: %d violation(s) reproduced" % (
            len(ctx.violations) + len(ctx.known)))
        return 1 if (ctx.violations or ctx.known) else 0
    run_fn(ctx)
    return ctx.finish()
