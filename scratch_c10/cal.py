import sys, numpy as np
import qutip
from qutip.solver.integrator.explicit_rk import Explicit_RungeKutta
for name in ("rk4","vern7","vern9"):
    out=[]
    for dt in (1.0, 0.5, 0.25, 0.125, 0.0625):
        M = np.array([[0, 1j],[1j, 0.5j]])
        qevo = qutip.QobjEvo(qutip.Qobj(M))
        ode = Explicit_RungeKutta(qevo, rtol=1e-6, atol=1e200, nsteps=10, first_step=dt, min_step=0, max_step=dt, interpolate=False, method=name)
        ode.set_initial_value(qutip.data.Dense(np.array([[1.0+0j],[0.5]])), 0.0)
        ode.integrate(dt)
        import scipy.linalg as sl
        out.append(np.linalg.norm(ode.y.to_array() - sl.expm(M*dt)@np.array([[1.0],[0.5]])))
    print(name, ["%.2e"%e for e in out])
