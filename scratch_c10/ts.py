import sys
sys.path.insert(0, "/verif/lib"); sys.path.insert(0, "/verif/tools")
import vlib, c10
ctx = vlib.Ctx("C10", "quick", 0)
print("found:", c10.tableau_search(ctx, ["x"], ""))
