From Coq Require Import ZArith QArith Qabs Lia Lqa Field.
From QV Require Import Model.C10_trees.
Local Open Scope Q_scope.

Lemma injZ_pos z : (0 < z)%Z -> 0 < inject_Z z.
Proof. intros H. unfold Qlt, inject_Z. simpl. lia. Qed.

Lemma dclose_sound k m e g tgt :
  (0 <= e)%Z -> (0 <= k)%Z -> dclose k (m, e) g tgt = true ->
  Qabs (dy2Q (m, e) * inject_Z g - inject_Z tgt) <= 1 / inject_Z (2 ^ k).
Proof.
  intros He Hk H. unfold dclose in H. apply Z.leb_le in H.
  unfold dy2Q. simpl fst. simpl snd.
  set (P := (2 ^ e)%Z) in *. set (K := (2 ^ k)%Z) in *.
  assert (HP : (0 < P)%Z) by (apply Z.pow_pos_nonneg; lia).
  assert (HK : (0 < K)%Z) by (apply Z.pow_pos_nonneg; lia).
  pose proof (injZ_pos P HP) as HPq. pose proof (injZ_pos K HK) as HKq.
  set (D := (m * g - tgt * P)%Z) in *.
  assert (E : inject_Z m / inject_Z P * inject_Z g - inject_Z tgt == inject_Z D / inject_Z P).
  { unfold D, Z.sub. rewrite inject_Z_plus, inject_Z_opp, !inject_Z_mult. field. lra. }
  rewrite E. apply Qabs_Qle_condition. split.
  - apply Qle_shift_div_l; [exact HPq|].
    setoid_replace (- (1 / inject_Z K) * inject_Z P) with ((- inject_Z P) / inject_Z K) by (field; lra).
    apply Qle_shift_div_r; [exact HKq|].
    rewrite <- inject_Z_opp, <- inject_Z_mult. rewrite <- Zle_Qle. lia.
  - apply Qle_shift_div_r; [exact HPq|].
    setoid_replace (1 / inject_Z K * inject_Z P) with (inject_Z P / inject_Z K) by (field; lra).
    apply Qle_shift_div_l; [exact HKq|].
    rewrite <- inject_Z_mult. rewrite <- Zle_Qle. lia.
Qed.
Print Assumptions dclose_sound.
