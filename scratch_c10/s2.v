From Coq Require Import ZArith QArith Qabs Lia Lqa Field Bool.
From QV Require Import Model.C10_trees.
Local Open Scope Q_scope.

Definition dwf (x : dy) : Prop := (0 <= snd x)%Z.

Lemma injZ_pow2_nz e : (0 <= e)%Z -> ~ inject_Z (2 ^ e) == 0.
Proof.
  intros He H. assert (0 < 2 ^ e)%Z by (apply Z.pow_pos_nonneg; lia).
  unfold Qeq, inject_Z in H. simpl in H. lia.
Qed.

Lemma dmul_sound x y : dwf x -> dwf y ->
  dwf (dmul x y) /\ dy2Q (dmul x y) == dy2Q x * dy2Q y.
Proof.
  destruct x as [m1 e1], y as [m2 e2]. unfold dwf, dy2Q, dmul. simpl. intros H1 H2.
  split; [lia|].
  rewrite Z.pow_add_r by lia. rewrite !inject_Z_mult.
  field. split; apply injZ_pow2_nz; assumption.
Qed.

Lemma dadd_sound x y : dwf x -> dwf y ->
  dwf (dadd x y) /\ dy2Q (dadd x y) == dy2Q x + dy2Q y.
Proof.
  destruct x as [m1 e1], y as [m2 e2]. unfold dwf, dy2Q, dadd. simpl. intros H1 H2.
  destruct (Z.leb_spec e1 e2) as [L|L]; simpl.
  - split; [lia|].
    rewrite Z.shiftl_mul_pow2 by lia.
    replace (2 ^ e2)%Z with (2 ^ e1 * 2 ^ (e2 - e1))%Z
      by (rewrite <- Z.pow_add_r by lia; f_equal; lia).
    rewrite inject_Z_plus, !inject_Z_mult.
    field. split; apply injZ_pow2_nz; lia.
  - split; [lia|].
    rewrite Z.shiftl_mul_pow2 by lia.
    replace (2 ^ e1)%Z with (2 ^ e2 * 2 ^ (e1 - e2))%Z
      by (rewrite <- Z.pow_add_r by lia; f_equal; lia).
    rewrite inject_Z_plus, !inject_Z_mult.
    field. split; apply injZ_pow2_nz; lia.
Qed.

Lemma q2dy_sound q : q_is_dyadic q = true -> dwf (q2dy q) /\ dy2Q (q2dy q) == q.
Proof.
  destruct q as [n d]. unfold q_is_dyadic, q2dy, dwf, dy2Q. cbn [Qnum Qden fst snd]. intros H.
  apply Z.eqb_eq in H. split; [apply Z.log2_nonneg|].
  rewrite <- H. symmetry. apply Qmake_Qdiv.
Qed.
Print Assumptions dadd_sound.
