import sys, random, time
sys.path.insert(0, "/verif/lib"); sys.path.insert(0, "/verif/tools")
import vlib, c10
ctx = vlib.Ctx("C10", "quick", int(sys.argv[2]) if len(sys.argv) > 2 else 0)
ctx.cov["input_distribution"] = {}
rng = random.Random(5)
what = sys.argv[1]
t0 = time.time()
if what == "kernel":
    c10.run_kernel_corr(ctx, rng, 60)
elif what == "packing":
    c10.run_packing_corr(ctx, rng, 30); c10.packing_roundtrip_oracle(ctx, rng, 60)
elif what == "oracle":
    c10.run_oracle(ctx, rng, 2)
elif what == "valid":
    c10.run_validation(ctx, rng, c10.tx.read_all())
print("time", time.time() - t0, ctx.cov["input_distribution"])
print("violations", ctx.violations)
