From Coq Require Import List ZArith QArith Bool.
Import ListNotations.
From QV Require Import Gen.C10_tab_vern9 Model.C10_trees Model.C10.
Definition t9 := dy_tableau vern9_a vern9_b vern9_c vern9_bi.
Eval vm_compute in (map (fun k => theta1_ok k t9) [30;32;34;36;38;40]%Z).
