import sys, random, time
sys.path.insert(0, "/verif/lib"); sys.path.insert(0, "/verif/tools")
import vlib, c10
rng = random.Random(11)
for k in range(12):
    s = c10.gen_system(rng)
    try:
        print(k, s["N"], c10.check_floquet_br_case(s))
    except Exception as e:
        import traceback; traceback.print_exc()
