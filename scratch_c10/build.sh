#!/bin/sh
cd /verif/coq
for f in Proofs/C10_tab_small Proofs/C10_tab_vern7 Proofs/C10_tab_vern9; do
  /usr/bin/time -f "$f %es" timeout 3000 coqc -q -Q . QV -w none $f.v 2>&1 | tail -5
done
