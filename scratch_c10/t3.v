From Coq Require Import List ZArith QArith Bool.
Import ListNotations.
From QV Require Import Gen.C10_tableaux Model.C10_trees Model.C10.
Definition t7 := dy_tableau vern7_a vern7_b vern7_c vern7_bi.
Definition t9 := dy_tableau vern9_a vern9_b vern9_c vern9_bi.
Definition t4 := dy_tableau rk4_a rk4_b rk4_c [].
Time Eval vm_compute in (stab_poly t4 done).
Time Eval vm_compute in (length (stab_poly t7 done), map (fun k => taylor_close k done 7 (stab_poly t7 done)) [40;44;48]%Z, taylor_close 40 done 8 (stab_poly t7 done)).
Time Eval vm_compute in (length (stab_poly t9 done), map (fun k => taylor_close k done 9 (stab_poly t9 done)) [40;44;48]%Z, taylor_close 40 done 10 (stab_poly t9 done)).
Time Eval vm_compute in (map (fun tau => taylor_close 30 tau 7 (dense_poly t7 done tau)) [(1,1);(1,2);(3,2);(1,0)]%Z, taylor_close 30 (1,1)%Z 8 (dense_poly t7 done (1,1)%Z)).
Time Eval vm_compute in (map (fun tau => taylor_close 30 tau 9 (dense_poly t9 done tau)) [(1,1);(1,2);(3,2);(1,0)]%Z, taylor_close 30 (1,1)%Z 10 (dense_poly t9 done (1,1)%Z)).
