import sys, random, time
sys.path.insert(0, "/verif/lib"); sys.path.insert(0, "/verif/tools")
import vlib, c10
ctx = vlib.Ctx("C10", "quick", 0)
ctx.cov["input_distribution"] = {}
rng = random.Random(7)
c10.run_init_coeff_corr(ctx, rng, 80)
c10.run_kernel_corr(ctx, rng, 120)
print(ctx.cov["input_distribution"].get("init_coeff")); print("violations", ctx.violations)
