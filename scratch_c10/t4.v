From Coq Require Import List ZArith QArith Bool.
Import ListNotations.
From QV Require Import Gen.C10_tableaux Model.C10_trees Model.C10.
Definition t7 := dy_tableau vern7_a vern7_b vern7_c vern7_bi.
Eval vm_compute in (map (fun n => map (fun k => taylor_close k (1,1)%Z n (dense_poly t7 done (1,1)%Z)) [10;20;30;40]%Z) [0;1;2;3;4;5;6;7]%nat).
Eval vm_compute in (map (fun j => map (fun k => dclose2 k (dmul (nth j (dense_poly t7 done (1,1)%Z) dzero) (dofZ (fact j))) (dpow (1,1)%Z j)) [5;10;15;20;25;30;40]%Z) [0;1;2;3;4;5;6;7;8]%nat).
