From Coq Require Import List ZArith QArith Bool Lia.
Import ListNotations.
From QV Require Import Model.C10_trees Model.C10 Proofs.C10.
Definition tb := mk_tableau Z [[0; 0]; [2; 0]]%Z [1; 3]%Z [0; 2]%Z false [].
Eval vm_compute in (compute_step Z Z Z.add Z.mul 0%Z (Z.eqb 0) Z.add Z.mul (fun _ v => (3 * v)%Z) tb 0%Z 5%Z 2%Z,
 compute_step Z (list Z) Z.add Z.mul 0%Z (Z.eqb 0) (padd Z Z.add) (pscal Z Z.mul)
                  (fun _ => pshift Z 0%Z) tb 0%Z [1%Z] 2%Z).
