From Coq Require Import List ZArith QArith Bool.
Import ListNotations.
From QV Require Import Gen.C10_tableaux Model.C10_trees.
Time Eval vm_compute in (map (fun k => (rowsum_ok k (dmat vern7_a) (dvec vern7_c), rowsum_ok k (dmat vern9_a) (dvec vern9_c))) [40;44;46;48;50]%Z).
Time Eval vm_compute in (order_check (dmat rk4_a) 45 (dvec rk4_b) 4, order_check (dmat rk4_a) 45 (dvec rk4_b) 5).
Time Eval vm_compute in (order_check (dmat vern7_a) 40 (dvec vern7_b) 7).
Time Eval vm_compute in (order_check (dmat vern7_a) 40 (dvec vern7_b) 8).
Time Eval vm_compute in (map (fun k => order_check (dmat vern7_a) k (dvec vern7_b) 7) [42;44;46;48]%Z).
