import numpy as np, qutip, random, sys
sys.path.insert(0, "/verif/lib"); sys.path.insert(0, "/verif/tools")
import c10
rng = random.Random(1)
s = c10.gen_system(rng, 2)
w = 2.0
T = 2*np.pi/w
Ht = qutip.QobjEvo([qutip.Qobj(s["H"]), [qutip.Qobj(s["H1"]), lambda t: np.cos(w*t)]])
psi = qutip.Qobj(s["psi"].reshape(-1,1))
tl = [0, 0.3, 1.1, 2.0, T, 4.1]
r0 = qutip.sesolve(Ht, psi, tl, options=c10._opts("vern9", {"store_states": True}))
r1 = qutip.fsesolve(Ht, psi, tl, T=T)
print("fsesolve", max(np.linalg.norm(a.full()-b.full()) for a,b in zip(r0.states, r1.states)))
fb = qutip.FloquetBasis(Ht, T, precompute=None)
for t in tl:
    U = fb.U(t) if hasattr(fb,"U") else None
cops = [qutip.Qobj(c) for c in s["cops"]]
rho0 = qutip.ket2dm(psi)
ra = qutip.mesolve(qutip.Qobj(s["H"]), rho0, tl, c_ops=cops, options=c10._opts("vern9", {"store_states": True}))
rb = qutip.brmesolve(qutip.Qobj(s["H"]), rho0, tl, a_ops=[], c_ops=cops, options={"atol":1e-10,"rtol":1e-8,"store_states":True})
print("brmesolve", max(np.linalg.norm(a.full()-b.full()) for a,b in zip(ra.states, rb.states)))
# floquet basis roundtrip
ket_f = fb.to_floquet_basis(psi, 0.3)
back = fb.from_floquet_basis(ket_f, 0.3)
print("floquet basis roundtrip", np.linalg.norm(back.full()-psi.full()))
