From Coq Require Import List ZArith QArith Bool Lia.
Import ListNotations.
From QV Require Import Model.C10_trees Model.C10.

(* Step size and generator enter only through the product dt * L:
   a step of size dt with right-hand side L is a step of size 1 with
   right-hand side dt.L (same tableau, same state). *)
Section Scaling.
Variables C V : Type.
Variables cadd cmul : C -> C -> C.
Variables czero cone : C.
Variable ciszero : C -> bool.
Variable vadd : V -> V -> V.
Variable vscal : C -> V -> V.
Variable vzero : V.
Variable L : V -> V.
Hypothesis cmul_comm : forall a b, cmul a b = cmul b a.
Hypothesis cmul_1_l : forall a, cmul cone a = a.
Hypothesis vadd_0_r : forall v, vadd v vzero = v.
Hypothesis vscal_mul : forall a b v, vscal (cmul a b) v = vscal a (vscal b v).
Hypothesis ciszero_sound : forall c v, ciszero c = true -> vscal c v = vzero.
Variable tb : tableau C.
Variable dt : C.

Let Ls (v : V) : V := vscal dt (L v).

Notation acc := (accumulate C V cmul ciszero vadd vscal).

Lemma iadd_sem l r c : iadd C V ciszero vadd vscal l r c = vadd l (vscal c r).
Proof.
  unfold iadd. destruct (ciszero c) eqn:E; [|reflexivity].
  now rewrite (ciszero_sound c r E), vadd_0_r.
Qed.

Lemma acc_scaled size : forall factors ks target,
  acc target factors dt ks size = acc target factors cone (map (vscal dt) ks) size.
Proof.
  induction size as [|n IH]; intros factors ks target; [reflexivity|].
  destruct factors as [|f fs]; [reflexivity|].
  destruct ks as [|k ks']; [reflexivity|].
  simpl. rewrite IH. f_equal. rewrite !iadd_sem. f_equal.
  rewrite cmul_1_l, cmul_comm, vscal_mul. reflexivity.
Qed.

Lemma stages_scaled n : forall t y i ks,
  map (vscal dt)
      (stages_from C V cadd cmul czero ciszero vadd vscal (fun _ => L) tb t y dt i n ks)
  = stages_from C V cadd cmul czero ciszero vadd vscal (fun _ => Ls) tb t y cone i n
                (map (vscal dt) ks).
Proof.
  induction n as [|n IH]; intros t y i ks; [reflexivity|].
  simpl. rewrite IH, map_app. simpl. f_equal. f_equal. f_equal.
  unfold stage, Ls. now rewrite acc_scaled.
Qed.

Lemma step_scaled t y :
  compute_step C V cadd cmul czero ciszero vadd vscal (fun _ => L) tb t y dt
  = compute_step C V cadd cmul czero ciszero vadd vscal (fun _ => Ls) tb t y cone.
Proof.
  unfold compute_step, front_of, compute_ks.
  rewrite acc_scaled, stages_scaled. reflexivity.
Qed.
End Scaling.
Print Assumptions step_scaled.
