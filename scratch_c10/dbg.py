import sys, random, time
sys.path.insert(0, "/verif/lib"); sys.path.insert(0, "/verif/tools")
import numpy as np, scipy.linalg as sl
import vlib, c10, qutip
rng = random.Random(3)
worst = {}
for k in range(6):
    s = c10.gen_system(rng)
    for method in c10.SE_METHODS:
        for fmt in ["dense","csr","dia"]:
            H = qutip.Qobj(s["H"]).to(fmt)
            psi = qutip.Qobj(s["psi"].reshape(-1,1))
            r = qutip.sesolve(H, psi, s["tlist"], options=c10._opts(method, {"store_states": True}))
            e = max(np.linalg.norm(r.states[i].full() - sl.expm(-1j*s["H"]*t)@psi.full()) for i,t in enumerate(s["tlist"]))
            worst[("se",method)] = max(worst.get(("se",method),0), e)
    for method in c10.ME_METHODS:
        bad = c10.check_me_case(s, method, "csr", "dm", "H+c_ops")
        if bad: print("ME bad", method, bad)
    for kind in ["function","array","string"]:
        for method in ["adams","vern7","vern9","dop853","bdf","lsoda"]:
            bad = c10.check_td_case(s, kind, method)
            if bad: print("TD bad", kind, method, bad)
print({k: "%.1e"%v for k,v in worst.items()}, "tol", c10._tol(np.ones(2)))
