From Coq Require Import List ZArith QArith Bool.
Import ListNotations.
From QV Require Import Gen.C10_tableaux Model.C10_trees.
Time Eval vm_compute in (order_check (dmat vern9_a) 40 (dvec vern9_b) 8).
Time Eval vm_compute in (order_check (dmat vern9_a) 40 (dvec vern9_b) 9).
Time Eval vm_compute in (dense_check (dmat vern7_a) 30 (dmat vern7_bi) 7 6, dense_check (dmat vern7_a) 30 (dmat vern7_bi) 7 7).
Time Eval vm_compute in (dense_check (dmat vern9_a) 30 (dmat vern9_bi) 9 8).
Time Eval vm_compute in (dense_check (dmat vern9_a) 30 (dmat vern9_bi) 9 9).
