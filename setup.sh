#!/bin/sh
# Build the whole Coq development from files on disk (offline) and make sure
# /repo's extension modules are built.  Used as MANIFEST.setup_cmd.
set -e
HERE="$(cd "$(dirname "$0")" && pwd)"
cd "$HERE"
/venv/bin/python - <<'PYEOF' || exit 1
import sys
sys.path.insert(0, "lib")
import vlib
bad = vlib.grep_gate()
if bad:
    print("forbidden declarations:", bad)
    sys.exit(1)
PYEOF
(cd /repo && /venv/bin/python setup.py build_ext --inplace -j 8 >/dev/null 2>&1) || { echo "build_ext failed"; exit 1; }
/venv/bin/python lib/gen_all.py
cd coq
coq_makefile -f _CoqProject -o Makefile
# -k: a file of one property that does not build must not stop the others;
# the per-property checks report it
timeout 3000 make -k -j 12 || echo "setup: some Coq files did not build (reported by the checks that need them)"
echo "setup ok"
