(* C10 - Solver._prepare_state / _restore_state: which outputs are rescaled.
   Property theorems only; proofs in Proofs/C10_prepare.v.  The comparisons
   of the norm / trace with 1 are oracle booleans; `wf` lists the attribute
   combinations of the state forms a solver accepts (ket, operator,
   operator-ket, super-operator; dimension > 1). *)
From Coq Require Import Bool.
From QV Require Import Model.C10_prepare Proofs.C10_prepare.

(* For every accepted state form and every option value: the output is
   rescaled exactly when normalize_output is on and the initial state is a
   unit-norm ket (Schroedinger right-hand side) or a unit-trace density matrix
   under a super-operator right-hand side; operator-kets, operators being
   propagated and super-operator initial conditions are never rescaled - so
   the stacked (operator-ket) route returns the bare integrator output. *)
Theorem C10_normalize_output_decision :
  forall rhs_super opt s, wf rhs_super s = true ->
    normalize_output opt s =
    opt && match p_form s with
           | FKet => p_l2_one s
           | FOper => rhs_super && p_tr_one s
           | _ => false
           end.
Proof. exact normalize_iff. Qed.
Print Assumptions C10_normalize_output_decision.

(* and a rescaled ket is divided by its norm, a rescaled density matrix (which
   is the stacked case) by its trace - the quantity that was tested *)
Theorem C10_normalize_output_divisor :
  forall rhs_super opt s, wf rhs_super s = true -> normalize_output opt s = true ->
    (p_form s = FKet \/ (p_form s = FOper /\ stacked s = true)) /\
    restore_divisor (match p_form s with FOper => true | _ => false end)
    = match p_form s with FKet => ByNorm | _ => ByTrace end.
Proof.
  intros rhs_super opt s W N. split.
  - destruct (normalize_only_ket_or_dm _ _ _ W N) as [_ [[E _]|[E [_ [_ S]]]]]; [left|right]; auto.
  - exact (divisor_matches _ _ _ W N).
Qed.
Print Assumptions C10_normalize_output_divisor.

(* non-vacuity: a pure operator-ket (l2 norm 1, a column) is well formed and is
   NOT rescaled; a unit-trace density matrix under a super-operator rhs is *)
Example C10_nonvacuous_prepare :
  wf true (mk_pstate FOperKet false false true true false) = true /\
  normalize_output true (mk_pstate FOperKet false false true true false) = false /\
  wf true (mk_pstate FOper true true false false true) = true /\
  normalize_output true (mk_pstate FOper true true false false true) = true.
Proof. repeat split. Qed.
