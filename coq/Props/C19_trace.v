(* C19, Tier A bridge (MathComp, any commutative ring, any dimension): the
   trace functional used in Props/C19.v.  Column stacking turns X |-> Q X into
   spre(Q) and X |-> X Q into spost(Q) (that identification is property C07);
   here: a block  a*spre(Q) + b*spost(Q)  acts on the trace as (a+b) tr(Q .),
   so a block with a + b = 0 (tr_coef = 0 in Props/C19.v) conserves it. *)
From mathcomp Require Import all_ssreflect all_algebra.
Set Implicit Arguments. Unset Strict Implicit. Unset Printing Implicit Defensive.
Import GRing.Theory.
Local Open Scope ring_scope.

Section Tr.
Variables (R : comRingType) (n : nat).
Implicit Types (Q X : 'M[R]_n) (a b : R).

Theorem C19_trace_pre_post a b Q X :
  \tr (a *: (Q *m X) + b *: (X *m Q)) = (a + b) * \tr (Q *m X).
Proof. by rewrite mxtraceD !mxtraceZ (mxtrace_mulC X Q) mulrDl. Qed.

Theorem C19_trace_commutator_block a Q X :
  \tr (a *: (Q *m X) + (- a) *: (X *m Q)) = 0.
Proof. by rewrite C19_trace_pre_post subrr mul0r. Qed.
End Tr.
Print Assumptions C19_trace_pre_post.
Print Assumptions C19_trace_commutator_block.

Example C19_nonvacuous_trace_bridge :
  \tr ((2%:R : int) *: ((1%:M : 'M[int]_2) *m 1%:M) + (- 2%:R) *: (1%:M *m 1%:M)) = 0.
Proof. exact: C19_trace_commutator_block. Qed.
