(* C16 - mixed initial states and improved-sampling weights: theorems over
   the model of _InitialConditions (Model/C16_mix.v; proofs in
   Proofs/C16_mix.v).  Every ensemble (list of rational weights), every
   trajectory number, every trajectory id. *)
From Coq Require Import List Bool Arith ZArith QArith Lia Lqa.
Import ListNotations.
From QV Require Import Model.C16_mix Proofs.C16_mix.
Local Open Scope nat_scope.

(* 1. _minimum_roundoff_ensemble never fails when there are at most ntraj
   states of positive weight: the second loop never pops from an empty list;
   the numbers it returns sum to min(sum of the initial guesses, ntraj), every
   state of positive weight gets at least one trajectory, every other none. *)
Theorem C16_mixed_distribution :
  forall ws ntot, length (positive 0 ws) <= ntot ->
  exists counts, minimum_roundoff ws ntot = Counts counts /\
    length counts = length ws /\
    let total0 := fold_right plus 0 (map (fun iw => guess_of ntot (snd iw)) (positive 0 ws)) in
    fold_right plus 0 counts = Nat.min total0 ntot /\
    (forall j, j < length ws -> (0 < nth j ws 0%Q)%Q -> 1 <= nth j counts 0) /\
    (forall j, j < length ws -> ~ (0 < nth j ws 0%Q)%Q -> nth j counts 0 = 0).
Proof. exact minimum_roundoff_spec. Qed.
Print Assumptions C16_mixed_distribution.

(* 2. with non-negative weights that sum to one the numbers sum to ntraj *)
Theorem C16_mixed_counts_sum_to_ntraj :
  forall ws ntot,
    (forall w, In w ws -> (0 <= w)%Q) -> (qsum ws == 1)%Q ->
    length (positive 0 ws) <= ntot ->
    exists counts, minimum_roundoff ws ntot = Counts counts /\ length counts = length ws /\
      fold_right plus 0 counts = ntot /\
      (forall j, j < length ws -> (0 < nth j ws 0%Q)%Q -> 1 <= nth j counts 0) /\
      (forall j, j < length ws -> ~ (0 < nth j ws 0%Q)%Q -> nth j counts 0 = 0).
Proof. exact counts_sum_to_ntraj. Qed.
Print Assumptions C16_mixed_counts_sum_to_ntraj.

Example C16_mixed_nonvacuous :
  minimum_roundoff [(1#2)%Q; (1#3)%Q; (1#6)%Q] 7 = Counts [4; 2; 1] /\
  minimum_roundoff [(1#2)%Q; 0%Q; (1#2)%Q] 5 = Counts [3; 0; 2] /\
  minimum_roundoff [(1#2)%Q; (1#4)%Q; (1#4)%Q] 2 = ValueErr.
Proof. repeat split; vm_compute; reflexivity. Qed.

(* 3. get_state_index: trajectory id is given state k exactly when
   n_0 + ... + n_{k-1} <= id < n_0 + ... + n_k, so state k receives exactly n_k
   of the ids 0 .. N-1; ids >= N raise IndexError *)
Theorem C16_mixed_state_of_trajectory :
  forall counts id,
    (forall k, state_index counts id = Some k ->
               k < length counts /\ psum counts k <= id < psum counts (S k)) /\
    (state_index counts id = None <-> fold_right plus 0 counts <= id).
Proof.
  intros counts id. split; [intros k; apply state_index_spec|apply state_index_total].
Qed.
Print Assumptions C16_mixed_state_of_trajectory.

(* 4. weights.  The n trajectories of a state of weight w, each with the
   correction w/(n/N) of get_state_and_weight, carry w in total after the
   division by N; the estimator term is w * mean; with improved sampling
   (absolute weight w p0 for the no-jump trajectory, relative weights
   corr (1 - p0)) the total is again w and the term is
   w (p0 x0 + (1 - p0) mean): for every trajectory count and every ensemble the
   weights sum to the sum of the mixture weights and the estimator is the
   mixture of the per-state estimators. *)
Theorem C16_mixed_weights :
  forall (w p0 x0 : Q) (xs : list Q) (N : nat), 0 < length xs -> 0 < N ->
    (Qnat (length xs) * (w / (Qnat (length xs) / Qnat N)) / Qnat N == w)%Q /\
    (qsum (map (fun x => (w / (Qnat (length xs) / Qnat N)) * x) xs) / Qnat N
     == w * (qsum xs / Qnat (length xs)))%Q /\
    (w * p0 + Qnat (length xs) * ((w / (Qnat (length xs) / Qnat N)) * (1 - p0)) / Qnat N == w)%Q /\
    (w * p0 * x0
     + qsum (map (fun x => ((w / (Qnat (length xs) / Qnat N)) * (1 - p0)) * x) xs) / Qnat N
     == w * (p0 * x0 + (1 - p0) * (qsum xs / Qnat (length xs))))%Q.
Proof.
  intros w p0 x0 xs N Hn HN. split; [apply correction_weight; assumption|].
  split; [apply mixed_estimator_term; assumption|].
  split; [apply improved_mixed_weight; assumption|apply improved_mixed_term; assumption].
Qed.
Print Assumptions C16_mixed_weights.
