(* C08 - channel representations describe one and the same map.
   Property theorems over the executable index model (Model/C08.v, tied to
   superop_reps.py / qobj.py by correspondence and by the translator
   Gen/C08_shuffle.v).  Proofs are in Proofs/C08.v.
   Quantifiers: every output size m, input size n, every payload type, every
   data list of the right length, every dims labelling. *)
From Coq Require Import List ZArith Bool Arith Lia.
Import ListNotations.
From QV Require Import Model.C08 Proofs.C08.

(* the reshape([s0,s1,s0,s1]).transpose(3,1,2,0) of _super_tofrom_choi sends the
   supermatrix entry S[(b*m+a),(j*n+i)] (column stacking, m = out, n = in) to
   the Choi entry J[(i*m+a),(j*m+b)], also when m <> n (the two middle axes
   then have the "wrong" sizes but stay together) *)
Theorem C08_shuffle_entries :
  forall (T : Type) (dflt : T) m n (data : list T) a b i j,
    a < m -> b < m -> i < n -> j < n -> length data = m * n * m * n ->
    nth ((i * m + a) * (n * m) + (j * m + b))
        (np_transpose dflt shuffle_axes (shuffle_shape m n) data) dflt
    = nth ((b * m + a) * (n * n) + (j * n + i)) data dflt.
Proof. intros T dflt. exact (shuffle_entries dflt). Qed.
Print Assumptions C08_shuffle_entries.

Example C08_nonvacuous_shuffle_entries :
  exists m n (data : list nat) a b i j,
    a < m /\ b < m /\ i < n /\ j < n /\ length data = m * n * m * n /\ m <> n /\
    nth ((b * m + a) * (n * n) + (j * n + i)) data 0 = 21.
Proof.
  exists 3, 2, (seq 0 36), 2, 1, 1, 0.
  split; [lia|]. split; [lia|]. split; [lia|]. split; [lia|]. split; [reflexivity|].
  split; [discriminate|reflexivity].
Qed.

(* the data reshuffle is an involution for all sizes: choi -> super undoes
   super -> choi *)
Theorem C08_shuffle_involution :
  forall (T : Type) (dflt : T) s0 s1 (data : list T),
    length data = s0 * s1 * s0 * s1 ->
    np_transpose dflt shuffle_axes (shuffle_shape s1 s0)
      (np_transpose dflt shuffle_axes (shuffle_shape s0 s1) data) = data.
Proof. intros T dflt. exact (shuffle_involution dflt). Qed.
Print Assumptions C08_shuffle_involution.

(* object level: whenever _super_tofrom_choi succeeds, applying it to the
   result gives back the original data, dims labels and tag (to_super (to_choi S)
   = S and to_choi (to_super J) = J, any labels, any sizes) *)
Theorem C08_tofrom_choi_roundtrip :
  forall (T : Type) (dflt : T) (q q1 : sobj T),
    super_tofrom_choi dflt q = Ok q1 -> super_tofrom_choi dflt q1 = Ok q.
Proof. intros T dflt. exact (tofrom_involution dflt). Qed.
Print Assumptions C08_tofrom_choi_roundtrip.

Example C08_nonvacuous_roundtrip :
  exists q q1, super_tofrom_choi 0 q = Ok q1 /\ s_dims q = (([3], [3]), ([2], [2])) /\
               s_dims q1 = (([2], [3]), ([2], [3])) /\ s_rep q1 = Choi /\ s_data q1 <> s_data q.
Proof.
  eexists (mkS (seq 0 36) (([3], [3]), ([2], [2])) Super), _.
  split; [vm_compute; reflexivity|]. repeat split. vm_compute. discriminate.
Qed.

(* result of a successful conversion: labels [[d, b], [c, a]], tag flipped *)
Theorem C08_tofrom_choi_labels :
  forall (T : Type) (dflt : T) (q q1 : sobj T),
    super_tofrom_choi dflt q = Ok q1 ->
    s_rep q <> Chi /\ s_dims q1 = shuffle_new_dims (s_dims q) /\ s_rep q1 = flip_rep (s_rep q) /\
    length (s_data q1) = length (s_data q).
Proof.
  intros T dflt q q1 H. destruct (tofrom_ok_inv dflt q q1 H) as (A & _ & _ & E).
  subst q1. simpl. rewrite np_transpose_length. repeat split; assumption.
Qed.
Print Assumptions C08_tofrom_choi_labels.

(* error branches of the totalised function *)
Theorem C08_tofrom_choi_errors :
  forall (T : Type) (dflt : T) (q : sobj T),
    (s_rep q = Chi -> super_tofrom_choi dflt q = ValueError) /\
    (length (s_data q) <> shuffle_s0 (s_dims q) * shuffle_s1 (s_dims q)
                          * shuffle_s0 (s_dims q) * shuffle_s1 (s_dims q) ->
     super_tofrom_choi dflt q = ValueError).
Proof. intros T dflt q. split; [apply tofrom_chi_error | apply tofrom_size_error]. Qed.
Print Assumptions C08_tofrom_choi_errors.

(* kraus_to_choi (reshape order F + tensordot): entry ((i,a),(j,b)) is
   sum_k K_k[a,i] conj K_k[b,j], for every list of m x n operators *)
Theorem C08_kraus_to_choi_entries :
  forall Ks J m n a b i j,
    Ks <> [] -> (forall K, In K Ks -> o_m K = m /\ o_n K = n) ->
    kraus_to_choi Ks = Ok J ->
    a < m -> b < m -> i < n -> j < n ->
    mget (s_data J) (m * n) (i * m + a) (j * m + b)
    = gsum (map (fun K => gmul (mget (o_data K) n a i) (gconj (mget (o_data K) n b j))) Ks).
Proof. exact kraus_entries. Qed.
Print Assumptions C08_kraus_to_choi_entries.

Example C08_nonvacuous_kraus :
  exists Ks J, Ks <> [] /\ (forall K, In K Ks -> o_m K = 3 /\ o_n K = 2) /\ kraus_to_choi Ks = Ok J.
Proof.
  eexists [mkO 3 2 [3] [2] [(1,0);(0,1);(2,0);(0,0);(0,-1);(1,1)]%Z], _.
  split; [discriminate|]. split; [|vm_compute; reflexivity].
  intros K [<-|[]]. split; reflexivity.
Qed.

(* to_choi of a plain operator A (sprepost(A, A^dag) then the reshuffle) has the
   entries A[a,i] conj A[b,j] - the same matrix as kraus_to_choi [A] - with
   labels [[in, out], [in, out]] and tag choi, for every m x n operator *)
Theorem C08_to_choi_of_operator :
  forall A J a b i j,
    o_dl A = [o_m A] -> o_dr A = [o_n A] -> 1 < o_m A -> 1 < o_n A ->
    to_choi (QOper A) = Ok J ->
    a < o_m A -> b < o_m A -> i < o_n A -> j < o_n A ->
    mget (s_data J) (o_n A * o_m A) (i * o_m A + a) (j * o_m A + b)
    = gmul (mget (o_data A) (o_n A) a i) (gconj (mget (o_data A) (o_n A) b j))
    /\ s_dims J = ((o_dr A, o_dl A), (o_dr A, o_dl A)) /\ s_rep J = Choi.
Proof. exact to_choi_oper_entries. Qed.
Print Assumptions C08_to_choi_of_operator.

(* labels of kraus_to_choi: [[in, out], [in, out]] - the operator's dims reversed,
   the labels of to_choi *)
Theorem C08_kraus_to_choi_labels :
  forall K0 Ks J, kraus_to_choi (K0 :: Ks) = Ok J ->
    s_dims J = ((o_dr K0, o_dl K0), (o_dr K0, o_dl K0)) /\ s_rep J = Choi.
Proof. exact kraus_labels. Qed.
Print Assumptions C08_kraus_to_choi_labels.

(* dims-label part of C08, positive since the fix of kraus_to_choi:
   kraus_to_choi [A] and to_choi A are one and the same object - data, labels
   and tag - for every m x n operator, in particular rectangular ones; every
   predicate of the model therefore gives one verdict on both. *)
Theorem C08_kraus_choi_is_to_choi :
  forall A J Jk,
    o_dl A = [o_m A] -> o_dr A = [o_n A] -> 1 < o_m A -> 1 < o_n A ->
    to_choi (QOper A) = Ok J -> kraus_to_choi [A] = Ok Jk ->
    Jk = J /\ istp (QSuper Jk) = istp (QSuper J) /\ ishp (QSuper Jk) = ishp (QSuper J).
Proof.
  intros A J Jk Hdl Hdr Hm Hn HJ HK.
  rewrite (kraus_single_eq_to_choi A J Jk Hdl Hdr Hm Hn HJ HK). repeat split.
Qed.
Print Assumptions C08_kraus_choi_is_to_choi.

(* the former counterexample: a rectangular isometry 2 -> 4 *)
Definition iso_2_4 : oper :=
  mkO 4 2 [4] [2] [(1,0);(0,0); (0,0);(0,0); (0,0);(0,0); (0,0);(1,0)]%Z.

Example C08_nonvacuous_kraus_choi_is_to_choi :
  exists J Jk, to_choi (QOper iso_2_4) = Ok J /\ kraus_to_choi [iso_2_4] = Ok Jk /\
               istp (QSuper Jk) = Some true /\ s_dims Jk = (([2], [4]), ([2], [4])).
Proof.
  eexists. eexists. split; [vm_compute; reflexivity|]. split; [vm_compute; reflexivity|].
  split; vm_compute; reflexivity.
Qed.

(* composite labels ([2] -> [2,2]) on the same witness *)
Example C08_kraus_choi_composite_witness :
  let V := mkO 4 2 [2; 2] [2] (o_data iso_2_4) in
  exists J, to_choi (QOper V) = Ok J /\ kraus_to_choi [V] = Ok J /\ istp (QSuper J) = Some true.
Proof. eexists. split; [vm_compute; reflexivity|]. split; vm_compute; reflexivity. Qed.

(* predicate part of C08 for the chi representation.  The full statement
     forall J C, choi_to_chi J = Ok C -> istp (QSuper C) = istp (QSuper J)
   is C08_istp_chi_agrees in Props/C08_ext.v (every number of qubits).  Kept
   here: the shape of the fixed code - Qobj.istp tests the Choi matrix that
   _chi_to_choi rebuilds from a chi matrix (exact numerator B chi B^dag against
   shape[0] times the identity). *)
Theorem C08_istp_chi_agrees_partial :
  forall q, s_rep q = Chi ->
    istp (QSuper q) = match chi_to_choi q with
                      | Ok (J, N) => istp_sobj_scaled (gofnat N) J
                      | _ => None
                      end.
Proof. intros q H. unfold istp. rewrite H. reflexivity. Qed.
Print Assumptions C08_istp_chi_agrees_partial.

Definition choi_identity_qubit : sobj GZ :=
  mkS [(1,0);(0,0);(0,0);(1,0); (0,0);(0,0);(0,0);(0,0);
       (0,0);(0,0);(0,0);(0,0); (1,0);(0,0);(0,0);(1,0)]%Z (([2], [2]), ([2], [2])) Choi.

(* the former counterexample (identity channel, chi = diag(4,0,0,0)) and a
   non-TP map: same verdict on both representations *)
Example C08_istp_chi_witnesses :
  (exists C, to_chi (QSuper choi_identity_qubit) = Ok C /\ s_rep C = Chi /\
             istp (QSuper choi_identity_qubit) = Some true /\ istp (QSuper C) = Some true) /\
  (let J := mkS [(1,0);(0,0);(0,0);(0,0); (0,0);(1,0);(0,0);(0,0);
                 (0,0);(0,0);(0,0);(0,0); (0,0);(0,0);(0,0);(0,0)]%Z (([2], [2]), ([2], [2])) Choi in
   exists C, to_chi (QSuper J) = Ok C /\
             istp (QSuper J) = Some false /\ istp (QSuper C) = Some false).
Proof.
  split.
  - eexists. split; [vm_compute; reflexivity|]. split; [reflexivity|]. split; vm_compute; reflexivity.
  - eexists. split; [vm_compute; reflexivity|]. split; vm_compute; reflexivity.
Qed.
