(* C06 - coefficients reproduce the data / function they were built from.
   Property theorems only; proofs are in Proofs/C06.v, the model in
   Model/C06.v.

   Quantifiers.  [T] is any carrier of "doubles" with operations [N : num T].
   Index logic theorems assume only the laws of the comparison of non-NaN
   doubles ([order_laws]); arithmetic theorems assume in addition that the
   operations form a field ([field_laws], exact arithmetic - rounding is
   outside).  Grids [g] are arbitrary lists of any length n < 2^63 (the
   range of Py_ssize_t), strictly increasing ([increasing]); no assumption
   on scale or spacing.  [idxf] is an arbitrary interval-index oracle: the
   theorems named ..._any_index_path hold for whatever index computation is
   used provided it returns the cell containing t; C06_index_right_cell shows
   that the index _call computes (float quotient as a guess, kept only if
   tlist[idx] <= t < tlist[idx+1], binary search otherwise) always does, with
   no hypothesis on the stored dt, the uniform-grid test, the division or the
   <size_t> cast; the remaining theorems combine the two.  The rules before
   the fix commits b254917 / 4ce1843 survive only as old_call / old_NQ /
   old_NF in two witness Examples at the end. *)
From Coq Require Import List ZArith Bool Lia QArith Qcanon Floats.
Import ListNotations.
From QV Require Import Model.C06 Proofs.C06.
Open Scope Z_scope.

(* ---------------------------------------------------------- binary search *)
(* for ANY comparison function (no law assumed, so also for IEEE doubles
   with NaNs) and any array of length 1 <= n < 2^63 whose first entry is not
   above x: the loop stops because low+1 = high, strictly inside its 64-step
   budget, and returns i with not(x < t[i]) and x < t[i+1] (or i = n-1) *)
Theorem C06_binary_search_finds_interval :
  forall (T : Type) (N : num T) (g : list T) (x : T),
    1 <= zlen g -> zlen g < two63 ->
    nltb N x (zn g 0 (n0 N)) = false ->
    let i := binary_search N g x in
    (0 <= i < zlen g) /\
    nltb N x (zn g i (n0 N)) = false /\
    (i + 1 < zlen g -> nltb N x (zn g (i + 1) (n0 N)) = true) /\
    (1 <= snd (bs_loop N g x 64 0 (zlen g)))%nat.
Proof. exact @binary_search_spec. Qed.
Print Assumptions C06_binary_search_finds_interval.

(* the same statement read on the code as it runs: IEEE binary64 *)
Theorem C06_binary_search_float :
  forall (g : list float) (x : float),
    1 <= zlen g -> zlen g < two63 ->
    PrimFloat.ltb x (zn g 0 0%float) = false ->
    let i := binary_search NF g x in
    (0 <= i < zlen g) /\
    PrimFloat.ltb x (zn g i 0%float) = false /\
    (i + 1 < zlen g -> PrimFloat.ltb x (zn g (i + 1) 0%float) = true).
Proof.
  intros g x H1 H2 H3.
  destruct (binary_search_spec NF g x H1 H2 H3) as (A & B & C & _).
  repeat split; try apply A; auto.
Qed.
Print Assumptions C06_binary_search_float.

(* on a strictly increasing grid that index is THE cell containing t *)
Theorem C06_binary_search_unique :
  forall (T : Type) (N : num T), order_laws N ->
  forall (g : list T) (t : T) (k : Z),
    increasing N g -> zlen g < two63 ->
    in_cell N g t k -> nleb N t (zn g 0 (n0 N)) = false ->
    binary_search N g t = k.
Proof.
  intros T N (L1 & L2 & L3 & L4) g t k Hinc Hn Hc Hlo.
  eapply binary_idx; eauto.
Qed.
Print Assumptions C06_binary_search_unique.

(* the index used by _call is the cell that contains t, whatever
   dt, (t - t0)/dt and <size_t> give *)
Theorem C06_index_right_cell :
  forall (T : Type) (N : num T), order_laws N ->
  forall (g : list T) (o : inter (T:=T)) (t : T) (k : Z),
    increasing N g -> i_tlist o = g -> zlen g < two63 ->
    in_cell N g t k -> nleb N t (zn g 0 (n0 N)) = false ->
    real_idx N o t = k.
Proof.
  intros T N (L1 & L2 & L3 & L4) g o t k Hinc Htl Hn Hc Hlo.
  eapply real_idx_cell; eauto.
Qed.
Print Assumptions C06_index_right_cell.

(* ----------------------------------------------------------------- order 0 *)
(* step function on [g_k, g_{k+1}) for any index path that finds the cell *)
Theorem C06_order0_step_any_index_path :
  forall (T : Type) (N : num T), order_laws N ->
  forall (g : list T) (c : list (cplx (T:=T))) (o : inter (T:=T))
         (idxf : inter (T:=T) -> T -> Z) (t : T) (k : Z),
    increasing N g -> i_tlist o = g -> i_poly o = [c] -> zlen c = zlen g ->
    in_cell N g t k ->
    (nleb N t (zn g 0 (n0 N)) = false -> idxf o t = k) ->
    call_with N idxf o t = Val (zn c k (c0 N)).
Proof.
  intros T N (L1 & L2 & L3 & L4) g c o idxf t k Hinc Htl Hp Hc Hcell Hidx.
  assert (H1 : 1 <= zlen g) by (destruct Hcell as (? & ? & _); lia).
  eapply call0_cell; eauto.
Qed.
Print Assumptions C06_order0_step_any_index_path.

(* order 0: step function on every cell, every increasing grid *)
Theorem C06_order0_step :
  forall (T : Type) (N : num T), order_laws N ->
  forall (g : list T) (c : list (cplx (T:=T))) (o : inter (T:=T)) (t : T) (k : Z),
    increasing N g -> zlen g < two63 ->
    i_tlist o = g -> i_poly o = [c] -> zlen c = zlen g ->
    in_cell N g t k ->
    call N o t = Val (zn c k (c0 N)).
Proof.
  intros T N (L1 & L2 & L3 & L4) g c o t k Hinc Hn Htl Hp Hc Hcell.
  assert (H1 : 1 <= zlen g) by (destruct Hcell as (? & ? & _); lia).
  unfold call. eapply call0_cell; eauto.
  intros Hlo. eapply real_idx_cell; eauto.
Qed.
Print Assumptions C06_order0_step.

(* order 0: every sample at its sample time *)
Theorem C06_order0_samples :
  forall (T : Type) (N : num T), order_laws N ->
  forall (g : list T) (c : list (cplx (T:=T))) (o : inter (T:=T)) (k : Z),
    increasing N g -> 1 <= zlen g -> zlen g < two63 ->
    i_tlist o = g -> i_poly o = [c] -> zlen c = zlen g ->
    0 <= k < zlen g ->
    call N o (zn g k (n0 N)) = Val (zn c k (c0 N)).
Proof.
  intros T N (L1 & L2 & L3 & L4) g c o k Hinc H1 Hn Htl Hp Hc Hk.
  unfold call. eapply samples0_generic; eauto.
  intros t k' Hcell Hlo. eapply real_idx_cell; eauto.
Qed.
Print Assumptions C06_order0_samples.

(* --------------------------------------------------- constant outside grid *)
Theorem C06_constant_outside :
  forall (T : Type) (N : num T), order_laws N ->
  forall (g : list T) (o : inter (T:=T)) (idxf : inter (T:=T) -> T -> Z) (t : T),
    i_tlist o = g -> 1 <= zlen g ->
    (nleb N t (zn g 0 (n0 N)) = true ->
       call_with N idxf o t = zget (last_row o) 0) /\
    (nleb N t (zn g 0 (n0 N)) = false ->
     nleb N (zn g (zlen g - 1) (n0 N)) t = true ->
       call_with N idxf o t = zget (last_row o) (zlen g - 1)).
Proof.
  intros T N (L1 & L2 & L3 & L4) g o idxf t Htl H1. split.
  - intros H. eapply call_below; eauto.
  - intros Ha Hb. eapply call_above; eauto.
Qed.
Print Assumptions C06_constant_outside.

(* -------------------------------------------- any order: value at a knot *)
(* for any piecewise polynomial (rows from __init__, from_PPoly, restore or
   the scipy spline oracle), with exact arithmetic *)
(* any order: value at a knot = constant term of that piece *)
Theorem C06_knot_value_any_order :
  forall (T : Type) (N : num T), field_laws N -> order_laws N ->
  forall (g : list T) (o : inter (T:=T)) (k : Z),
    increasing N g -> i_tlist o = g -> 2 <= zlen g -> zlen g < two63 ->
    i_poly o <> [] ->
    (forall row, In row (i_poly o) -> zlen row = zlen g) ->
    0 <= k < zlen g ->
    call N o (zn g k (n0 N)) = Val (zn (last_row o) k (c0 N)).
Proof.
  intros T N HF (L1 & L2 & L3 & L4) g o k Hinc Htl H2 Hn Hp Hrows Hk.
  unfold call. eapply knot_generic; eauto.
  intros t k' Hcell Hlo. eapply real_idx_cell; eauto.
Qed.
Print Assumptions C06_knot_value_any_order.

(* ----------------------------------------------------------------- order 1 *)
(* __init__(order=1): between samples the value v is the linear interpolant,
   (v - c_k)(g_{k+1} - g_k) = (c_{k+1} - c_k)(t - g_k) on real and imaginary
   parts, for any index path that finds the cell *)
Theorem C06_order1_linear_any_index_path :
  forall (T : Type) (N : num T), field_laws N -> order_laws N ->
  forall (g : list T) (c : list (cplx (T:=T)))
         (idxf : inter (T:=T) -> T -> Z) (t : T) (k : Z),
    increasing N g -> zlen c = zlen g -> 2 <= zlen g ->
    in_cell N g t k -> nleb N t (zn g 0 (n0 N)) = false ->
    idxf (init01 N 1 c g) t = k ->
    exists v, call_with N idxf (init01 N 1 c g) t = Val v /\
      let ck := zn c k (c0 N) in let ck1 := zn c (k + 1) (c0 N) in
      let dg := nsub N (zn g (k + 1) (n0 N)) (zn g k (n0 N)) in
      let dt := nsub N t (zn g k (n0 N)) in
      nmul N (nsub N (fst v) (fst ck)) dg = nmul N (nsub N (fst ck1) (fst ck)) dt /\
      nmul N (nsub N (snd v) (snd ck)) dg = nmul N (nsub N (snd ck1) (snd ck)) dt.
Proof.
  intros T N HF (L1 & L2 & L3 & L4) g c idxf t k Hinc Hc H2 Hcell Hlo Hidx.
  eapply call1_cell; eauto.
Qed.
Print Assumptions C06_order1_linear_any_index_path.

(* order 1: linear interpolant on every cell *)
Theorem C06_order1_linear :
  forall (T : Type) (N : num T), field_laws N -> order_laws N ->
  forall (g : list T) (c : list (cplx (T:=T))) (t : T) (k : Z),
    increasing N g -> zlen c = zlen g -> 2 <= zlen g -> zlen g < two63 ->
    in_cell N g t k -> nleb N t (zn g 0 (n0 N)) = false ->
    exists v, call N (init01 N 1 c g) t = Val v /\
      let ck := zn c k (c0 N) in let ck1 := zn c (k + 1) (c0 N) in
      let dg := nsub N (zn g (k + 1) (n0 N)) (zn g k (n0 N)) in
      let dt := nsub N t (zn g k (n0 N)) in
      nmul N (nsub N (fst v) (fst ck)) dg = nmul N (nsub N (fst ck1) (fst ck)) dt /\
      nmul N (nsub N (snd v) (snd ck)) dg = nmul N (nsub N (snd ck1) (snd ck)) dt.
Proof.
  intros T N HF (L1 & L2 & L3 & L4) g c t k Hinc Hc H2 Hn Hcell Hlo.
  unfold call. eapply call1_cell; eauto.
  destruct (init1_shape N L1 L2 L3 L4 g c H2) as (Htl & _).
  eapply real_idx_cell; eauto.
Qed.
Print Assumptions C06_order1_linear.

(* order 1: every sample at its sample time *)
Theorem C06_order1_samples :
  forall (T : Type) (N : num T), field_laws N -> order_laws N ->
  forall (g : list T) (c : list (cplx (T:=T))) (k : Z),
    increasing N g -> zlen c = zlen g -> 2 <= zlen g -> zlen g < two63 ->
    0 <= k < zlen g ->
    call N (init01 N 1 c g) (zn g k (n0 N)) = Val (zn c k (c0 N)).
Proof.
  intros T N HF (L1 & L2 & L3 & L4) g c k Hinc Hc H2 Hn Hk.
  destruct (init1_shape N L1 L2 L3 L4 g c H2) as (Htl & Ep).
  assert (E : zn c k (c0 N) = zn (last_row (init01 N 1 c g)) k (c0 N)).
  { unfold last_row. rewrite Ep. reflexivity. }
  rewrite E. unfold call. eapply knot_generic; eauto.
  - intros t k' Hcell Hlo. eapply real_idx_cell; eauto.
  - rewrite Ep. discriminate.
  - apply init1_rows; auto.
Qed.
Print Assumptions C06_order1_samples.

(* ------------------------------------------------------ FunctionCoefficient *)
(* arguments of the coefficient returned by replace_arguments(_args, **kw):
   for a declared (or any, when the function takes **kw / dict style)
   parameter the new value (_args wins over kw), otherwise the old one;
   undeclared names never enter *)
Theorem C06_replace_arguments_lookup :
  forall (V : Type) (o : fcoeff (V:=V)) (a kw : dict V) (k : nat),
    lookup (fc_args (fst (fc_replace o a kw))) k =
      orelse (if allowed (fc_params o) k then orelse (lookup a k) (lookup kw k) else None)
             (lookup (fc_args o) k).
Proof. exact @fc_replace_lookup. Qed.
Print Assumptions C06_replace_arguments_lookup.

(* construction keeps exactly the declared parameters *)
Theorem C06_init_keeps_declared_only :
  forall (V : Type) (s : fsig) (st : style) (args : dict V) (k : nat),
    lookup (fc_args (fc_init s st args)) k =
      if allowed (snd (cfp s st)) k then lookup args k else None.
Proof. exact @fc_init_lookup. Qed.
Print Assumptions C06_init_keeps_declared_only.

(* arguments at call time = replacement = construction, for any function of
   (t, argument lookups), any signature style *)
Theorem C06_argument_paths_agree :
  forall (V R : Type) (func : Z -> (nat -> option V) -> R),
    (forall t l1 l2, (forall k, l1 k = l2 k) -> func t l1 = func t l2) ->
    forall (s : fsig) (st : style) (args1 args2 kw : dict V) (t : Z),
      fc_call func (fc_init s st args1) t args2 kw =
        fc_eval func (fc_init s st (merge args1 (merge kw args2))) t /\
      fc_call func (fc_init s st args1) t args2 kw =
        fc_eval func (fst (fc_replace (fc_init s st args1) args2 kw)) t.
Proof.
  intros V R func Hext s st args1 args2 kw t. split.
  - apply fc_call_paths_agree. exact Hext.
  - apply fc_call_is_replace.
Qed.
Print Assumptions C06_argument_paths_agree.

(* replace_arguments never changes the detected signature; when nothing is
   replaced the same object is returned *)
Theorem C06_replace_keeps_signature :
  forall (V : Type) (o : fcoeff (V:=V)) (a kw : dict V),
    fc_pythonic (fst (fc_replace o a kw)) = fc_pythonic o /\
    fc_params (fst (fc_replace o a kw)) = fc_params o /\
    (snd (fc_replace o a kw) = true -> fst (fc_replace o a kw) = o).
Proof.
  intros V o a kw. destruct (fc_replace_keeps_sig o a kw) as (A & B).
  split; [exact A|split; [exact B|apply fc_replace_same_iff]].
Qed.
Print Assumptions C06_replace_keeps_signature.

(* decision table of coefficient_function_parameters *)
Theorem C06_function_style_table :
  forall s : fsig,
    cfp s SDict = (false, None) /\
    cfp s SPythonic = (true, if f_has_kw s then None else Some (tl (f_params s))) /\
    cfp s SAuto = (if nat_list_eqb (f_params s) [0%nat; 1%nat] && negb (f_has_kw s)
                   then cfp s SDict else cfp s SPythonic).
Proof. exact cfp_table. Qed.
Print Assumptions C06_function_style_table.

(* ------------------------------------------------------------ non-vacuity *)
(* the hypotheses [order_laws] and [field_laws] are satisfiable: exact
   rationals (which contain every finite double) *)
Theorem C06_exact_instance_laws : order_laws NQ /\ field_laws NQ.
Proof. split; [exact NQ_order_laws|exact NQ_field]. Qed.
Print Assumptions C06_exact_instance_laws.

(* a wildly non-uniform grid (spacings 2^-40 and 2^20) with 4 points: not
   declared uniform, strictly increasing, t strictly inside cell 1 *)
Definition ex_grid : list Qc :=
  [qc 0 1; qc 1 1099511627776; qc 1048576 1; qc 1048577 1].
Definition ex_vals : list (Qc * Qc) :=
  [(qc 3 1, qc 1 1); (qc (-5) 1, qc 2 1); (qc 7 1, qc 0 1); (qc 11 1, qc (-4) 1)].

Example C06_nonvacuous_grid :
  increasing NQ ex_grid /\ zlen ex_vals = zlen ex_grid /\ 2 <= zlen ex_grid < two63 /\
  nnz NQ (i_dt (init01 NQ 0 ex_vals ex_grid)) = false /\
  nnz NQ (i_dt (init01 NQ 1 ex_vals ex_grid)) = false /\
  in_cell NQ ex_grid (qc 524288 1) 1 /\
  nleb NQ (qc 524288 1) (zn ex_grid 0 (n0 NQ)) = false.
Proof.
  split; [unfold ex_grid; small_increasing [0; 1; 2; 3]|].
  repeat split; vm_compute; congruence.
Qed.

(* the theorems above applied to it, and the model run on it, agree *)
Example C06_nonvacuous_order0 :
  call NQ (init01 NQ 0 ex_vals ex_grid) (qc 524288 1) = Val (qc (-5) 1, qc 2 1) /\
  call NQ (init01 NQ 0 ex_vals ex_grid) (qc 1048576 1) = Val (qc 7 1, qc 0 1).
Proof. split; vm_compute; reflexivity. Qed.

Example C06_nonvacuous_order1 :
  call NQ (init01 NQ 1 ex_vals ex_grid) (qc 1 1099511627776) = Val (qc (-5) 1, qc 2 1) /\
  exists v, call NQ (init01 NQ 1 ex_vals ex_grid) (qc 524288 1) = Val v /\
            v <> zn ex_vals 1 (c0 NQ) /\ v <> zn ex_vals 2 (c0 NQ).
Proof.
  split; [vm_compute; reflexivity|].
  eexists. split; [vm_compute; reflexivity|].
  split; intros H; discriminate H.
Qed.

(* FunctionCoefficient: f(t, a, b) built with {a:1, b:2, zz:9}; zz is
   dropped, replacing {b:5, yy:7} changes b only and returns a new object *)
Example C06_nonvacuous_function :
  let s := {| f_params := [0; 2; 3]%nat; f_has_kw := false |} in
  let o := fc_init s SAuto [(2%nat, 1); (3%nat, 2); (9%nat, 9)] in
  let r := fc_replace o [(3%nat, 5); (8%nat, 7)] [] in
  (map (lookup (fc_args o)) [2; 3; 9; 8]%nat = [Some 1; Some 2; None; None]) /\
  (map (lookup (fc_args (fst r))) [2; 3; 9; 8]%nat = [Some 1; Some 5; None; None]) /\
  snd r = false /\ snd (fc_replace o [(8%nat, 7)] []) = true.
Proof. vm_compute. repeat split. Qed.

(* ------------------------------------------- witnesses of the repaired defects *)
(* (1) before b254917 _prepare used np.allclose defaults (atol = 1e-8,
       rtol = 1e-5) and before 4ce1843 _call used the quotient unchecked: the
       strictly increasing grid [0, 1e-9, 4e-9] was declared uniform and, in
       EXACT arithmetic, t = 2.5e-9 (cell 1) evaluated to sample 2 and
       t = 3.5e-9 raised IndexError.  The current rules give sample 1 - and
       would do so even if the grid were still declared uniform. *)
Example C06_old_rules_witness_allclose :
  increasing NQ bad_grid1 /\ in_cell NQ bad_grid1 (qc 25 10000000000) 1 /\
  in_cell NQ bad_grid1 (qc 35 10000000000) 1 /\
  (* old rules *)
  old_call old_NQ (init01 old_NQ 0 bad_vals1 bad_grid1) (qc 25 10000000000)
    = Val (qc 30 1, qc 0 1) /\
  old_call old_NQ (init01 old_NQ 0 bad_vals1 bad_grid1) (qc 35 10000000000) = IndexError /\
  old_call old_NQ (init01 old_NQ 0 bad_vals2 bad_grid2) (qc 524289 262144)
    = Val (qc 2 1, qc 0 1) /\
  (* current rules *)
  nnz NQ (i_dt (init01 NQ 0 bad_vals1 bad_grid1)) = false /\
  map (call NQ (init01 NQ 0 bad_vals1 bad_grid1)) [qc 25 10000000000; qc 35 10000000000]
    = [Val (qc 20 1, qc 0 1); Val (qc 20 1, qc 0 1)] /\
  map (call old_NQ (init01 old_NQ 0 bad_vals1 bad_grid1)) [qc 25 10000000000; qc 35 10000000000]
    = [Val (qc 20 1, qc 0 1); Val (qc 20 1, qc 0 1)] /\
  call NQ (init01 NQ 0 bad_vals2 bad_grid2) (qc 524289 262144) = Val (qc 1 1, qc 0 1).
Proof.
  split; [exact bad_grid1_increasing|].
  repeat split; try (vm_compute; congruence); vm_compute; reflexivity.
Qed.

(* (2) numpy.linspace(0, 0.7, 5) in IEEE binary64 (bit exact): the truncated
       quotient (t - t0)/dt is one short AT sample 3; the old rule returned
       sample 2 there, the current rule returns every sample at its sample
       time while still using the index-formula path *)
Example C06_old_rules_witness_truncation :
  res_tag (old_call old_NF (init01 old_NF 0 vals5 lin5) (zn lin5 3 0%float)) = 2 /\
  nnz NF (i_dt (init01 NF 0 vals5 lin5)) = true /\
  map (fun k => res_tag (call NF (init01 NF 0 vals5 lin5) (zn lin5 k 0%float)))
      [0; 1; 2; 3; 4] = [0; 1; 2; 3; 4].
Proof. repeat split; vm_compute; reflexivity. Qed.
