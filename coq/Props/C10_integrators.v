(* C10 - the exact-diagonalisation and Krylov integrators: bookkeeping proved
   for every history / time list, numerics as oracles.  Property theorems
   only; proofs in Proofs/C10_diag.v and Proofs/C10_krylov.v. *)
From Coq Require Import List ZArith QArith Bool Lia.
Import ListNotations.
Local Close Scope Q_scope.
From QV Require Import Model.C10_diag Model.C10_krylov Proofs.C10_diag Proofs.C10_krylov.

(* ------------------------------------------------------------- diag --- *)

(* IntegratorDiag, any history on one object (set_state / integrate in any
   order, any times - increasing, decreasing, repeated, steps equal or nearly
   equal): every integrate(t) returns (t, U (exp(diag*(t - t_set)) .* Uinv s_set))
   for the state set last - the cached step exponential is never stale and
   `_y *= None` is never reached.  Oracle assumptions: exp(diag*a) .* exp(diag*b)
   = exp(diag*(a+b)), exp(0) = 1 (element-wise), time subtraction laws. *)
Theorem C10_diag_history_exact :
  forall (T Y S E : Type) (tsub tadd : T -> T -> T) (tzero : T) (teqb : T -> T -> bool)
         (expd : T -> E) (vmulE : Y -> E -> Y) (toU : Y -> S) (fromU : S -> Y),
    (forall a b, teqb a b = true <-> a = b) ->
    (forall a b, tsub a b = tzero -> a = b) ->
    (forall a, tsub a a = tzero) ->
    (forall a b c, tadd (tsub b a) (tsub c b) = tsub c a) ->
    (forall y a b, vmulE (vmulE y (expd a)) (expd b) = vmulE y (expd (tadd a b))) ->
    (forall y, vmulE y (expd tzero) = y) ->
    forall ops : list (dop T S),
      fst (d_run T Y S E tsub tzero teqb expd vmulE toU fromU ops (d_prepare T Y E tzero))
      = d_ref T Y S E tsub expd vmulE toU fromU ops None.
Proof.
  intros T Y S E tsub tadd tzero teqb expd vmulE toU fromU H1 H2 H3 H4 H5 H6 ops.
  exact (diag_history_exact T Y S E tsub tadd tzero teqb expd vmulE toU fromU
           H1 H2 H3 H4 H5 H6 ops).
Qed.
Print Assumptions C10_diag_history_exact.

(* the cache invariant by itself (needs only the equality test): after every
   history the stored exponential is exp(diag * stored step) *)
Theorem C10_diag_cache_never_stale :
  forall (T Y S E : Type) (tsub tadd : T -> T -> T) (tzero : T) (teqb : T -> T -> bool)
         (expd : T -> E) (vmulE : Y -> E -> Y) (toU : Y -> S) (fromU : S -> Y),
    (forall a b, teqb a b = true <-> a = b) ->
    (forall a b, tsub a b = tzero -> a = b) ->
    (forall y, vmulE y (expd tzero) = y) ->
    forall ops : list (dop T S),
      cache_ok T Y E tzero expd
        (snd (d_run T Y S E tsub tzero teqb expd vmulE toU fromU ops (d_prepare T Y E tzero))).
Proof.
  intros T Y S E tsub tadd tzero teqb expd vmulE toU fromU H1 H2 H6 ops.
  apply (run_cache T Y S E tsub tzero teqb expd vmulE toU fromU H1 H2 H6).
  apply cache_prepare.
Qed.
Print Assumptions C10_diag_cache_never_stale.

(* non-vacuity: an additive instance satisfies all hypotheses, and the model
   on the executable instance is not trivial (second step re-uses the cache,
   the third refreshes it; a history with a second set_state) *)
Example C10_nonvacuous_diag :
  (forall a b, Z.eqb a b = true <-> a = b) /\
  (forall a b c, Z.add (Z.sub b a) (Z.sub c b) = Z.sub c a) /\
  (forall y a b : Z, (y + 3 * a) + 3 * b = y + 3 * (a + b))%Z /\
  toy_d_run [0; 1]%Z [[1; 1]; [0; 1]]%Z [[1; -1]; [0; 1]]%Z
            [DSet Z qv 0%Z [inject_Z 1; inject_Z 2]; DInt Z qv 1%Z; DInt Z qv 2%Z; DInt Z qv 5%Z;
             DSet Z qv 7%Z [inject_Z 1; inject_Z 0]; DInt Z qv 6%Z]
  = ([Some (1, [(3, 1); (4, 1)]); Some (2, [(7, 1); (8, 1)]); Some (5, [(63, 1); (64, 1)]);
      Some (6, [(1, 1); (0, 1)])]%Z%positive, [1; 3; -1]%Z).
Proof.
  split; [exact Z.eqb_eq|]. split; [intros; lia|]. split; [intros; lia|].
  vm_compute. reflexivity.
Qed.

(* ----------------------------------------------------------- krylov --- *)

(* IntegratorKrylov, any history (set_state, then non-decreasing queries; again
   and again on the same object): given that the per-window oracle is exact for
   step lengths up to `bound` and for happy-breakdown states, and that
   _compute_max_step returns lengths in (0, bound], every answer that is
   returned is (t, flow (t - t_set) s_set).  In particular an infinite window
   is only ever in force for a happy-breakdown state and the -inf placeholder
   is never used.  (`agrees` claims nothing after an exception.) *)
Theorem C10_krylov_history_exact :
  forall (St K : Type) (lanczos : St -> K * bool) (psi : Z -> K -> St) (cms : K -> Z)
         (always : bool) (nsteps : nat) (flow : Z -> St -> St) (bound : Z),
    (forall a b s, 0 <= a -> 0 <= b -> flow (a + b) s = flow b (flow a s))%Z ->
    (forall s, flow 0%Z s = s) ->
    (forall k, 0 < cms k <= bound)%Z ->
    (forall s d, (0 <= d <= bound)%Z -> psi d (fst (lanczos s)) = flow d s) ->
    (forall s d, snd (lanczos s) = true -> (0 <= d)%Z -> psi d (fst (lanczos s)) = flow d s) ->
    forall (ms0 : ext) (ops : list (kop St)),
      prepared_ok always bound ms0 -> nondecr St None ops ->
      agrees St (fst (k_run St K lanczos psi cms always nsteps ops (k_prepare K ms0)))
             (k_ref St flow ops None).
Proof.
  intros St K lanczos psi cms always nsteps flow bound H1 H2 H3 H4 H5 ms0 ops Hp Hn.
  exact (krylov_history_exact St K lanczos psi cms always nsteps flow bound
           H1 H2 H3 H4 H5 ms0 ops Hp Hn).
Qed.
Print Assumptions C10_krylov_history_exact.

(* and it does return: the re-basing loop ends without exception when nsteps
   exceeds the distance (in time units) from the window start to the query *)
Theorem C10_krylov_integrate_returns :
  forall (St K : Type) (lanczos : St -> K * bool) (psi : Z -> K -> St) (cms : K -> Z)
         (always : bool) (nsteps : nat) (flow : Z -> St -> St) (bound : Z),
    (forall a b s, 0 <= a -> 0 <= b -> flow (a + b) s = flow b (flow a s))%Z ->
    (forall k, 0 < cms k <= bound)%Z ->
    (forall s d, (0 <= d <= bound)%Z -> psi d (fst (lanczos s)) = flow d s) ->
    forall t o t0 s0,
      good St K lanczos flow bound t0 s0 o -> (k_t0 K o <= t)%Z ->
      (t - k_t0 K o <= Z.of_nat nsteps)%Z ->
      exists o' out, k_integrate St K lanczos psi cms always nsteps t o = Some (o', out).
Proof.
  intros St K lanczos psi cms always nsteps flow bound H1 H3 H4 t o t0 s0 HG Hle Hd.
  exact (integrate_total St K lanczos psi cms always nsteps flow bound H1 H3 H4 t o t0 s0 HG Hle Hd).
Qed.
Print Assumptions C10_krylov_integrate_returns.

(* non-vacuity: the scripted instance of the harness satisfies the oracle
   hypotheses with bound = 3, and a run over several windows (Lanczos rebuilt
   at 0, 2, 5) that ends in a happy-breakdown window is not trivial *)
Example C10_nonvacuous_krylov :
  (forall a b s, 0 <= a -> 0 <= b -> toy_flow (a + b) s = toy_flow b (toy_flow a s))%Z /\
  (forall s, toy_flow 0 s = s) /\
  (forall k, 0 < toy_cms [2; 2; 1; 3] k <= 3)%Z /\
  (forall s d, toy_psi d (fst (toy_lanczos s)) = toy_flow d s) /\
  toy_k_run [2; 2; 1; 3]%Z true 10 NegInf
            [KSet tstate 0%Z (5, 1)%Z; KInt tstate 1%Z; KInt tstate 9%Z; KInt tstate 30%Z]
  = ([Some (1, (5, 2)); Some (9, (5, 10)); Some (30, (5, 31))]%Z, [0; 2; 5]%Z, PosInf).
Proof.
  split. { intros a b [m k] _ _. unfold toy_flow. simpl. f_equal. lia. }
  split. { intros [m k]. unfold toy_flow. simpl. f_equal. lia. }
  split.
  { intros [m k]. unfold toy_cms. simpl.
    assert (H : (0 <= k mod 4 < 4)%Z) by (apply Z.mod_pos_bound; lia).
    assert (C : (k mod 4 = 0 \/ k mod 4 = 1 \/ k mod 4 = 2 \/ k mod 4 = 3)%Z) by lia.
    destruct C as [ -> | [ -> | [ -> | -> ] ] ]; simpl; lia. }
  split. { intros s d. reflexivity. }
  vm_compute. reflexivity.
Qed.
