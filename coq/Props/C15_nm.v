(* C15, NmmcResult: the trace-weighted statistics equal the weighted
   statistics of exactly the trajectories added, the martingale weight (trace)
   multiplying the trajectory weight.  Model: Model/C15_nm.v, proofs:
   Proofs/C15_nm.v.

   Quantifiers: every history of NNew / NAdd / NAddDet / NMerge / NReadTrace on
   any number of NmmcResult objects (bad indices are no-ops, any rational
   weights, traces - also negative - and mixing probabilities, both
   keep_runs_results settings, reads, adds and merges in any order), any
   common shapes n (flattened expectation values) and nt (times); every
   object x reached; every component k.  q_grel / q_gdet are the trajectories
   added (ghost), meanN f x = sum_det w f(t) + (1/N) sum_rel w f(t);
   gx k t = trace * value, gx2 k t = trace * value^2, gt k t = trace,
   gt2 k t = trace^2 at component k. *)
From Coq Require Import List ZArith QArith Qcanon Bool Arith Lia.
Import ListNotations.
From QV Require Import Model.C15 Proofs.C15 Model.C15_st Proofs.C15_st Model.C15_nm Proofs.C15_nm.
Local Open Scope Qc_scope.

(* average_expect / std_expect of an NmmcResult: weighted mean of trace * value
   and the spread |<trace x^2> - |<trace x>^2|| *)
Theorem C15_nmmc_expect_is_trace_weighted_mean :
  forall n nt ops i x, Forall (nop_shaped n nt) ops -> nth_error (nrun [] ops) i = Some x ->
    (forall a, naverage x = Some a -> length a = n /\ forall k, nth k a 0 = meanN (gx k) x) /\
    (forall v, nvariance x = Some v -> length v = n /\
       forall k, nth k v 0 = Qcabs (meanN (gx2 k) x - Qcabs (meanN (gx k) x * meanN (gx k) x))).
Proof. exact nreached_expect. Qed.
Print Assumptions C15_nmmc_expect_is_trace_weighted_mean.

(* every read of average_trace / std_trace (cached or not, also the value
   computed eagerly by merge) is the weighted mean of the traces and
   |<trace^2> - |<trace>|^2|; it fails exactly on a result without trajectory *)
Theorem C15_nmmc_trace_read_is_weighted_mean :
  forall n nt ops i x, Forall (nop_shaped n nt) ops -> nth_error (nrun [] ops) i = Some x ->
    (forall x' c, nread_trace x = Some (x', c) ->
       length (fst c) = nt /\ length (snd c) = nt /\
       (forall k, nth k (fst c) 0 = meanN (gt k) x) /\
       (forall k, nth k (snd c) 0 =
                  Qcabs (meanN (gt2 k) x - Qcabs (meanN (gt k) x) * Qcabs (meanN (gt k) x)))) /\
    (nread_trace x = None <-> q_grel x = [] /\ q_gdet x = []).
Proof. exact nreached_trace. Qed.
Print Assumptions C15_nmmc_trace_read_is_weighted_mean.

(* the invariant: all eight running sums are the weighted sums of what was
   added, the trace cache is current *)
Theorem C15_nmmc_sums_invariant :
  forall n nt ops i x, Forall (nop_shaped n nt) ops -> nth_error (nrun [] ops) i = Some x -> NI n nt x.
Proof. exact nreach. Qed.
Print Assumptions C15_nmmc_sums_invariant.

(* runs_trace stays aligned with the kept sampled trajectories after ANY
   history (deterministic trajectories, merges with mixed keep_runs_results
   included): a result that keeps its runs lists exactly the traces of the
   sampled trajectories added, in order - as many as num_trajectories -, one
   that does not keep them lists none *)
Theorem C15_nmmc_runs_trace_aligned :
  forall n nt ops i x, Forall (nop_shaped n nt) ops -> nth_error (nrun [] ops) i = Some x ->
    q_runs_trace x = (if q_keep x then map n_tr (q_grel x) else []) /\
    q_ntrajs x = (if q_keep x then q_num x else 0%nat) /\
    (q_keep x = true -> length (q_runs_trace x) = q_num x).
Proof. exact nreached_runs_trace. Qed.
Print Assumptions C15_nmmc_runs_trace_aligned.

(* merge of NmmcResults is the p-mixture for every trace-weighted statistic *)
Theorem C15_nmmc_merge_is_mixture :
  forall f n nt a b p, NI n nt a -> NI n nt b -> (0 < q_num a)%nat -> (0 < q_num b)%nat ->
    meanN f (nmerge_obj a b p) = p_usedN a b p * meanN f a + (1 - p_usedN a b p) * meanN f b.
Proof. exact nmerge_mean. Qed.
Print Assumptions C15_nmmc_merge_is_mixture.

(* trace-weighted states: what NmmcResult._reduce_states / _reduce_final_state
   add for a trajectory is the plain reduction (Model/C15_st.v) of the
   trajectory scaled by nm_scale; its statistics are trace * state, so
   C15_average_states_is_weighted_mean / C15_average_final_state_is_weighted_mean
   applied to the scaled trajectories give the trace-weighted averages *)
Theorem C15_nmmc_state_weighting :
  forall trs trlast t k,
    (forall v, s_states t = Some v -> length trs = length v ->
       sat k (nm_scale trs trlast t) = nth k trs 0 * sat k t) /\
    fat k (nm_scale trs trlast t) = trlast * fat k t.
Proof.
  intros trs trlast t k. split; [intros v Hv L; exact (nm_scale_sat trs trlast t k v Hv L)|exact (nm_scale_fat trs trlast t k)].
Qed.
Print Assumptions C15_nmmc_state_weighting.

Local Open Scope Z_scope.
Example C15_nonvacuous_nmmc :
  let t (id : Z) x tr := mknt id [(x, 1)] [(tr, 1)] [(tr, 1)] in
  let ops := [NNew false; NAdd 0%nat (t 0 2 3) 1%Qc; NReadTrace 0%nat; NAdd 0%nat (t 1 4 (-1)) 1%Qc;
              NAddDet 0%nat (t 2 1 2) (mkq 1 2); NNew false; NAdd 1%nat (t 3 6 1) (mkq 2 1);
              NMerge 0%nat 1%nat (Some (mkq 1 4))] in
  Forall (nop_shaped 1%nat 1%nat) ops /\
  exists m, nth_error (nrun [] ops) 2%nat = Some m /\ q_num m = 3%nat /\
    option_map vz (naverage m) = Some [(19, 2)] /\
    option_map pz (q_cache m) = Some ([(2, 1)], [(3, 4)]).
Proof.
  split; [repeat constructor|].
  eexists. split; [vm_compute; reflexivity|]. split; [reflexivity|]. split; vm_compute; reflexivity.
Qed.

(* the former rule (before 8bf0b8f): _add_trace also appended the trace of a
   deterministic trajectory, so runs_trace had one entry more than there were
   kept trajectories; next to it the current rule on the same input *)
Example C15_old_rule_runs_trace_deterministic :
  let t (id : Z) x tr := mknt id [(x, 1)] [(tr, 1)] [(tr, 1)] in
  let o := nadd (nadd (nnew true) (t 1 2 3) 1%Qc) (t 2 4 5) 1%Qc in
  length (q_runs_trace (old_nadd_det o (t 0 1 7) (mkq 1 2))) = 3%nat /\
  q_ntrajs (old_nadd_det o (t 0 1 7) (mkq 1 2)) = 2%nat /\
  length (q_runs_trace (nadd_det o (t 0 1 7) (mkq 1 2))) = 2%nat /\
  map vz (q_runs_trace (nadd_det o (t 0 1 7) (mkq 1 2))) = [[(3, 1)]; [(5, 1)]].
Proof. repeat split; vm_compute; reflexivity. Qed.
