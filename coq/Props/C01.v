(* C01 - results do not depend on the storage format.  Property theorems
   only; proofs are in Proofs/C01.v, models in Model/C01.v.

   Quantifiers: every carrier C (any type with the listed operations; ring
   laws are assumed only where a theorem names them), every shape, every
   memory order, every sparsity pattern (unsorted rows, explicit zeros), every
   entry value.  `den_*` is the matrix a stored object denotes (what
   to_array returns); wf_csr = no column twice in a row, columns in range,
   one row list per row (sortedness is NOT required, as in the code).

   Full statement aimed at (kept here; proved below for the kernels listed):
     for every operation op of qutip.core.data, every tuple of operand
     formats and every output format:
       den (op_formats operands) = OP (den operands)   up to the tidy-up rule,
     and operands of unfitting shapes give an error.
   Proved: the conversions dense<->csr (both memory orders), dense<->dia and
   dia->csr, transpose / adjoint / conj / neg / mul on csr and dense,
   Dense.reorder, add_dense (both stride paths) and add_csr (walk +
   accumulator) with their shape guards, trace_csr / trace_dense, tidyup on
   dense and csr, the predicates isdiag_csr and isequal_dia (as iff with the
   denoted matrix), and the dispatcher layer: any lookup entry accepted by the
   checker `entry_ok` computes the operation of its base specialisation on
   denotations, so all entries of one operation agree.
   tidyup_dense, isequal_dia and isdiag_csr follow the code after the fix
   commits e806789, 1930127, 96e4de2; their previous rules survive as
   old_... definitions with witness Examples.  One faithful model still
   contradicts the statement (a Dia storing an offset twice) and carries a
   `_refuted` theorem whose witness tools/c01.py replays on the
   implementation. *)
From Coq Require Import List ZArith Bool Arith Lia.
Import ListNotations.
From QV Require Import Model.C01 Proofs.C01 Proofs.C01_pred Proofs.C01_add Proofs.C01_dia Proofs.C01_reshape Proofs.C01_kron Proofs.C01_matmul Proofs.C01_inner Proofs.C01_diacsr Proofs.C01_adddia Proofs.C01_matdia Proofs.C01_pow Proofs.C01_expdata.

Section Props.
Variable C : Type.
Variables (c0 : C) (cadd cmul : C -> C -> C) (copp cconj : C -> C).
Variable is0 : C -> bool.
Variable small : C -> bool.

(* Dense -> CSR (csr.from_dense), C or Fortran order: every entry is kept,
   except entries under the auto-tidy-up threshold, which become 0; the
   result is well formed *)
Theorem C01_csr_from_dense_exact : forall (d : dense C) i j,
  wf_csr C (csr_from_dense C c0 small d) /\
  den_csr C c0 (csr_from_dense C c0 small d) i j =
    if small (den_dense C c0 d i j) then c0 else den_dense C c0 d i j.
Proof. intros. split; [apply csr_from_dense_wf|apply csr_from_dense_den]. Qed.

(* CSR -> Dense (dense.from_csr), either requested order, unsorted rows and
   explicit zeros allowed: no entry changes *)
Theorem C01_dense_from_csr_exact : forall fortran (m : csr C) i j,
  wf_csr C m ->
  wf_dense C (dense_from_csr C c0 fortran m) /\
  den_dense C c0 (dense_from_csr C c0 fortran m) i j = den_csr C c0 m i j.
Proof. intros. split; [apply dense_from_csr_wf|apply dense_from_csr_den; assumption]. Qed.

(* round trip Dense -> CSR -> Dense in any pair of memory orders *)
Theorem C01_dense_csr_roundtrip : forall f2 (d : dense C) i j,
  den_dense C c0 (dense_from_csr C c0 f2 (csr_from_dense C c0 small d)) i j =
    if small (den_dense C c0 d i j) then c0 else den_dense C c0 d i j.
Proof.
  intros. rewrite dense_from_csr_den by apply csr_from_dense_wf. apply csr_from_dense_den.
Qed.

(* Dense.reorder: the other memory order holds the same matrix *)
Theorem C01_reorder_dense : forall (d : dense C) i j,
  den_dense C c0 (reorder_dense C c0 d) i j = den_dense C c0 d i j.
Proof. exact (reorder_dense_den C c0). Qed.

(* transpose / adjoint / conj, CSR kernels (counting sort on columns) *)
Theorem C01_transpose_csr : forall (m : csr C) i j, wf_csr C m ->
  wf_csr C (transpose_csr C m) /\
  den_csr C c0 (transpose_csr C m) j i = den_csr C c0 m i j.
Proof.
  intros m i j W. split; [apply transpose_gen_wf; exact W|].
  destruct W as [Hlen _]. apply (transpose_gen_den C c0 (fun v => v)); [reflexivity|exact Hlen].
Qed.

Theorem C01_adjoint_csr : forall (m : csr C) i j, wf_csr C m -> cconj c0 = c0 ->
  wf_csr C (adjoint_csr C cconj m) /\
  den_csr C c0 (adjoint_csr C cconj m) j i = cconj (den_csr C c0 m i j).
Proof.
  intros m i j W H0. split; [apply transpose_gen_wf; exact W|].
  destruct W as [Hlen _]. apply (transpose_gen_den C c0 cconj); [exact H0|exact Hlen].
Qed.

Theorem C01_conj_neg_csr : forall (m : csr C) i j, wf_csr C m ->
  cconj c0 = c0 -> copp c0 = c0 ->
  wf_csr C (conj_csr C cconj m) /\ wf_csr C (neg_csr C copp m) /\
  den_csr C c0 (conj_csr C cconj m) i j = cconj (den_csr C c0 m i j) /\
  den_csr C c0 (neg_csr C copp m) i j = copp (den_csr C c0 m i j).
Proof.
  intros m i j W Hc Hn.
  split; [apply map_csr_wf; exact W|]. split; [apply map_csr_wf; exact W|].
  split; apply map_csr_den; assumption.
Qed.

(* mul_csr, including its fast path `value == 0 -> zeros` *)
Theorem C01_mul_csr : forall (m : csr C) value i j,
  cmul value c0 = c0 ->
  (is0 value = true -> forall x, cmul value x = c0) ->
  den_csr C c0 (mul_csr C cmul is0 m value) i j = cmul value (den_csr C c0 m i j).
Proof.
  intros m value i j H0 Hz. unfold mul_csr. destruct (is0 value) eqn:E.
  - rewrite zeros_csr_den. symmetry. apply Hz. reflexivity.
  - apply map_csr_den. exact H0.
Qed.

(* the Dense kernels: buffer kept, order flag flipped *)
Theorem C01_transpose_adjoint_dense : forall (d : dense C) i j, cconj c0 = c0 ->
  den_dense C c0 (transpose_dense C d) j i = den_dense C c0 d i j /\
  den_dense C c0 (adjoint_dense C cconj d) j i = cconj (den_dense C c0 d i j).
Proof. intros. split; [apply transpose_dense_den|apply adjoint_dense_den; assumption]. Qed.

Theorem C01_conj_neg_mul_dense : forall (d : dense C) value i j,
  cconj c0 = c0 -> copp c0 = c0 -> cmul value c0 = c0 ->
  den_dense C c0 (conj_dense C cconj d) i j = cconj (den_dense C c0 d i j) /\
  den_dense C c0 (neg_dense C copp d) i j = copp (den_dense C c0 d i j) /\
  den_dense C c0 (mul_dense C cmul d value) i j = cmul value (den_dense C c0 d i j).
Proof.
  intros d value i j H1 H2 H3. repeat split; apply map_dense_den; assumption.
Qed.

(* the same operation through two formats gives the same matrix: transpose of
   a dense matrix, computed by the CSR kernel after conversion *)
Theorem C01_transpose_formats_agree : forall (d : dense C) i j,
  (forall x, small x = true -> x = c0) ->
  den_csr C c0 (transpose_csr C (csr_from_dense C c0 small d)) j i =
  den_dense C c0 (transpose_dense C d) j i.
Proof.
  intros d i j Hs.
  destruct (C01_transpose_csr (csr_from_dense C c0 small d) i j (csr_from_dense_wf C c0 small d))
    as [_ E].
  rewrite E. rewrite csr_from_dense_den. rewrite transpose_dense_den.
  destruct (small (den_dense C c0 d i j)) eqn:S; [|reflexivity].
  symmetry. apply Hs. exact S.
Qed.

(* add_dense: one zaxpy for equal orders, strided zaxpy per line for mixed
   orders; result in the order of `left` *)
Theorem C01_add_dense : forall (l r out : dense C) scale i j,
  wf_dense C l -> wf_dense C r ->
  add_dense C c0 cadd cmul l r scale = Some out ->
  i < d_nr C l -> j < d_nc C l ->
  den_dense C c0 out i j =
  cadd (den_dense C c0 l i j) (cmul scale (den_dense C c0 r i j)).
Proof. exact (add_dense_den C c0 cadd cmul). Qed.

Theorem C01_add_dense_shape_guard : forall (l r : dense C) scale,
  (d_nr C l <> d_nr C r \/ d_nc C l <> d_nc C r) ->
  add_dense C c0 cadd cmul l r scale = None.
Proof. exact (add_dense_guard C c0 cadd cmul). Qed.
End Props.
Print Assumptions C01_csr_from_dense_exact.
Print Assumptions C01_dense_from_csr_exact.
Print Assumptions C01_dense_csr_roundtrip.
Print Assumptions C01_reorder_dense.
Print Assumptions C01_transpose_csr.
Print Assumptions C01_adjoint_csr.
Print Assumptions C01_conj_neg_csr.
Print Assumptions C01_mul_csr.
Print Assumptions C01_transpose_adjoint_dense.
Print Assumptions C01_conj_neg_mul_dense.
Print Assumptions C01_transpose_formats_agree.
Print Assumptions C01_add_dense.
Print Assumptions C01_add_dense_shape_guard.

(* ---------------------------------------------------------------- add_csr *)
(* add.pyx::add_csr(left, right, scale) for rows stored in any order: the
   two-pointer walk with the ncols+1 sentinel, the scatter/gather accumulator,
   the sort and the zero-dropping gather give tidy(left + scale*right) entry by
   entry; the three fast paths (right empty or scale 0; left empty) return the
   untidied exact sum.  C is any commutative ring (laws listed), is0 / ceqb
   decide 0 / equality, tidy 0 = 0. *)
Section AddCsr.
Variable C : Type.
Variables (c0 c1 : C) (cadd cmul : C -> C -> C).
Variable is0 : C -> bool.
Variable ceqb : C -> C -> bool.
Variable tidy : C -> C.
Hypothesis Hadd0r : forall x, cadd x c0 = x.
Hypothesis Hadd0l : forall x, cadd c0 x = x.
Hypothesis Haddc : forall x y, cadd x y = cadd y x.
Hypothesis Hadda : forall x y z, cadd x (cadd y z) = cadd (cadd x y) z.
Hypothesis Hmul0r : forall x, cmul x c0 = c0.
Hypothesis Hmul0l : forall x, cmul c0 x = c0.
Hypothesis Hmul1l : forall x, cmul c1 x = x.
Hypothesis Hmulc : forall x y, cmul x y = cmul y x.
Hypothesis His0 : forall x, is0 x = true <-> x = c0.
Hypothesis Hceq : forall a b, ceqb a b = true <-> a = b.
Hypothesis Htidy0 : tidy c0 = c0.

Theorem C01_add_csr : forall (l r out : csr C) scale i j,
  wf_csr C l -> wf_csr C r ->
  add_csr C c1 cadd cmul is0 ceqb tidy l r scale = Some out ->
  wf_csr C out /\
  let v := cadd (den_csr C c0 l i j) (cmul scale (den_csr C c0 r i j)) in
  (den_csr C c0 out i j = v \/ den_csr C c0 out i j = tidy v).
Proof.
  intros l r out scale i j Wl Wr H. split.
  - exact (add_csr_wf C c1 cadd cmul is0 ceqb tidy l r out scale Wl Wr H).
  - exact (add_csr_den C c0 c1 cadd cmul is0 ceqb tidy Hadd0r Hadd0l Haddc Hadda Hmul0r Hmul0l
             Hmul1l Hmulc His0 Hceq Htidy0 l r out scale i j Wl Wr H).
Qed.

Theorem C01_add_csr_shape_guard : forall (l r : csr C) scale,
  (s_nr C l <> s_nr C r \/ s_nc C l <> s_nc C r) ->
  add_csr C c1 cadd cmul is0 ceqb tidy l r scale = None.
Proof. exact (add_csr_guard C c1 cadd cmul is0 ceqb tidy). Qed.

(* sum of a CSR and a dense operand through either kernel: same matrix (the
   tidy-up of the CSR path aside) *)
Theorem C01_add_formats_agree : forall (l r out : csr C) (dout : dense C) scale f1 f2 i j,
  wf_csr C l -> wf_csr C r ->
  add_csr C c1 cadd cmul is0 ceqb tidy l r scale = Some out ->
  add_dense C c0 cadd cmul (dense_from_csr C c0 f1 l) (dense_from_csr C c0 f2 r) scale = Some dout ->
  i < s_nr C l -> j < s_nc C l ->
  den_csr C c0 out i j = den_dense C c0 dout i j \/
  den_csr C c0 out i j = tidy (den_dense C c0 dout i j).
Proof.
  intros l r out dout scale f1 f2 i j Wl Wr H1 H2 Hi Hj.
  pose proof (add_dense_den C c0 cadd cmul _ _ dout scale i j
                (dense_from_csr_wf C c0 f1 l) (dense_from_csr_wf C c0 f2 r) H2 Hi Hj) as D.
  rewrite !dense_from_csr_den in D by assumption. rewrite D.
  exact (add_csr_den C c0 c1 cadd cmul is0 ceqb tidy Hadd0r Hadd0l Haddc Hadda Hmul0r Hmul0l
           Hmul1l Hmulc His0 Hceq Htidy0 l r out scale i j Wl Wr H1).
Qed.
End AddCsr.
Print Assumptions C01_add_csr.
Print Assumptions C01_add_csr_shape_guard.
Print Assumptions C01_add_formats_agree.

(* non-vacuity: the Gaussian integers with the integer tidy-up satisfy every
   hypothesis of the section, and a sum with unsorted rows, a cancellation and
   a shared column evaluates as stated *)
Example C01_nonvacuous_add_csr :
  (forall x, gadd x g0 = x) /\ (forall x y, gadd x y = gadd y x) /\
  (forall x y z, gadd x (gadd y z) = gadd (gadd x y) z) /\
  (forall x y, gmul x y = gmul y x) /\ (forall x, gmul g1 x = x) /\
  (forall x, gis0 x = true <-> x = g0) /\ (forall a b, geqb a b = true <-> a = b) /\
  let l := G_csr_of_raw 2 3 [0; 2; 3] [2; 0; 1] [(1, 0); (2, 0); (0, 1)]%Z in
  let r := G_csr_of_raw 2 3 [0; 2; 2] [0; 2] [(-2, 0); (5, 0)]%Z in
  vO vC (G_add_csr l r (1, 0)%Z) = Some (2, 3, [0; 1; 2], [2; 1], [(6, 0); (0, 1)]%Z).
Proof.
  split; [intros [a b]; unfold gadd, g0; cbn [fst snd]; f_equal; lia|].
  split; [intros [a b] [c d]; unfold gadd; cbn [fst snd]; f_equal; lia|].
  split; [intros [a b] [c d] [e f]; unfold gadd; cbn [fst snd]; f_equal; lia|].
  split; [intros [a b] [c d]; unfold gmul; cbn [fst snd]; f_equal; lia|].
  split; [intros [a b]; unfold gmul, g1; cbn [fst snd]; f_equal; lia|].
  split.
  { intros [a b]. unfold gis0, g0. simpl. split.
    - intros H. f_equal; lia.
    - intros H. injection H as -> ->. reflexivity. }
  split.
  { intros [a b] [c d]. unfold geqb. simpl. split.
    - intros H. f_equal; lia.
    - intros H. injection H as -> ->. lia. }
  vm_compute. reflexivity.
Qed.

(* ------------------------------------------- Dia conversions and trace *)
Section DiaTrace.
Variable C : Type.
Variable c0 : C.
Variable cadd : C -> C -> C.
Variable is0 : C -> bool.
Variable small : C -> bool.
Hypothesis Hadd0r : forall x, cadd x c0 = x.
Hypothesis Hadd0l : forall x, cadd c0 x = x.
Hypothesis Hadda : forall x y z, cadd x (cadd y z) = cadd (cadd x y) z.
Hypothesis His0 : forall x, is0 x = true <-> x = c0.

(* Dia -> Dense (dense.from_dia = Dense(to_array())): by construction of
   den_dia this is the matrix to_array returns, for any stored offsets,
   including slots outside the matrix (ignored) *)
Theorem C01_dense_from_dia_exact : forall (a : dia C) i j,
  den_dense C c0 (dense_from_dia C c0 a) i j = den_dia C c0 a i j.
Proof. exact (dense_from_dia_den C c0). Qed.

(* Dense -> Dia (dia.from_dense before its tidy-up), either memory order,
   any rectangular shape: the nr+nc-1 diagonals with the index arithmetic
   (col - row + nr - 1) * nc + col hold every entry *)
Theorem C01_dia_from_dense_exact : forall (d : dense C) i j,
  wf_dia C (dia_from_dense_full C c0 d) /\
  den_dia C c0 (dia_from_dense_full C c0 d) i j = den_dense C c0 d i j.
Proof. intros. split; [apply dia_from_dense_wf|apply dia_from_dense_den]. Qed.

(* Dia -> CSR (csr.from_dia -> from_coo_pointers with scatter/gather): for
   distinct stored offsets (any order, diagonals partly outside, explicit
   zeros) no entry changes *)
Theorem C01_csr_from_dia_exact : forall (a : dia C) i j, wf_dia C a ->
  den_csr C c0 (csr_from_dia C c0 cadd is0 a) i j = den_dia C c0 a i j.
Proof. exact (csr_from_dia_den C c0 cadd is0 Hadd0r Hadd0l Hadda His0). Qed.

(* chain Dense -> Dia -> CSR = the matrix; with the direct Dense -> CSR
   conversion this makes the three formats agree *)
Theorem C01_dense_dia_csr_chain : forall (d : dense C) i j,
  den_csr C c0 (csr_from_dia C c0 cadd is0 (dia_from_dense_full C c0 d)) i j = den_dense C c0 d i j.
Proof.
  intros d i j. rewrite C01_csr_from_dia_exact by apply dia_from_dense_wf.
  apply dia_from_dense_den.
Qed.

(* trace kernels: the sum of the diagonal of the denoted matrix; non-square
   operands are refused *)
Theorem C01_trace_csr : forall (m : csr C), wf_csr C m ->
  trace_csr C c0 cadd m =
  if s_nr C m =? s_nc C m
  then Some (diag_sum C c0 cadd (fun k => den_csr C c0 m k k) 0 (s_nr C m)) else None.
Proof. intros m [H _]. apply trace_csr_spec. exact H. Qed.

Theorem C01_trace_dense : forall (d : dense C),
  trace_dense C c0 cadd d =
  if d_nr C d =? d_nc C d
  then Some (diag_sum C c0 cadd (fun k => den_dense C c0 d k k) 0 (d_nr C d)) else None.
Proof. exact (trace_dense_spec C c0 cadd). Qed.

Theorem C01_trace_formats_agree : forall (d : dense C),
  (forall x, small x = true -> x = c0) ->
  trace_csr C c0 cadd (csr_from_dense C c0 small d) = trace_dense C c0 cadd d.
Proof. exact (trace_formats_agree C c0 cadd small). Qed.
End DiaTrace.
Print Assumptions C01_dense_from_dia_exact.
Print Assumptions C01_dia_from_dense_exact.
Print Assumptions C01_csr_from_dia_exact.
Print Assumptions C01_dense_dia_csr_chain.
Print Assumptions C01_trace_csr.
Print Assumptions C01_trace_dense.
Print Assumptions C01_trace_formats_agree.

(* non-vacuity: a 2x3 Dia with unsorted offsets, a diagonal partly outside
   and garbage in an outside slot is wf_dia and converts as stated *)
Example C01_nonvacuous_wf_dia :
  let a := mkA 2 3 [(2, [(9, 9); (0, 0); (4, 0)]); (-1, [(0, 1); (7, 7); (7, 7)])]%Z in
  wf_dia G a /\ vC (G_csr_from_dia a) = (2, 3, [0; 1; 2], [2; 0], [(4, 0); (0, 1)]%Z).
Proof.
  split; [|vm_compute; reflexivity]. split; simpl.
  - repeat constructor; simpl; intuition lia.
  - intros d [<-|[<-|[]]]; reflexivity.
Qed.

(* CSR -> Dia (dia.from_csr): the sorted set of occupied offsets, every stored
   entry (explicit zeros too, rows in any order) in its slot: no entry
   changes.  With C01_csr_from_dia_exact all six direct conversions between
   Dense, CSR and Dia are covered. *)
Theorem C01_dia_from_csr_exact : forall (C : Type) (c0 : C) (m : csr C) i j, wf_csr C m ->
  den_dia C c0 (dia_from_csr C c0 m) i j = den_csr C c0 m i j.
Proof. exact dia_from_csr_den. Qed.
Print Assumptions C01_dia_from_csr_exact.

(* ----------------------------------------- add_dia / clean_dia / iadd_dense *)
Section AddDia.
Variable C : Type.
Variables (c0 c1 : C) (cadd cmul : C -> C -> C).
Variable is0 : C -> bool.
Variable ceqb : C -> C -> bool.
Variable tidy : C -> C.
Hypothesis Hadd0r : forall x, cadd x c0 = x.
Hypothesis Hadd0l : forall x, cadd c0 x = x.
Hypothesis Haddc : forall x y, cadd x y = cadd y x.
Hypothesis Hadda : forall x y z, cadd x (cadd y z) = cadd (cadd x y) z.
Hypothesis Hmul0r : forall x, cmul x c0 = c0.
Hypothesis Hmul1l : forall x, cmul c1 x = x.
Hypothesis Hdistr : forall x y z, cmul x (cadd y z) = cadd (cmul x y) (cmul x z).
Hypothesis His0 : forall x, is0 x = true <-> x = c0.
Hypothesis Hceq : forall a b, ceqb a b = true <-> a = b.
Hypothesis Htidy0 : tidy c0 = c0.

(* add_dia on operands with distinct stored offsets (in any order, slots
   outside the matrix holding anything): the merge walk, clean_dia when the
   produced offsets are not increasing, and tidyup_dia give
   tidy(left + scale*right) entry by entry *)
Theorem C01_add_dia : forall (a b out : dia C) scale i j,
  wf_dia C a -> wf_dia C b ->
  add_dia C c0 c1 cadd cmul is0 ceqb tidy a b scale = Some out ->
  i < a_nr C a -> j < a_nc C a ->
  den_dia C c0 out i j = tidy (cadd (den_dia C c0 a i j) (cmul scale (den_dia C c0 b i j))).
Proof.
  exact (add_dia_den C c0 c1 cadd cmul is0 ceqb tidy Hadd0r Hadd0l Haddc Hadda Hmul0r Hmul1l
           Hdistr His0 Hceq Htidy0).
Qed.

(* without the guard: an offset stored several times counts with the SUM of
   its diagonals (dsumat), in add_dia ... *)
Theorem C01_add_dia_duplicate_offsets_sum : forall (a b out : dia C) scale i j,
  rows_len C (a_nc C a) (a_diags C a) -> rows_len C (a_nc C a) (a_diags C b) ->
  add_dia C c0 c1 cadd cmul is0 ceqb tidy a b scale = Some out ->
  i < a_nr C a -> j < a_nc C a ->
  den_dia C c0 out i j =
  tidy (cadd (dsumat C c0 cadd (Z.of_nat j - Z.of_nat i) j (a_diags C a))
             (cmul scale (dsumat C c0 cadd (Z.of_nat j - Z.of_nat i) j (a_diags C b)))).
Proof.
  exact (add_dia_total C c0 c1 cadd cmul is0 ceqb tidy Hadd0r Hadd0l Haddc Hadda Hmul0r Hmul1l
           Hdistr His0 Hceq Htidy0).
Qed.

(* ... and in clean_dia, whose result has sorted distinct offsets; Dia.to_array
   keeps the LAST such diagonal instead (C01_dia_duplicate_offsets_refuted) *)
Theorem C01_clean_dia_sums_duplicates : forall (a : dia C) i j,
  rows_len C (a_nc C a) (a_diags C a) -> i < a_nr C a -> j < a_nc C a ->
  zsorted C (a_diags C (clean_dia C c0 cadd a)) /\
  den_dia C c0 (clean_dia C c0 cadd a) i j =
  dsumat C c0 cadd (Z.of_nat j - Z.of_nat i) j (a_diags C a).
Proof. exact (clean_dia_total C c0 cadd Hadd0r Hadd0l Haddc Hadda). Qed.

Theorem C01_add_dia_shape_guard : forall (a b : dia C) scale,
  (a_nr C a <> a_nr C b \/ a_nc C a <> a_nc C b) ->
  add_dia C c0 c1 cadd cmul is0 ceqb tidy a b scale = None.
Proof. exact (add_dia_guard C c0 c1 cadd cmul is0 ceqb tidy). Qed.

(* iadd_dense (the in-place kernel used by matmul's `out +=` and by the
   solvers): all four memory-order combinations, every shape - the strided
   zaxpy branch takes line length and stride from the order of `left` *)
Theorem C01_iadd_dense : forall (l r out : dense C) scale i j,
  wf_dense C l -> wf_dense C r ->
  iadd_dense C c0 cadd cmul l r scale = Some out ->
  i < d_nr C l -> j < d_nc C l ->
  d_fortran C out = d_fortran C l /\
  den_dense C c0 out i j = cadd (den_dense C c0 l i j) (cmul scale (den_dense C c0 r i j)).
Proof.
  intros l r out scale i j Wl Wr H Hi Hj. split.
  - unfold iadd_dense, add_dense in H.
    destruct (negb ((d_nr C l =? d_nr C r) && (d_nc C l =? d_nc C r))); [discriminate|].
    injection H as H. subst out. reflexivity.
  - exact (add_dense_den C c0 cadd cmul l r out scale i j Wl Wr H Hi Hj).
Qed.
End AddDia.
Print Assumptions C01_add_dia.
Print Assumptions C01_add_dia_duplicate_offsets_sum.
Print Assumptions C01_clean_dia_sums_duplicates.
Print Assumptions C01_add_dia_shape_guard.
Print Assumptions C01_iadd_dense.

(* non-vacuity: Gaussian integers; operands with unsorted offsets (clean_dia
   path), a partly-outside diagonal with garbage, and a cancelling diagonal
   that tidyup_dia drops *)
Example C01_nonvacuous_add_dia :
  (forall x y z, gmul x (gadd y z) = gadd (gmul x y) (gmul x z)) /\
  let a := mkA 2 3 [(1, [(0, 0); (5, 0); (6, 0)]); (-1, [(1, 0); (7, 7); (0, 0)]);
                    (0, [(7, 0); (8, 0); (9, 9)])]%Z in
  let b := mkA 2 3 [(0, [(1, 0); (1, 0); (1, 0)]); (-1, [(-1, 0); (0, 0); (0, 0)])]%Z in
  wf_dia G a /\ wf_dia G b /\
  vO vA (G_add_dia a b (1, 0)%Z) =
    Some (2, 3, [(0, [(8, 0); (9, 0); (0, 0)]); (1, [(0, 0); (5, 0); (6, 0)])]%Z).
Proof.
  split; [intros [a b] [c d] [e f]; unfold gmul, gadd; cbn [fst snd]; f_equal; lia|].
  split; [|split; [|vm_compute; reflexivity]].
  - split; simpl.
    + repeat constructor; simpl; intuition lia.
    + intros d [<-|[<-|[<-|[]]]]; reflexivity.
  - split; simpl.
    + repeat constructor; simpl; intuition lia.
    + intros d [<-|[<-|[]]]; reflexivity.
Qed.

(* ------------------------------------------- reshape and column stacking *)
(* reshape keeps the entry at every linear (row-major) position i*nc + j,
   whatever the relation between old and new column counts (narrower, wider
   multiple, wider non-multiple, coprime) and for CSR rows stored in any
   order (the kernel sorts them first; the model does too) *)
Theorem C01_reshape_csr : forall (C : Type) (c0 : C) (m out : csr C) nr' nc' i j,
  wf_csr C m -> reshape_csr C m nr' nc' = Some out ->
  i < s_nr C m -> j < s_nc C m ->
  den_csr C c0 out ((i * s_nc C m + j) / nc') ((i * s_nc C m + j) mod nc') = den_csr C c0 m i j.
Proof. exact reshape_csr_den. Qed.
Print Assumptions C01_reshape_csr.

Theorem C01_reshape_csr_shape_guard : forall (C : Type) (m : csr C) nr' nc',
  nr' * nc' <> s_nr C m * s_nc C m -> reshape_csr C m nr' nc' = None.
Proof. exact reshape_csr_guard. Qed.
Print Assumptions C01_reshape_csr_shape_guard.

Theorem C01_reshape_dense : forall (C : Type) (c0 : C) (d out : dense C) nr' nc' i j,
  reshape_dense C c0 d nr' nc' = Some out ->
  i < d_nr C d -> j < d_nc C d ->
  den_dense C c0 out ((i * d_nc C d + j) / nc') ((i * d_nc C d + j) mod nc') = den_dense C c0 d i j.
Proof. exact reshape_dense_den. Qed.
Print Assumptions C01_reshape_dense.

(* reshape through either format gives the same matrix *)
Theorem C01_reshape_formats_agree :
  forall (C : Type) (c0 : C) (m out : csr C) (dout : dense C) f nr' nc' i j,
  wf_csr C m -> reshape_csr C m nr' nc' = Some out ->
  reshape_dense C c0 (dense_from_csr C c0 f m) nr' nc' = Some dout ->
  i < s_nr C m -> j < s_nc C m ->
  let loc := i * s_nc C m + j in
  den_csr C c0 out (loc / nc') (loc mod nc') = den_dense C c0 dout (loc / nc') (loc mod nc').
Proof.
  intros C c0 m out dout f nr' nc' i j W H1 H2 Hi Hj loc. unfold loc.
  rewrite (reshape_csr_den C c0 m out nr' nc' i j W H1 Hi Hj).
  pose proof (reshape_dense_den C c0 (dense_from_csr C c0 f m) dout nr' nc' i j H2 Hi Hj) as D.
  simpl in D. rewrite D. symmetry. apply dense_from_csr_den. exact W.
Qed.
Print Assumptions C01_reshape_formats_agree.

(* column stacking: entry (i, j) goes to row j*nr + i of the single column *)
Theorem C01_column_stack : forall (C : Type) (c0 : C),
  (forall (m out : csr C) i j, wf_csr C m -> column_stack_csr C m = Some out ->
     i < s_nr C m -> j < s_nc C m ->
     den_csr C c0 out (j * s_nr C m + i) 0 = den_csr C c0 m i j) /\
  (forall (d : dense C) i j, i < d_nr C d -> j < d_nc C d ->
     den_dense C c0 (column_stack_dense C c0 d) (j * d_nr C d + i) 0 = den_dense C c0 d i j).
Proof. intros C c0. split; [apply column_stack_csr_den|apply column_stack_dense_den]. Qed.
Print Assumptions C01_column_stack.

(* column unstacking: entry (i, j) of the result is entry i + j*rows of the
   column - whatever memory-order flag the single column carries (a column is
   the same buffer under both flags, but the kernels branch on the flag); the
   dense result is always flagged Fortran; bad arguments are refused *)
Theorem C01_column_unstack_dense : forall (C : Type) (c0 : C) (d out : dense C) rows i j,
  column_unstack_dense C d rows = Some out ->
  i < rows -> j < d_nr C d / rows ->
  d_fortran C out = true /\ d_nr C out = rows /\ d_nc C out = d_nr C d / rows /\
  den_dense C c0 out i j = den_dense C c0 d (i + j * rows) 0.
Proof. exact column_unstack_dense_den. Qed.
Print Assumptions C01_column_unstack_dense.

Theorem C01_column_unstack_dense_guard : forall (C : Type) (d : dense C) rows,
  (d_nc C d <> 1 \/ rows = 0 \/ d_nr C d mod rows <> 0) ->
  column_unstack_dense C d rows = None.
Proof. exact column_unstack_dense_guard. Qed.
Print Assumptions C01_column_unstack_dense_guard.

Theorem C01_column_unstack_csr : forall (C : Type) (c0 : C) (m out : csr C) rows i j,
  wf_csr C m -> column_unstack_csr C m rows = Some out ->
  i < rows -> j < s_nr C m / rows ->
  den_csr C c0 out i j = den_csr C c0 m (i + j * rows) 0.
Proof. exact column_unstack_csr_den. Qed.
Print Assumptions C01_column_unstack_csr.

(* stacking then unstacking a dense matrix of either order gives it back *)
Theorem C01_column_stack_unstack_dense : forall (C : Type) (c0 : C) (d out : dense C) i j,
  column_unstack_dense C (column_stack_dense C c0 d) (d_nr C d) = Some out ->
  i < d_nr C d -> j < d_nc C d ->
  den_dense C c0 out i j = den_dense C c0 d i j.
Proof.
  intros C c0 d out i j H Hi Hj.
  assert (Hdiv : d_nr C d * d_nc C d / d_nr C d = d_nc C d) by (rewrite Nat.mul_comm; apply Nat.div_mul; lia).
  destruct (column_unstack_dense_den C c0 _ out (d_nr C d) i j H Hi) as (_ & _ & _ & E).
  - simpl. rewrite Hdiv. exact Hj.
  - rewrite E. replace (i + j * d_nr C d) with (j * d_nr C d + i) by lia.
    apply column_stack_dense_den; assumption.
Qed.
Print Assumptions C01_column_stack_unstack_dense.

(* non-vacuity: a 6x1 column flagged C-ordered unstacks to the 2x3 matrix
   whose column j is entries 2j, 2j+1 - not to its transpose *)
Example C01_nonvacuous_column_unstack :
  let col := mkD 6 1 false [(1, 0); (2, 0); (3, 0); (4, 0); (5, 0); (6, 0)]%Z in
  vO vD (G_column_unstack_dense col 2) =
    Some (2, 3, true, [(1, 0); (2, 0); (3, 0); (4, 0); (5, 0); (6, 0)]%Z) /\
  vO (fun o => (G_den_dense o 0 1, G_den_dense o 1 0)) (G_column_unstack_dense col 2) =
    Some ((3, 0), (2, 0))%Z.
Proof. vm_compute. split; reflexivity. Qed.

(* non-vacuity: the 3x4 -> 2x6 reshape (wider, not a multiple) of a CSR whose
   middle row is stored in descending column order and straddles the output
   row boundary *)
Example C01_nonvacuous_reshape :
  let m := G_csr_of_raw 3 4 [0; 2; 4; 6] [2; 0; 3; 0; 3; 1]
             [(2, 0); (1, 0); (4, 0); (3, 0); (6, 0); (5, 0)]%Z in
  wf_csr G m /\
  vO vC (G_reshape_csr m 2 6) =
    Some (2, 6, [0; 3; 6], [0; 2; 4; 1; 3; 5],
          [(1, 0); (2, 0); (3, 0); (4, 0); (5, 0); (6, 0)]%Z).
Proof.
  split; [|vm_compute; reflexivity]. split; [reflexivity|].
  intros row [<-|[<-|[<-|[]]]]; (split; [repeat constructor; simpl; intuition lia
    | intros p Hp; simpl in Hp; intuition (subst; simpl; lia)]).
Qed.

(* ------------------------------------------------------------ kron_csr *)
(* Kronecker product of two CSR operands (rows in any stored order, explicit
   zeros allowed): entry (ia*nr_r + ib, ja*nc_r + jb) is the product of the
   entries (ia, ja) and (ib, jb); only 0*x = x*0 = 0 is assumed of the ring *)
Theorem C01_kron_csr : forall (C : Type) (c0 : C) (cmul : C -> C -> C),
  (forall x, cmul c0 x = c0) -> (forall x, cmul x c0 = c0) ->
  forall (l r : csr C) ia ib ja jb,
  wf_csr C l -> wf_csr C r ->
  ia < s_nr C l -> ib < s_nr C r -> ja < s_nc C l -> jb < s_nc C r ->
  den_csr C c0 (kron_csr C cmul l r) (ia * s_nr C r + ib) (ja * s_nc C r + jb) =
  cmul (den_csr C c0 l ia ja) (den_csr C c0 r ib jb).
Proof. exact kron_csr_den. Qed.
Print Assumptions C01_kron_csr.

Example C01_nonvacuous_kron :
  let l := G_csr_of_raw 1 2 [0; 2] [1; 0] [(2, 0); (0, 1)]%Z in
  let r := G_csr_of_raw 2 2 [0; 1; 3] [1; 1; 0] [(3, 0); (1, 1); (5, 0)]%Z in
  vC (G_kron_csr l r) =
    (2, 4, [0; 2; 6], [3; 1; 3; 2; 1; 0],
     [(6, 0); (0, 3); (2, 2); (10, 0); (-1, 1); (0, 5)]%Z).
Proof. vm_compute. reflexivity. Qed.

(* ------------------------------------------------------------- matmul *)
(* C is a commutative additive monoid with a multiplication that has 0 as an
   absorbing element (plus distributivity and associativity of the product
   for the dense-output kernel); is0 decides 0; tidy 0 = 0. *)
Section Matmul.
Variable C : Type.
Variables (c0 : C) (cadd cmul : C -> C -> C).
Variable is0 : C -> bool.
Variable tidy : C -> C.
Hypothesis Hadd0r : forall x, cadd x c0 = x.
Hypothesis Hadd0l : forall x, cadd c0 x = x.
Hypothesis Haddc : forall x y, cadd x y = cadd y x.
Hypothesis Hadda : forall x y z, cadd x (cadd y z) = cadd (cadd x y) z.
Hypothesis Hmul0r : forall x, cmul x c0 = c0.
Hypothesis Hmul0l : forall x, cmul c0 x = c0.
Hypothesis His0 : forall x, is0 x = true <-> x = c0.
Hypothesis Htidy0 : tidy c0 = c0.
Hypothesis Hdistr : forall x y z, cmul x (cadd y z) = cadd (cmul x y) (cmul x z).
Hypothesis Hmula : forall x y z, cmul x (cmul y z) = cmul (cmul x y) z.

(* matmul_csr: the scatter / linked-list walk yields, entry by entry,
   scale * tidy(sum_j left[i,j] * right[j,k]) - for unsorted rows and explicit
   zeros in either operand *)
Theorem C01_matmul_csr : forall (l r out : csr C) scale i k,
  wf_csr C l -> wf_csr C r ->
  matmul_csr C cadd cmul is0 tidy l r scale = Some out ->
  i < s_nr C l -> k < s_nc C r ->
  den_csr C c0 out i k =
  cmul scale (tidy (diag_sum C c0 cadd
     (fun j => cmul (den_csr C c0 l i j) (den_csr C c0 r j k)) 0 (s_nc C l))).
Proof.
  exact (matmul_csr_den C c0 cadd cmul is0 tidy Hadd0r Hadd0l Haddc Hadda Hmul0r Hmul0l His0 Htidy0).
Qed.

Theorem C01_matmul_csr_shape_guard : forall (l r : csr C) scale,
  s_nc C l <> s_nr C r -> matmul_csr C cadd cmul is0 tidy l r scale = None.
Proof. exact (matmul_csr_guard C cadd cmul is0 tidy). Qed.

(* matmul_csr_dense_dense, Fortran path (row dot products) and C path
   (entry-wise accumulation), with or without a caller-supplied `out` of
   either memory order: out + scale * (left @ right) *)
Theorem C01_matmul_csr_dense : forall (l : csr C) (r : dense C) scale out res i k,
  wf_csr C l ->
  matmul_csr_dense C c0 cadd cmul l r scale out = Some res ->
  i < s_nr C l -> k < d_nc C r ->
  den_dense C c0 res i k =
  cadd (match out with Some o => den_dense C c0 o i k | None => c0 end)
       (cmul scale (diag_sum C c0 cadd
          (fun j => cmul (den_csr C c0 l i j) (den_dense C c0 r j k)) 0 (s_nc C l))).
Proof.
  exact (matmul_csr_dense_den C c0 cadd cmul Hadd0r Hadd0l Haddc Hadda Hmul0r Hmul0l Hdistr Hmula).
Qed.

Theorem C01_matmul_csr_dense_shape_guard : forall (l : csr C) (r : dense C) scale out,
  s_nc C l <> d_nr C r -> matmul_csr_dense C c0 cadd cmul l r scale out = None.
Proof. exact (matmul_csr_dense_guard C c0 cadd cmul). Qed.

(* the product through the CSR x CSR kernel and through the CSR x Dense kernel
   (right operand converted) is the same matrix, the tidy-up of the sparse
   path aside *)
Theorem C01_matmul_formats_agree : forall (l r out : csr C) (res : dense C) scale f i k,
  wf_csr C l -> wf_csr C r ->
  matmul_csr C cadd cmul is0 tidy l r scale = Some out ->
  matmul_csr_dense C c0 cadd cmul l (dense_from_csr C c0 f r) scale None = Some res ->
  i < s_nr C l -> k < s_nc C r ->
  exists v, den_dense C c0 res i k = cmul scale v /\ den_csr C c0 out i k = cmul scale (tidy v).
Proof.
  intros l r out res scale f i k Wl Wr H1 H2 Hi Hk.
  exists (diag_sum C c0 cadd (fun j => cmul (den_csr C c0 l i j) (den_csr C c0 r j k)) 0 (s_nc C l)).
  split.
  - rewrite (C01_matmul_csr_dense l _ scale None res i k Wl H2 Hi Hk). rewrite Hadd0l. f_equal.
    apply (diag_sum_ext C c0 cadd). intros j _. rewrite dense_from_csr_den by exact Wr. reflexivity.
  - exact (C01_matmul_csr l r out scale i k Wl Wr H1 Hi Hk).
Qed.
End Matmul.
Print Assumptions C01_matmul_csr.
Print Assumptions C01_matmul_csr_shape_guard.
Print Assumptions C01_matmul_csr_dense.
Print Assumptions C01_matmul_csr_dense_shape_guard.
Print Assumptions C01_matmul_formats_agree.

(* non-vacuity (the Gaussian integers satisfy the laws: C01_nonvacuous_add_csr):
   a product with unsorted rows, a cancellation (dropped entry) and the
   reverse first-touch column order of the kernel *)
Example C01_nonvacuous_matmul :
  (forall x y z, gmul x (gadd y z) = gadd (gmul x y) (gmul x z)) /\
  (forall x y z, gmul x (gmul y z) = gmul (gmul x y) z) /\
  let l := G_csr_of_raw 2 3 [0; 2; 3] [2; 0; 1] [(1, 0); (1, 0); (0, 1)]%Z in
  let r := G_csr_of_raw 3 2 [0; 2; 3; 5] [1; 0; 0; 0; 1] [(2, 0); (3, 0); (1, 1); (-3, 0); (4, 0)]%Z in
  vO vC (G_matmul_csr l r (2, 0)%Z) = Some (2, 2, [0; 1; 2], [1; 0], [(12, 0); (-2, 2)]%Z).
Proof.
  split; [intros [a b] [c d] [e f]; unfold gmul, gadd; cbn [fst snd]; f_equal; lia|].
  split; [intros [a b] [c d] [e f]; unfold gmul; cbn [fst snd]; f_equal; lia|].
  vm_compute. reflexivity.
Qed.

(* ------------------------------------------- matmul with Dia operands *)
Section MatmulDia.
Variable C : Type.
Variables (c0 : C) (cadd cmul : C -> C -> C).
Hypothesis Hadd0r : forall x, cadd x c0 = x.
Hypothesis Hadd0l : forall x, cadd c0 x = x.
Hypothesis Haddc : forall x y, cadd x y = cadd y x.
Hypothesis Hadda : forall x y z, cadd x (cadd y z) = cadd (cadd x y) z.
Hypothesis Hmul0r : forall x, cmul x c0 = c0.
Hypothesis Hmul0l : forall x, cmul c0 x = c0.

(* matmul_dia_dense_dense: the walk over the stored diagonals (any order,
   partly outside a rectangular matrix, anything in the outside slots) gives
   out + scale * (left @ right), result in the order of `out` / of `right` *)
Theorem C01_matmul_dia_dense : forall (l : dia C) (r : dense C) scale out res i k,
  NoDup (map fst (a_diags C l)) ->
  matmul_dia_dense C c0 cadd cmul l r scale out = Some res ->
  i < a_nr C l -> k < d_nc C r ->
  den_dense C c0 res i k =
  cadd (match out with Some o => den_dense C c0 o i k | None => c0 end)
       (cmul scale (diag_sum C c0 cadd
          (fun j => cmul (den_dia C c0 l i j) (den_dense C c0 r j k)) 0 (a_nc C l))).
Proof. exact (matmul_dia_dense_den C c0 cadd cmul Hadd0r Hadd0l Haddc Hadda Hmul0l). Qed.

(* matmul_dense_dia_dense: out + scale * (left @ right), the products written
   in the kernel's order right.data * left *)
Theorem C01_matmul_dense_dia : forall (l : dense C) (r : dia C) scale out res i k,
  NoDup (map fst (a_diags C r)) ->
  matmul_dense_dia C c0 cadd cmul l r scale out = Some res ->
  i < d_nr C l -> k < a_nc C r ->
  den_dense C c0 res i k =
  cadd (match out with Some o => den_dense C c0 o i k | None => c0 end)
       (cmul scale (diag_sum C c0 cadd
          (fun j => cmul (den_dia C c0 r j k) (den_dense C c0 l i j)) 0 (a_nr C r))).
Proof. exact (matmul_dense_dia_den C c0 cadd cmul Hadd0r Hadd0l Haddc Hadda Hmul0l). Qed.

(* matmul_dia (Dia x Dia): the offsets of the result, the lower_bound index
   and the three max / min bounds of the column range are right: entry (i, k)
   is sum_j (scale * left[i,j]) * right[j,k] *)
Theorem C01_matmul_dia : forall (l r out : dia C) scale i k,
  NoDup (map fst (a_diags C l)) -> NoDup (map fst (a_diags C r)) ->
  matmul_dia C c0 cadd cmul l r scale = Some out ->
  i < a_nr C l -> k < a_nc C r ->
  den_dia C c0 out i k =
  diag_sum C c0 cadd (fun j => cmul (cmul scale (den_dia C c0 l i j)) (den_dia C c0 r j k))
           0 (a_nc C l).
Proof. exact (matmul_dia_den C c0 cadd cmul Hadd0r Hadd0l Haddc Hadda Hmul0r Hmul0l). Qed.

Theorem C01_matmul_dia_shape_guard : forall (l r : dia C) scale,
  a_nc C l <> a_nr C r -> matmul_dia C c0 cadd cmul l r scale = None.
Proof. exact (matmul_dia_guard C c0 cadd cmul). Qed.
End MatmulDia.
Print Assumptions C01_matmul_dia_dense.
Print Assumptions C01_matmul_dense_dia.
Print Assumptions C01_matmul_dia.
Print Assumptions C01_matmul_dia_shape_guard.

(* non-vacuity: rectangular operands, unsorted offsets, a diagonal partly
   outside with garbage in the outside slot *)
Example C01_nonvacuous_matmul_dia :
  let l := mkA 2 3 [(1, [(9, 9); (2, 0); (3, 0)]); (0, [(1, 0); (4, 0); (7, 7)])]%Z in
  let r := mkA 3 2 [(-1, [(5, 0); (6, 0)]); (0, [(1, 0); (0, 1)])]%Z in
  NoDup (map fst (a_diags G l)) /\ NoDup (map fst (a_diags G r)) /\
  vO vA (G_matmul_dia l r (1, 0)%Z) =
    Some (2, 2, [(-1, [(20, 0); (0, 0)]); (0, [(11, 0); (18, 4)]); (1, [(0, 0); (0, 2)])]%Z) /\
  vO vD (G_matmul_dia_dense l (mkD 3 1 false [(1, 0); (1, 0); (1, 0)]%Z) (1, 0)%Z None) =
    Some (2, 1, false, [(3, 0); (7, 0)]%Z).
Proof.
  split; [repeat constructor; simpl; intuition lia|].
  split; [repeat constructor; simpl; intuition lia|].
  vm_compute. split; reflexivity.
Qed.

(* ------------------------------------------------------------------ pow *)
(* The square-and-multiply loop shared by pow_csr, pow_dia and pow_dense
   (tied to pow_csr by raw-array correspondence with M := CSR, mul :=
   matmul_csr): for any associative multiplication with a unit it returns the
   n-fold product, for every n - so the three formats compute the same power
   of the same matrix product. *)
Theorem C01_pow_loop : forall (M : Type) (mul : M -> M -> M) (one : M),
  (forall a b c, mul a (mul b c) = mul (mul a b) c) ->
  (forall a, mul one a = a) -> (forall a, mul a one = a) ->
  forall x n, pow_model M mul one x n = xpow M mul one x n.
Proof. exact pow_model_correct. Qed.
Print Assumptions C01_pow_loop.

(* non-vacuity: the integers under multiplication, 3^13; and the loop run on
   CSR matrices through the modelled matmul kernel *)
Example C01_nonvacuous_pow :
  pow_model Z Z.mul 1%Z 3%Z 13 = (3 ^ 13)%Z /\
  let m := G_csr_of_raw 2 2 [0; 2; 3] [1; 0; 1] [(1, 0); (1, 0); (0, 1)]%Z in
  (* m = [[1, 1], [0, i]]: m^5 = [[1, 1 + i + i^2 + i^3 + i^4], [0, i^5]] *)
  vO (fun c => (G_den_csr c 0 0, G_den_csr c 0 1, G_den_csr c 1 0, G_den_csr c 1 1))
     (G_pow_csr m 5) = Some ((1, 0), (1, 0), (0, 0), (0, 1))%Z.
Proof. split; vm_compute; reflexivity. Qed.

(* ------------------------------------------------------ inner / expect *)
Section InnerExpect.
Variable C : Type.
Variables (c0 : C) (cadd cmul : C -> C -> C) (cconj : C -> C).
Hypothesis Hadd0r : forall x, cadd x c0 = x.
Hypothesis Hadd0l : forall x, cadd c0 x = x.
Hypothesis Haddc : forall x y, cadd x y = cadd y x.
Hypothesis Hadda : forall x y z, cadd x (cadd y z) = cadd (cadd x y) z.
Hypothesis Hmul0r : forall x, cmul x c0 = c0.
Hypothesis Hmul0l : forall x, cmul c0 x = c0.
Hypothesis Hconj0 : cconj c0 = c0.

(* inner_csr: <bra|ket> = sum_j bra[0,j] ket[j,0];  <ket|ket> = sum_i
   conj(left[i,0]) right[i,0];  1x1 operands: left is conjugated iff
   scalar_is_ket.  Stored order, explicit zeros and empty rows do not matter. *)
Theorem C01_inner_csr : forall (l r : csr C) flag v,
  wf_csr C l -> wf_csr C r ->
  inner_csr C c0 cadd cmul cconj l r flag = Some v ->
  (s_nr C l = 1 -> s_nc C l = 1 -> s_nr C r = 1 -> s_nc C r = 1 ->
     v = cmul (if flag then cconj (den_csr C c0 l 0 0) else den_csr C c0 l 0 0)
              (den_csr C c0 r 0 0)) /\
  (s_nr C l = 1 -> s_nc C l <> 1 ->
     v = diag_sum C c0 cadd (fun j => cmul (den_csr C c0 l 0 j) (den_csr C c0 r j 0)) 0 (s_nc C l)) /\
  (s_nr C l <> 1 -> s_nc C l = 1 ->
     v = diag_sum C c0 cadd (fun i => cmul (cconj (den_csr C c0 l i 0)) (den_csr C c0 r i 0))
                  0 (s_nr C l)).
Proof.
  intros l r flag v Wl Wr H. split; [|split].
  - intros. eapply (inner_csr_scalar C c0 cadd cmul cconj); eassumption.
  - intros. eapply (inner_csr_bra C c0 cadd cmul cconj); eassumption.
  - intros. eapply (inner_csr_ket C c0 cadd cmul cconj); eassumption.
Qed.

(* expect_csr on a ket: sum_i conj(s_i) sum_j op[i,j] s_j *)
Theorem C01_expect_csr_ket : forall (op st : csr C) v,
  wf_csr C op -> wf_csr C st -> s_nc C st = 1 ->
  expect_csr C c0 cadd cmul cconj op st = Some v ->
  v = diag_sum C c0 cadd (fun i => cmul (cconj (den_csr C c0 st i 0))
        (diag_sum C c0 cadd (fun j => cmul (den_csr C c0 op i j) (den_csr C c0 st j 0)) 0 (s_nr C st)))
      0 (s_nr C st).
Proof. exact (expect_csr_ket C c0 cadd cmul cconj Hadd0r Hadd0l Haddc Hadda Hmul0r Hmul0l Hconj0). Qed.

(* expect_csr on a density matrix: tr(op rho) = sum_i sum_j op[i,j] rho[j,i] *)
Theorem C01_expect_csr_dm : forall (op st : csr C) v,
  wf_csr C op -> wf_csr C st -> s_nc C st <> 1 ->
  expect_csr C c0 cadd cmul cconj op st = Some v ->
  v = diag_sum C c0 cadd (fun i =>
        diag_sum C c0 cadd (fun j => cmul (den_csr C c0 op i j) (den_csr C c0 st j i)) 0 (s_nr C op))
      0 (s_nr C op).
Proof. exact (expect_csr_dm C c0 cadd cmul cconj Hadd0r Hadd0l Haddc Hadda Hmul0r Hmul0l). Qed.

(* expect_super_csr: trace of the unstacked op @ state - rows t(n+1) *)
Theorem C01_expect_super_csr : forall (op st : csr C) v,
  wf_csr C op -> wf_csr C st ->
  expect_super_csr C c0 cadd cmul op st = Some v ->
  let n := Nat.sqrt (s_nr C st) in
  v = diag_sum C c0 cadd (fun t =>
        diag_sum C c0 cadd (fun j => cmul (den_csr C c0 op (t * (n + 1)) j) (den_csr C c0 st j 0))
                 0 (s_nr C st)) 0 n.
Proof. exact (expect_super_csr_sum C c0 cadd cmul Hadd0r Hadd0l Haddc Hadda Hmul0r Hmul0l). Qed.
End InnerExpect.
Print Assumptions C01_inner_csr.
Print Assumptions C01_expect_csr_ket.
Print Assumptions C01_expect_csr_dm.
Print Assumptions C01_expect_super_csr.

(* expect_data (the specialisation serving mixed formats) evaluates a ket
   through inner(state, op @ state, True): on exact payloads it returns the
   same sum as expect_csr / expect_dense for EVERY ket, the 1x1 one included
   (where scalar_is_ket makes inner conjugate the state). *)
Theorem C01_expect_data_agrees_with_expect_csr :
  forall (C : Type) (c0 c1 : C) (cadd cmul : C -> C -> C) (cconj : C -> C)
         (is0 : C -> bool) (tidy : C -> C),
  (forall x, cadd x c0 = x) -> (forall x, cadd c0 x = x) ->
  (forall x y, cadd x y = cadd y x) ->
  (forall x y z, cadd x (cadd y z) = cadd (cadd x y) z) ->
  (forall x, cmul x c0 = c0) -> (forall x, cmul c0 x = c0) -> (forall x, cmul c1 x = x) ->
  cconj c0 = c0 -> (forall x, is0 x = true <-> x = c0) -> (forall x, tidy x = x) ->
  forall (op st : csr C) v v',
  wf_csr C op -> wf_csr C st -> s_nc C st = 1 ->
  expect_via_inner C c0 c1 cadd cmul cconj is0 tidy op st = Some v ->
  expect_csr C c0 cadd cmul cconj op st = Some v' ->
  v = v'.
Proof.
  intros C c0 c1 cadd cmul cconj is0 tidy A0r A0l Ac Aa M0r M0l M1 K0 I0 T op st v v' Wop Wst Hnc H1 H2.
  destruct (expect_via_inner_sum C c0 c1 cadd cmul cconj is0 tidy A0r A0l Ac Aa M0r M0l M1 K0 I0 T
              op st v Wop Wst Hnc H1) as (_ & _ & E1).
  rewrite E1. symmetry.
  exact (expect_csr_ket C c0 cadd cmul cconj A0r A0l Ac Aa M0r M0l K0 op st v' Wop Wst Hnc H2).
Qed.
Print Assumptions C01_expect_data_agrees_with_expect_csr.

(* the rule before the fix (no scalar_is_ket): a 1x1 state was read as a bra;
   witness kept with the old_... definition *)
Example C01_old_expect_data_witness :
  let op := G_csr_of_raw 1 1 [0; 1] [0] [(2, 2)]%Z in
  let st := G_csr_of_raw 1 1 [0; 1] [0] [(-3, -2)]%Z in
  G_old_expect_via_inner op st = Some (-14, 34)%Z /\
  G_expect_via_inner op st = Some (26, 26)%Z /\ G_expect_csr op st = Some (26, 26)%Z.
Proof. vm_compute. repeat split; reflexivity. Qed.

(* inner_op with a 1x1 left operand, a 1xN op and scalar_is_ket=True:
   inner_op_csr treats left as a bra (as documented); the Dense / Dia / Data
   specialisations compute inner(left, op @ right, flag) and conjugate it *)
Theorem C01_inner_op_scalar_is_ket_refuted :
  exists l op r : Gcsr,
    G_inner_op_via_product l op r true <> G_inner_op_csr l op r true.
Proof.
  exists (G_csr_of_raw 1 1 [0; 1] [0] [(0, 1)]%Z),
         (G_csr_of_raw 1 2 [0; 1] [0] [(1, 0)]%Z),
         (G_csr_of_raw 2 1 [0; 1; 1] [0] [(1, 0)]%Z).
  vm_compute. intro H. discriminate H.
Qed.
Print Assumptions C01_inner_op_scalar_is_ket_refuted.

(* ----------------------------------------------------------- dispatcher *)
(* V = data-layer objects, ty = their concrete type, den = the matrix they
   denote (all arbitrary).  An entry of Dispatcher._lookup accepted by the
   checker, with good converters and a correct base, computes the operation
   F of the base on denotations and returns the requested type. *)
Theorem C01_dispatch_entry_sound :
  forall (V : Type) (ty : V -> nat) (M : Type) (den : V -> M)
         (F : list M -> M) spec_in spec_out (e : entry V) args,
  entry_ok V spec_in spec_out e = true ->
  Forall (conv_good V ty M den) (e_convs V e) ->
  (forall c, e_outconv V e = Some c -> conv_good V ty M den c) ->
  base_good V ty M den F spec_in spec_out (e_base V e) ->
  Forall2 (fun x t => ty x = t) args (e_in V e) ->
  exists out, entry_call V ty e args = Some out /\ den out = F (map den args) /\
    match e_out V e with Some o => has_ty V ty o out | None => True end.
Proof. exact entry_ok_sound. Qed.
Print Assumptions C01_dispatch_entry_sound.

(* hence any two accepted entries of one operation - registered or built by
   inserting conversions - give the same matrix on operands that denote the
   same matrices, whatever their formats *)
Theorem C01_dispatch_entries_agree :
  forall (V : Type) (ty : V -> nat) (M : Type) (den : V -> M)
         (F : list M -> M) si1 so1 si2 so2 (e1 e2 : entry V) a1 a2,
  entry_ok V si1 so1 e1 = true -> entry_ok V si2 so2 e2 = true ->
  Forall (conv_good V ty M den) (e_convs V e1) -> Forall (conv_good V ty M den) (e_convs V e2) ->
  (forall c, e_outconv V e1 = Some c -> conv_good V ty M den c) ->
  (forall c, e_outconv V e2 = Some c -> conv_good V ty M den c) ->
  base_good V ty M den F si1 so1 (e_base V e1) -> base_good V ty M den F si2 so2 (e_base V e2) ->
  Forall2 (fun x t => ty x = t) a1 (e_in V e1) ->
  Forall2 (fun x t => ty x = t) a2 (e_in V e2) ->
  map den a1 = map den a2 ->
  exists o1 o2, entry_call V ty e1 a1 = Some o1 /\ entry_call V ty e2 a2 = Some o2 /\
                den o1 = den o2.
Proof. exact entries_agree. Qed.
Print Assumptions C01_dispatch_entries_agree.

(* a multi-step converter assembled from direct conversions whose (to, from)
   types compose is good (what _to.add_conversions builds from the
   Floyd-Warshall predecessors), and a converter refuses foreign types *)
Theorem C01_converter_chain_good :
  forall (V : Type) (ty : V -> nat) (M : Type) (den : V -> M) fs from,
  chain_typed V ty M den fs from ->
  conv_good V ty M den
    {| c_to := chain_end V fs from; c_from := from; c_funs := map fst fs |}.
Proof. exact chain_conv_good. Qed.
Print Assumptions C01_converter_chain_good.

Theorem C01_converter_refuses_wrong_type :
  forall (V : Type) (ty : V -> nat) (c : conv V) x,
  c_from V c <> TData -> ty x <> c_from V c -> conv_call V ty c x = None.
Proof. exact conv_call_refuses. Qed.
Print Assumptions C01_converter_refuses_wrong_type.

(* ------------------------------------------ tidy-up and the predicates *)
(* exact payloads: is0 / ceqb decide equality with 0 / equality *)
Section Pred.
Variable C : Type.
Variable c0 : C.
Variable is0 : C -> bool.
Variable ceqb : C -> C -> bool.
Variable tidy : C -> C.
Hypothesis His0 : forall x, is0 x = true <-> x = c0.
Hypothesis Hceq : forall a b, ceqb a b = true <-> a = b.
Hypothesis Htidy0 : tidy c0 = c0.

(* tidyup_dense (e806789): the returned matrix is the element-wise tidied
   one; with inplace=False the argument is left unchanged, with inplace=True
   the argument is the returned object *)
Theorem C01_tidyup_dense : forall (d : dense C) inplace i j,
  den_dense C c0 (fst (tidyup_dense C tidy d inplace)) i j = tidy (den_dense C c0 d i j) /\
  (inplace = false -> snd (tidyup_dense C tidy d inplace) = d) /\
  (inplace = true -> snd (tidyup_dense C tidy d inplace) = fst (tidyup_dense C tidy d inplace)).
Proof. exact (tidyup_dense_ok C c0 tidy Htidy0). Qed.

(* tidy-up does not depend on the format: the CSR kernel (which also drops
   the entries that became 0) and the dense kernel give the same matrix *)
Theorem C01_tidyup_formats_agree : forall (m : csr C) f ip1 ip2 i j, wf_csr C m ->
  den_csr C c0 (fst (tidyup_csr C is0 tidy m ip1)) i j =
  den_dense C c0 (fst (tidyup_dense C tidy (dense_from_csr C c0 f m) ip2)) i j /\
  (ip1 = false -> snd (tidyup_csr C is0 tidy m ip1) = m).
Proof.
  intros m f ip1 ip2 i j W.
  destruct (tidyup_csr_ok C c0 is0 tidy His0 Htidy0 m ip1 i j W) as [A B].
  destruct (tidyup_dense_ok C c0 tidy Htidy0 (dense_from_csr C c0 f m) ip2 i j) as [D _].
  split; [|exact B]. rewrite A, D. rewrite dense_from_csr_den by exact W. reflexivity.
Qed.

(* isdiag_csr (96e4de2) answers the question about the matrix, not about the
   sparsity pattern: true iff every off-diagonal entry of the denoted matrix
   is 0 - the predicate isdiag_dense evaluates *)
Theorem C01_isdiag_csr_iff : forall (m : csr C), wf_csr C m ->
  (isdiag_csr C is0 m = true <-> forall i j, i <> j -> den_csr C c0 m i j = c0).
Proof. exact (isdiag_csr_iff C c0 is0 His0). Qed.

(* isequal_dia (1930127) on cleaned operands (sorted distinct offsets, zeros
   outside the matrix - the state clean_dia establishes): true iff the two
   operands denote the same matrix; different shapes give false *)
Theorem C01_isequal_dia_iff : forall (a b : dia C),
  a_nr C a = a_nr C b -> a_nc C a = a_nc C b ->
  zsorted C (a_diags C a) -> zsorted C (a_diags C b) ->
  rows_len C (a_nc C a) (a_diags C a) -> rows_len C (a_nc C a) (a_diags C b) ->
  cleaned C c0 a -> cleaned C c0 b ->
  (isequal_dia C is0 ceqb a b = true <->
   forall i j, den_dia C c0 a i j = den_dia C c0 b i j).
Proof. exact (isequal_dia_iff C c0 is0 ceqb His0 Hceq). Qed.

Theorem C01_isequal_dia_shape_guard : forall (a b : dia C),
  (a_nr C a <> a_nr C b \/ a_nc C a <> a_nc C b) -> isequal_dia C is0 ceqb a b = false.
Proof. exact (isequal_dia_shape_guard C is0 ceqb). Qed.
End Pred.
Print Assumptions C01_tidyup_dense.
Print Assumptions C01_tidyup_formats_agree.
Print Assumptions C01_isdiag_csr_iff.
Print Assumptions C01_isequal_dia_iff.
Print Assumptions C01_isequal_dia_shape_guard.

(* the rules these three kernels followed before the fix commits, kept as
   old_... definitions with the witnesses that used to refute the property *)
Example C01_old_tidyup_dense_witness :
  let d := mkD 1 2 false [(1, 0); (5, 0)]%Z in
  fst (G_old_tidyup_dense 3 d false) = d /\ snd (G_old_tidyup_dense 3 d false) <> d /\
  fst (G_tidyup_dense 3 d false) = mkD 1 2 false [(0, 0); (5, 0)]%Z /\
  snd (G_tidyup_dense 3 d false) = d.
Proof. vm_compute. repeat split; try reflexivity. intro H; discriminate H. Qed.

Example C01_old_isequal_dia_witness :
  let A := [(0, [(1, 0); (1, 0)]); (1, [(0, 0); (2, 0)])]%Z in
  let B := [(0, [(1, 0); (1, 0)])]%Z in
  G_old_isequal_dia_walk 3 A B = true /\ G_isequal_dia (mkA 2 2 A) (mkA 2 2 B) = false.
Proof. vm_compute. split; reflexivity. Qed.

Example C01_old_isdiag_csr_witness :
  let m := G_csr_of_raw 2 2 [0; 1; 2] [1; 1] [(0, 0); (3, 0)]%Z in
  G_old_isdiag_csr m = false /\ G_isdiag_csr m = true.
Proof. vm_compute. split; reflexivity. Qed.

(* non-vacuity of C01_isequal_dia_iff: two cleaned 2x3 operands with
   different stored offsets (one stores an explicit zero diagonal) *)
Example C01_nonvacuous_isequal_dia :
  let a := mkA 2 3 [(-1, [(2, 0); (0, 0); (0, 0)]); (1, [(0, 0); (1, 1); (3, 0)])]%Z in
  let b := mkA 2 3 [(-1, [(2, 0); (0, 0); (0, 0)]); (0, [(0, 0); (0, 0); (0, 0)]);
                    (1, [(0, 0); (1, 1); (3, 0)])]%Z in
  zsorted G (a_diags G a) /\ zsorted G (a_diags G b) /\
  rows_len G 3 (a_diags G a) /\ rows_len G 3 (a_diags G b) /\
  cleaned G g0 a /\ cleaned G g0 b /\ G_isequal_dia a b = true.
Proof.
  simpl. repeat split; try (intros e H; simpl in H; intuition (subst; simpl; lia)).
  - intros d k Hin Hk Hout. simpl in Hin, Hk, Hout.
    destruct Hin as [<-|[<-|[]]]; simpl in *;
      destruct k as [|[|[|k]]]; try reflexivity; try lia.
  - intros d k Hin Hk Hout. simpl in Hin, Hk, Hout.
    destruct Hin as [<-|[<-|[<-|[]]]]; simpl in *;
      destruct k as [|[|[|k]]]; try reflexivity; try lia.
Qed.

(* ------------------------------------------------- refuted on the model *)
(* a Dia holding one offset twice: Dia.to_array / dense.from_dia keep the
   last stored diagonal, csr.from_dia (and clean_dia, SciPy) add them *)
Theorem C01_dia_duplicate_offsets_refuted :
  exists a : Gdia,
    G_den_dense (G_dense_from_dia a) 0 0 <> G_den_csr (G_csr_from_dia a) 0 0.
Proof.
  exists (mkA 2 2 [(0, [(1, 0); (3, 0)]); (0, [(5, 0); (7, 0)])]%Z).
  vm_compute. intro H. discriminate H.
Qed.
Print Assumptions C01_dia_duplicate_offsets_refuted.

(* ------------------------------------------------------------ non-vacuity *)
(* a 3x7 CSR with unsorted columns and an explicit zero is well formed, and
   its transpose moves entry (2,0) to (0,2) *)
Example C01_nonvacuous_wf_csr :
  let m := G_csr_of_raw 3 7 [0; 3; 3; 5] [5; 1; 3; 6; 0]
             [(1, 2); (0, 0); (-1, 0); (2, 2); (0, -3)]%Z in
  wf_csr G m /\ G_den_csr (G_transpose_csr m) 0 2 = (0, -3)%Z /\
  G_den_dense (G_dense_from_csr true m) 0 5 = (1, 2)%Z.
Proof.
  vm_compute. split; [|split; reflexivity].
  split; [reflexivity|].
  intros row [H|[H|[H|[]]]]; subst row; (split; [repeat constructor; simpl; intuition lia
    | intros p Hp; simpl in Hp; intuition (subst; simpl; lia)]).
Qed.

(* an entry built by inserting conversions (operand Dia served by a CSR
   specialisation, output converted to Dense) passes the checker *)
Example C01_nonvacuous_entry_ok :
  let conv_a := {| c_to := 2; c_from := 3; c_funs := [fun x : nat => x] |} in
  let conv_o := {| c_to := 1; c_from := 2; c_funs := [fun x : nat => x] |} in
  entry_ok nat [2] (Some 2)
    {| e_in := [3]; e_out := Some 1; e_convs := [conv_a]; e_outconv := Some conv_o;
       e_base := fun _ => None |} = true.
Proof. vm_compute. reflexivity. Qed.
