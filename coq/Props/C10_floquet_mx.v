(* C10 - the Floquet route as matrix algebra (any dimension, any field with
   an involution).  Property theorems only; proofs in Proofs/C10_floquet_mx.v.
   W t is the matrix of Floquet states at time t (FloquetBasis.state(t):
   mode(t) times the quasi-energy phases), assumed unitary - the only thing
   taken from the FloquetBasis numerics. *)
From mathcomp Require Import all_ssreflect all_algebra.
From QV Require Import Base.MxHerm Proofs.C10_floquet_mx.
From QV Require Model.C10_floquet.
Import GRing.Theory.
Local Open Scope ring_scope.

(* to_floquet_basis / from_floquet_basis are inverse to each other at equal
   times (this discharges the round-trip hypothesis of C10_fsesolve_initial_state),
   and fsesolve returns U(t, tlist[0]) psi0 with U(t, s) = W(t) W(s)^+ *)
Theorem C10_floquet_route_is_propagation :
  forall (R : fieldType) (conj : {rmorphism R -> R}), involutive conj ->
  forall (T : Type) n (W : T -> 'M[R]_n), (forall t, is_unitary conj (W t)) ->
    (forall psi t, from_fb W (to_fb conj W psi t) t = psi) /\
    (forall f t, to_fb conj W (from_fb W f t) t = f) /\
    (forall psi0 t0 r,
       Model.C10_floquet.fsesolve 'cV[R]_n 'cV[R]_n T (to_fb conj W) (from_fb W) psi0 (t0 :: r)
       = Some (List.map (fun t => fprop conj W t t0 *m psi0) (t0 :: r))).
Proof.
  move=> R conj cK T n W hW. split; first by move=> psi t; apply: fb_roundtrip.
  split; first by move=> f t; apply: fb_roundtrip'.
  move=> psi0 t0 r. exact: fsesolve_is_propagation.
Qed.
Print Assumptions C10_floquet_route_is_propagation.

(* that U is a propagator: U(t,t) = 1, U(t2,t1) U(t1,t0) = U(t2,t0), unitary
   (norm preserved at every stored time) *)
Theorem C10_floquet_propagator_laws :
  forall (R : fieldType) (conj : {rmorphism R -> R}), involutive conj ->
  forall (T : Type) n (W : T -> 'M[R]_n), (forall t, is_unitary conj (W t)) ->
    (forall t, fprop conj W t t = 1%:M) /\
    (forall t2 t1 t0, fprop conj W t2 t1 *m fprop conj W t1 t0 = fprop conj W t2 t0) /\
    (forall t t0, is_unitary conj (fprop conj W t t0)).
Proof.
  move=> R conj cK T n W hW. split; first by move=> t; apply: fprop_id.
  split; first by move=> t2 t1 t0; apply: fprop_comp.
  move=> t t0. exact: fprop_unitary.
Qed.
Print Assumptions C10_floquet_propagator_laws.

(* non-vacuity: W t = 1 (time-independent, zero quasi-energies) is unitary *)
Example C10_nonvacuous_floquet_mx :
  forall (R : fieldType) (conj : {rmorphism R -> R}) n,
    forall t : nat, is_unitary conj ((fun _ : nat => (1%:M : 'M[R]_n)) t).
Proof. move=> R conj n t. exact: unitary1. Qed.
