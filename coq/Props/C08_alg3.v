(* C08 - definition-level facts about the predicates and the plain-operator
   branch over any commutative ring with an involutive conjugation, every m, n.
   Proofs: Proofs/C08_alg3.v. *)
From mathcomp Require Import all_ssreflect all_algebra.
From QV Require Import Proofs.C08_alg Proofs.C08_alg3.
Import GRing.Theory.
Local Open Scope ring_scope.

(* to_super(A) = sprepost(A, A^dag), entries conj A[b,j] * A[a,i]
   (C08_to_super_of_operator), acts as X |-> A X A^dag *)
Theorem C08_to_super_of_operator_is_conjugation :
  forall (R : comRingType) (conj : {rmorphism R -> R}) (m n : nat)
         (A : 'M[R]_(m, n)) (X : 'M[R]_n),
    apply_super (super_of_oper conj A) X = A *m X *m adj conj A.
Proof. exact: super_of_oper_action. Qed.
Print Assumptions C08_to_super_of_operator_is_conjugation.

(* plain-operator branch of istp: X |-> A X A^dag preserves every trace iff
   A^dag A = 1, for every m x n (the entry condition of
   C08_istp_of_operator_is_isometry) *)
Theorem C08_conjugation_tp_iff_isometry :
  forall (R : comRingType) (conj : {rmorphism R -> R}) (m n : nat) (A : 'M[R]_(m, n)),
    (forall X : 'M[R]_n, \tr (A *m X *m adj conj A) = \tr X) <-> adj conj A *m A = 1%:M.
Proof. exact: conjugation_tp_iff_isometry. Qed.
Print Assumptions C08_conjugation_tp_iff_isometry.

(* complete positivity at the definition level: the Choi matrix of
   X |-> sum_k K_k X K_k^dag is a sum of Hermitian squares,
   w^dag J w = sum_k conj z_k * z_k with z_k = <K_k, w>, for every w *)
Theorem C08_kraus_choi_is_sum_of_hermitian_squares :
  forall (R : comRingType) (conj : {rmorphism R -> R}), involutive conj ->
  forall (m n r : nat) (K : 'I_r -> 'M[R]_(m, n)) (w : 'I_n -> 'I_m -> R),
    \sum_i \sum_a \sum_j \sum_b conj (w i a) * pair_choi conj K K i a j b * w j b
    = \sum_k conj (\sum_i \sum_a conj (K k a i) * w i a) * (\sum_j \sum_b conj (K k b j) * w j b).
Proof. exact: kraus_choi_sum_of_squares. Qed.
Print Assumptions C08_kraus_choi_is_sum_of_hermitian_squares.
