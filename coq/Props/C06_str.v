(* C06 - the rewriting of expression strings before compilation keeps their
   meaning.  Property theorems for the token-level model of
   qutip/core/coefficient.py extract_constant / parse (Model/C06_str.v);
   proofs in Proofs/C06_str.v.

   Quantifiers: every word list (numeric literals of any of the four pattern
   classes, names, syntax chunks, any length, any repetition of names and
   literals), every args dictionary (argty: which names are arguments and
   their compileType), every typing of literals (litty), both values of
   accept_int / accept_float.  [no_temp]: the expression does not itself
   contain a word _cte_temp<k>_. *)
From Coq Require Import List Bool Arith.
Import ListNotations.
From QV Require Import Model.C06_str Proofs.C06_str.

(* extraction numbers the temporaries pattern class first, position second;
   whatever that order, every temporary stands for the literal it replaced
   and nothing else changes *)
Theorem C06_str_extraction_puts_back :
  forall toks, no_temp toks ->
    map (resolve (snd (extract toks))) (fst (extract toks)) = map (resolve []) toks.
Proof.
  intros toks H. apply extract_spec. intros k Hk. exfalso. exact (H k Hk).
Qed.
Print Assumptions C06_str_extraction_puts_back.

(* the rewritten word list, read with the (variables, ordered_constants) that
   parse returns - self._cte<ty><n> bound to the n-th constant's text,
   self._arg<ty><n> bound to args[name] of the variable carrying that
   generated name - denotes word for word what the original denotes: same
   syntax, same free names, same literal values, same argument values.  In
   particular generated names never collide and a repeated argument re-uses
   its variable. *)
Theorem C06_str_rewriting_preserves_denotation :
  forall ai af argty litty toks, no_temp toks ->
    let '(out, vars, ord) := parse ai af argty litty toks in
    map (denote_new vars ord) out = map (denote_orig argty) toks.
Proof. exact parse_sound. Qed.
Print Assumptions C06_str_rewriting_preserves_denotation.

(* hence every evaluator that reads an expression through the denotations of
   its words (Python evaluating the text in an environment) gives the same
   value for the rewritten expression with the extracted constants as for the
   original *)
Theorem C06_str_same_value_any_evaluator :
  forall (R : Type) (E : list den -> R) ai af argty litty toks, no_temp toks ->
    let '(out, vars, ord) := parse ai af argty litty toks in
    E (map (denote_new vars ord) out) = E (map (denote_orig argty) toks).
Proof.
  intros R E ai af argty litty toks H.
  pose proof (parse_sound ai af argty litty toks H) as P.
  destruct (parse ai af argty litty toks) as [[out vars] ord]. rewrite P. reflexivity.
Qed.
Print Assumptions C06_str_same_value_any_evaluator.

(* non-vacuity: ".5 + w * 2.5 - 1e3 * w + a"  (texts: 0 = .5, 1 = 2.5,
   2 = 1e3; names: 10 = w (complex arg), 11 = a (int arg); classes: .5 is
   dot-first (3), 2.5 digits-first (2), 1e3 exponent (0)).  Extraction order
   is 1e3, 2.5, .5 - not left to right - while ordered_constants is left to
   right; w is re-used; int becomes double (accept_int = false). *)
Definition ex_toks : list tok :=
  [TLit 3 0; TSyn 0; TName 10; TSyn 1; TLit 2 1; TSyn 2; TLit 0 2; TSyn 1; TName 10;
   TSyn 0; TName 11].
Definition ex_argty (x : nat) : option ctype :=
  match x with 10 => Some TCpl | 11 => Some TInt | _ => None end.
Definition ex_litty (txt : nat) : ctype := match txt with 2 => TDbl | _ => TDbl end.

Example C06_str_nonvacuous :
  no_temp ex_toks /\
  extract ex_toks =
    ([TTemp 2; TSyn 0; TName 10; TSyn 1; TTemp 1; TSyn 2; TTemp 0; TSyn 1; TName 10;
      TSyn 0; TName 11], [2; 1; 0]) /\
  parse false true ex_argty ex_litty ex_toks =
    ([OCte TDbl 0; OSyn 0; OArg TCpl 0; OSyn 1; OCte TDbl 1; OSyn 2; OCte TDbl 2; OSyn 1;
      OArg TCpl 0; OSyn 0; OArg TDbl 0],
     [(TCpl, 0, 10); (TDbl, 0, 11)],
     [(TDbl, 0); (TDbl, 1); (TDbl, 2)]).
Proof.
  split.
  - intros k H. cbn in H. repeat (destruct H as [H|H]; [discriminate H|]). exact H.
  - split; vm_compute; reflexivity.
Qed.
