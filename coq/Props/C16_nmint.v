(* C16 - nm_mcsolve: the trajectory of NonMarkovianMCSolver composed from the
   MCIntegrator model (Model/C16.v) and the InfluenceMartingale model
   (Model/C16_nm.v): Model/C16_nmint.v, proofs in Proofs/C16_nmint.v. *)
From Coq Require Import List Bool Arith ZArith QArith Lia Lqa.
Import ListNotations.
From QV Require Import Model.C16 Model.C16_nm Model.C16_nmint Proofs.C16 Proofs.C16_nm Proofs.C16_nmint
                       Props.C16_nm.
Local Open Scope nat_scope.

(* 1. NmMCIntegrator.integrate is MCIntegrator.integrate on the MCIntegrator
   part of the state, for every number type and every oracle: every theorem of
   Props/C16.v holds for nm_mcsolve trajectories (with the shifted rates). *)
Theorem C16_nm_integrate_is_mc_integrate :
  forall (N : Num) (o : opts N) nrm2 lg stp rate jnorm rnd nch mrate mshift fuel x t t_old no,
    to_ires N (nm_integ_loop N o nrm2 lg stp rate jnorm rnd nch mrate mshift fuel x t t_old no)
    = integ_loop N o nrm2 lg stp rate jnorm rnd nch fuel (ns N x) t t_old no.
Proof. exact nloop_is_integ_loop. Qed.
Print Assumptions C16_nm_integrate_is_mc_integrate.

(* 2. The martingale's record is the trajectory's collapse list: after
   set_state and any run over any time list, the factors recorded by
   add_collapse are rate/(rate+shift) at exactly the recorded (time, channel)
   pairs, in order - one per recorded collapse, none for a collapse attempt
   discarded by mc_corr_eps - and add_collapse never raised. *)
Theorem C16_nm_record_follows_collapses :
  forall (N : Num) eqb (o : opts N) nrm2 lg stp rate jnorm rnd nch a integ expo mrate mshift
         fuel m t0 ts no_jump floor,
    let x := fst (fst (nm_run_from N o nrm2 lg stp rate jnorm rnd nch mrate mshift fuel
                                   (nm_set_state N eqb rnd a integ expo m t0 no_jump floor) ts [])) in
    disc N (nm N x) = map (gfactor N mrate mshift) (rev (cols N (ns N x))) /\ nraised N x = false.
Proof.
  intros. destruct (nrun_record N o nrm2 lg stp rate jnorm rnd nch mrate mshift fuel ts _ []
                                (set_state_synced N eqb rnd a integ expo mrate mshift m t0 no_jump floor))
    as (_ & A & B). split; assumption.
Qed.
Print Assumptions C16_nm_record_follows_collapses.

(* 3. The trace stored with a trajectory (result.trace = [value(t) for t in
   tlist]) is, at every output time, the product over the trajectory's own
   collapses before that time of rate_k(tc)/(rate_k(tc)+shift(tc)), times the
   continuous martingale from tlist[0]: it is a function of the trajectory's
   (time, channel) list, the rate functions and the time only. *)
Theorem C16_nm_trajectory_trace :
  forall (o : opts QN) nrm2 lg stp rate jnorm rnd nch a integ expo mrate mshift,
    oracle_laws integ expo ->
    forall fuel m0 t0 ts no_jump floor,
      cache_ok a integ expo t0 (cache QN m0) ->
      let '(x, rets, status, tr) :=
        nm_one_traj QN Qeq_bool o nrm2 lg stp rate jnorm rnd nch a integ expo mrate mshift
                    fuel m0 t0 ts no_jump floor in
      nraised QN x = false /\
      disc QN (nm QN x) = map (factor_of mrate mshift) (rev (cols QN (ns QN x))) /\
      Forall2 oeq tr
        (map (fun t => (prodf (filter (before t)
                                 (map (factor_of mrate mshift) (rev (cols QN (ns QN x)))))
                        * cont QN Qeq_bool a integ expo t0 t)%Q) (t0 :: ts)).
Proof.
  intros o nrm2 lg stp rate jnorm rnd nch a integ expo mrate mshift (H1 & H2 & H3 & H4 & H5).
  intros. apply nm_trace_spec; assumption.
Qed.
Print Assumptions C16_nm_trajectory_trace.

(* a trajectory with one collapse at t = 1/3 on channel 0: trace [1, 3/4] *)
Example C16_nm_nonvacuous_trajectory :
  let o := mkOpts QN 5 (1#1000)%Q (1#2)%Q (1#1000)%Q in
  let m0 := m_initialize QN Qeq_bool 1%Q (fun _ _ => 0%Q) (fun _ => 1%Q) (m_new QN) 0%Q
                         (Times QN [0%Q; 1%Q]) in
  match nm_one_traj QN Qeq_bool o (fun _ t => (1 - (1#2) * t)%Q) (fun x => (x - 1)%Q) (fun _ _ g => g)
                    (fun _ _ _ _ => 1%Q) (fun _ _ _ _ => 1%Q)
                    (fun i => match i with 0 => (3#4)%Q | _ => 0%Q end) 1
                    1%Q (fun _ _ => 0%Q) (fun _ => 1%Q) (fun _ _ => (3#4)%Q) (fun _ => (1#4)%Q)
                    4 m0 0%Q [1%Q] false 0%Q with
  | (x, rets, status, [Some v0; Some v1]) =>
      Nat.eqb status 0 && Nat.eqb (length (cols QN (ns QN x))) 1 &&
      Qeq_bool v0 1 && Qeq_bool v1 (3#4) &&
      match cols QN (ns QN x) with [(tc, k)] => Qeq_bool tc (1#3) && Nat.eqb k 0 | _ => false end
  | _ => false
  end = true.
Proof. vm_compute. reflexivity. Qed.
