(* C16 - nm_mcsolve: the influence martingale (model of InfluenceMartingale
   in Model/C16_nm.v; proofs in Proofs/C16_nm.v).  Exact rationals.
   Assumed of the oracles: the quadrature is additive over adjacent
   intervals, exp maps sums to products and 0 to 1, both respect equality. *)
From Coq Require Import List Bool Arith ZArith QArith Qabs Lia Lqa Permutation.
Import ListNotations.
From QV Require Import Model.C16 Model.C16_nm Proofs.C16_q Proofs.C16_nm.
Local Open Scope Q_scope.

Definition oracle_laws (integ : Q -> Q -> Q) (expo : Q -> Q) : Prop :=
  (forall x y z, integ x y + integ y z == integ x z) /\
  (forall x x' y y', x == x' -> y == y' -> integ x y == integ x' y') /\
  (forall u v, expo (u + v) == expo u * expo v) /\
  (forall u v, u == v -> expo u == expo v) /\
  expo 0 == 1.

(* satisfiable: zero rate shift (all rates non-negative) *)
Example C16_nm_nonvacuous_oracle_laws : oracle_laws (fun _ _ => 0) (fun _ => 1).
Proof. repeat split; intros; lra. Qed.

(* 1. History independence.  After initialize(t0, ...) - with cache 'clear', a
   list of times, or 'keep' of a cache computed from the same t0 - any sequence
   of add_collapse / value calls returns, at every value(t),
     [ prod of rate/(rate+shift) over the collapses recorded so far with
       time < t ]  *  [ continuous martingale from t0 to t ]:
   it depends only on the collapse record, the rate functions and t - not on
   which times were asked before, nor on what the cache holds. *)
Theorem C16_nm_martingale_depends_only_on_record :
  forall a integ expo rate shift, oracle_laws integ expo ->
  forall m t0 (c : cache_arg QN) ops,
    (c = Keep QN -> cache_ok a integ expo t0 (cache QN m)) ->
    plain ops ->
    Forall2 oeq
      (snd (m_run QN Qeq_bool a integ expo rate shift
                  (m_initialize QN Qeq_bool a integ expo m t0 c) ops []))
      (spec_outs a integ expo rate shift t0 [] ops).
Proof.
  intros a integ expo rate shift (H1 & H2 & H3 & H4 & H5) m t0 c ops Hk Hp.
  rewrite m_run_outs. cbn [rev app].
  destruct (init_inv a integ expo H1 H2 H3 H4 H5 m t0 c Hk) as (Hi & Hd).
  apply (history_spec a integ expo rate shift H1 H2 H3 H4 H5 t0 ops _ [] Hp Hi). exact Hd.
Qed.
Print Assumptions C16_nm_martingale_depends_only_on_record.

Example C16_nm_nonvacuous_history :
  exists v1 v2 v3,
    snd (m_run QN Qeq_bool 1 (fun _ _ => 0) (fun _ => 1) (fun _ _ => 3#4) (fun _ => 1#4)
               (m_initialize QN Qeq_bool 1 (fun _ _ => 0) (fun _ => 1) (m_new QN) 0
                             (Times QN [0; 1; 2]))
               [OValue QN 1; OCollapse QN (3#2) 0%nat; OValue QN (1#2); OValue QN 2] [])
    = [Some v1; Some v2; Some v3] /\ v1 == 1 /\ v2 == 1 /\ v3 == 3#4.
Proof.
  eexists. eexists. eexists. split; [vm_compute; reflexivity|].
  repeat split; vm_compute; reflexivity.
Qed.

(* 2. The discrete part multiplies exactly the factors of the recorded
   collapses with time < t, each once, in any order; and add_collapse records
   rate/(rate + shift) at the collapse time. *)
Theorem C16_nm_discrete_part :
  forall (d : list (Q * Q)) t,
    disc_prod QN 1 d t == prodf (filter (before t) d) /\
    (forall d', Permutation d d' -> disc_prod QN 1 d t == disc_prod QN 1 d' t) /\
    (forall d2, disc_prod QN 1 (d ++ d2) t == disc_prod QN 1 d t * disc_prod QN 1 d2 t).
Proof.
  intros d t. split; [apply dprod_filter|]. split.
  - intros d' H. apply dprod_perm; exact H.
  - intros d2. apply dprod_app.
Qed.
Print Assumptions C16_nm_discrete_part.

Theorem C16_nm_add_collapse :
  forall a integ expo rate shift, oracle_laws integ expo ->
  forall t0 m tc k, inv a integ expo t0 m ->
    exists m', m_add_collapse QN rate shift m tc k = Some m' /\ inv a integ expo t0 m' /\
               cache QN m' = cache QN m /\
               disc QN m' = disc QN m ++ [(tc, rate tc k / (rate tc k + shift tc))].
Proof.
  intros a integ expo rate shift _ t0 m tc k Hi. apply collapse_spec; exact Hi.
Qed.
Print Assumptions C16_nm_add_collapse.

(* 3. One call of value(t) in a state reached from initialize(t0): returns
   discrete * continuous(t0 -> t), keeps the record and the cache, and stays
   in such a state (so the caching by tlist never changes an answer). *)
Theorem C16_nm_value :
  forall a integ expo, oracle_laws integ expo ->
  forall t0 m t, inv a integ expo t0 m ->
    exists m' v, m_value QN Qeq_bool a integ expo m t = Some (m', v) /\ inv a integ expo t0 m' /\
                 disc QN m' = disc QN m /\ cache QN m' = cache QN m /\
                 v == disc_prod QN 1 (disc QN m) t * cont QN Qeq_bool a integ expo t0 t.
Proof.
  intros a integ expo (H1 & H2 & H3 & H4 & H5) t0 m t Hi.
  apply (value_spec a integ expo H1 H2 H3 H4 H5); exact Hi.
Qed.
Print Assumptions C16_nm_value.

(* before initialize, and after reset, value and add_collapse raise *)
Theorem C16_nm_not_started_raises :
  forall a integ expo rate shift m t tc k,
    m_value QN Qeq_bool a integ expo (m_reset QN m) t = None /\
    m_add_collapse QN rate shift (m_reset QN m) tc k = None /\
    m_value QN Qeq_bool a integ expo (m_new QN) t = None.
Proof. intros. repeat split; reflexivity. Qed.
Print Assumptions C16_nm_not_started_raises.

(* 4. the jump weight: a channel sampled with the shifted rate g + s and
   weighted by the factor g/(g+s) counts with the true rate g *)
Theorem C16_nm_shifted_rate_times_factor :
  forall g s : Q, ~ g + s == 0 -> (g + s) * (g / (g + s)) == g.
Proof. exact shifted_rate_times_factor. Qed.
Print Assumptions C16_nm_shifted_rate_times_factor.
