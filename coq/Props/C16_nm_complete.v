(* C16 - nm_mcsolve: _check_completeness (definitions regenerated from the
   source into Gen/C16_nm_complete.v; proofs in Proofs/C16_nm_complete.v).
   Every dimension, every field with an involutive conjugation.  Oracles:
   sqrtm (used only through: its result is Hermitian and squares to its
   argument) and the largest eigenvalue a (any value for which that square
   root exists). *)
From mathcomp Require Import all_ssreflect all_algebra.
From mathcomp Require Import algC.
From QV Require Import Base.MxHerm Gen.C16_rhs Gen.C16_nm_complete Proofs.C16_gen Proofs.C16_nm_gen
                       Proofs.C16_nm_complete.
Import GRing.Theory Num.Theory.
Local Open Scope ring_scope.

(* both return values make the family complete: (1) when the test
   `op == a_candidate * 1` holds, sum L^dag L = a_candidate 1 and a_candidate
   is the only such constant; (2) otherwise, with the extra operator
   M = sqrtm(a 1 - op), sum L^dag L + M^dag M = a 1 *)
Theorem C16_nm_completion_makes_family_complete :
  forall (R : fieldType) (conj : {rmorphism R -> R}) (n : nat) (ops : seq 'M[R]_n),
    (comp_op conj ops = comp_test_rhs (comp_cand (comp_op conj ops)) (comp_op conj ops) ->
     \sum_(L <- ops) dag conj L *m L = (comp_cand (comp_op conj ops))%:M) /\
    (forall c : R, n%:R != 0 :> R -> comp_op conj ops = c%:M -> comp_cand (comp_op conj ops) = c) /\
    (forall (a : R) (M : 'M[R]_n),
       dag conj M = M -> M *m M = comp_sqrt_arg a (comp_op conj ops) ->
       comp_op conj (rcons ops M) = a%:M).
Proof.
move=> R conj n ops; split; first exact: first_branch.
split; first by move=> c; apply: cand_unique.
by move=> a M; apply: second_branch.
Qed.
Print Assumptions C16_nm_completion_makes_family_complete.

(* composed with the rate shift: the effective generator nm_mcsolve integrates
   (user operators with rates gamma_i + s, completion operator with rate 0 + s)
   is the true-rate generator minus (s a / 2) 1 *)
Theorem C16_nm_completed_generator :
  forall (R : fieldType) (conj : {rmorphism R -> R}) (n : nat) (iu half s a : R)
         (chans : seq (chan R n)) (M : 'M[R]_n) (rM : R) (H : 'M[R]_n),
    dag conj M = M -> M *m M = comp_sqrt_arg a (comp_op conj [seq cL x | x <- chans]) ->
    (forall x, x \in rcons chans (M, 0, rM) -> conj (cr x) = cr x /\ cr x * cr x = cg x + s) ->
    ket_rhs conj iu half H [seq shifted_op x | x <- rcons chans (M, 0, rM)]
    = (- iu) *: H - half *: (\sum_(x <- chans) cg x *: (dag conj (cL x) *m cL x))
      - (half * (s * a))%:M.
Proof. move=> R conj n iu half s a chans M rM H; exact: completed_generator. Qed.
Print Assumptions C16_nm_completed_generator.

(* non-vacuous: one operator L = (3/5) 1 over the rationals (conj = id), a = 1,
   M = (4/5) 1: M is Hermitian and M M = 1 - L^dag L *)
Example C16_nm_nonvacuous_completion :
  let L : 'M[rat]_2 := (3%:Q / 5%:Q)%:M in
  let M : 'M[rat]_2 := (4%:Q / 5%:Q)%:M in
  dag [rmorphism of idfun] M = M /\
  M *m M = comp_sqrt_arg 1 (comp_op [rmorphism of idfun] [:: L]).
Proof.
split; first by rewrite dag_scalar.
rewrite /comp_sqrt_arg /comp_op big_seq1 /comp_summand dag_scalar /= -!scalar_mxM scale1r -raddfB /=.
by congr _%:M; apply/eqP.
Qed.
