(* C13 - what a trajectory sees (args, options, times of the martingale
   cache) after any history of run / start+step / option changes on one
   solver object.  Property theorems only; proofs in Proofs/C13_conf.v.

   `fixed_flags` is the source under test (since /repo c83a966 the options
   setter hands the new options object to the integrator); `cur_flags`
   (f_rebind = false) is the source before c83a966, kept as a refuted variant
   like the pre-bdf00f0 one.  The correspondence K4 of ./check C13 evaluates
   both and reports the old defect by name if the tree under test matches
   f_rebind = false again. *)
From Coq Require Import List ZArith Bool Arith Lia.
Import ListNotations.
From QV Require Import Model.C13_conf Proofs.C13_conf.

(* with all three mechanisms in place, a solver object that went through any
   history of calls is in exactly the state of a solver freshly constructed
   with the values that were set last (args merged key by key) *)
Theorem C13_used_solver_equals_fresh_solver :
  forall f k c evs,
    f_forward f = true -> f_rebind f = true -> f_nm_args_first f = true ->
    after f (of_cfg k c) evs = of_cfg k (cfg_after c evs).
Proof. intros f k c evs. exact (after_fresh f k evs c). Qed.
Print Assumptions C13_used_solver_equals_fresh_solver.

(* ... so the trajectories of the next run(args=a) see the last-set args in
   every operator, in the rates, in the martingale cache (built for this
   run's times), the last-set solver-level options and an ODE solver built
   with the last-set ODE options *)
Theorem C13_trajectory_sees_last_set_values :
  forall f k c evs a tl,
    f_forward f = true -> f_rebind f = true -> f_nm_args_first f = true ->
    let c' := cfg_after c evs in
    fst (run f (after f (of_cfg k c) evs) a tl) =
    {| v_H := upd (c_args c') a; v_C := upd (c_args c') a; v_N := upd (c_args c') a;
       v_R := rate_args k (upd (c_args c') a); v_shift := rate_args k (upd (c_args c') a);
       v_times := match k with KMC => None | KNM => Some tl end;
       v_so := c_so c'; v_prep := c_oo c' |}.
Proof.
  intros f k c evs a tl F1 F2 F3 c'. rewrite (after_fresh f k evs c F1 F2 F3).
  exact (fresh_view f k c' a tl F3).
Qed.
Print Assumptions C13_trajectory_sees_last_set_values.

(* the source before /repo c83a966: `solver.options = {"norm_tol": 2^-9}` (property
   setter, solver-level keys only) created a new options object and left the
   MCIntegrator with the old one - the full statement above is false for
   cur_flags *)
Theorem C13_options_setter_refuted :
  exists k c evs tl,
    v_so (fst (run cur_flags (after cur_flags (of_cfg k c) evs) (None, None) tl)) <>
    c_so (cfg_after c evs).
Proof.
  exists KMC, c0, [ESetDict (Some 9%Z) None], []. exact setter_leaves_old_options.
Qed.
Print Assumptions C13_options_setter_refuted.

(* the two earlier failures of the same statement, kept as recognisable variants:
   before /repo bdf00f0 an ODE option set later never reached the ODE solver;
   with the cache built before the args are applied (seeded change C13_2) the
   continuous martingale uses other rates than the discrete one *)
Theorem C13_ode_option_not_forwarded_refuted :
  exists f k c evs tl, f_forward f = false /\
    v_prep (fst (run f (after f (of_cfg k c) evs) (None, None) tl)) <> c_oo (cfg_after c evs).
Proof.
  exists {| f_forward := false; f_rebind := true; f_nm_args_first := true |}, KMC, c0,
         [ESetItem true 9%Z], []. split; [reflexivity|exact no_forward_ignores_ode_option].
Qed.
Print Assumptions C13_ode_option_not_forwarded_refuted.

Theorem C13_cache_before_args_refuted :
  exists f k c a tl, f_nm_args_first f = false /\
    let v := fst (run f (of_cfg k c) a tl) in v_shift v <> v_R v.
Proof.
  exists {| f_forward := true; f_rebind := true; f_nm_args_first := false |}, KNM, c0,
         (Some 7%Z, None), [0; 1]%Z. split; [reflexivity|exact cache_before_args_uses_old_rates].
Qed.
Print Assumptions C13_cache_before_args_refuted.

(* non-vacuity: a history with every kind of call on a non-Markovian solver *)
Example C13_conf_nonvacuous :
  let evs := [ESetDict (Some 9) None; ERun (Some 3, None) [0; 16]; ESetItem true 12;
              EStep (None, Some 5); ESetDict None (Some 7)]%Z in
  cfg_after c0 evs = {| c_args := (Some 3, Some 5); c_so := 9; c_oo := 7 |}%Z /\
  obs_view (fst (run fixed_flags (after fixed_flags (of_cfg KNM c0) evs) (None, Some 6%Z) [0; 8]%Z)) =
    ((Some 3, Some 6), (Some 3, Some 6), (Some 3, Some 6), (Some 3, Some 6), (Some 3, Some 6),
     Some [0; 8], 9, 7)%Z.
Proof. vm_compute. split; reflexivity. Qed.
