(* C04 - library calls do not modify the objects handed to them.
   Property theorems only; proofs are in Proofs/C04.v.

   Quantifiers: every IR program `s` / function `fn` (the programs generated
   from the qutip source by tools/tx_c04_alias.py are instances: one
   obligation `params_preserved fn_X = true` per function is discharged by
   vm_compute on every run, see Gen/C04_obl.v), every oracle O (all branch
   decisions, all loop counts, all contents written by callees, all objects
   returned by callees), every fuel (hence every prefix of an execution, i.e.
   an exception at any point), every initial heap, environment and
   allocation pointer, every boundary n0 between the caller's cells [0,n0)
   and the cells the function may write (new cells, owned parameters). *)
From Coq Require Import List String Bool Arith Lia.
Import ListNotations.
From QV Require Import Model.C04 Proofs.C04.
Open Scope string_scope.

(* Checker soundness, statement level: if the checker accepts s from the
   abstract environment a, then from every state described by a, no cell of
   the caller is written, whatever the oracle answers and wherever the
   execution stops. *)
Theorem C04_checker_sound :
  forall n0 O s a a' fuel st st' r,
    astmt s a = Some a' -> Inv n0 a st -> exec O fuel s st = (st', r) ->
    (forall l f, l < n0 -> hp st' l f = hp st l f) /\
    (r = Normal -> Inv n0 a' st').
Proof.
  intros n0 O s a a' fuel st st' r Ha HI He.
  destruct (exec_sound n0 O s a a' fuel st st' r Ha HI He) as [[P _] I1].
  split; [exact P|exact I1].
Qed.
Print Assumptions C04_checker_sound.

(* Function level: params_preserved fn = true  =>  every cell below n0 keeps
   its content, provided only that the owned parameters (and the containers
   owned with them) are not among those cells. *)
Theorem C04_params_preserved_sound :
  forall fn, params_preserved fn = true ->
  forall n0 O fuel st st' r,
    entry_ok n0 fn st -> exec O fuel (f_body fn) st = (st', r) ->
    forall l f, l < n0 -> hp st' l f = hp st l f.
Proof. exact params_preserved_sound. Qed.
Print Assumptions C04_params_preserved_sound.

(* Snapshot form: every cell reachable from the argument objects (roots) is
   still reachable and has the same content after the call. *)
Theorem C04_reachable_from_arguments_unchanged :
  forall fn, params_preserved fn = true ->
  forall n0 O fuel st st' r roots,
    entry_ok n0 fn st -> closed (hp st) n0 ->
    (forall l, In l roots -> l < n0) ->
    exec O fuel (f_body fn) st = (st', r) ->
    forall l, reach (hp st) roots l ->
      reach (hp st') roots l /\ forall f, hp st' l f = hp st l f.
Proof. exact reachable_unchanged. Qed.
Print Assumptions C04_reachable_from_arguments_unchanged.

(* Repeat-call: a second call on the same arguments (other oracle, other
   fuel) starts from, and ends with, argument objects equal to the original
   ones. *)
Theorem C04_repeat_call :
  forall fn, params_preserved fn = true -> f_owned fn = [] ->
  forall n0 O1 O2 fuel1 fuel2 st st1 r1 st2 r2 c,
    n0 <= nx st ->
    exec O1 fuel1 (f_body fn) st = (st1, r1) ->
    exec O2 fuel2 (f_body fn) (mkst (hp st1) (nx st1) (env st) c (dirty st1))
      = (st2, r2) ->
    forall l f, l < n0 -> hp st1 l f = hp st l f /\ hp st2 l f = hp st l f.
Proof. exact repeat_call_pure. Qed.
Print Assumptions C04_repeat_call.

(* The documented in-place operations are the only way to write: a store
   through, or a mutating callee applied to, a variable that may point to a
   caller's object is rejected. *)
Theorem C04_mutation_of_unowned_rejected :
  forall x f y W r, astmt (SStore x f y) [] = None /\
                    aexpr (ECall [(0, W)] r [x]) [] = None.
Proof. intros. split; [apply reject_store|apply reject_mut]. Qed.
Print Assumptions C04_mutation_of_unowned_rejected.

(* A statement that ends in return / raise on every path never completes
   normally (this is what lets the checker ignore the state after it). *)
Theorem C04_always_returns :
  forall O s, always_returns s = true ->
  forall fuel st st' r, exec O fuel s st = (st', r) -> r <> Normal.
Proof. exact always_returns_not_normal. Qed.
Print Assumptions C04_always_returns.

(* Ownership assertion used by the translator for the fields that hold a
   container owned by a QobjEvo (`elements`, `_feedback_functions`,
   `_solver_only_feedback`): a callee that writes nothing but must be allowed
   to write its argument is accepted only if that argument is certainly not
   an object of the caller - so an accepted function never stores a caller's
   container into such a field. *)
Theorem C04_assert_new_sound :
  forall n0 a a1 v r y st,
    aexpr (ECall [(0, [])] r [y]) a = Some (a1, v) -> Inv n0 a st ->
    n0 <= env st y < nx st.
Proof.
  intros n0 a a1 v r y st H [_ HI]. simpl in H.
  destruct (alookup a y) as [F|] eqn:E; [|discriminate].
  destruct (HI y F E) as [Hnew _]. exact Hnew.
Qed.
Print Assumptions C04_assert_new_sound.

(* Owned containers are not shared with the caller.  If the caller's heap is
   closed (its cells only refer to its cells), then after an accepted
   statement every field that the checker knows to hold a container created
   during the call (in particular: every ownership field passed through the
   translator's assertions / exit assertions) holds a cell that no object of
   the caller refers to, in any field.  (Exclusivity among the objects
   created during one and the same call is NOT covered: that needs a
   uniqueness analysis; it is confirmed by the operation-sequence
   correspondence only.) *)
Theorem C04_owned_container_not_shared_with_caller :
  forall n0 O s a a' fuel st st' x F f,
    astmt s a = Some a' -> Inv n0 a st -> closed (hp st) n0 ->
    exec O fuel s st = (st', Normal) ->
    alookup a' x = Some F -> In f F ->
    forall o g, o < n0 -> hp st' o g <> hp st' (env st' x) f.
Proof.
  intros n0 O s a a' fuel st st' x F f Ha HI Hcl He Hx Hf o g Ho.
  destruct (exec_sound n0 O s a a' fuel st st' Normal Ha HI He) as [[P _] I1].
  destruct (I1 eq_refl) as [_ HI'].
  destruct (HI' x F Hx) as [_ B]. destruct (B f Hf) as [Blo _].
  rewrite (P o g Ho). pose proof (Hcl o g Ho). lia.
Qed.
Print Assumptions C04_owned_container_not_shared_with_caller.

(* ------------------------------------------------------------ refutations *)
(* The shape `rhs = H if c else L(H); rhs += D` (MESolver.__init__ on the
   unchanged tree): the checker rejects it, and there is an execution of the
   model that writes the caller's H. *)
Theorem C04_alias_then_augassign_refuted :
  params_preserved prog_alias_aug = false /\
  exists seed fuel l f,
    l < N0 prog_alias_aug /\
    hp (fst (run_fn prog_alias_aug seed fuel)) l f <> hp (st0 prog_alias_aug) l f.
Proof.
  split; [reflexivity|]. exists 9, 50, 5, "*". split; [vm_compute; lia|].
  vm_compute. intro H. discriminate H.
Qed.
Print Assumptions C04_alias_then_augassign_refuted.

(* The shape `new = C(stats=self.stats); new.stats[k] = v` (merge before its
   fix; _solver_deprecation writing into `options` has the same shape). *)
Theorem C04_shared_dict_refuted :
  params_preserved prog_shared_dict = false /\
  exists seed fuel l f,
    l < N0 prog_shared_dict /\
    hp (fst (run_fn prog_shared_dict seed fuel)) l f <> hp (st0 prog_shared_dict) l f.
Proof.
  split; [reflexivity|]. exists 0, 50, 5, "[]". split; [vm_compute; lia|].
  vm_compute. intro H. discriminate H.
Qed.
Print Assumptions C04_shared_dict_refuted.

(* ---------------------------------------------------------- non-vacuity *)
(* the repaired shapes are accepted, so the theorems above apply to them *)
Example C04_nonvacuous_accepts :
  params_preserved prog_copy_add = true /\
  params_preserved prog_copied_dict = true /\
  params_preserved prog_ctor_loop = true.
Proof. repeat split; reflexivity. Qed.

(* the entry condition is satisfiable: the standard test state of a
   constructor with an owned `self` *)
Example C04_nonvacuous_entry :
  entry_ok (N0 prog_ctor_loop) prog_ctor_loop (st0 prog_ctor_loop) /\
  closed (hp (st0 prog_ctor_loop)) (N0 prog_ctor_loop).
Proof.
  split; [|apply h0_closed].
  split; [vm_compute; lia|]. intros x F H. simpl in H.
  destruct H as [H|[]]. inversion H. subst. split; [vm_compute; lia|].
  intros f Hf. destruct Hf.
Qed.

(* the hypotheses of C04_owned_container_not_shared_with_caller are
   satisfiable with a non-empty field set: the constructor sample keeps
   `self.rhs` known after its loop *)
Example C04_nonvacuous_owned_field :
  exists a' F, astmt (f_body prog_ctor_loop) (init_aenv (f_owned prog_ctor_loop)) = Some a' /\
               alookup a' "self" = Some F /\ In "rhs" F.
Proof. eexists. eexists. split; [vm_compute; reflexivity|]. split; [reflexivity|]. simpl. auto. Qed.

(* an accepted program really runs to completion and allocates (the
   conclusion is not about an empty set of executions) *)
Example C04_nonvacuous_runs :
  exists seed, snd (run_fn prog_ctor_loop seed 60) = Normal /\
               nx (fst (run_fn prog_ctor_loop seed 60)) > nx (st0 prog_ctor_loop) /\
               dirty (fst (run_fn prog_ctor_loop seed 60)) <> [].
Proof.
  exists 1. vm_compute. repeat split; try lia. intro H; discriminate H.
Qed.
