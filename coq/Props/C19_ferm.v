(* C19 - exchanging two adjacent exponents of ANY types (bosonic or fermionic,
   either parity) is a signed relabelling isomorphism of the hierarchy generator.
   Property theorems only; proofs are in Proofs/C19_ferm.v.

   exps' = swap_exps k exps is the exponent list with positions k, k+1
   exchanged and every partner offset (sigma_bar_k_offset) re-computed;
   n' = n o tau is the re-ordered label.  The theorem says: the ADO n' has a
   next/prev neighbour through position j exactly when n has one through
   position tau(j), the neighbours correspond, and the operator on that block is
   the SAME operator (cached super-operator index renamed by tau) times the sign
   s(n) s(m), where m is the neighbour and s(n) = (-1)^(F_k F_(k+1)) with F the
   fermionic occupation numbers: G' = (P S) G (P S)^-1 with S diagonal,
   S(rho_0) = +1.  The signs are exactly those of _grad_next_fermionic /
   _grad_prev_fermionic (sign1 is invariant; sign2 counts the excitations
   before k).  Every permutation is a product of adjacent transpositions.

   Quantifiers: every commutative ring, every exponent list of length >= 2,
   every k, every label of the right length, every position j, both parities,
   every depth. *)
From Coq Require Import List ZArith Bool Arith Lia Ring.
Import ListNotations.
From QV Require Import Model.C19 Model.C19_ferm Proofs.C19 Proofs.C19_perm Proofs.C19_ferm.

Theorem C19_adjacent_swap_signed_isomorphism :
  forall (C : Type) (c0 c1 : C) (cadd cmul : C -> C -> C) (cneg : C -> C) (ci : C)
         (cconj : C -> C),
    ring_theory c0 c1 cadd cmul (fun a b => cadd a (cneg b)) cneg eq ->
    forall (exps : list (bexp C)) (k D : nat) (n : label) (j : nat) (odd : bool),
      k + 1 < length exps -> length n = length exps -> j < length exps ->
      let pi := swap_pi k (length exps) in
      let exps' := swap_exps (dflt C c0) k exps in
      let n' := permute 0 pi n in
      let X := Xs C c0 c1 cneg exps k n j in
      heom_dims C exps' D = permute 0 pi (heom_dims C exps D) /\
      ados_next (heom_dims C exps' D) D n' j =
        option_map (permute 0 pi) (ados_next (heom_dims C exps D) D n (tau k j)) /\
      ados_prev n' j = option_map (permute 0 pi) (ados_prev n (tau k j)) /\
      grad_next C c0 c1 cmul cneg ci exps' n' j odd =
        option_map (fun op => scale cmul X (ren (tau k) op))
                   (grad_next C c0 c1 cmul cneg ci exps n (tau k j) odd) /\
      grad_prev C c0 c1 cadd cmul cneg ci cconj exps' n' j odd =
        option_map (fun op => scale cmul X (ren (tau k) op))
                   (grad_prev C c0 c1 cadd cmul cneg ci cconj exps n (tau k j) odd) /\
      grad_n C c0 c1 cadd cmul cneg exps' n' = grad_n C c0 c1 cadd cmul cneg exps n /\
      (* the sign is a conjugation: X = s(n) s(m) for the neighbour m *)
      (forall v, (fermionic (e_type C (nthe C c0 exps (tau k j))) = true ->
                  Nat.even v = negb (Nat.even (nth (tau k j) n 0))) ->
                 cmul (s_of C c1 cneg exps k n) (s_of C c1 cneg exps k (set_at n (tau k j) v)) = X) /\
      s_of C c1 cneg exps k (repeat 0 (length exps)) = c1.
Proof.
  intros C c0 c1 cadd cmul cneg ci cconj Rth exps k D n j odd Hk Hl Hj pi exps' n' X.
  assert (Hd : heom_dims C exps' D = permute 0 pi (heom_dims C exps D))
    by (exact (heom_dims_swap C c0 exps k n Hk Hl D)).
  assert (Hld : length (heom_dims C exps D) = length exps)
    by (unfold heom_dims, ados_dims; now rewrite !map_length).
  assert (Hnth : nth j pi 0 = tau k j) by (apply nth_swap_pi; assumption).
  split; [exact Hd|]. split.
  { rewrite Hd. rewrite <- Hnth.
    apply next_permute; [rewrite Hld; now apply swap_pi_perm|now rewrite Hld|now rewrite Hld]. }
  split.
  { rewrite <- Hnth. apply (prev_permute (length exps)); try assumption.
    now apply swap_pi_perm. }
  split; [exact (grad_next_swap C c0 c1 cadd cmul cneg ci Rth exps k n Hk Hl j odd Hj)|].
  split; [exact (grad_prev_swap C c0 c1 cadd cmul cneg ci cconj Rth exps k n Hk Hl j odd Hj)|].
  split; [exact (grad_n_swap C c0 c1 cadd cmul cneg Rth exps k n Hk Hl I)|].
  split; [intros v Hv; exact (s_conj C c0 c1 cadd cmul cneg Rth exps k n Hk Hl j v Hj Hv)|].
  unfold s_of. rewrite (nth_ferm_n C c0); [|now rewrite repeat_length|lia].
  rewrite nth_repeat. now destruct (fermionic _).
Qed.
Print Assumptions C19_adjacent_swap_signed_isomorphism.

(* non-vacuity: two fermionic pairs (+,-,+,-), exchange positions 1 and 2 (the
   '-' of the first pair with the '+' of the second); the partner offsets become
   (2, 2, -2, -2); for the ADO (1,1,0,1), odd parity, the `prev` block through
   new position 1 (old exponent 2... here tau 1 = 2) picks up the sign -1 *)
Example C19_nonvacuous_fermionic_swap :
  let exps := [mkexp TPlus (Some 2) 0 (1, 2)%Z (1, 0)%Z None (Some 1%Z);
               mkexp TMinus (Some 2) 0 (2, -1)%Z (1, 1)%Z None (Some (-1)%Z);
               mkexp TPlus (Some 2) 1 (3, 1)%Z (2, 0)%Z None (Some 1%Z);
               mkexp TMinus (Some 2) 1 (1, -3)%Z (2, 1)%Z None (Some (-1)%Z)] in
  map (e_off G) (swap_exps (dflt G g0) 1 exps) = [Some 2%Z; Some 2%Z; Some (-2)%Z; Some (-2)%Z] /\
  permute 0 (swap_pi 1 4) [1; 1; 1; 0] = [1; 1; 1; 0] /\
  permute 0 (swap_pi 1 4) [1; 0; 1; 1] = [1; 1; 0; 1] /\
  Xs G g0 g1 gneg exps 1 [1; 0; 1; 1] 1 = g1 /\
  Xs G g0 g1 gneg exps 1 [1; 1; 1; 0] 1 = gneg g1 /\
  grad_next G g0 g1 gmul gneg gi (swap_exps (dflt G g0) 1 exps) [1; 1; 1; 0] 3 true <> None.
Proof. vm_compute. repeat split; try reflexivity. discriminate. Qed.
