(* C15 - ensemble statistics equal the weighted statistics of the trajectories
   added.  Property theorems only; proofs are in Proofs/C15.v, the model in
   Model/C15.v (MultiTrajResult / _TrajectorySum of multitrajresult.py).

   Quantifiers: every history `ops` (list of ONew / OAdd / OAddDet / OMerge /
   ORead / OReadStd on any number of result objects, with any indices - bad
   indices are no-ops -, any rational weights and mixing probabilities, both
   keep_runs_results settings), every common shape n of the expectation
   vectors, every object x of the world reached, every component k.
   `g_rel x` / `g_det x` are the trajectories added to x (ghost history),
   `w_rel`, `w_det` the stored weights, runs_weights / det_weights what the
   object reports. *)
From Coq Require Import List ZArith QArith Qcanon Bool Arith Lia Permutation.
Import ListNotations.
From QV Require Import Model.C15 Proofs.C15 Model.C15_ens Proofs.C15_ens.
Local Open Scope Qc_scope.

Definition reached (n : nat) (ops : list op) (x : mtr) : Prop :=
  Forall (op_shaped n) ops /\ exists i, nth_error (objs (run empty_world ops)) i = Some x.

(* running sums: after ANY history each object's sums of values and of
   squares, per weight class, are the weighted sums of what was added to it,
   one weight per trajectory, seeds and collapses aligned with them *)
Theorem C15_sums_are_weighted_sums :
  forall n ops x, reached n ops x ->
    length (w_rel x) = num x /\ length (g_rel x) = num x /\
    length (w_det x) = length (g_det x) /\
    seeds x = map t_seed (g_rel x) /\ collapse x = map t_coll (g_rel x) /\
    sum_ok n (sum_rel x) (w_rel x) (g_rel x) /\
    sum_ok n (sum_det x) (w_det x) (g_det x).
Proof.
  intros n ops x [Hs [i E]]. destruct (reach_inv n ops x i Hs E).
  repeat split; assumption.
Qed.
Print Assumptions C15_sums_are_weighted_sums.

(* what _create_e_data computes is the weighted mean with the REPORTED
   weights: sum_det w*x + sum_rel (w/N)*x, componentwise *)
Theorem C15_average_is_weighted_mean :
  forall n ops x a, reached n ops x -> average x = Some a ->
    length a = n /\
    forall k, nth k a 0 = wsumf (xat k) (det_weights x) (g_det x)
                          + wsumf (xat k) (runs_weights x) (g_rel x).
Proof.
  intros n ops x a [Hs [i E]] Ha.
  destruct (average_spec n x a (reach_inv n ops x i Hs E) Ha) as [L N].
  split; [assumption|]. intros k. rewrite N. apply meanf_reported.
Qed.
Print Assumptions C15_average_is_weighted_mean.

(* the vector under the square root of std_e_data is |<x^2> - |<x>^2||
   with the same weighted means *)
Theorem C15_variance_is_weighted_spread :
  forall n ops x v, reached n ops x -> variance x = Some v ->
    length v = n /\
    forall k, nth k v 0 = Qcabs (meanf (x2at k) x - Qcabs (meanf (xat k) x * meanf (xat k) x)).
Proof.
  intros n ops x v [Hs [i E]] Hv. exact (variance_spec n x v (reach_inv n ops x i Hs E) Hv).
Qed.
Print Assumptions C15_variance_is_weighted_spread.

(* error branches: no average exactly when nothing was added (TypeError in
   the code); the division by N is never a division by zero *)
Theorem C15_average_defined_iff_nonempty :
  forall n ops x, reached n ops x ->
    (average x = None <-> g_rel x = [] /\ g_det x = []) /\
    (forall s, sum_rel x = Some s -> (0 < num x)%nat).
Proof.
  intros n ops x [Hs [i E]]. pose proof (reach_inv n ops x i Hs E) as I.
  split; [apply (average_none n x I)|]. intros s. apply (rel_sum_positive n x s I).
Qed.
Print Assumptions C15_average_defined_iff_nonempty.

(* total weight: the reported weights sum to the weighted mean of the
   constant 1, and merging mixes the totals like everything else *)
Theorem C15_reported_weights_total :
  forall n ops x, reached n ops x ->
    meanf one x = sumQ (det_weights x) + sumQ (runs_weights x).
Proof. intros n ops x [Hs [i E]]. apply (total_reported n x (reach_inv n ops x i Hs E)). Qed.
Print Assumptions C15_reported_weights_total.

(* merge a b p represents p * a + (1 - p) * b, for every statistic f of a
   trajectory (f = value at k, square at k, constant 1 for the total weight);
   p defaults to N_a / (N_a + N_b) *)
Theorem C15_merge_is_mixture :
  forall n ops ops' a b p r (f : traj -> Qc), reached n ops a -> reached n ops' b ->
    (0 < num a)%nat -> (0 < num b)%nat ->
    meanf f (merge_obj a b p r) = p_used a b p * meanf f a + (1 - p_used a b p) * meanf f b.
Proof.
  intros n ops ops' a b p r f [Hs [i E]] [Hs' [i' E']] Ha Hb.
  exact (merge_meanf f n a b p r (reach_inv n ops a i Hs E) (reach_inv n ops' b i' Hs' E') Ha Hb).
Qed.
Print Assumptions C15_merge_is_mixture.

(* merge: all outcomes (ValueError on different times, ZeroDivisionError when
   either operand has no sampled trajectory - the world is then unchanged -,
   else a new object with its own stats dictionary holding the summed run
   time); existing objects and existing stats dictionaries never change *)
Theorem C15_merge_outcome :
  forall W i j p,
    (match nth_error (objs W) i, nth_error (objs W) j with
     | Some a, Some b =>
         if negb (opt_Z_eqb (times a) (times b)) then step W (OMerge i j p) = (W, ErrValue)
         else if (num a =? 0)%nat || (num b =? 0)%nat then step W (OMerge i j p) = (W, ErrZeroDiv)
         else
           snd (step W (OMerge i j p)) = Ok /\
           objs (fst (step W (OMerge i j p))) = objs W ++ [merge_obj a b p (length (sheap W))] /\
           sheap (fst (step W (OMerge i j p))) =
             sheap W ++ [{| run_time := rt_of (sheap W) (stats_ref a) + rt_of (sheap W) (stats_ref b);
                            end_condition := EC_merged |}]
     | _, _ => step W (OMerge i j p) = (W, BadIndex)
     end).
Proof. exact step_merge_outcome. Qed.
Print Assumptions C15_merge_outcome.

(* the order in which trajectories are added does not matter *)
Theorem C15_insertion_order_irrelevant :
  forall n k r k' r' l l', Forall (item_shaped n) l -> Permutation l l' ->
    average (fill (new_obj k r) l) = average (fill (new_obj k' r') l') /\
    variance (fill (new_obj k r) l) = variance (fill (new_obj k' r') l').
Proof. exact perm_average. Qed.
Print Assumptions C15_insertion_order_irrelevant.

(* "at any moment": EVERY read of average_e_data / std_e_data, after any
   history (reads, adds and merges in any order), returns the weighted mean /
   spread of the trajectories the object holds at that moment; the read
   itself changes none of the statistics *)
Theorem C15_every_read_is_weighted_mean :
  forall n ops x x' a, reached n ops x -> read_avg x = Some (x', a) ->
    (length a = n /\ forall k, nth k a 0 = meanf (xat k) x) /\
    average x' = average x /\ variance x' = variance x /\ num x' = num x /\
    w_rel x' = w_rel x /\ w_det x' = w_det x.
Proof.
  intros n ops x x' a [Hs [i E]] Hr.
  split; [exact (read_avg_spec n x x' a (reach_inv n ops x i Hs E) Hr)|].
  destruct (read_avg_same_stats x x' a Hr) as (A & B & C & D & F & _). auto.
Qed.
Print Assumptions C15_every_read_is_weighted_mean.

Theorem C15_every_std_read_is_weighted_spread :
  forall n ops x x' v, reached n ops x -> read_std x = Some (x', v) ->
    length v = n /\
    forall k, nth k v 0 = Qcabs (meanf (x2at k) x - Qcabs (meanf (xat k) x * meanf (xat k) x)).
Proof.
  intros n ops x x' v [Hs [i E]] Hr.
  exact (read_std_spec n x x' v (reach_inv n ops x i Hs E) Hr).
Qed.
Print Assumptions C15_every_std_read_is_weighted_spread.

(* merge (and every other operation) leaves every existing result object and
   every existing stats dictionary exactly as it was: objects are only
   replaced by add / add_deterministic / read on that very object, a stats
   dictionary is never written after its creation *)
Theorem C15_merge_leaves_operands_unchanged :
  forall W i j p,
    (forall idx x, nth_error (objs W) idx = Some x ->
       nth_error (objs (fst (step W (OMerge i j p)))) idx = Some x) /\
    (forall q s, nth_error (sheap W) q = Some s ->
       nth_error (sheap (fst (step W (OMerge i j p)))) q = Some s).
Proof.
  intros W i j p. split.
  - intros idx x. apply step_merge_objs.
  - intros q s. apply step_heap_grows.
Qed.
Print Assumptions C15_merge_leaves_operands_unchanged.

Theorem C15_stats_never_overwritten :
  forall W ops q s, nth_error (sheap W) q = Some s -> nth_error (sheap (run W ops)) q = Some s.
Proof. intros W ops q s. apply run_heap_grows. Qed.
Print Assumptions C15_stats_never_overwritten.

(* merging = adding all trajectories of both operands, with the rescaled
   weights, to one fresh object: every reported quantity coincides *)
Theorem C15_merge_equals_adding_all :
  forall n ops ops' k r a b p sr, reached n ops a -> reached n ops' b ->
    let m := merge_obj a b p sr in
    let pe := QcN (num a) / QcN (num a + num b) in
    let pp := p_used a b p in
    let c := fill (new_obj k r)
               (items_of (map (fun w => w * pp) (w_det a) ++ map (fun w => w * (1 - pp)) (w_det b))
                         (g_det a ++ g_det b)
                         (map (fun w => w * pp / pe) (w_rel a) ++ map (fun w => w * (1 - pp) / (1 - pe)) (w_rel b))
                         (g_rel a ++ g_rel b)) in
    num c = num m /\ seeds c = seeds m /\ collapse c = collapse m /\
    w_rel c = w_rel m /\ w_det c = w_det m /\
    sum_rel c = sum_rel m /\ sum_det c = sum_det m /\
    runs_weights c = runs_weights m /\ average c = average m /\ variance c = variance m.
Proof.
  intros n ops ops' k r a b p sr [Hs [i E]] [Hs' [i' E']].
  exact (merge_is_adding_all n k r a b p sr (reach_inv n ops a i Hs E) (reach_inv n ops' b i' Hs' E')).
Qed.
Print Assumptions C15_merge_equals_adding_all.

(* + is associative (exactly, over the rationals; "up to rounding" in floats) *)
Theorem C15_plus_associative :
  forall n o1 o2 o3 a b c r1 r2 r3 r4, reached n o1 a -> reached n o2 b -> reached n o3 c ->
    (0 < num a)%nat -> (0 < num b)%nat -> (0 < num c)%nat ->
    let l := merge_obj (merge_obj a b None r1) c None r2 in
    let r := merge_obj a (merge_obj b c None r3) None r4 in
    num l = num r /\ seeds l = seeds r /\ collapse l = collapse r /\
    w_rel l = w_rel r /\ w_det l = w_det r /\
    sum_rel l = sum_rel r /\ sum_det l = sum_det r /\
    runs_weights l = runs_weights r /\ average l = average r /\ variance l = variance r.
Proof.
  intros n o1 o2 o3 a b c r1 r2 r3 r4 [H1 [i1 E1]] [H2 [i2 E2]] [H3 [i3 E3]].
  exact (plus_assoc n a b c r1 r2 r3 r4 (reach_inv n o1 a i1 H1 E1) (reach_inv n o2 b i2 H2 E2)
                    (reach_inv n o3 c i3 H3 E3)).
Qed.
Print Assumptions C15_plus_associative.

(* merge is commutative up to the obvious re-labelling: merge a b p and
   merge b a (1 - p) (a + b and b + a for the default) have the same weighted
   mean of EVERY statistic, hence the same average and spread vectors (the
   per-trajectory lists come in the other order) *)
Theorem C15_merge_commutative :
  forall n a b p r r', inv n a -> inv n b -> (0 < num a)%nat -> (0 < num b)%nat ->
    let l := merge_obj a b p r in
    let m := merge_obj b a (match p with Some q => Some (1 - q) | None => None end) r' in
    (forall f, meanf f l = meanf f m) /\ num l = num m /\ average l = average m /\ variance l = variance m.
Proof. exact merge_comm. Qed.
Print Assumptions C15_merge_commutative.

(* merge is associative for ARBITRARY mixing weights p, q with p q <> 1 (in
   particular all p, q in (0,1)):
   (a (+)_p b) (+)_q c = a (+)_{pq} (b (+)_{q(1-p)/(1-pq)} c), for every
   statistic, the seeds and the reported average / spread; `inv n x` holds for
   every object reached by any history (C15_sums_are_weighted_sums) *)
Theorem C15_merge_associative_any_p :
  forall n a b c p q r1 r2 r3 r4, inv n a -> inv n b -> inv n c ->
    (0 < num a)%nat -> (0 < num b)%nat -> (0 < num c)%nat -> p * q <> 1 ->
    let l := merge_obj (merge_obj a b (Some p) r1) c (Some q) r2 in
    let m := merge_obj a (merge_obj b c (Some (q * (1 - p) / (1 - p * q))) r3) (Some (p * q)) r4 in
    (forall f, meanf f l = meanf f m) /\ num l = num m /\ seeds l = seeds m /\
    average l = average m /\ variance l = variance m.
Proof. exact merge_assoc_any. Qed.
Print Assumptions C15_merge_associative_any_p.

(* every object reached satisfies the invariant the two theorems above ask for *)
Theorem C15_reached_objects_satisfy_inv :
  forall n ops x i, Forall (op_shaped n) ops ->
    nth_error (objs (run empty_world ops)) i = Some x -> inv n x.
Proof. exact reach_inv. Qed.
Print Assumptions C15_reached_objects_satisfy_inv.

(* per-trajectory data stay aligned after ANY history, whatever mixture of
   keep_runs_results options: the processors match the options, the
   deterministic trajectories are those of the ensemble (aligned with
   deterministic_weights), and a result that keeps its runs holds exactly the
   trajectories of the ensemble in `trajectories` and runs_e_data, in order
   (a result that does not keep them holds none) *)
Theorem C15_per_trajectory_data_aligned :
  forall n ops x, reached n ops x ->
    proc_store x = keep x /\ det_trajs x = g_det x /\
    length (det_trajs x) = length (det_weights x) /\
    if keep x then trajs x = g_rel x /\ runs_e x = Some (map t_expect (g_rel x)) /\
                   length (trajs x) = num x
    else trajs x = [] /\ runs_e x = None.
Proof.
  intros n ops x [Hs [i E]].
  pose proof (reach_inv n ops x i Hs E) as I.
  assert (A : aligned x).
  { eapply Forall_nth_error; [|exact E]. apply (run_aligned n); auto; constructor. }
  destruct A as (A1 & A2 & A3). split; [assumption|]. split; [assumption|].
  split; [rewrite A2; symmetry; apply (i_len_det n x I)|].
  destruct (keep x); [|assumption]. destruct A3 as [T R].
  split; [assumption|]. split; [assumption|]. rewrite T. apply (i_len_grel n x I).
Qed.
Print Assumptions C15_per_trajectory_data_aligned.

(* _minimum_roundoff_ensemble (multitraj.py): with at most N states of
   positive weight, weights summing to at least one, the loop never pops from
   an empty list, terminates, and the allocation (state index, count) it
   reaches gives every positive-weight state - and no other - at least one
   trajectory, N in total.
   Full statement (the positional list `ntraj` itself): nth i ntraj = count of
   state i, 0 for zero-weight states; the final `ntraj[index] = count` writes
   (assemble) are covered by the correspondence only. *)
Theorem C15_roundoff_ensemble_partial :
  forall ws N, (Z.of_nat (length (filtered ws)) <= N)%Z -> (1 <= qsum (filtered ws))%Q ->
    exists st, min_roundoff ws N = EOk (assemble (length ws) st) /\
      asum (alloc st) = N /\
      Permutation (map fst (alloc st)) (map fst (filtered ws)) /\
      Forall (fun p => (1 <= snd p)%Z) (alloc st).
Proof.
  intros ws N Hlen Hsum.
  assert (HN : (0 <= N)%Z) by lia.
  destruct (roundoff_alloc ws N Hlen (gsum_enough N _ HN Hsum)) as (st & R & A & P & F).
  exists st. split; [|auto]. unfold min_roundoff.
  destruct (Z.of_nat (length (filtered ws)) >? N)%Z eqn:E.
  - apply Z.gtb_lt in E. lia.
  - rewrite R. reflexivity.
Qed.
Print Assumptions C15_roundoff_ensemble_partial.

(* error branch: more positive-weight states than trajectories *)
Theorem C15_roundoff_ensemble_too_few :
  forall ws N, (N < Z.of_nat (length (filtered ws)))%Z -> min_roundoff ws N = EValueError.
Proof. exact roundoff_too_few. Qed.
Print Assumptions C15_roundoff_ensemble_too_few.

(* non-vacuity: a history with two objects, sampled and deterministic
   trajectories of length 2, a merge with p = 1/4; object 2 is reached, its
   operands have trajectories, the merge succeeds *)
Local Open Scope Z_scope.
Example C15_nonvacuous :
  let t (s : Z) e := mkt s 7 0 e in
  let ops := [ONew false 1%Qc; OAdd 0%nat (t 0 [(1, 1); (1, 2)]) None;
              OAddDet 0%nat (t 1 [(3, 1); (1, 1)]) (mkq 1 2);
              ONew false 1%Qc; OAdd 1%nat (t 2 [(5, 1); (3, 1)]) (Some (mkq 2 1));
              OMerge 0%nat 1%nat (Some (mkq 1 4)); ORead 2%nat] in
  Forall (op_shaped 2%nat) ops /\
  exists a b m, nth_error (objs (run empty_world ops)) 0%nat = Some a /\
    nth_error (objs (run empty_world ops)) 1%nat = Some b /\
    nth_error (objs (run empty_world ops)) 2%nat = Some m /\
    (0 < num a)%nat /\ (0 < num b)%nat /\ num m = 2%nat /\
    option_map vz (avg_cache m) = Some [(65, 8); (19, 4)].
Proof.
  split; [repeat constructor|].
  eexists. eexists. eexists.
  split; [vm_compute; reflexivity|]. split; [vm_compute; reflexivity|].
  split; [vm_compute; reflexivity|].
  split; [vm_compute; lia|]. split; [vm_compute; lia|]. split; vm_compute; reflexivity.
Qed.

Example C15_nonvacuous_permutation :
  let t (s : Z) e := mkt s 7 0 e in
  let l := [IRel (t 0 [(1, 1)]) None; IDet (t 1 [(3, 1)]) (mkq 1 2); IRel (t 2 [(5, 1)]) (Some (mkq 2 1))] in
  Forall (item_shaped 1%nat) l /\ Permutation l (rev l) /\
  option_map vz (average (fill (new_obj false 0%nat) l)) = Some [(7, 1)].
Proof.
  split; [repeat constructor|]. split; [apply Permutation_rev|vm_compute; reflexivity].
Qed.

Example C15_nonvacuous_ensemble :
  let ws := [1 # 8; 0 # 1; 3 # 8; 1 # 2]%Q in
  (Z.of_nat (length (filtered ws)) <= 10) /\ (1 <= qsum (filtered ws))%Q /\
  min_roundoff ws 10 = EOk [1; 0; 4; 5].
Proof. split; [vm_compute; discriminate|]. split; [vm_compute; discriminate|vm_compute; reflexivity]. Qed.

(* ---- the former rules (code before 3ad4eea / ca7c500 / b075e21 / 191187a),
   kept as old_add / old_merge_obj in Model/C15.v: the former counterexamples,
   next to what the current rules give on the same inputs *)
Example C15_old_rule_stale_cache :
  let t (s : Z) e := mkt s 0 0 e in
  let o1 := add (new_obj false 0%nat) (t 0 [(1, 1)]) None in
  exists o2 a, read_avg o1 = Some (o2, a) /\
    (* old: the cache filled by the read survived the next add: 1 is read, the mean is 2 *)
    option_map vz (avg_cache (old_add o2 (t 1 [(3, 1)]) None)) = Some [(1, 1)] /\
    option_map vz (average (old_add o2 (t 1 [(3, 1)]) None)) = Some [(2, 1)] /\
    (* now: add drops the cache *)
    avg_cache (add o2 (t 1 [(3, 1)]) None) = None.
Proof.
  eexists. eexists. split; [vm_compute; reflexivity|].
  split; [vm_compute; reflexivity|]. split; vm_compute; reflexivity.
Qed.

Example C15_old_rule_merge_stats_and_deterministic :
  let t (s : Z) e := mkt s 0 0 e in
  let a := add (add_det (new_obj false 0%nat) (t 0 [(1, 1)]) (mkq 1 2)) (t 1 [(2, 1)]) None in
  let b := add (add_det (new_obj false 1%nat) (t 2 [(4, 1)]) (mkq 1 4)) (t 3 [(2, 1)]) None in
  (* old: the merged result shared a's stats dictionary and lost the deterministic trajectories *)
  stats_ref (old_merge_obj a b None) = stats_ref a /\
  length (det_trajs (old_merge_obj a b None)) = 0%nat /\
  length (det_weights (old_merge_obj a b None)) = 2%nat /\
  (* now *)
  stats_ref (merge_obj a b None 2%nat) = 2%nat /\
  length (det_trajs (merge_obj a b None 2%nat)) = 2%nat.
Proof. repeat split; vm_compute; reflexivity. Qed.

Example C15_old_rule_mixed_keep :
  let t (s : Z) e := mkt s 0 0 e in
  let x := add (new_obj true 0%nat) (t 0 [(1, 1)]) None in
  let y := add (new_obj false 1%nat) (t 1 [(2, 1)]) None in
  (* old: options said "runs not kept" but _store_trajectory was registered:
     a later add stored 1 of 3 trajectories *)
  keep (old_merge_obj x y None) = false /\ proc_store (old_merge_obj x y None) = true /\
  length (trajs (old_add (old_merge_obj x y None) (t 2 [(3, 1)]) None)) = 1%nat /\
  num (old_add (old_merge_obj x y None) (t 2 [(3, 1)]) None) = 3%nat /\
  (* now *)
  proc_store (merge_obj x y None 2%nat) = false /\
  trajs (add (merge_obj x y None 2%nat) (t 2 [(3, 1)]) None) = [].
Proof. repeat split; vm_compute; reflexivity. Qed.

Example C15_nonvacuous_associativity :
  let t (s : Z) e := mkt s 0 0 e in
  let a := fill (new_obj false 0%nat) [IRel (t 0 [(1, 1)]) None; IDet (t 1 [(3, 1)]) (mkq 1 2)] in
  let b := fill (new_obj false 1%nat) [IRel (t 2 [(5, 1)]) (Some (mkq 2 1)); IRel (t 3 [(2, 1)]) None] in
  let c := fill (new_obj false 2%nat) [IRel (t 4 [(7, 1)]) None] in
  let p := mkq 1 4 in let q := mkq 1 2 in
  (p * q)%Qc <> 1%Qc /\ (0 < num a)%nat /\ (0 < num b)%nat /\ (0 < num c)%nat /\
  option_map vz (average (merge_obj (merge_obj a b (Some p) 3%nat) c (Some q) 4%nat)) = Some [(97, 16)] /\
  option_map vz (average (merge_obj a (merge_obj b c (Some (q * (1 - p) / (1 - p * q))%Qc) 3%nat)
                                   (Some (p * q)%Qc) 4%nat)) = Some [(97, 16)] /\
  option_map vz (average (merge_obj b a (Some (1 - p)%Qc) 3%nat)) =
  option_map vz (average (merge_obj a b (Some p) 3%nat)).
Proof.
  split; [intros H; apply (f_equal this) in H; vm_compute in H; discriminate|].
  split; [vm_compute; lia|]. split; [vm_compute; lia|]. split; [vm_compute; lia|].
  split; [vm_compute; reflexivity|]. split; vm_compute; reflexivity.
Qed.
