(* C16 - Monte-Carlo trajectories are realisations of the quantum-jump
   process.  Property theorems over the model of MCIntegrator
   (Model/C16.v); proofs in Proofs/C16.v (any number type with two order
   laws) and Proofs/C16_q.v (exact rationals).  The generator algebra
   (norm decay = total jump rate) is in Props/C16_gen.v.

   Quantifiers: every option set (norm_steps, norm_t_tol, norm_tol,
   mc_corr_eps), every ODE flow / norm oracle / step-size oracle, every
   random stream, every number of channels and rate table, every requested
   time, every fuel (point of the execution). *)
From Coq Require Import List Bool Arith ZArith QArith Qabs Lia Lqa.
Import ListNotations.
From QV Require Import Model.C16 Proofs.C16 Proofs.C16_q.
Local Open Scope nat_scope.

(* the two laws assumed of the comparisons of the number type *)
Definition order_laws (N : Num) : Prop :=
  (forall a b, ltb N a b = true -> leb N a b = true) /\
  (forall a b, ltb N a b = false -> leb N b a = true).

Example C16_nonvacuous_order_laws : order_laws QN.
Proof. split; [exact QN_lt_le|exact QN_nlt_le]. Qed.

(* ---------------------------------------------------------------------
   1. The jump-time search terminates within norm_steps tries and makes at
      most one mcstep request per try. *)
Theorem C16_search_terminates :
  forall (N : Num) (o : opts N) nrm2 lg stp sg cur tp tf no n tg,
    match fct_loop N o nrm2 lg stp (norm_steps N o) 0 sg [] cur tp tf no n tg with
    | Broke _ _ _ tr rq => 1 <= tr <= norm_steps N o /\ length rq <= tr <= S (length rq)
    | LoopEnd _ tr rq => tr = norm_steps N o /\ length rq = norm_steps N o
    end.
Proof.
  intros. pose proof (fct_tries N o nrm2 lg stp (norm_steps N o) 0 sg [] cur tp tf no n tg) as H.
  destruct (fct_loop N o nrm2 lg stp (norm_steps N o) 0 sg [] cur tp tf no n tg);
    cbn [length] in H; lia.
Qed.
Print Assumptions C16_search_terminates.

(* ---------------------------------------------------------------------
   2. What a found collapse time satisfies.  Called with a bracket
      norm(t_prev) >= target >= norm(t_final), the search keeps such a
      bracket, and a returned (t, state) is either
        - the state at t itself with |target - norm2(t)| < norm_tol*target, or
        - t = t_final' of a bracket with t_final' <= t_prev' + norm_t_tol that still has
          norm2(t_prev') >= target >= norm2(t_final'), the state being the one
          at t_prev' or at t_final'.
      (held t v t0 v0: v is the squared norm the code holds for time t -
      the value it was called with, or nrm2 at t.) *)
Theorem C16_found_collapse_time_within_tolerances :
  forall (N : Num) (o : opts N) nrm2 lg stp, order_laws N ->
    (forall sg c g, stp sg c g = g) ->
    forall sg t_prev t_final norm_old norm tg t s,
      leb N tg norm_old = true -> leb N norm tg = true ->
      fst (find_collapse N o nrm2 lg stp sg t_final t_prev t_final norm_old norm tg) = Some (t, s) ->
      found_ok N o nrm2 sg t_prev t_final norm_old norm tg t s.
Proof.
  intros N o nrm2 lg stp [L1 L2] Hstp sg tp tf no n tg t s H1 H2 H.
  apply find_collapse_some in H. destruct H as (tr & rq & H & _).
  eapply (fct_bracket N o nrm2 lg stp L1 L2 Hstp sg tp tf no n tg); [|exact H].
  unfold binv, held. repeat split; auto.
Qed.
Print Assumptions C16_found_collapse_time_within_tolerances.

Example C16_nonvacuous_found :
  exists o nrm2 lg stp t s,
    fst (find_collapse QN o nrm2 lg stp 0 1%Q 0%Q 1%Q 1%Q (1#4)%Q (1#2)%Q) = Some (t, s).
Proof.
  exists (mkOpts QN 5 (1#1000)%Q (3#4)%Q (1#1000)%Q).
  exists (fun _ t => (1 - (3#4) * t)%Q), (fun x => (x - 1)%Q), (fun _ _ g => g).
  exists (1#3)%Q, (1#3)%Q. vm_compute. reflexivity.
Qed.

(* ---------------------------------------------------------------------
   3. norm_steps: "an error is raised if the collapse could not be found
      within norm_steps tries".  find_collapse returns a collapse time iff some
      try among the norm_steps allowed ones ended the loop by `break`, and
      raises iff all norm_steps tries went by without. *)
Theorem C16_find_collapse_succeeds_within_norm_steps :
  forall (N : Num) (o : opts N) nrm2 lg stp sg cur tp tf no n tg g s,
    fst (find_collapse N o nrm2 lg stp sg cur tp tf no n tg) = Some (g, s) <->
    exists tr rq, fct_loop N o nrm2 lg stp (norm_steps N o) 0 sg [] cur tp tf no n tg
                  = Broke N g s tr rq /\ 1 <= tr <= norm_steps N o.
Proof. exact find_collapse_some. Qed.
Print Assumptions C16_find_collapse_succeeds_within_norm_steps.

Theorem C16_find_collapse_raises_only_when_exhausted :
  forall (N : Num) (o : opts N) nrm2 lg stp sg cur tp tf no n tg,
    fst (find_collapse N o nrm2 lg stp sg cur tp tf no n tg) = None <->
    exists rq, fct_loop N o nrm2 lg stp (norm_steps N o) 0 sg [] cur tp tf no n tg
               = LoopEnd N (norm_steps N o) rq.
Proof. exact find_collapse_none. Qed.
Print Assumptions C16_find_collapse_raises_only_when_exhausted.

(* the input of the former defect (one allowed try, which succeeds) *)
Example C16_nonvacuous_last_try :
  fst (find_collapse QN (mkOpts QN 1 (1#1000)%Q (3#4)%Q (1#1000)%Q)
                     (fun _ t => (1 - (3#4) * t)%Q) (fun x => (x - 1)%Q) (fun _ _ g => g)
                     0 1%Q 0%Q 1%Q 1%Q (1#4)%Q (1#2)%Q) = Some ((1#3)%Q, (1#3)%Q).
Proof. vm_compute. reflexivity. Qed.

(* ---------------------------------------------------------------------
   3b. No stagnation.  The input on which the search used to repeat the guess
       t_prev + norm_t_tol for ever (squared norm 1 - t/2, threshold 97/100,
       norm_t_tol 1/10) is accepted at the second try; and in general: *)
Theorem C16_former_stagnation_input_accepted :
  fct_loop QN (stag_o 5) stag_nrm2 stag_lg stag_stp 5 0 0 [] 1%Q 0%Q 1%Q 1%Q (1#2)%Q stag_tg
  = Broke QN (1#10)%Q (1#10)%Q 2 [(1#10)%Q].
Proof. exact stag_accepted. Qed.
Print Assumptions C16_former_stagnation_input_accepted.

(* progress of the search for ANY input: for every strictly positive squared-norm
   oracle, every logarithm that is positive and strictly increasing above 1
   and every bracket with norm_old > target > norm > 0, all the times the
   search asks the integrator for are pairwise different and lie strictly
   inside the bracket (each one becomes an end of a strictly smaller bracket):
   a guess is never repeated, whatever norm_steps. *)
Theorem C16_search_never_repeats_a_request :
  forall (o : opts QN) nrm2 lg stp,
    (forall sg c g, stp sg c g = g) ->
    (forall x y, 1 < x -> x < y -> 0 < lg x /\ lg x < lg y)%Q ->
    (forall sg t, 0 < nrm2 sg t)%Q ->
    (0 < norm_t_tol QN o)%Q -> (0 < norm_tol QN o)%Q ->
    forall fuel sg t_prev t_final norm_old norm tg,
      (t_prev <= t_final)%Q -> (0 < norm)%Q -> (norm < tg)%Q -> (tg < norm_old)%Q ->
      exists rq,
        (match fct_loop QN o nrm2 lg stp fuel 0 sg [] t_final t_prev t_final norm_old norm tg with
         | Broke _ _ _ _ r => r | LoopEnd _ _ r => r end) = rq /\
        NoDup rq /\ (forall r, In r rq -> (t_prev < r /\ r < t_final)%Q).
Proof.
  intros o nrm2 lg stp Hstp Hlg Hpos Htt Hnt fuel sg tp tf no n tg Hb Hn Hle Hlt.
  destruct (fct_w_progress o nrm2 lg stp Hstp Hlg Hpos Htt Hnt fuel 0 sg [] tf tp tf no n tg
                           Hb Hn Hle Hlt) as (new & E & ND & HI).
  exists new. rewrite app_nil_r in E. split; [exact E|]. split; [exact ND|exact HI].
Qed.
Print Assumptions C16_search_never_repeats_a_request.

(* ---------------------------------------------------------------------
   4. Exact arithmetic: every time the search asks the ODE integrator for
      lies in (t_prev, t_final] - inside the dense-output range of the last
      step, so every backward step is legal - and the returned time and
      state time lie in [t_prev, t_final].  Assumed of the logarithm only:
      positive and monotone above 1. *)
Theorem C16_search_requests_inside_bracket :
  forall (o : opts QN) nrm2 lg stp,
    (forall sg c g, stp sg c g = g) ->
    (forall x y, 1 < x -> x <= y -> 0 < lg x /\ lg x <= lg y)%Q ->
    (forall sg t, 0 < nrm2 sg t)%Q ->
    (0 < norm_t_tol QN o)%Q -> (0 < norm_tol QN o)%Q ->
    forall sg t_prev t_final norm_old norm tg,
      (t_prev <= t_final)%Q -> (0 < norm)%Q -> (norm <= tg)%Q -> (tg < norm_old)%Q ->
      match fct_loop QN o nrm2 lg stp (norm_steps QN o) 0 sg [] t_final t_prev t_final
                     norm_old norm tg with
      | Broke _ g s _ rq =>
          (forall r, In r rq -> (t_prev < r /\ r <= t_final)%Q) /\
          (t_prev <= g <= t_final)%Q /\ (t_prev <= s <= t_final)%Q
      | LoopEnd _ _ rq => forall r, In r rq -> (t_prev < r /\ r <= t_final)%Q
      end.
Proof.
  intros o nrm2 lg stp Hstp Hlg Hpos Htt Hnt sg tp tf no n tg Hb Hn Hle Hlt.
  pose proof (fct_range o nrm2 lg stp Hstp Hlg Hpos Htt Hnt (norm_steps QN o) 0 sg [] tf tp tf
                        no n tg Hb Hn Hle Hlt (or_intror eq_refl)) as H.
  destruct (fct_loop QN o nrm2 lg stp (norm_steps QN o) 0 sg [] tf tp tf no n tg).
  - destruct H as (H1 & H2 & H3). split; [|split; assumption].
    intros r Hr. destruct (H1 r Hr) as [[]|B]. exact B.
  - intros r Hr. destruct (H r Hr) as [[]|B]. exact B.
Qed.
Print Assumptions C16_search_requests_inside_bracket.

Example C16_nonvacuous_requests :
  exists (o : opts QN) nrm2 lg stp rq g s tr,
    (forall x y, 1 < x -> x <= y -> 0 < lg x /\ lg x <= lg y)%Q /\
    (forall sg t, 0 < nrm2 sg t)%Q /\
    fct_loop QN o nrm2 lg stp (norm_steps QN o) 0 0 [] 1%Q 0%Q 1%Q 1%Q (1#4)%Q (1#2)%Q
      = Broke QN g s tr rq /\ length rq = 1.
Proof.
  exists (mkOpts QN 5 (1#1000)%Q (3#4)%Q (1#1000)%Q).
  exists (fun _ t => if Qle_bool t 1 then 1 - (3#4) * t else 1#4)%Q, (fun x => (x - 1)%Q),
         (fun _ _ g => g).
  exists [(1#3)%Q], (1#3)%Q, (1#3)%Q, 1. split; [|split; [|split]].
  - intros x y H1 H2. lra.
  - intros sg t. destruct (Qle_bool t 1) eqn:E; [apply Qle_bool_iff in E; lra|lra].
  - vm_compute. reflexivity.
  - reflexivity.
Qed.

(* ---------------------------------------------------------------------
   5. Channel selection (np.cumsum + np.searchsorted(cum, cum[-1]*u)):
      channel k is chosen iff cum_{k-1} < total*u <= cum_k; so for u uniform
      on [0,1) channel k has probability (cum_k - cum_{k-1})/total =
      rate_k/total; a channel is always found; a channel of zero rate is
      never chosen (for u > 0). *)
Theorem C16_channel_rule :
  forall probs u k, nonneg probs -> k < length probs ->
    let total := csum probs (length probs) in
    (which_of QN probs u = k <->
     (forall i, i < k -> (csum probs (S i) < total * u)%Q) /\ (total * u <= csum probs (S k))%Q).
Proof. exact which_rule. Qed.
Print Assumptions C16_channel_rule.

Theorem C16_channel_interval_length :
  forall probs k, k < length probs -> (csum probs (S k) - csum probs k == nth k probs 0)%Q.
Proof. intros probs k Hk. rewrite (csum_step probs k Hk). lra. Qed.
Print Assumptions C16_channel_interval_length.

Theorem C16_channel_always_found :
  forall probs u, nonneg probs -> (0 < csum probs (length probs))%Q -> (0 <= u < 1)%Q ->
    which_of QN probs u < length probs.
Proof. exact which_in_range. Qed.
Print Assumptions C16_channel_always_found.

Theorem C16_zero_rate_channel_never_chosen :
  forall probs u k, nonneg probs -> k < length probs ->
    (0 < csum probs (length probs) * u)%Q ->
    which_of QN probs u = k -> (0 < nth k probs 0)%Q.
Proof. exact which_rate_positive. Qed.
Print Assumptions C16_zero_rate_channel_never_chosen.

Example C16_nonvacuous_channel :
  which_of QN [0; 1#2; 0; 3#2]%Q (1#4)%Q = 1 /\ which_of QN [0; 1#2; 0; 3#2]%Q (1#2)%Q = 3.
Proof. split; vm_compute; reflexivity. Qed.

(* ---------------------------------------------------------------------
   6. _do_collapse: the integrator is restarted at the collapse time on a
      new segment; either the image of the state under the chosen operator
      is below mc_corr_eps and then no collapse is recorded and the threshold
      is kept, or exactly one collapse (t, k) is appended, k being channel 0
      when there is one channel and the searchsorted channel otherwise, and
      the threshold is redrawn from the stream. *)
Theorem C16_do_collapse :
  forall (N : Num) (o : opts N) rate jnorm rnd nch st tc s,
    let st' := do_collapse N o rate jnorm rnd nch st tc s in
    seg N st' = S (seg N st) /\ cur N st' = tc /\ reqlog N st' = reqlog N st /\
    ((cols N st' = cols N st /\ target N st' = target N st /\
      exists k, ltb N (jnorm (seg N st) tc s k) (mc_corr_eps N o) = true /\
                ndraw N st' = (if Nat.eqb nch 1 then ndraw N st else S (ndraw N st)))
     \/ (exists k, cols N st' = (tc, k) :: cols N st /\
                   ltb N (jnorm (seg N st) tc s k) (mc_corr_eps N o) = false /\
                   ndraw N st' = S (if Nat.eqb nch 1 then ndraw N st else S (ndraw N st)) /\
                   target N st' = rnd (ndraw N st' - 1) /\
                   (nch = 1 -> k = 0) /\
                   (nch <> 1 -> k = which_of N (map (rate (seg N st) tc s) (seq 0 nch))
                                              (rnd (ndraw N st))))).
Proof. intros. apply do_collapse_spec. Qed.
Print Assumptions C16_do_collapse.

(* ---------------------------------------------------------------------
   7. integrate: the collapse list, the random-stream position, the segment
      counter and the request log only grow (nothing recorded is ever
      rewritten), and a normal return has reached the requested time. *)
Theorem C16_integrate_append_only :
  forall (N : Num) (o : opts N) nrm2 lg stp rate jnorm rnd nch, order_laws N ->
    forall fuel st t,
    match integrate N o nrm2 lg stp rate jnorm rnd nch fuel st t with
    | Done _ st' tr => extends N st st' /\ leb N t tr = true
    | Raised _ st' => extends N st st'
    | OutOfFuel _ st' => extends N st st'
    end.
Proof.
  intros N o nrm2 lg stp rate jnorm rnd nch [L1 L2] fuel st t. unfold integrate.
  apply integ_loop_spec; exact L2.
Qed.
Print Assumptions C16_integrate_append_only.

(* between jumps the state follows the ODE flow: if integrate returns
   without a set_state (same segment) then nothing but the integrator time
   changed, and unless no step was needed the squared norm at the returned
   time is above the threshold (so: threshold >= squared norm at the end
   forces a collapse search) *)
Theorem C16_no_jump_means_above_threshold :
  forall (N : Num) (o : opts N) nrm2 lg stp rate jnorm rnd nch, order_laws N ->
    forall fuel st t st' tr,
      integrate N o nrm2 lg stp rate jnorm rnd nch fuel st t = Done N st' tr ->
      seg N st' = seg N st ->
      cols N st' = cols N st /\ ndraw N st' = ndraw N st /\ target N st' = target N st /\
      ((tr = cur N st /\ cur N st' = cur N st) \/
       (tr = cur N st' /\ leb N (nrm2 (seg N st) tr) (target N st) = false)).
Proof.
  intros N o nrm2 lg stp rate jnorm rnd nch [L1 L2] fuel st t st' tr H Hs.
  unfold integrate in H.
  exact (integ_loop_nojump N o nrm2 lg stp rate jnorm rnd nch L2 fuel st t _ _ st' tr H Hs).
Qed.
Print Assumptions C16_no_jump_means_above_threshold.

(* ---------------------------------------------------------------------
   8. The no-jump trajectory of improved sampling (set_state(no_jump=True):
      threshold 0): with a positive squared norm no collapse search is ever
      started, no random number is drawn, no error is raised, and the state
      stays on the first ODE segment: it is the deterministic
      effective-Hamiltonian evolution. *)
Theorem C16_no_jump_trajectory_is_deterministic :
  forall (N : Num) (o : opts N) nrm2 lg stp rate jnorm rnd nch,
    (forall sg t, leb N (nrm2 sg t) (zero N) = false) ->
    forall fuel t0 floor ts,
    match run N o nrm2 lg stp rate jnorm rnd nch fuel t0 ts true floor with
    | RDone _ st _ | ROutOfFuel _ st _ =>
        seg N st = 0 /\ cols N st = [] /\ ndraw N st = 0 /\ sets N st = []
    | RRaised _ _ _ => False
    end.
Proof.
  intros N o nrm2 lg stp rate jnorm rnd nch Hpos fuel t0 floor ts.
  unfold run, init_state.
  set (st0 := mkSt N 0 t0 (zero N) 0 [] [] []).
  assert (G : forall ts st rets,
             seg N st = 0 /\ cols N st = [] /\ ndraw N st = 0 /\ target N st = zero N /\ sets N st = [] ->
             match run_from N o nrm2 lg stp rate jnorm rnd nch fuel st ts rets with
             | RDone _ st' _ | ROutOfFuel _ st' _ =>
                 seg N st' = 0 /\ cols N st' = [] /\ ndraw N st' = 0 /\ sets N st' = []
             | RRaised _ _ _ => False
             end).
  { induction ts0 as [|t r IH]; intros st rets (A & B & C & D & E); cbn [run_from].
    - repeat split; assumption.
    - unfold integrate.
      pose proof (integ_loop_target0 N o nrm2 lg stp rate jnorm rnd nch Hpos fuel st t
                                     (cur N st) (nrm2 (seg N st) (cur N st)) D) as H.
      destruct (integ_loop N o nrm2 lg stp rate jnorm rnd nch fuel st t (cur N st)
                           (nrm2 (seg N st) (cur N st))) as [st' tr|st'|st'].
      + destruct H as (H1 & H2 & H3 & H4 & H5). apply IH.
        repeat split; congruence.
      + exact H.
      + destruct H as (H1 & H2 & H3 & H4 & H5). repeat split; congruence. }
  apply G. subst st0. repeat split; reflexivity.
Qed.
Print Assumptions C16_no_jump_trajectory_is_deterministic.

(* ---------------------------------------------------------------------
   9. Improved sampling, exact arithmetic.  The threshold map
      u -> u(1-p0)+p0 sends [0,1) onto [p0,1) and the preimage of [a,b) is an
      interval of length (b-a)/(1-p0): thresholds are uniform conditioned on
      being >= p0, i.e. (by 7.) on at least one collapse search.  With the
      absolute weight p0 for the no-jump trajectory and relative weight
      1-p0 for trajectories drawn from the conditional law the estimator has
      the plain expectation. *)
Theorem C16_threshold_map_conditions_on_jump :
  forall p0 : Q, (0 <= p0 < 1)%Q ->
    (forall u, 0 <= u < 1 -> p0 <= u * (1 - p0) + p0 < 1)%Q /\
    (forall x, p0 <= x < 1 -> exists u, 0 <= u < 1 /\ u * (1 - p0) + p0 == x)%Q /\
    (forall a b u, a <= u * (1 - p0) + p0 < b <->
                   (a - p0) / (1 - p0) <= u < (b - p0) / (1 - p0))%Q.
Proof.
  intros p0 Hp. split; [|split].
  - intros u Hu. apply floor_map_range; assumption.
  - intros x Hx. exists ((x - p0) / (1 - p0))%Q. apply floor_map_inverse; assumption.
  - intros a b u. apply floor_map_measure; assumption.
Qed.
Print Assumptions C16_threshold_map_conditions_on_jump.

Theorem C16_set_state_threshold :
  forall (rnd : nat -> Q) (t0 floor : Q),
    target QN (init_state QN rnd t0 false floor) = (rnd O * (1 - floor) + floor)%Q /\
    target QN (init_state QN rnd t0 true floor) = 0%Q /\
    ndraw QN (init_state QN rnd t0 false floor) = 1 /\
    ndraw QN (init_state QN rnd t0 true floor) = 0.
Proof. intros. repeat split; reflexivity. Qed.
Print Assumptions C16_set_state_threshold.

Theorem C16_improved_sampling_unbiased :
  forall p0 x0 (jumps : list (Q * Q)), (0 <= p0 < 1)%Q ->
    (p0 * x0 + wsum (map (fun px => (fst px / (1 - p0), (1 - p0) * snd px)) jumps)
     == p0 * x0 + wsum jumps)%Q /\
    (psum jumps == 1 - p0 ->
     psum (map (fun px => (fst px / (1 - p0), snd px)) jumps) == 1)%Q.
Proof.
  intros p0 x0 jumps Hp. split.
  - apply improved_sampling_unbiased; assumption.
  - apply conditional_total; assumption.
Qed.
Print Assumptions C16_improved_sampling_unbiased.

Theorem C16_trajectory_weight :
  forall (o : opts QN) floor,
    (traj_weight QN o floor = None <-> 1 - norm_tol QN o <= floor)%Q /\
    (forall w, traj_weight QN o floor = Some w -> w == 1 - floor /\ floor < 1 - norm_tol QN o)%Q /\
    (forall n : nat, 0 < n ->
       (floor + (inject_Z (Z.of_nat n) * (1 - floor)) / inject_Z (Z.of_nat n) == 1)%Q).
Proof.
  intros o floor. destruct (traj_weight_spec o floor) as (A & B).
  split; [exact A|split; [exact B|]]. intros n Hn. apply improved_weights_total; exact Hn.
Qed.
Print Assumptions C16_trajectory_weight.

Example C16_nonvacuous_weight :
  traj_weight QN (mkOpts QN 5 (1#1000) (1#10) (1#1000))%Q (1#4)%Q = Some (1 * (1 - (1#4)))%Q /\
  traj_weight QN (mkOpts QN 5 (1#1000) (1#10) (1#1000))%Q (95#100)%Q = None.
Proof. split; vm_compute; reflexivity. Qed.
