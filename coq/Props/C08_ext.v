(* C08 - property theorems for the extensions of the index model:
   Qobj.dual_chan at the index level, the Stinespring assembly entries and the
   flat Pauli basis matrix for EVERY number of qubits.  Proofs are in
   Proofs/C08_ext.v and Proofs/C08_pauli.v (stdlib only). *)
From Coq Require Import List ZArith Bool Arith Lia.
Import ListNotations.
From QV Require Import Model.C08 Proofs.C08 Model.C08_ext Proofs.C08_ext Proofs.C08_pauli
  Proofs.C08_chiflat.

(* dual_chan = to_choi(to_super(self).dag()) of a supermatrix with labels
   [[o, o], [i, i]] (any label lists, m = prod o, n = prod i, also m <> n):
   D[(p*n+x), (q*n+y)] = conj S[(q*m+p), (y*n+x)]  ( = conj J[(x,p),(y,q)] of the
   Choi matrix J of S by C08_shuffle_entries), labels [[o, i], [o, i]], tag choi *)
Theorem C08_dual_chan_entries :
  forall (S D : sobj GZ) o i p q x y,
    s_rep S = Super -> s_dims S = ((o, o), (i, i)) ->
    length (s_data S) = prodl o * prodl o * (prodl i * prodl i) ->
    dual_chan (QSuper S) = Ok D ->
    p < prodl o -> q < prodl o -> x < prodl i -> y < prodl i ->
    mget (s_data D) (prodl o * prodl i) (p * prodl i + x) (q * prodl i + y)
    = gconj (mget (s_data S) (prodl i * prodl i) (q * prodl o + p) (y * prodl i + x))
    /\ s_dims D = ((o, i), (o, i)) /\ s_rep D = Choi.
Proof. exact dual_chan_super_entries. Qed.
Print Assumptions C08_dual_chan_entries.

Example C08_nonvacuous_dual_chan :
  exists S D, s_rep S = Super /\ s_dims S = (([3], [3]), ([2], [2])) /\
    length (s_data S) = 3 * 3 * (2 * 2) /\ dual_chan (QSuper S) = Ok D /\
    s_dims D = (([3], [2]), ([3], [2])) /\
    mget (s_data D) 6 (2 * 2 + 1) (1 * 2 + 0) = gconj (mget (s_data S) 4 (1 * 3 + 2) (0 * 2 + 1)).
Proof.
  eexists (mkS (map (fun k => (Z.of_nat k, Z.of_nat (k * k))) (seq 0 36))
               (([3], [3]), ([2], [2])) Super), _.
  split; [reflexivity|]. split; [reflexivity|]. split; [reflexivity|].
  split; [vm_compute; reflexivity|]. split; reflexivity.
Qed.

(* _choi_to_stinespring: A = sum_k tensor(K_k, basis(dK, k)) has
   A[(a*dK + k), i] = K_k[a, i]  (the index of mxtens_index (a, k) in
   C08_stinespring_action), any number and shape of operators *)
Theorem C08_stinespring_block_entries :
  forall Ks dO dI a k i,
    k < length Ks -> a < dO -> i < dI ->
    mget (stinespring_block Ks dO dI) dI (a * length Ks + k) i
    = mget (o_data (nth k Ks (mkO 0 0 [] [] []))) dI a i.
Proof. exact stine_block_entries. Qed.
Print Assumptions C08_stinespring_block_entries.

(* _svd_u_to_kraus: K_k[a, i] = (U * S)[a + dO*i, k] (column stacking of a
   dO x dI operator), shape dO x dI and labels [outdims, indims], dK operators *)
Theorem C08_svd_u_to_kraus_entries :
  forall U S dO dI dK ind outd k a i,
    k < dK -> a < dO -> i < dI ->
    let K := nth k (svd_u_to_kraus U S dO dI dK ind outd) (mkO 0 0 [] [] []) in
    mget (o_data K) dI a i = gmul (mget U dK (a + dO * i) k) (nth k S g0)
    /\ o_m K = dO /\ o_n K = dI /\ o_dl K = outd /\ o_dr K = ind.
Proof. exact svd_kraus_entries. Qed.
Print Assumptions C08_svd_u_to_kraus_entries.

Example C08_nonvacuous_stinespring :
  let Ks := svd_u_to_kraus [(1,0);(0,1);(2,0);(0,0);(0,-1);(1,1);
                            (3,0);(1,0);(0,2);(0,0);(1,-1);(2,1)]%Z [(2,0);(3,0)]%Z 3 2 2 [2] [3] in
  length Ks = 2 /\
  mget (stinespring_block Ks 3 2) 2 (2 * 2 + 1) 1 = (6, 3)%Z /\
  mget (stinespring_block Ks 3 2) 2 (1 * 2 + 1) 1 = (0, 0)%Z.
Proof. vm_compute. repeat split. Qed.

(* the flat list matrix of _superpauli_basis, B[I, k] = vec(P_k)[I], satisfies
   B^dag B = B B^dag = 2^nq 1 for EVERY number of qubits (induction on the
   Kronecker structure of the executable model from the 1-qubit table) *)
Theorem C08_superpauli_flat_orthogonal_complete :
  forall nq,
    let N := 4 ^ nq in
    let B := superpauli nq in
    mmul N N N (madj N N B) B = scaled_id N (gofnat (2 ^ nq)) /\
    mmul N N N B (madj N N B) = scaled_id N (gofnat (2 ^ nq)).
Proof. intros nq. split; [apply superpauli_orthogonal|apply superpauli_complete]. Qed.
Print Assumptions C08_superpauli_flat_orthogonal_complete.

(* chi <-> Choi on the flat matrices the code multiplies, every number of
   qubits, every matrix: B (B^dag J B) B^dag = 4^nq J and
   B^dag (B C B^dag) B = 4^nq C (4^nq = shape[0], the factor _chi_to_choi
   divides out) *)
Theorem C08_chi_choi_flat_roundtrips :
  forall nq (M : list GZ) r c,
    let N := 4 ^ nq in let B := superpauli nq in
    r < N -> c < N ->
    mget (mmul N N N (mmul N N N B (mmul N N N (mmul N N N (madj N N B) M) B)) (madj N N B)) N r c
    = gmul (gofnat N) (mget M N r c) /\
    mget (mmul N N N (mmul N N N (madj N N B) (mmul N N N (mmul N N N B M) (madj N N B))) B) N r c
    = gmul (gofnat N) (mget M N r c).
Proof.
  intros nq M r c N B Hr Hc. split.
  - apply chi_flat_roundtrip_choi; assumption.
  - apply chi_flat_roundtrip_chi; assumption.
Qed.
Print Assumptions C08_chi_choi_flat_roundtrips.

(* the model's conversions: whenever _choi_to_chi succeeds on J, _chi_to_choi
   succeeds on the result and returns J (numerator = shape[0] * J), same dims
   labels, tag choi: to_choi (to_chi J) = J for every number of qubits *)
Theorem C08_to_choi_of_to_chi :
  forall J C, choi_to_chi J = Ok C ->
    exists J', chi_to_choi C = Ok (J', s_rows J) /\
      s_dims J' = s_dims J /\ s_rep J' = Choi /\
      forall r c, r < s_rows J -> c < s_rows J ->
        mget (s_data J') (s_rows J) r c = gmul (gofnat (s_rows J)) (mget (s_data J) (s_rows J) r c).
Proof. exact chi_choi_model_roundtrip. Qed.
Print Assumptions C08_to_choi_of_to_chi.

(* predicate part of C08 for the chi representation, full statement (was
   C08_istp_chi_refuted before 694129d, then C08_istp_chi_agrees_partial):
   Qobj.istp gives the same verdict on the chi matrix of a map as on its Choi
   matrix, every number of qubits, every (also non-TP, non-CP) Choi matrix *)
Theorem C08_istp_chi_agrees :
  forall J C, s_rep J = Choi -> choi_to_chi J = Ok C -> istp (QSuper C) = istp (QSuper J).
Proof. exact istp_chi_agrees. Qed.
Print Assumptions C08_istp_chi_agrees.

Example C08_nonvacuous_istp_chi :
  let J := mkS [(1,0);(0,0);(0,0);(1,0); (0,0);(0,0);(0,0);(0,0);
                (0,0);(0,0);(0,0);(0,0); (1,0);(0,0);(0,0);(1,0)]%Z (([2], [2]), ([2], [2])) Choi in
  exists C, s_rep J = Choi /\ choi_to_chi J = Ok C /\ s_rep C = Chi.
Proof. eexists. split; [reflexivity|]. split; [vm_compute; reflexivity|reflexivity]. Qed.
(* the verdicts themselves (Some true on both sides, and Some false on a non-TP
   map) are evaluated in Props/C08.v, C08_istp_chi_witnesses *)
