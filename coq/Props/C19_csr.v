(* C19 - block placement by csr._from_csr_blocks (the dense meaning of the
   assembled generator), for every number of blocks, block size and list of
   operators.  Property theorems only; proofs are in Proofs/C19_csr.v.
   The model from_csr_blocks (Model/C19.v) is tied to csr.pyx by exact
   correspondence on the raw row_index / col_index / data arrays. *)
From Coq Require Import List ZArith Bool Arith Lia.
Import ListNotations.
From QV Require Import Model.C19 Proofs.C19_csr.

(* whenever the construction succeeds: output row R*bs + r holds exactly the
   entries of row r of every operator given for block row R, in the given order,
   each with its column index shifted by (block column)*bs; operators with
   nnz = 0 contribute nothing; a block row without operator is empty.  Block
   (R, c) therefore lands at rows R*bs.., columns c*bs.. and nothing else is
   written.  (wf_ops: every operator has as many column indices as values) *)
Theorem C19_from_csr_blocks_placement :
  forall (V : Type) (ops : list (nat * nat * csr V)) (nb bs : nat) (m : csr V) (R r : nat),
    from_csr_blocks V ops nb bs = Some m -> wf_ops V ops -> R < nb -> r < bs ->
    csr_row V m (R * bs + r) =
    flat_map (fun b => block_row_entries V bs b r) (filter (fun b => brow V b =? R) ops).
Proof. exact from_csr_blocks_rows. Qed.
Print Assumptions C19_from_csr_blocks_placement.

(* error branch: operators not strictly ordered by (row, column) are refused
   (ValueError), nothing is assembled *)
Theorem C19_from_csr_blocks_unsorted_refused :
  forall (V : Type) (ops : list (nat * nat * csr V)) (nb bs : nat),
    sorted_ops V ops = false -> from_csr_blocks V ops nb bs = None.
Proof.
  intros V ops nb bs H. unfold from_csr_blocks. destruct ops; [discriminate|].
  now rewrite H.
Qed.
Print Assumptions C19_from_csr_blocks_unsorted_refused.

(* non-vacuity: three 2x2 blocks on a 2x2 block grid (block (1,0) has nnz 0);
   output row 1 (block row 0, row 1 of the blocks) holds entries of two blocks *)
Example C19_nonvacuous_from_csr_blocks :
  let A := {| ri := [0; 1; 3]; ci_ := [1; 0; 1]; dat := [5; 6; 7]%Z |} in
  let B := {| ri := [0; 0; 1]; ci_ := [0]; dat := [9]%Z |} in
  let Z0 := {| ri := [0; 0; 0]; ci_ := []; dat := [] |} in
  let ops := [(0, 0, A); (0, 1, B); (1, 0, Z0); (1, 1, A)] in
  match from_csr_blocks Z ops 2 2 with
  | Some m => wf_ops Z ops /\
              csr_row Z m (0 * 2 + 1) = [(0, 6%Z); (1, 7%Z); (2, 9%Z)] /\
              csr_row Z m (1 * 2 + 0) = [(3, 5%Z)] /\
              ri Z m = [0; 1; 4; 5; 7]
  | None => False
  end.
Proof.
  vm_compute. split; [|repeat split; reflexivity].
  intros b [<-|[<-|[<-|[<-|[]]]]]; reflexivity.
Qed.
