(* C05 - the tree theorems read on MathComp matrices of every size n over
   every commutative ring R with an involutive ring morphism conj.  MxAlg is
   the instance of Model.C05.Alg built in Proofs/C05_mx.v: its operations are
   mulmx, +, *:, trmx, map_mx conj, (map_mx conj _)^T and \tr. *)
From mathcomp Require Import all_ssreflect all_algebra.
From QV Require Import Model.C05 Proofs.C05 Proofs.C05_mx.
Import GRing.Theory.
Local Open Scope ring_scope.

(* the property, all sizes *)
Theorem C05_pointwise_all_sizes :
  forall (R : comRingType) (conj : {rmorphism R -> R}) (conjK : involutive conj)
         (n : nat) (T : TimeS (MxAlg conjK n)) (x : qx (MxAlg conjK n) T) (t : T),
    wfx (MxAlg conjK n) T x ->
    qe_call (MxAlg conjK n) T (build (MxAlg conjK n) T x) t = sem (MxAlg conjK n) T x t.
Proof. by move=> R conj conjK n T x t Hx; rewrite qe_call_V; apply: pointwise. Qed.
Print Assumptions C05_pointwise_all_sizes.

Theorem C05_matmul_data_all_sizes :
  forall (R : comRingType) (conj : {rmorphism R -> R}) (conjK : involutive conj)
         (n : nat) (T : TimeS (MxAlg conjK n)) (x : qx (MxAlg conjK n) T) (t : T) (s : 'M[R]_n),
    wfx (MxAlg conjK n) T x ->
    qe_matmul_data (MxAlg conjK n) T (build (MxAlg conjK n) T x) t s
    = Some (sem (MxAlg conjK n) T x t *m s).
Proof.
move=> R conj conjK n T x t s Hx.
by rewrite qe_matmul_data_V; [rewrite pointwise|apply: wf_build_cur].
Qed.
Print Assumptions C05_matmul_data_all_sizes.

(* A.dag()(t) = (A(t))^*t and (A @ B)(t) = A(t) *m B(t) in MathComp's own terms *)
Theorem C05_dag_and_product_on_matrices :
  forall (R : comRingType) (conj : {rmorphism R -> R}) (conjK : involutive conj)
         (n : nat) (T : TimeS (MxAlg conjK n)) (a b : list (@elem (MxAlg conjK n) T)) (t : T),
    let ev := qe_call (MxAlg conjK n) T in
    ev (qe_dag _ T a) t = (map_mx conj (ev a t))^T /\
    ev (qe_imatmul _ T a b) t = ev a t *m ev b t /\
    qe_expect _ T a t (ev b t) = \tr (ev a t *m ev b t).
Proof.
move=> R conj conjK n T a b t ev; rewrite /ev !qe_call_V; split; [|split].
- by rewrite /qe_dag V_linear_map //; apply: tr_ok_dag.
- exact: V_imatmul.
- by rewrite qe_expect_V.
Qed.
Print Assumptions C05_dag_and_product_on_matrices.
