(* C05 - time-dependent operators evaluate pointwise in time.
   Property theorems only; proofs are in Proofs/C05.v, the model in Model/C05.v.

   Quantifiers.  Every theorem below that starts with `forall (A : Alg) (T : TimeS A)`
   holds for every commutative ring with involution C, every C-module M with an
   associative bilinear product, unit, trace and the three maps trans/conj/dag
   (any matrix size, in particular), every type of times, every element /
   every list of elements / every expression tree of any depth and any mixture
   of the five term kinds.  The model mirrors qutip after commits 7dc9384 and
   c657c42; the rules before them survive only as `old_...` definitions with
   Examples recording the former witnesses on the 2x2 Gaussian-integer
   instance G2 (which also shows Alg is inhabited). *)
From Coq Require Import List ZArith Bool.
Import ListNotations.
From QV Require Import Model.C05 Proofs.C05.

(* ---- evaluation is the sum of the terms; __call__ and _call agree *)
Theorem C05_call_is_sum_of_terms :
  forall (A : Alg) (T : TimeS A) (es : list (@elem A T)) t,
    qe_call A T es t = esum A (map (fun e => value A T e t) es) /\
    qe__call A T es t = qe_call A T es t.
Proof. intros. split; [apply qe_call_V | rewrite qe_call_V; apply qe__call_V]. Qed.
Print Assumptions C05_call_is_sum_of_terms.

(* ---- term algebra (_element.pyx) *)
(* left @ right, all 25 kind combinations *)
Theorem C05_term_matmul_law :
  forall (A : Alg) (T : TimeS A) (a b : @elem A T) t,
    value A T (matmul A T a b) t = mmul A (value A T a t) (value A T b t).
Proof. exact matmul_value. Qed.
Print Assumptions C05_term_matmul_law.

(* linear_map(f, anti) for a map that is (anti)linear as its flag says *)
Theorem C05_term_linear_map_law :
  forall (A : Alg) (T : TimeS A) f anti (e : @elem A T) t,
    tr_ok A f -> tr_anti A f = anti ->
    value A T (linear_map A T f anti e) t = tr_sem A f (value A T e t).
Proof. exact linear_map_value. Qed.
Print Assumptions C05_term_linear_map_law.
Example C05_nonvacuous_linear_map :
  tr_ok G2 (@TDag G2) /\ tr_anti G2 (@TDag G2) = true /\
  value G2 ZT (linear_map G2 ZT (@TDag G2) true (@Func G2 ZT wf_fun wnone)) 2%Z <> z2.
Proof. split; [apply tr_ok_dag|split; [reflexivity|vm_compute; discriminate]]. Qed.

(* a product term stands for: its stack applied to (left value @ right value) *)
Theorem C05_product_term_meaning :
  forall (A : Alg) (T : TimeS A) (l r : @elem A T) trs cj t,
    wf A T (Prod l r trs cj) ->
    value A T (Prod l r trs cj) t =
    apply_trs A trs (mmul A (value A T l t) (value A T r t)).
Proof. exact prod_value. Qed.
Print Assumptions C05_product_term_meaning.

(* invariant: every term of every object any tree builds has
   conj flag = xor of the anti flags of its stack, recursively; hence a set
   flag implies a non-empty stack, which is what makes the
   `if not self._transform` shortcut of _ProdElement.matmul_data_t legal *)
Theorem C05_conj_flag_invariant :
  forall (A : Alg) (T : TimeS A) (x : qx A T),
    wfx A T x ->
    Forall (wf A T) (build A T x) /\
    (forall l r trs cj, wf A T (Prod l r trs cj) -> cj = true -> trs <> []).
Proof.
  intros A T x Hx. split; [apply wf_build_cur; exact Hx|].
  intros l r trs cj. apply wf_prod_flag.
Qed.
Print Assumptions C05_conj_flag_invariant.
Example C05_nonvacuous_flag : wf G2 ZT w_elem /\ exists l r trs, w_elem = Prod l r trs true.
Proof. split; [exact w_elem_wf|]. do 3 eexists. reflexivity. Qed.

(* ---- element * number *)
Theorem C05_scale_law :
  forall (A : Alg) (T : TimeS A) (e : @elem A T) z t,
    wf A T e -> value A T (scale A T z e) t = mscale A z (value A T e t).
Proof. intros. apply scale_value. assumption. Qed.
Print Assumptions C05_scale_law.
Example C05_nonvacuous_scale :
  wf G2 ZT w_elem /\ (exists l r trs, w_elem = Prod l r trs true) /\ gconj wi <> wi.
Proof.
  split; [exact w_elem_wf|]. split; [do 3 eexists; reflexivity|discriminate].
Qed.
(* the rule before 7dc9384 pushed the scalar inside an antilinear stack:
   ((f @ B).dag() * 1j)(2) was -1j * (f @ B).dag()(2); the current rule is right there *)
Example C05_old_scale_rule_witness :
  wf G2 ZT w_elem /\
  value G2 ZT (old_scale G2 ZT wi w_elem) 2%Z <> mscale G2 wi (value G2 ZT w_elem 2%Z) /\
  value G2 ZT (scale G2 ZT wi w_elem) 2%Z = mscale G2 wi (value G2 ZT w_elem 2%Z).
Proof. split; [exact w_elem_wf|exact w_elem_old_rule]. Qed.

(* ---- QobjEvo algebra on lists of terms *)
Theorem C05_sum_law :
  forall (A : Alg) (T : TimeS A) (a b : list (@elem A T)) q z t,
    qe_call A T (qe_iadd A T a b) t = madd A (qe_call A T a t) (qe_call A T b t) /\
    qe_call A T (qe_iadd_qobj A T a q) t = madd A (qe_call A T a t) q /\
    qe_call A T (qe_iadd_num A T a z) t = madd A (qe_call A T a t) (mscale A z (mI A)).
Proof.
  intros. rewrite !qe_call_V. split; [apply V_app|split; [apply V_iadd_qobj|apply V_iadd_num]].
Qed.
Print Assumptions C05_sum_law.

Theorem C05_product_law :
  forall (A : Alg) (T : TimeS A) (a b : list (@elem A T)) q t,
    qe_call A T (qe_imatmul A T a b) t = mmul A (qe_call A T a t) (qe_call A T b t) /\
    qe_call A T (qe_imatmul_qobj A T a q) t = mmul A (qe_call A T a t) q /\
    qe_call A T (qe_rmatmul_qobj A T q a) t = mmul A q (qe_call A T a t).
Proof.
  intros. rewrite !qe_call_V.
  split; [apply V_imatmul|split; [apply V_imatmul_qobj|apply V_rmatmul_qobj]].
Qed.
Print Assumptions C05_product_law.

Theorem C05_coefficient_multiple_law :
  forall (A : Alg) (T : TimeS A) (a : list (@elem A T)) c t,
    qe_call A T (qe_imul_coef A T a c) t = mscale A (ceval A T c t) (qe_call A T a t).
Proof. intros. rewrite !qe_call_V. apply V_imul_coef. Qed.
Print Assumptions C05_coefficient_multiple_law.

Theorem C05_dag_conj_trans_law :
  forall (A : Alg) (T : TimeS A) (a : list (@elem A T)) t,
    qe_call A T (qe_dag A T a) t = mdag A (qe_call A T a t) /\
    qe_call A T (qe_conj A T a) t = mconj A (qe_call A T a t) /\
    qe_call A T (qe_trans A T a) t = mtrans A (qe_call A T a t).
Proof.
  intros. rewrite !qe_call_V. unfold qe_dag, qe_conj, qe_trans.
  split; [|split]; rewrite V_linear_map;
    auto using tr_ok_dag, tr_ok_conj, tr_ok_trans.
Qed.
Print Assumptions C05_dag_conj_trans_law.

(* QobjEvo.linear_map(f) / .to(..) for any additive homogeneous f *)
Theorem C05_linear_map_law :
  forall (A : Alg) (T : TimeS A) f (a : list (@elem A T)) t,
    tr_ok A f -> tr_anti A f = false ->
    qe_call A T (qe_linear_map A T f false a) t = tr_sem A f (qe_call A T a t).
Proof. intros. rewrite !qe_call_V. apply V_linear_map; assumption. Qed.
Print Assumptions C05_linear_map_law.
Example C05_nonvacuous_linear_map_law : tr_ok G2 (@TLmul G2 wB) /\ tr_anti G2 (@TLmul G2 wB) = false.
Proof. split; [apply tr_ok_lmul|reflexivity]. Qed.

(* compress(): constant terms summed, pairs with equal operator merged *)
Theorem C05_compress_preserves_value :
  forall (A : Alg) (T : TimeS A) (es : list (@elem A T)) t,
    Forall (wf A T) es -> qe_call A T (compress A T es) t = qe_call A T es t.
Proof. intros. rewrite !qe_call_V. apply V_compress. assumption. Qed.
Example C05_nonvacuous_compress :
  Forall (wf G2 ZT) [@Evo G2 ZT wB (CInter w_l); @Evo G2 ZT wB (CInter w_l); @Evo G2 ZT wB (CInter w_r)] /\
  map (kind_of G2 ZT) (compress G2 ZT [@Evo G2 ZT wB (CInter w_l); @Evo G2 ZT wB (CInter w_l); @Evo G2 ZT wB (CInter w_r)])
  = [KEvo CKSum].
Proof.
  split; [|vm_compute; reflexivity].
  destruct w_inter_ok as [Hl Hr]. repeat constructor; assumption.
Qed.
Print Assumptions C05_compress_preserves_value.

(* ---- coefficient algebra with sampled coefficients (add_inter) *)
(* Coefficient.__add__ evaluates to the sum of its operands whichever branch
   add_inter takes (fused InterCoefficient or SumCoefficient) *)
Theorem C05_coefficient_add_pointwise :
  forall (A : Alg) (T : TimeS A) (a b : @coef A T) t,
    coef_ok A T a -> coef_ok A T b ->
    ceval A T (coef_add A T a b) t = cadd A (ceval A T a t) (ceval A T b t) /\
    coef_ok A T (coef_add A T a b).
Proof. intros. split; [apply coef_add_eval|apply coef_add_ok]; assumption. Qed.
Print Assumptions C05_coefficient_add_pointwise.
Example C05_nonvacuous_coefficient_add :
  coef_ok G2 ZT (CInter w_l) /\ coef_ok G2 ZT (CInter w_r) /\
  ckind_of G2 ZT (coef_add G2 ZT (CInter w_l) (CInter w_l)) = CKInter /\
  ckind_of G2 ZT (coef_add G2 ZT (CInter w_l) (CInter w_r)) = CKSum.
Proof.
  destruct w_inter_ok as [Hl Hr]. split; [exact Hl|split; [exact Hr|]].
  split; [exact w_fuse_same_grid|exact (proj2 w_new_guard_rejects)].
Qed.

(* the guard of add_inter (shape, np.allclose(rtol=1e-15, atol=0), order)
   lets two coefficients be fused only when their grids are equal (on
   separated times) and their orders agree; a fused coefficient is then the
   pointwise sum *)
Theorem C05_add_inter_fuses_only_equal_grids :
  forall (A : Alg) (T : TimeS A) (l r : @inter A T) t,
    inter_ok A T l -> inter_ok A T r ->
    fuse_guard_with A T (tclose A T) l r = true ->
    igrid l = igrid r /\ length (ipoly l) = length (ipoly r) /\
    ieval A T (fuse A T l r) t = cadd A (ieval A T l t) (ieval A T r t).
Proof.
  intros A T l r t Hl Hr G. destruct (guard_grid A T l r Hl Hr G) as [Hg HL].
  split; [exact Hg|split; [exact HL|]]. apply ieval_fuse; assumption.
Qed.
Print Assumptions C05_add_inter_fuses_only_equal_grids.
Example C05_nonvacuous_add_inter :
  inter_ok G2 ZT w_l /\ fuse_guard_with G2 ZT (tclose G2 ZT) w_l w_l = true.
Proof. split; [exact (proj1 w_inter_ok)|vm_compute; reflexivity]. Qed.

(* on integer ticks the repaired test |a-b| <= 1e-15 |b| does not depend on the
   unit of time, and is equality below 1e15 ticks *)
Theorem C05_add_inter_guard_scale_free :
  forall k a b, (0 < k)%Z ->
    zclose_new (k * a) (k * b) = zclose_new a b /\
    (zsep a -> zsep b -> zclose_new a b = true -> a = b).
Proof. intros k a b Hk. split; [apply zclose_new_scale_free; exact Hk|apply zclose_new_sep]. Qed.
Print Assumptions C05_add_inter_guard_scale_free.

(* the guard before commit f4e3df4 (atol = 1e-15 s, here 2^53/1e15 ticks of
   2^-53 s) fused the grids arange(5)*2^-33 s and the same stretched by
   1 + 2^-20, and the fused coefficient is not the sum of the two *)
Theorem C05_old_add_inter_guard_refuted :
  exists (l r : @inter G2 ZT) t,
    inter_ok G2 ZT l /\ inter_ok G2 ZT r /\
    fuse_guard_with G2 ZT (zclose_old w_an ten15) l r = true /\
    ceval G2 ZT (coef_add_with G2 ZT (zclose_old w_an ten15) (CInter l) (CInter r)) t
      <> gadd (ieval G2 ZT l t) (ieval G2 ZT r t) /\
    fuse_guard_with G2 ZT (tclose G2 ZT) l r = false.
Proof.
  exists w_l, w_r, 2097153%Z. destruct w_inter_ok as [Hl Hr].
  split; [exact Hl|split; [exact Hr|]].
  split; [exact (proj1 w_old_guard_not_pointwise)|].
  split; [exact (proj2 w_old_guard_not_pointwise)|exact (proj1 w_new_guard_rejects)].
Qed.
Print Assumptions C05_old_add_inter_guard_refuted.

(* ---- arguments() / replace_arguments *)
(* a coefficient with replaced arguments evaluates as the old one under the
   overriding dictionary; replacing twice is replacing with the merged dictionary *)
Theorem C05_coefficient_replace_arguments :
  forall (A : Alg) (T : TimeS A) (c : @coef A T) m n t,
    ceval A T (creplace A T n c) t = ceval_ov A T n c t /\
    creplace A T m (creplace A T n c) = creplace A T (rcomb A T n m) c.
Proof. intros. split; [apply ceval_creplace|apply creplace_creplace]. Qed.
Print Assumptions C05_coefficient_replace_arguments.

(* replace_arguments commutes with every construction of the term algebra *)
Theorem C05_replace_arguments_commutes :
  forall (A : Alg) (T : TimeS A) n (a b : @elem A T) z f anti (es : list (@elem A T)),
    ereplace A T n (scale A T z a) = scale A T z (ereplace A T n a) /\
    ereplace A T n (matmul A T a b) = matmul A T (ereplace A T n a) (ereplace A T n b) /\
    ereplace A T n (linear_map A T f anti a) = linear_map A T f anti (ereplace A T n a) /\
    qe_arguments A T n (compress A T es) = compress A T (qe_arguments A T n es) /\
    (forall m, ereplace A T m (ereplace A T n a) = ereplace A T (rcomb A T n m) a) /\
    (wf A T a -> wf A T (ereplace A T n a)).
Proof.
  intros. split; [apply ereplace_scale|]. split; [apply ereplace_matmul|].
  split; [apply ereplace_linear_map|]. split; [apply compress_rep|].
  split; [intros m; apply ereplace_ereplace|apply wf_ereplace].
Qed.
Print Assumptions C05_replace_arguments_commutes.

(* the tree theorem under any overriding dictionary: QobjEvo.arguments(n) on
   the object built from a tree evaluates to the tree's meaning with every
   leaf's args replaced by {**args, **n}; None is C05_pointwise *)
Theorem C05_pointwise_arguments :
  forall (A : Alg) (T : TimeS A) (x : qx A T) ov t,
    wfx A T x -> qe_call A T (rep A T ov (build A T x)) t = semo A T ov x t.
Proof. intros. rewrite qe_call_V. apply pointwise_ov. assumption. Qed.
Print Assumptions C05_pointwise_arguments.
Example C05_nonvacuous_arguments :
  wfx G2 ZT w_tree3 /\
  sem G2 ZT w_tree3 2%Z <> sem G2 ZT (@XArgs G2 ZT w_tree3 [(0%Z, 7%Z)]) 2%Z.
Proof. split; [exact w_tree3_wfx|exact w_tree3_depends_on_args]. Qed.

(* any history arguments(n_1); ..; arguments(n_k) on the object built from a tree
   evaluates to the tree's meaning under the combined dictionary
   {**n_1, .., **n_k}; every function leaf then holds amerge .. applied in order *)
Theorem C05_arguments_history :
  forall (A : Alg) (T : TimeS A) (x : qx A T) (hist : list (tRepl A T)) t,
    wfx A T x ->
    qe_call A T (fold_left (fun es n => qe_arguments A T n es) hist (build A T x)) t
    = semo A T (hist_ov A T hist) x t /\
    (forall (a : tArgs A T) n r, hist = n :: r ->
       fold_left (amerge A T) hist a = amerge A T a (fold_left (rcomb A T) r n)).
Proof.
  intros A T x hist t Hx. split.
  - rewrite arguments_history, qe_call_V. apply pointwise_ov. exact Hx.
  - intros a n r E. subst hist. simpl. apply amerge_fold.
Qed.
Print Assumptions C05_arguments_history.

(* dictionaries with declared parameter sets (the execution instance): after
   any history a function leaf holds, for every declared parameter (every name
   for **kw / dict style), the last value given anywhere, else the value given
   at construction; for other names nothing (so the function uses its default) *)
Theorem C05_function_sees_last_value_of_declared_parameters :
  forall (ps : option (list Z)) (a0 : dict) (hist : list dict) (k : Z),
    lookup k (snd (fold_left dmerge hist (dinit ps a0)))
    = if allowed ps k
      then match hist_last k hist with Some v => Some v | None => lookup k a0 end
      else None.
Proof.
  intros ps a0 hist k. rewrite (history_state ps hist (dinit ps a0) k eq_refl).
  unfold dinit. simpl. rewrite lookup_dfilt.
  destruct (allowed ps k); [|reflexivity]. reflexivity.
Qed.
Print Assumptions C05_function_sees_last_value_of_declared_parameters.
(* def H(t, w, phi=0): QobjEvo(H, args={w: 2}) then arguments(phi=8), arguments(k=5):
   phi is 8 although it was not given at construction, w stays 2, k is not a parameter *)
Example C05_nonvacuous_declared_parameters :
  let st := fold_left dmerge [[(1, 8)]; [(2, 5)]]%Z (dinit (Some [0; 1]%Z) [(0, 2)]%Z) in
  lookup 1%Z (snd st) = Some 8%Z /\ lookup 0%Z (snd st) = Some 2%Z /\ lookup 2%Z (snd st) = None /\
  getd st 1 0 = 8%Z.
Proof. vm_compute. repeat split. Qed.

(* ---- expression trees: the property itself, every tree, unconditionally *)
Theorem C05_pointwise :
  forall (A : Alg) (T : TimeS A) (x : qx A T) t,
    wfx A T x -> qe_call A T (build A T x) t = sem A T x t.
Proof. intros. rewrite qe_call_V. apply pointwise. assumption. Qed.
Print Assumptions C05_pointwise.
Example C05_nonvacuous_pointwise : wfx G2 ZT w_tree /\ wfx G2 ZT w_tree2.
Proof. split; [exact w_tree_wfx|exact w_tree2_wfx]. Qed.
Example C05_old_pointwise_witness :
  wfx G2 ZT w_tree /\
  qe_call G2 ZT (old_build G2 ZT w_tree) 2%Z <> sem G2 ZT w_tree 2%Z /\
  qe_call G2 ZT (build G2 ZT w_tree) 2%Z = sem G2 ZT w_tree 2%Z.
Proof. split; [exact w_tree_wfx|exact w_tree_old_rule]. Qed.

(* ---- applying to a state: matmul_data(t, s) = value(t) @ s, never raises *)
Theorem C05_matmul_data_law :
  forall (A : Alg) (T : TimeS A) (es : list (@elem A T)) t s,
    Forall (wf A T) es ->
    qe_matmul_data A T es t s = Some (mmul A (qe_call A T es t) s).
Proof. intros. rewrite qe_call_V. apply qe_matmul_data_V; assumption. Qed.
Print Assumptions C05_matmul_data_law.

Theorem C05_matmul_data_of_tree :
  forall (A : Alg) (T : TimeS A) (x : qx A T) t s,
    wfx A T x -> qe_matmul_data A T (build A T x) t s = Some (mmul A (sem A T x t) s).
Proof.
  intros A T x t s Hx. rewrite qe_matmul_data_V by (apply wf_build_cur; exact Hx).
  rewrite pointwise by exact Hx. reflexivity.
Qed.
Print Assumptions C05_matmul_data_of_tree.
(* before c657c42, (g @ (f @ B).dag()) applied to a state raised although its value was defined *)
Example C05_old_matmul_data_witness :
  wfx G2 ZT w_tree2 /\
  old_qe_matmul_data G2 ZT (build G2 ZT w_tree2) 2%Z wS = None /\
  qe_matmul_data G2 ZT (build G2 ZT w_tree2) 2%Z wS = Some (mul2 (sem G2 ZT w_tree2 2%Z) wS).
Proof. split; [exact w_tree2_wfx|exact w_tree2_old_rule]. Qed.

(* expect_data(t, state) = tr(value(t) @ state) *)
Theorem C05_expect_law :
  forall (A : Alg) (T : TimeS A) (es : list (@elem A T)) t s,
    qe_expect A T es t s = mtr A (mmul A (qe_call A T es t) s).
Proof. intros. rewrite qe_call_V. apply qe_expect_V. Qed.
Print Assumptions C05_expect_law.

(* ---- _FuncElement._previous: the memo never changes what qobj(t) returns *)
Theorem C05_func_memo_transparent :
  forall (A : Alg) (T : TimeS A) teqb (f : T -> M A) prev t,
    (forall a b, teqb a b = true -> a = b) -> memo_ok A T f prev ->
    fst (func_qobj A T teqb f prev t) = f t /\
    memo_ok A T f (snd (func_qobj A T teqb f prev t)).
Proof. intros. apply func_memo; assumption. Qed.
Print Assumptions C05_func_memo_transparent.
Example C05_nonvacuous_memo :
  memo_ok G2 ZT (wf_fun wnone) (Some (2%Z, wf_fun wnone 2%Z)) /\ (forall a b, Z.eqb a b = true -> a = b).
Proof. split; [reflexivity|intros a b H; apply Z.eqb_eq; exact H]. Qed.
