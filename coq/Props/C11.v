(* C11 - answers do not depend on the object's past use.
   Property theorems only; proofs are in Proofs/C11.v and Proofs/C11_rk.v, the
   models in Model/C11.v (qutip/solver/propagator.py, class Propagator) and
   Model/C11_rk.v (qutip/solver/integrator/explicit_rk.pyx).

   Part 1 - the propagator memo.  Quantifiers: every operator group
   (G, mul, one, inv), every evolution family U (Evolution: U a t s * U a s r =
   U a t r; a constant system is time-translation invariant and has no
   arguments), every tolerance tol >= 0, every memo size memo >= 3 (the source
   applies max(3, .)), every initial argument set, every history of queries
   (t, t_start, args) of any length - repeated, decreasing, backward, negative,
   interleaved with argument changes.  The model is the source as it is
   (old_rule = false); the backward branch of _compute as it was before commit
   3b5adfb is kept as old_rule = true only for the Example at the end, which
   documents the former defect. *)
From Coq Require Import List ZArith Bool Arith Lia Sorting.Sorted.
Import ListNotations.
From QV Require Import Model.C11 Proofs.C11.
Open Scope Z_scope.

(* numpy.searchsorted (binary search) on a strictly sorted memo returns the
   split point: everything before is < t, everything from there on is >= t *)
Theorem C11_searchsorted_split :
  forall l t, StronglySorted Z.lt l ->
    let idx := searchsorted l t in
    (idx <= length l)%nat /\
    (forall i, (i < idx)%nat -> nth i l 0 < t) /\
    (forall i, (idx <= i < length l)%nat -> t <= nth i l 0).
Proof.
  intros l t H idx. unfold idx. rewrite (searchsorted_lsearch l t H).
  split; [apply lsearch_le|]. split; [apply lsearch_nth_lt|apply lsearch_nth_ge; exact H].
Qed.
Print Assumptions C11_searchsorted_split.

(* Invariant after ANY history: the memo is strictly sorted, has between 1 and
   memoize entries, every stored propagator is the evolution from 0 to its
   time under the arguments in force, the live integrator holds the evolution
   from 0 to its own time, and the solver was only ever asked to step forward
   in time. *)
Theorem C11_propagator_memo_invariant :
  forall G A A_eqb mul one inv U cte tol memo,
    @Evolution G A A_eqb mul one inv U cte -> 0 <= tol -> (3 <= memo)%nat ->
  forall a0 qs,
    let s := snd (run G A A_eqb mul one inv U cte tol memo false (init G A one a0 None) qs) in
    StronglySorted Z.lt (times s) /\
    (1 <= length (times s) <= memo)%nat /\
    Forall2 (fun t u => u = U (sargs s) t 0) (times s) (props s) /\
    lU s = U (sargs s) (lt s) 0 /\
    (forall t r, U (sargs s) t r = U (final_args A a0 qs) t r) /\
    Forall (fun p => fst p <= snd p) (steps s).
Proof.
  intros G A A_eqb mul one inv U cte tol memo E Ht Hm a0 qs s.
  destruct (run G A A_eqb mul one inv U cte tol memo false (init G A one a0 None) qs)
    as [us s'] eqn:ER.
  destruct (history_spec G A A_eqb mul one inv U cte tol memo E Ht Hm a0 qs us s' ER)
    as ([H1 H2 H3 H4 _ H7] & HU & _).
  unfold s. simpl. repeat split; try assumption; try lia.
Qed.
Print Assumptions C11_propagator_memo_invariant.

(* Every answer of every history is the exact evolution between times within
   tol of the requested (t, t_start), under the arguments in force at that
   query. *)
Theorem C11_propagator_answers :
  forall G A A_eqb mul one inv U cte tol memo,
    @Evolution G A A_eqb mul one inv U cte -> 0 <= tol -> (3 <= memo)%nat ->
  forall a0 qs,
    answers_ok G A U tol a0 qs
      (fst (run G A A_eqb mul one inv U cte tol memo false (init G A one a0 None) qs)).
Proof.
  intros G A A_eqb mul one inv U cte tol memo E Ht Hm a0 qs.
  destruct (run G A A_eqb mul one inv U cte tol memo false (init G A one a0 None) qs)
    as [us s'] eqn:ER.
  exact (proj2 (proj2 (history_spec G A A_eqb mul one inv U cte tol memo E Ht Hm a0 qs us s' ER))).
Qed.
Print Assumptions C11_propagator_answers.

(* tol = 0: answer k = U (args at k) t_k t_start_k exactly, whatever came
   before - in any order, including backward and negative queries *)
Theorem C11_propagator_answers_exact :
  forall G A A_eqb mul one inv U cte memo,
    @Evolution G A A_eqb mul one inv U cte -> (3 <= memo)%nat ->
  forall a0 qs,
    answers_exact U a0 qs
      (fst (run G A A_eqb mul one inv U cte 0 memo false (init G A one a0 None) qs)).
Proof.
  intros G A A_eqb mul one inv U cte memo E Hm a0 qs.
  apply answers_ok_exact.
  exact (C11_propagator_answers G A A_eqb mul one inv U cte 0 memo E ltac:(lia) Hm a0 qs).
Qed.
Print Assumptions C11_propagator_answers_exact.

(* after any history, P(t2,t1) P(t1,t0) = P(t2,t0) *)
Theorem C11_propagator_composition :
  forall G A A_eqb mul one inv U cte memo,
    @Evolution G A A_eqb mul one inv U cte -> (3 <= memo)%nat ->
  forall a0 qs t2 t1 t0,
    let call := call G A A_eqb mul one inv U cte 0 memo false in
    let s := snd (run G A A_eqb mul one inv U cte 0 memo false (init G A one a0 None) qs) in
    let '(u21, s1) := call s t2 t1 None in
    let '(u10, s2) := call s1 t1 t0 None in
    let '(u20, _) := call s2 t2 t0 None in
    mul u21 u10 = u20.
Proof. intros. apply composition; assumption. Qed.
Print Assumptions C11_propagator_composition.

(* after any history the object answers like a fresh one built with the
   arguments now in force *)
Theorem C11_propagator_fresh_equivalent :
  forall G A A_eqb mul one inv U cte memo,
    @Evolution G A A_eqb mul one inv U cte -> (3 <= memo)%nat ->
  forall a0 qs t ts a,
    let call := call G A A_eqb mul one inv U cte 0 memo false in
    let s := snd (run G A A_eqb mul one inv U cte 0 memo false (init G A one a0 None) qs) in
    fst (call s t ts a)
    = fst (call (init G A one (cur_args A (final_args A a0 qs) a) None) t ts None).
Proof. intros. apply fresh_equiv; assumption. Qed.
Print Assumptions C11_propagator_fresh_equivalent.

(* non-vacuity: the hypotheses are met by the executable instance (both a
   constant and a time-dependent system), and a history with repeated,
   decreasing, backward and negative queries, an argument change and
   evictions (memoize = 3) is answered exactly *)
Example C11_nonvacuous_evolution :
  Evolution Z.eqb hmul hone hinv (hU true) true /\
  Evolution Z.eqb hmul hone hinv (hU false) false.
Proof. split; apply H3_evolution. Qed.

Example C11_nonvacuous_history :
  let qs := [(5, 0, None); (-1, 0, None); (1, 0, None); (-2, 0, None); (5, 2, None);
             (7, 0, Some 3); (1, 0, None); (4, 4, None); (-3, 3, None); (2, 0, None)] in
  fst (run H3 Z Z.eqb hmul hone hinv (hU false) false 0 3 false (init H3 Z hone 1 None) qs)
  = [hU false 1 5 0; hU false 1 (-1) 0; hU false 1 1 0; hU false 1 (-2) 0; hU false 1 5 2;
     hU false 3 7 0; hU false 3 1 0; hU false 3 4 4; hU false 3 (-3) 3; hU false 3 2 0].
Proof. vm_compute. reflexivity. Qed.

(* Documentation of the former defect (before commit 3b5adfb the backward
   branch returned inv(U(times[0], t)) and left the solver at
   (times[0], U(times[0], t))): under the old rule P(-1); P(1) answered
   U(1,-1) and P(-1); P(-2) answered U(-2,-1); the current rule answers both
   exactly. *)
Example C11_old_backward_rule_witness :
  nth 1 (h3_run true false [(-1, 0, None); (1, 0, None)]) hone = hU false 1 1 (-1) /\
  nth 1 (h3_run true false [(-1, 0, None); (-2, 0, None)]) hone = hU false 1 (-2) (-1) /\
  nth 1 (h3_run false false [(-1, 0, None); (1, 0, None)]) hone = hU false 1 1 0 /\
  nth 1 (h3_run false false [(-1, 0, None); (-2, 0, None)]) hone = hU false 1 (-2) 0.
Proof. vm_compute. repeat split. Qed.

(* ======================================================================
   Part 2 - Explicit_RungeKutta (explicit_rk.pyx): work buffers and
   dense-output window.  Model in Model/C11_rk.v; the step-size control is an
   oracle (stream of new window fronts, each not earlier than the previous
   front).  Quantifiers: every number of stages, adaptive or not, tableau with
   or without dense-output coefficients, option interpolate on or off, every
   prior state of the object, every history of set_initial_value /
   integrate(t, step) calls.  The model is the source as it is
   (old_rule = false).
   ====================================================================== *)
From QV Require Import Model.C11_rk Proofs.C11_rk.

(* set_initial_value never raises and erases the past: whatever two objects
   did before, they answer every later history of calls identically
   (raised?, status, t, t_prev, t_front after every call). *)
Theorem C11_rk_history_independent :
  forall nstage adaptive dense interp_opt s1 s2 shp t ops,
    snd (set_initial_value nstage adaptive false s1 shp t) = false /\
    trace nstage adaptive dense interp_opt false
          (fst (set_initial_value nstage adaptive false s1 shp t)) ops
    = trace nstage adaptive dense interp_opt false
            (fst (set_initial_value nstage adaptive false s2 shp t)) ops.
Proof.
  intros. split.
  - exact (proj1 (proj2 (siv_independent nstage adaptive s1 s2 shp t))).
  - apply rk_history_independent.
Qed.
Print Assumptions C11_rk_history_independent.

(* Window invariant: after any history of calls that did not raise and did
   not exhaust the work budget, t_prev <= t <= t_front and - for every tableau
   with dense-output coefficients (vern7, vern9: all that the solvers use),
   with the option interpolate on or off - the reported state is the state for
   time t. *)
Theorem C11_rk_window_invariant :
  forall nstage adaptive dense interp_opt ops,
    good_run nstage adaptive dense interp_opt false rk_new ops ->
    let s := final nstage adaptive dense interp_opt false rk_new ops in
    r_init s = true -> r_prev s <= r_t s <= r_front s /\
                       (dense = true -> r_ytag s = r_t s).
Proof.
  intros nstage adaptive dense interp_opt ops HG s.
  exact (run_window nstage adaptive dense interp_opt false ops rk_new (rk_new_W dense) HG).
Qed.
Print Assumptions C11_rk_window_invariant.

(* integrate(t) (step = False) on an initialised object either reports a
   negative status or ends exactly at the requested time; the window only
   moves forward *)
Theorem C11_rk_integrate_reaches_target :
  forall nstage dense interp_opt s t fronts s',
    W dense s -> r_init s = true -> increasing (r_front s) fronts ->
    integrate nstage dense interp_opt s t false fronts = (s', false) ->
    0 <= r_status s' -> r_t s' = t /\ r_prev s' <= t <= r_front s'.
Proof.
  intros nstage dense interp_opt s t fronts s' HW Hi Hinc H Hst.
  destruct (integrate_window nstage dense interp_opt s t false fronts s' HW Hinc H
              ltac:(unfold TOO_MUCH_WORK; lia)) as (HW' & Hi' & Ht).
  specialize (Ht Hi Hst eq_refl). split; [exact Ht|].
  destruct (HW' ltac:(congruence)) as [A _]. lia.
Qed.
Print Assumptions C11_rk_integrate_reaches_target.

Example C11_rk_nonvacuous :
  let ops := [OSet (3, 3) 0; OInt 5 false [3; 6]; OInt 4 false []; OInt 9 true [8];
              OInt 2 false []; OSet (3, 1) 1; OInt 2 true [4]] in
  good_run 10 true true false false rk_new ops /\
  trace 10 true true false false rk_new ops
  = [(false, 0, 0, 0, 0); (false, 1, 5, 3, 6); (false, 1, 4, 3, 6); (false, 2, 6, 3, 6);
     (false, -3, 6, 3, 6); (false, 0, 1, 1, 1); (false, 1, 2, 1, 4)] /\
  let s := final 10 true true false false rk_new [OSet (3, 1) 0; OInt 10 false [4; 10]; OInt 8 false []] in
  r_t s = 8 /\ r_ytag s = 8.
Proof. split; [vm_compute; repeat split; discriminate|]. split; vm_compute; auto. Qed.

(* Documentation of the former defects.  (a) Before commit abf9216
   set_initial_value only appended to self.k: an object first used for a 3x3
   state raised when given a 3x1 state.  (b) Before commit f48d557
   denseout_order was initialised only with interpolate on; the model of that
   rule is what `dense = false` still describes for a tableau WITHOUT
   dense-output coefficients (rk4, euler - used by no solver): a target inside
   the window reports time t with the state of t_prev. *)
Example C11_old_rk_rules_witness :
  (snd (set_initial_value 10 true true rk_new (3, 1) 0) = false /\
   snd (set_initial_value 10 true true
          (fst (set_initial_value 10 true true rk_new (3, 3) 0)) (3, 1) 0) = true /\
   snd (set_initial_value 10 true false
          (fst (set_initial_value 10 true false rk_new (3, 3) 0)) (3, 1) 0) = false) /\
  (let s := final 4 false false false false rk_new
                  [OSet (3, 1) 0; OInt 10 false [10]; OInt 8 false []] in
   r_status s = INTERPOLATED /\ r_t s = 8 /\ r_ytag s = 0).
Proof. vm_compute. repeat split. Qed.

(* ======================================================================
   Part 3 - IntegratorKrylov (krylov.py): the validity range `_max_step` of a
   Krylov subspace and its two markers (-inf "not computed", +inf "happy
   breakdown").  Model in Model/C11_krylov.v; Lanczos size, step bound and
   propagation inside the subspace are oracles (ldim, bnd, ev).
   Quantifiers: every krylov_dim, system size, nsteps, both settings of
   always_compute_step, every random ket drawn by _prepare, every history of
   set_state / integrate calls with any states and times.
   ====================================================================== *)
From QV Require Import Model.C11_krylov Proofs.C11_krylov.

(* After any history: once a state is set the "not computed" marker is gone;
   +inf is in force only if the CURRENT state broke down (a bound left behind
   by an earlier, special state is never kept for a generic one); a finite
   bound is the value computed for a recorded state, which is the current
   state when always_compute_step is on. *)
Theorem C11_krylov_bound_belongs_to_state :
  forall St kdim N ldim bnd ev always nsteps rand ops,
    let s := krun St kdim N ldim bnd ev always nsteps
                  (prepare St kdim N ldim bnd always rand) ops in
    (forall v, k_max s = Fin v -> exists y, k_src s = Some y /\ v = bnd y) /\
    (k_isset s = true ->
     exists x, k_cur s = Some x /\ k_max s <> NegInf /\
               (k_max s = PosInf -> brk_set St kdim N ldim x = true) /\
               (always = true -> forall v, k_max s = Fin v -> k_src s = Some x)).
Proof.
  intros St kdim N ldim bnd ev always nsteps rand ops s.
  destruct (krun_good St kdim N ldim bnd ev always nsteps ops _
              (prepare_good St kdim N ldim bnd always rand)) as [(HP & _ & HS & _) _].
  split; [exact HP|exact HS].
Qed.
Print Assumptions C11_krylov_bound_belongs_to_state.

(* Every propagation inside a Krylov subspace, in every history, stays inside
   the validity range in force (dt <= _max_step, never with the -inf marker),
   and no call hands out a NaN state. *)
Theorem C11_krylov_validity_range_respected :
  forall St kdim N ldim bnd ev always nsteps rand ops,
    let s0 := prepare St kdim N ldim bnd always rand in
    Forall (fun p => within (fst p) (snd p))
           (k_uses (krun St kdim N ldim bnd ev always nsteps s0 ops)) /\
    Forall (fun r => r <> RGarbage)
           (kresults St kdim N ldim bnd ev always nsteps s0 ops).
Proof.
  intros St kdim N ldim bnd ev always nsteps rand ops s0.
  destruct (krun_good St kdim N ldim bnd ev always nsteps ops _
              (prepare_good St kdim N ldim bnd always rand)) as [(_ & HU & _) HR].
  split; [exact HU|exact HR].
Qed.
Print Assumptions C11_krylov_validity_range_respected.

(* The state handed out for time t depends only on the state and time last
   set, not on the bound history of the object (how many hops, which bounds):
   it is the propagation of the set state over t - t0, or the nsteps error. *)
Theorem C11_krylov_answer_independent_of_history :
  forall St kdim N ldim bnd (ev : St -> Z -> St) always nsteps,
    (forall x a b, ev (ev x a) b = ev x (a + b)) ->
  forall rand ops t0 x t,
    let s := set_state St kdim N ldim bnd always
               (krun St kdim N ldim bnd ev always nsteps
                     (prepare St kdim N ldim bnd always rand) ops) t0 x in
    snd (integrate St kdim N ldim bnd ev always nsteps s t) = RRaise \/
    snd (integrate St kdim N ldim bnd ev always nsteps s t) = ROk t (ev x (t - t0)).
Proof.
  intros St kdim N ldim bnd ev always nsteps Hadd rand ops t0 x t s.
  destruct (krun_good St kdim N ldim bnd ev always nsteps ops _
              (prepare_good St kdim N ldim bnd always rand)) as [HG _].
  destruct (set_state_good St kdim N ldim bnd always _ t0 x HG) as (HG1 & _ & Hc & Ht).
  pose proof (integrate_answer St kdim N ldim bnd ev always nsteps Hadd s t x HG1 Hc) as H.
  unfold s in H at 3. rewrite Ht in H. exact H.
Qed.
Print Assumptions C11_krylov_answer_independent_of_history.

(* non-vacuity (and the scenario of the seeded change C11_1): krylov_dim 3 in
   a 10-dimensional system; the object is first given a state that breaks
   down (bound +inf), then a generic state: the bound is recomputed from the
   generic state, and a long integration proceeds in hops of that bound. *)
Example C11_krylov_nonvacuous :
  let special : ost := [(2%nat, 1)] in
  let generic : ost := [(4%nat, 5); (4%nat, 7); (4%nat, 7); (4%nat, 7)] in
  let s0 := prepare ost 3 10 o_ldim o_bnd false [(4%nat, 9)] in
  ktrace 3 10 false 100 s0 [KSet 0 special; KInt 40; KSet 0 generic; KInt 12; KInt 13]
  = [(0, 0, PosInf, true, 1%nat); (0, 0, PosInf, true, 1%nat);
     (0, 0, Fin 5, true, 2%nat); (0, 10, Fin 5, true, 2%nat); (0, 10, Fin 5, true, 2%nat)] /\
  k_uses (krun ost 3 10 o_ldim o_bnd o_ev false 100 s0
               [KSet 0 special; KInt 40; KSet 0 generic; KInt 12; KInt 13])
  = [(3, Fin 5); (2, Fin 5); (5, Fin 5); (5, Fin 5); (40, PosInf)].
Proof. vm_compute. split; reflexivity. Qed.

(* ======================================================================
   Part 4 - IntegratorScipyAdams / IntegratorScipyBDF (scipy_integrator.py):
   the dense-output window (_back, _front) kept by mcstep around SciPy's
   zvode.  Model in Model/C11_zvode.v; zvode enters by its documented contract
   and an oracle for the internal time reached by a step.
   Quantifiers: every history of set_state / mcstep calls with any times
   (forward, back inside the window, behind it, repeated), every admissible
   oracle stream.
   ====================================================================== *)
From QV Require Import Model.C11_zvode Proofs.C11_zvode.

(* After any history: _back <= ode.t <= _front, and the window qutip keeps IS
   zvode's interpolation range [tcur - hu, tcur]; every zvode call issued by
   mcstep respected zvode's input contract (interpolation targets not more
   than one step behind tcur; a step is only taken from tcur itself), so the
   "illegal input" failure of zvode cannot be produced by any order of calls. *)
Theorem C11_zvode_window_is_interpolation_range :
  forall ops, z_oracle_ok z_new ops ->
    let s := z_run z_new ops in
    (z_isset s = true ->
     z_back s <= z_t s <= z_front s /\ z_front s = z_tcur s /\
     z_back s = z_tcur s - z_hu s /\ 0 <= z_hu s) /\
    z_contract z_new ops = true.
Proof. intros ops HO s. exact (z_run_spec ops z_new z_new_inv HO). Qed.
Print Assumptions C11_zvode_window_is_interpolation_range.

(* One call from any reachable state: a target inside the window is answered
   at exactly that time; any answer lies between _back and the target; the
   only error is a target behind the window (or no state set), which leaves
   the object unchanged; the window never moves backward and always still
   contains the time at which the call started (so every time between the
   start of the last call and now stays reachable, as Integrator.mcstep
   promises). *)
Theorem C11_zvode_mcstep_answer :
  forall s t f, ZInv s ->
    (z_isset s = true -> z_front s < t -> z_front s <= z_t s -> z_tcur s < f <= t) ->
    let '(s1, (raised, tout, ok)) := z_mcstep s t f in
    ZInv s1 /\ ok = true /\ z_isset s1 = z_isset s /\
    (raised = false -> tout = z_t s1 /\ z_back s <= tout <= t \/ tout = z_t s /\ z_t s = t) /\
    (raised = false -> z_back s <= t <= z_front s -> tout = t) /\
    (raised = true -> s1 = s /\ (z_isset s = false \/ t < z_back s)) /\
    z_front s <= z_front s1 /\
    (z_isset s = true -> z_back s1 <= z_t s <= z_front s1).
Proof. exact z_mcstep_spec. Qed.
Print Assumptions C11_zvode_mcstep_answer.

(* set_state erases the past: whatever two objects did before, every later
   history of calls is answered identically *)
Theorem C11_zvode_set_state_forgets :
  forall s1 s2 t ops, z_trace (z_set_state s1 t) ops = z_trace (z_set_state s2 t) ops.
Proof. exact z_set_forgets. Qed.
Print Assumptions C11_zvode_set_state_forgets.

Example C11_zvode_nonvacuous :
  let ops := [ZSet 0; ZMc 10 4; ZMc 2 0; ZMc 3 0; ZMc 10 0; ZMc 10 9; ZMc 1 0; ZMc 5 0] in
  z_oracle_ok z_new ops /\
  z_trace z_new ops
  = [(false, 0, (true, 0, 0, 0, 0)); (false, 4, (true, 0, 4, 4, 4));
     (false, 2, (true, 0, 4, 2, 4)); (false, 3, (true, 0, 4, 3, 4));
     (false, 4, (true, 0, 4, 4, 4)); (false, 9, (true, 4, 9, 9, 9));
     (true, 9, (true, 4, 9, 9, 9)); (false, 5, (true, 4, 9, 5, 9))].
Proof. split; [simpl; repeat split; intros; lia|vm_compute; reflexivity]. Qed.

(* ======================================================================
   Part 5 - Solver (solver_base.py): run / start / step / _argument, the
   `options` setter, item assignment on the options object and
   _apply_options, over the Integrator base-class contract.  Model in
   Model/C11_solver.v.  Quantifiers: every set of solver-level and integrator
   option keys and defaults, every set of registered methods, every flow
   (an integrator depends only on its own options: flow_ext), every
   history of option-dictionary assignments, item assignments, start, step
   (with or without args) and run (with or without args).
   ====================================================================== *)
From QV Require Import Model.C11_solver Proofs.C11_solver.

(* `solver.options = d`: nothing given is dropped and nothing else changes.
   Every key of d ends with the value given (None = default); a key not in d
   keeps its value, except that on a method change the integrator options not
   given fall back to the NEW integrator's defaults.  (The defect fixed by
   dc6ae06 - values equal to the old integrator's ones were dropped - is the
   failure of exactly this statement.) *)
Theorem C11_solver_options_nothing_dropped :
  forall X A skey sdflt supports dflt valid_m nkeys,
    skey 0%nat = true ->
  forall (s s' : solv X A) d, NoDup (map fst d) ->
    set_options X A skey sdflt supports dflt valid_m nkeys s d = (s', Ok) ->
    meth sdflt (v_o s') = Z.to_nat (d_method skey sdflt dflt (v_o s) d) /\
    forall k, look skey sdflt dflt (v_o s') k = spec_look skey sdflt dflt (v_o s) d k.
Proof.
  intros X A skey sdflt supports dflt valid_m nkeys. intros.
  eapply (set_options_spec X A skey sdflt supports dflt valid_m nkeys); eassumption.
Qed.
Print Assumptions C11_solver_options_nothing_dropped.

(* `solver.options[k] = v`: the key gets the value, every other key keeps its
   own; assigning another method drops the old integrator's options (as the
   source documents); and the integrator object agrees with the options
   object afterwards. *)
Theorem C11_solver_item_assignment :
  forall X A skey sdflt supports dflt valid_m nkeys,
    skey 0%nat = true ->
  forall (s s' : solv X A) k v,
    set_item X A skey sdflt supports dflt valid_m nkeys s k v = (s', Ok) ->
    Coh X A skey sdflt supports dflt s ->
    Coh X A skey sdflt supports dflt s' /\
    forall j, look skey sdflt dflt (v_o s') j = item_look skey sdflt dflt (v_o s) k v j.
Proof.
  intros X A skey sdflt supports dflt valid_m nkeys. intros.
  eapply (set_item_spec X A skey sdflt supports dflt valid_m nkeys); eassumption.
Qed.
Print Assumptions C11_solver_item_assignment.

(* After construction and ANY admissible history, the integrator object in use
   is of the class named by options["method"] and holds, for every option it
   supports, the value the options object holds: no option change is lost
   between the solver and its integrator (changes that need a new integrator
   rebuild it, the others re-prepare it). *)
Theorem C11_solver_integrator_coherent :
  forall X A skey sdflt supports dflt valid_m nkeys flow,
    skey 0%nat = true -> valid_m (sdflt 0%nat) = true ->
  forall a0 d s ops,
    init X A skey sdflt supports dflt valid_m nkeys a0 d = (s, Ok) ->
    Forall (good_sop X A valid_m) ops ->
    let s' := srun X A skey sdflt supports dflt valid_m nkeys flow s ops in
    g_m (v_int s') = meth sdflt (v_o s') /\
    forall k, supports (g_m (v_int s')) k = true ->
              look skey sdflt dflt (g_o (v_int s')) k = look skey sdflt dflt (v_o s') k.
Proof.
  intros X A skey sdflt supports dflt valid_m nkeys flow H0 H2 a0 d s ops Hi Hg s'.
  exact (srun_coh X A skey sdflt supports dflt valid_m nkeys flow H0 H2 ops s Hg
           (init_coh X A skey sdflt supports dflt valid_m nkeys a0 d s Hi)).
Qed.
Print Assumptions C11_solver_integrator_coherent.

(* What a step asks of the integrator, from any coherent state: the evolution
   by the method named in the options, with the option values of the options
   object, under the arguments last given (args of this call, else those in
   force), from the position (t, x) the integrator stands at - i.e. what a new
   solver built with these values and started at (t, x) is asked. *)
Theorem C11_solver_step_request :
  forall X A skey sdflt supports dflt flow,
    (forall m f g a t t' x, (forall k, supports m k = true -> f k = g k) ->
                            flow m f a t t' x = flow m g a t t' x) ->
  forall (s : solv X A) t a x,
    Coh X A skey sdflt supports dflt s ->
    g_set (v_int s) = true -> g_x (v_int s) = Some x ->
    let x' := flow (meth sdflt (v_o s)) (look skey sdflt dflt (v_o s))
                   (cur_a A (v_args s) a) (g_t (v_int s)) t x in
    let r := step X A skey sdflt dflt flow s t a in
    snd r = Some x' /\ g_set (v_int (fst r)) = true /\ g_t (v_int (fst r)) = t /\
    g_x (v_int (fst r)) = Some x' /\ v_args (fst r) = cur_a A (v_args s) a.
Proof. intros. eapply step_answer; eassumption. Qed.
Print Assumptions C11_solver_step_request.

(* Option changes of either kind (accepted or refused) keep the position
   (is_set, t, state) of the evolution and the arguments: a step afterwards
   continues from where the solver stood. *)
Theorem C11_solver_option_changes_keep_position :
  forall X A skey sdflt supports dflt valid_m nkeys flow (s : solv X A) o,
    (exists d, o = SOpts d) \/ (exists k v, o = SItem k v) ->
    let s' := fst (do_sop X A skey sdflt supports dflt valid_m nkeys flow s o) in
    pos X A s' = pos X A s /\ v_args s' = v_args s.
Proof.
  intros X A skey sdflt supports dflt valid_m nkeys flow s o H.
  exact (options_keep_position X A skey sdflt supports dflt valid_m nkeys flow s o H).
Qed.
Print Assumptions C11_solver_option_changes_keep_position.

(* run leaves the integrator at the last time and state it produced, with the
   arguments it was given: as the docstring of Solver.step says, a step after
   run continues from run's end (not from an earlier start). *)
Theorem C11_solver_step_continues_after_run :
  forall X A skey sdflt dflt flow (s : solv X A) x0 t0 tl a,
    let r := run X A skey sdflt dflt flow s x0 t0 tl a in
    length (snd r) = S (length tl) /\
    pos X A (fst r) = (true, last tl t0, Some (last (snd r) x0)) /\
    v_args (fst r) = cur_a A (v_args s) a.
Proof. intros. apply run_position. Qed.
Print Assumptions C11_solver_step_continues_after_run.

(* non-vacuity: the executable instance meets the hypotheses; the history
   contains the dc6ae06 scenario (method change with a value equal to the old
   integrator's current one: atol stays 10, not the default 8), an item
   assignment, a refused dictionary, run and step with arguments *)
Example C11_solver_nonvacuous :
  (x_skey 0 = true /\ x_valid (x_sdflt 0) = true /\
   (forall m f g a t t' x, (forall k, x_supports m k = true -> f k = g k) ->
                           x_flow m f a t t' x = x_flow m g a t t' x)) /\
  let ops := [SStart 5 0; SStep 1 None; SOpts [(0%nat, Some 2); (3%nat, Some 10)];
              SStep 2 (Some 2); SOpts [(7%nat, Some 1)]; SRun 7 0 [1; 2] (Some 3);
              SStep 4 None; SItem 6 (Some 3); SStep 5 None] in
  Forall (good_sop Z Z x_valid) ops /\
  map (fun r => nth 3 (snd r) 0)
      (x_trace (fst (x_init 1 [(0%nat, Some 1); (3%nat, Some 10)])) ops)
  = [10; 10; 10; 10; 10; 10; 10; 10; 10] /\
  map (fun r => fst (fst (fst r)))
      (x_trace (fst (x_init 1 [(0%nat, Some 1); (3%nat, Some 10)])) ops)
  = [false; false; false; false; true; false; false; false; false].
Proof.
  split; [split; [reflexivity|split; [reflexivity|exact x_flow_ext]]|].
  intros ops. split.
  - unfold ops. repeat constructor; simpl; try tauto;
      try (intros [H|H]; [discriminate H|exact H]).
  - vm_compute. split; reflexivity.
Qed.

(* Two solver objects that hold the same option values, the same arguments
   and stand at the same position answer EVERY admissible later history
   (option dictionaries, item assignments, start, step, run, with or without
   args) identically - whatever each of them did before, whatever identity
   their integrator objects have. *)
Theorem C11_solver_equal_values_equal_answers :
  forall X A skey sdflt supports dflt valid_m nkeys flow,
    skey 0%nat = true ->
    (forall m f g a t t' x, (forall k, supports m k = true -> f k = g k) ->
                            flow m f a t t' x = flow m g a t t' x) ->
    valid_m (sdflt 0%nat) = true ->
  forall ops (s1 s2 : solv X A),
    Forall (good_sop X A valid_m) ops ->
    Equiv X A skey sdflt supports dflt s1 s2 ->
    sanswers X A skey sdflt supports dflt valid_m nkeys flow s1 ops
    = sanswers X A skey sdflt supports dflt valid_m nkeys flow s2 ops.
Proof. exact sanswers_equiv. Qed.
Print Assumptions C11_solver_equal_values_equal_answers.

(* The C11 statement for solver objects: after ANY admissible history, the
   object answers every later history exactly like a NEW solver constructed
   with the option values and arguments now in force and started at the
   position the object stands at. *)
Theorem C11_solver_fresh_solver_equivalent :
  forall X A skey sdflt supports dflt valid_m nkeys flow,
    skey 0%nat = true ->
    (forall m f g a t t' x, (forall k, supports m k = true -> f k = g k) ->
                            flow m f a t t' x = flow m g a t t' x) ->
    valid_m (sdflt 0%nat) = true ->
  forall a0 d s0 hist df sf t x later,
    init X A skey sdflt supports dflt valid_m nkeys a0 d = (s0, Ok) ->
    Forall (good_sop X A valid_m) hist ->
    let s := srun X A skey sdflt supports dflt valid_m nkeys flow s0 hist in
    (* the new solver: built with the values in force, started where s stands *)
    init X A skey sdflt supports dflt valid_m nkeys (v_args s) df = (sf, Ok) ->
    (forall k, look skey sdflt dflt (v_o sf) k = look skey sdflt dflt (v_o s) k) ->
    pos X A s = (true, t, Some x) ->
    Forall (good_sop X A valid_m) later ->
    sanswers X A skey sdflt supports dflt valid_m nkeys flow s later
    = sanswers X A skey sdflt supports dflt valid_m nkeys flow
               (start X A sf x t) later.
Proof.
  intros X A skey sdflt supports dflt valid_m nkeys flow H0 Hf Hv
         a0 d s0 hist df sf t x later Hi Hh s Hif Hl Hp Hg.
  apply (sanswers_equiv X A skey sdflt supports dflt valid_m nkeys flow H0 Hf Hv later); [exact Hg|].
  assert (Cs : Coh X A skey sdflt supports dflt s).
  { apply (srun_coh X A skey sdflt supports dflt valid_m nkeys flow H0 Hv hist s0 Hh).
    exact (init_coh X A skey sdflt supports dflt valid_m nkeys a0 d s0 Hi). }
  assert (Cf : Coh X A skey sdflt supports dflt (start X A sf x t)).
  { apply (same_cfg_coh X A skey sdflt supports dflt sf); [apply i_set_cfg|].
    exact (init_coh X A skey sdflt supports dflt valid_m nkeys (v_args s) df sf Hif). }
  split; [exact Cs|]. split; [exact Cf|]. split; [intros k; symmetry; apply Hl|].
  assert (Ha : v_args sf = v_args s).
  { unfold init in Hif. destruct (negb (valid_m _)); [discriminate|].
    destruct (existsb _ df); [discriminate|]. injection Hif as <-. reflexivity. }
  split; [simpl; symmetry; exact Ha|]. rewrite Hp. reflexivity.
Qed.
Print Assumptions C11_solver_fresh_solver_equivalent.

(* non-vacuity: a used object (method changed twice, item assignment,
   arguments changed by run and by step) against a new one built with the final
   dictionary and arguments and started at the same position: same answers *)
Example C11_solver_fresh_nonvacuous :
  let hist := [SStart 5 0; SStep 1 (Some 2); SOpts [(0%nat, Some 3); (4%nat, Some 7)];
               SRun 7 0 [1; 2] (Some 3); SItem 7 (Some 1); SOpts [(0%nat, Some 1); (3%nat, Some 10)];
               SStep 4 None] in
  let later := [SStep 6 None; SOpts [(5%nat, Some 1000)]; SStep 7 (Some 1);
                SRun 9 7 [8; 9] None; SStep 11 None] in
  let s := srun Z Z x_skey x_sdflt x_supports x_dflt x_valid 8 x_flow
                (fst (x_init 1 [(0%nat, Some 1)])) hist in
  let sf := start Z Z (fst (x_init 3 [(0%nat, Some 1); (3%nat, Some 10)])) 
                  (match g_x (v_int s) with Some x => x | None => 0 end) (g_t (v_int s)) in
  v_args s = 3 /\ g_set (v_int s) = true /\
  sanswers Z Z x_skey x_sdflt x_supports x_dflt x_valid 8 x_flow s later
  = sanswers Z Z x_skey x_sdflt x_supports x_dflt x_valid 8 x_flow sf later /\
  length (sanswers Z Z x_skey x_sdflt x_supports x_dflt x_valid 8 x_flow s later) = 5%nat.
Proof. vm_compute. repeat split. Qed.

(* ======================================================================
   Part 6 - the memo of Propagator as OBJECTS (Model/C11_alias.v): the
   integrator updates its working buffer in place, Solver.step hands out a
   copy of it (copy=True, what Propagator asks for) and Solver.start copies
   into a new buffer.  Quantifiers: every content type, every history of
   start / step(+insert) / new-object(+insert) / evict operations, i.e. every
   sequence of branches _compute and _insert can take.
   ====================================================================== *)
From QV Require Import Model.C11_alias Proofs.C11_alias.

(* no object stored in the memo is ever the integrator's working buffer *)
Theorem C11_propagator_memo_not_aliased :
  forall V dflt one ops,
    let s := a_run V dflt true (a_init V one) ops in
    ~ In (a_buf s) (a_memo s) /\ forall id, In id (a_memo s) -> (id < a_next s)%nat.
Proof.
  intros V dflt one ops s.
  destruct (a_run_inv V dflt ops _ (a_init_inv V one)) as (A & _ & B). split; assumption.
Qed.
Print Assumptions C11_propagator_memo_not_aliased.

(* whatever is done next, every object already in the memo keeps its content:
   re-reading an entry gives the matrix first stored *)
Theorem C11_propagator_memo_entries_immutable :
  forall V dflt one ops o,
    let s := a_run V dflt true (a_init V one) ops in
    forall id, In id (a_memo s) ->
      hget V dflt (a_heap (a_do V dflt true s o)) id = hget V dflt (a_heap s) id.
Proof.
  intros V dflt one ops o s id Hin.
  exact (proj2 (a_do_spec V dflt s o (a_run_inv V dflt ops _ (a_init_inv V one))) id Hin).
Qed.
Print Assumptions C11_propagator_memo_entries_immutable.

(* non-vacuity, and the witness of the rule `copy=False` (seeded changes
   C11_4 / C10_4): with copies the first entry keeps its content 1 while the
   integrator moves on; without, the stored objects ARE the buffer and all
   show its latest content *)
Example C11_propagator_memo_alias_witness :
  let ops := [AStep (Z.add 1%Z) true; AStep (Z.add 1%Z) true; AStart (Some 0%nat) 0%Z;
              AStep (Z.add 5%Z) true] in
  a_values Z 0%Z (a_run Z 0%Z true (a_init Z 0%Z) ops) = [7; 2; 1; 0]%Z /\
  a_shared Z (a_run Z 0%Z true (a_init Z 0%Z) ops) = [false; false; false; false] /\
  a_values Z 0%Z (a_run Z 0%Z false (a_init Z 0%Z)
                        [AStep (Z.add 1%Z) true; AStep (Z.add 1%Z) true]) = [2; 2; 0]%Z /\
  a_shared Z (a_run Z 0%Z false (a_init Z 0%Z)
                    [AStep (Z.add 1%Z) true; AStep (Z.add 1%Z) true]) = [true; true; false].
Proof. vm_compute. repeat split. Qed.

(* ======================================================================
   Part 7 - IntegratorScipylsoda (scipy_integrator.py): mcstep / _one_step /
   _backstep around SciPy's lsoda.  Model in Model/C11_lsoda.v; lsoda enters
   by its contract (interpolation within one step behind tcur; never called
   with its own time when freshly reset) and an oracle for (tcur, hu, hcur).
   ====================================================================== *)
From QV Require Import Model.C11_lsoda Proofs.C11_lsoda.

(* The source BEFORE commit 9575753 (fixed = false): _backstep restarted from
   the saved state and then called ode.integrate(t) even when t is the restart
   time: lsoda was left unusable and the next mcstep raised "illegal input".
   Window [0, 8] after one step, lsoda's next step 2, back-step to the
   window's start, then a forward request. *)
Theorem C11_lsoda_backstep_at_back_refuted :
  exists ops, probes_ok l_new ops /\
    l_poison (l_final false l_new ops) = true /\
    exists t fd p o, fst (l_mcstep false (l_final false l_new ops) t fd p o o) = (l_final false l_new ops, true).
Proof.
  exists [LSet 0; LMc 10 0 1 (8, 8, 2) (8, 8, 2); LMc 0 6 0 (0, 0, 0) (0, 0, 0)].
  split; [simpl; repeat split; intros; lia|]. split; [reflexivity|].
  exists 10, 0, 1, (9, 9, 9). reflexivity.
Qed.
Print Assumptions C11_lsoda_backstep_at_back_refuted.

(* The source as it is (fixed = true; no integrate call when the restart
   already stands at the requested time): after EVERY history of set_state / mcstep calls, with any
   oracle values, lsoda is never called with its own time when freshly reset
   (it is never left unusable), and a freshly reset integrator stands at the
   front of the window. *)
Theorem C11_lsoda_repaired_never_poisoned :
  forall ops, probes_ok l_new ops ->
    let s := l_final true l_new ops in
    l_poison s = false /\ (l_fresh s = true -> l_t s = l_front s).
Proof. intros ops H. exact (l_final_inv ops l_new l_new_inv H). Qed.
Print Assumptions C11_lsoda_repaired_never_poisoned.

Example C11_lsoda_nonvacuous :
  let ops := [LSet 0; LMc 10 0 1 (8, 8, 2) (8, 8, 2); LMc 0 6 0 (0, 0, 0) (0, 0, 0);
              LMc 10 0 1 (5, 5, 5) (5, 5, 5); LMc 3 0 0 (0, 0, 0) (0, 0, 0)] in
  probes_ok l_new ops /\
  l_trace true l_new ops
  = [(false, (true, 0, 0, 0)); (false, (true, 0, 8, 8)); (false, (true, 0, 0, 0));
     (false, (true, 0, 5, 5)); (false, (true, 0, 5, 3))] /\
  map fst (l_trace false l_new ops) = [false; false; false; true; true].
Proof. split; [simpl; repeat split; intros; lia|]. vm_compute. split; reflexivity. Qed.
