(* C18 - every steady-state method returns a normalised fixed point of the
   generator.  Property theorems only; proofs are in Proofs/C18*.v.

   R is ANY field with an involutive ring morphism conj (all that is used of
   the complex numbers); n = n'.+1 is ANY system dimension; NN = n*n.
   Matrices handed to / returned by numerical kernels are index functions of
   the executable model Model/C18.v (the one compared with qutip on every run);
   `mx_of_fn`, `col_of_fn` read them as MathComp matrices.
   Numerical kernels are oracles: the linear solver returns SOME x' with
   L3 x' = b3 (`solves`), eig / svd / inverse iteration return SOME null vector
   v, the matrix inverse Linv of pseudo_inverse is SOME two-sided inverse.   *)
From Coq Require Import ZArith.
From mathcomp Require Import all_ssreflect all_algebra.
From mathcomp Require Import mxtens.
From QV Require Import Base.MxHerm Model.C18 Proofs.C18 Proofs.C18_bridge
  Proofs.C18_perm Proofs.C18_exec.

Set Implicit Arguments.
Unset Strict Implicit.
Unset Printing Implicit Defensive.
Import GRing.Theory.
Local Open Scope ring_scope.

(* ---- method "direct" ---------------------------------------------------- *)

(* For every trace-preserving generator L, weight w != 0, optional wbm / rcm
   permutations (any permutations of 0..NN-1) and ANY answer x' of the linear
   solver to the system _steadystate_direct hands it: after _reverse_rcm the
   vector has unit trace and is mapped to zero by L. *)
Theorem C18_direct_solution_is_normalised_fixed_point :
  forall (R : fieldType) (n' : nat) (w : R) (Lf : fmx R)
         (wbm rcm : option (seq nat)) (x' : fvec R),
  let n := n'.+1 in let NN := (n * n)%N in
  opt_perm n' wbm -> opt_perm n' rcm -> w != 0 ->
  tp (mx_of_fn NN NN Lf) ->
  let '(L3, b3, perm) := direct_system 0 1 +%R *%R n w Lf wbm rcm in
  solves NN L3 x' b3 ->
  let x := col_of_fn NN (match perm with Some p => reverse_rcm x' p | None => x' end) in
  \tr (unvec x) = 1 /\ mx_of_fn NN NN Lf *m x = 0.
Proof. move=> R n' w Lf wbm rcm x' /=; exact: direct_end_to_end. Qed.
Print Assumptions C18_direct_solution_is_normalised_fixed_point.

(* ... and the returned operator 0.5 * (rho + rho^dag) is Hermitian, has unit
   trace and is a fixed point, when L moreover preserves Hermiticity. *)
Theorem C18_direct_result_hermitian_unit_trace_fixed_point :
  forall (R : fieldType) (conj : {rmorphism R -> R}), involutive conj ->
  forall (n' : nat) (w : R) (Lf : fmx R) (wbm rcm : option (seq nat)) (x' : fvec R),
  let n := n'.+1 in let NN := (n * n)%N in
  opt_perm n' wbm -> opt_perm n' rcm -> w != 0 -> (2%:R : R) != 0 ->
  tp (mx_of_fn NN NN Lf) -> hp conj (mx_of_fn NN NN Lf) ->
  let '(L3, b3, perm) := direct_system 0 1 +%R *%R n w Lf wbm rcm in
  solves NN L3 x' b3 ->
  let rho := 2%:R^-1 *: mx_of_fn n n (direct_post2 +%R conj n x' perm) in
  [/\ dag conj rho = rho, \tr rho = 1 & mx_of_fn NN NN Lf *m cvec rho = 0].
Proof. move=> R conj conjK n' w Lf wbm rcm x' /=; exact: direct_end_to_end_rho. Qed.
Print Assumptions C18_direct_result_hermitian_unit_trace_fixed_point.

(* Conversely every normalised fixed point solves the modified system, and
   when normalised fixed points are unique so is the solution: the solver
   oracle has exactly the stationary state to return. *)
Theorem C18_direct_system_complete_and_unique :
  forall (R : fieldType) (n : nat) (L : 'M[R]_(n * n)) (w : R) (i0 : 'I_n),
  tp L -> w != 0 ->
  (forall x, L *m x = 0 -> \tr (unvec x) = 1 -> dL L w i0 *m x = @db R n w i0) /\
  ((forall a b : 'cV[R]_(n * n), L *m a = 0 -> L *m b = 0 ->
       trow R n *m a = 1%:M -> trow R n *m b = 1%:M -> a = b) ->
   forall x y, dL L w i0 *m x = @db R n w i0 -> dL L w i0 *m y = @db R n w i0 -> x = y).
Proof.
move=> R n L w i0 Ltp w0; split; first by move=> x; exact: direct_complete_vec.
by move=> U x y; apply: direct_unique => //; exact: trow_ediag.
Qed.
Print Assumptions C18_direct_system_complete_and_unique.

(* _reverse_rcm undoes _permute_rcm's row permutation on every vector, and
   argsort(argsort p) = p *)
Theorem C18_reverse_rcm_undoes_permute_rcm :
  forall (T : Type) (N : nat) (p : seq nat) (x : fvec T),
  is_perm N p ->
  argsort (argsort p) = p /\
  (forall k, (k < N)%N -> reverse_rcm (perm_rows p x) p k = x k) /\
  (forall k, (k < N)%N -> perm_rows p (reverse_rcm x p) k = x k).
Proof.
move=> T N p x H; split; first exact: (argsortK H).
by split=> k kN; [exact: (reverse_permute _ H kN)|exact: (permute_reverse _ H kN)].
Qed.
Print Assumptions C18_reverse_rcm_undoes_permute_rcm.

(* ---- methods "eigen" / "power" / "propagator": a null vector of ANY phase -- *)

Definition null_one_dim (R : fieldType) n (L : 'M[R]_(n * n)) : Prop :=
  forall y z : 'cV[R]_(n * n), L *m y = 0 -> L *m z = 0 -> z != 0 -> exists c, y = c *: z.

(* _steadystate_eigen: rho / rho.tr() *)
Theorem C18_eigen_result_for_every_phase :
  forall (R : fieldType) (conj : {rmorphism R -> R}), involutive conj ->
  forall (n' : nat) (Lf : fmx R) (vf : fvec R),
  let n := n'.+1 in let NN := (n * n)%N in
  let L := mx_of_fn NN NN Lf in
  hp conj L -> null_one_dim L -> L *m col_of_fn NN vf = 0 ->
  let (Vf, d) := eigen_post 0 +%R n vf in
  d != 0 ->
  let rho := d^-1 *: mx_of_fn n n Vf in
  [/\ dag conj rho = rho, \tr rho = 1 & L *m cvec rho = 0].
Proof.
move=> R conj conjK n' Lf vf /= Lhp N1 Lv.
have := eigen_post_bridge n' vf; rewrite /eigen_post => -> d0.
by apply: eigen_result => //; move: d0; rewrite ftr_bridge unstack_bridge.
Qed.
Print Assumptions C18_eigen_result_for_every_phase.

(* _steadystate_power: (rho + rho^dag) / tr *)
Theorem C18_power_result_for_every_phase :
  forall (R : fieldType) (conj : {rmorphism R -> R}), involutive conj ->
  forall (n' : nat) (Lf : fmx R) (vf : fvec R),
  let n := n'.+1 in let NN := (n * n)%N in
  let L := mx_of_fn NN NN Lf in
  hp conj L -> L *m col_of_fn NN vf = 0 ->
  let (Sf, d) := power_post 0 +%R conj n vf in
  d != 0 ->
  let rho := d^-1 *: mx_of_fn n n Sf in
  [/\ dag conj rho = rho, \tr rho = 1 & L *m cvec rho = 0].
Proof.
move=> R conj conjK n' Lf vf /= Lhp Lv.
have := power_post_bridge conj n' vf; rewrite /power_post => -> d0.
apply: power_post_result => //.
by move: d0; rewrite ftr_bridge herm2_bridge unstack_bridge.
Qed.
Print Assumptions C18_power_result_for_every_phase.

(* _steadystate_expm: one step (rho' + rho'^dag) / (2 tr rho') *)
Theorem C18_propagator_step_normalised :
  forall (R : fieldType) (conj : {rmorphism R -> R}), involutive conj ->
  forall n (X : 'M[R]_n),
  (2%:R : R) != 0 -> \tr X != 0 -> conj (\tr X) = \tr X ->
  dag conj (expm_step conj X) = expm_step conj X /\ \tr (expm_step conj X) = 1.
Proof. by move=> R conj conjK n X; apply: expm_step_real. Qed.
Print Assumptions C18_propagator_step_normalised.

(* ---- method "svd": Qobj(rho) then rho / rho.tr() (after the repair) -------- *)

(* For a null vector of ANY phase the returned operator is Hermitian, has unit
   trace and is a fixed point (same normalisation as _steadystate_eigen). *)
Theorem C18_svd_result_for_every_phase :
  forall (R : fieldType) (conj : {rmorphism R -> R}), involutive conj ->
  forall (n' : nat) (Lf : fmx R) (vf : fvec R),
  let n := n'.+1 in let NN := (n * n)%N in
  let L := mx_of_fn NN NN Lf in
  hp conj L -> null_one_dim L -> L *m col_of_fn NN vf = 0 ->
  let (Vf, d) := svd_post 0 +%R n vf in
  d != 0 ->
  let rho := d^-1 *: mx_of_fn n n Vf in
  [/\ dag conj rho = rho, \tr rho = 1 & L *m cvec rho = 0].
Proof.
move=> R conj conjK n' Lf vf /= Lhp N1 Lv.
have := svd_post_bridge n' vf; rewrite /svd_post => -> d0.
by apply: svd_result => //; move: d0; rewrite ftr_bridge unstack_bridge.
Qed.
Print Assumptions C18_svd_result_for_every_phase.

(* the former counterexample (null vector of non-real trace of the 3-level
   witness generator) is now normalised to the Hermitian rho_ss *)
Theorem C18_svd_witness_normalised :
  gz_is_zero_vec (gz_mulv 9 wL wv) = true /\
  (gz_svd_post 3 wv).2 = (gz_eigen_post 3 wv).2 /\
  (gz_svd_post 3 wv).1 = map (map (gzmul gz1i)) wrho /\
  (gz_svd_post 3 wv).2 = gzmul gz1i gz13r /\
  gz_adjoint_tab 3 wrho = wrho.
Proof. by have [a b c [d _]] := svd_witness; split=> //; split=> //; split. Qed.
Print Assumptions C18_svd_witness_normalised.

(* ---- _steadystate_power iteration counter --------------------------------- *)
Theorem C18_power_loop_returns_first_converged :
  forall maxiter conv k, power_result maxiter conv = Some k ->
  [/\ (k <= maxiter)%N, conv k & forall j, (j < k)%N -> ~~ conv j].
Proof. exact: power_result_some. Qed.
Print Assumptions C18_power_loop_returns_first_converged.

(* an error is raised exactly when none of the iterates 0..maxiter converged *)
Theorem C18_power_loop_raises_iff :
  forall maxiter conv,
  power_result maxiter conv = None <-> (forall j, (j <= maxiter)%N -> ~~ conv j).
Proof. exact: power_result_none. Qed.
Print Assumptions C18_power_loop_raises_iff.

Theorem C18_power_maxiter_accepts_last_iterate :
  forall maxiter conv, conv maxiter = true -> power_result maxiter conv <> None.
Proof. exact: power_maxiter_accepts_last. Qed.
Print Assumptions C18_power_maxiter_accepts_last_iterate.

(* ---- pseudo_inverse -------------------------------------------------------- *)
(* P = |rho>><<1|, Q = 1 - P, R = Q (L + s)^-1 Q (s = i*w or 1e-15 i), with the
   inverse as an oracle.  Defining relations, exact in s. *)
Theorem C18_pseudo_inverse_relations :
  forall (R : fieldType) (n' : nat) (Lf rf LIf : fmx R) (s : R),
  let n := n'.+1 in let NN := (n * n)%N in
  let L := mx_of_fn NN NN Lf in let rho := mx_of_fn n n rf in
  let Linv := mx_of_fn NN NN LIf in
  tp L -> L *m cvec rho = 0 -> \tr rho = 1 ->
  (L + s%:M) *m Linv = 1%:M -> Linv *m (L + s%:M) = 1%:M ->
  let Q := mx_of_fn NN NN (pinv_Q 0 1 +%R *%R -%R n rf) in
  let Rm := Q *m (Linv *m Q) in
  [/\ L *m Rm = Q - s *: Rm, Rm *m L = Q - s *: Rm,
      L *m Rm *m L = L - s *: (Rm *m L),
      Pss rho *m Rm = 0 /\ Rm *m Pss rho = 0
    & forall x, \tr (unvec x) = 0 -> L *m (Rm *m x) = x - s *: (Rm *m x)].
Proof.
move=> R n' Lf rf LIf s /= Ltp Lr tr1 ir il; rewrite pinv_Q_bridge.
have LP := Pss_LP Lr; have PL := Pss_PL (mx_of_fn n'.+1 n'.+1 rf) Ltp.
have PP := Pss_PP tr1.
split.
- exact: (pinv_LR LP PL PP ir il).
- exact: (pinv_RL LP PL PP ir il).
- exact: (pinv_LRL LP PL PP ir il).
- by split; [exact: (pinv_PR LP PL PP ir il)|exact: (pinv_RP LP PL PP ir il)].
- by move=> x tx; apply: (pinv_traceless LP PL PP ir il); apply: Pss_traceless.
Qed.
Print Assumptions C18_pseudo_inverse_relations.

(* ---- HEOMSolver.steady_state: row 0 replaced by the system trace ---------- *)
Theorem C18_heom_row_replacement_sound :
  forall (R : fieldType) (n' p' : nat) (Lf : fmx R) (x : 'cV[R]_(p'.+1)),
  let n := n'.+1 in let p := p'.+1 in
  let t := row_of_fn p (heom_row 0 1 n) in
  t *m mx_of_fn p p Lf = 0 ->
  mx_of_fn p p (heom_L 0 1 n Lf) *m x = delta_mx ord0 0 ->
  (t *m x) 0 0 = 1 /\ mx_of_fn p p Lf *m x = 0.
Proof.
move=> R n' p' Lf x /= tL; rewrite (@heom_L_bridge R n' p'.+1 ord0) // => H.
by apply: (rowrep_sound _ tL H); rewrite heom_row0.
Qed.
Print Assumptions C18_heom_row_replacement_sound.

(* ---- non-vacuity ----------------------------------------------------------- *)
(* a formal instance of the hypotheses of the direct theorems over rat *)
Example C18_nonvacuous_direct :
  let R := rat_fieldType in let Lf : fmx R := fun _ _ => 0 in
  let x' : fvec R := fun _ => 1 in
  [/\ opt_perm 0 (Some [:: 0%N]), (3%:R : R) != 0,
      @tp R 1 (mx_of_fn (1 * 1) (1 * 1) Lf),
      @hp R [rmorphism of idfun] 1 (mx_of_fn (1 * 1) (1 * 1) Lf)
    & let '(L3, b3, perm) := direct_system 0 1 +%R *%R 1 3%:R Lf (Some [:: 0%N]) (Some [:: 0%N]) in
      solves (1 * 1) L3 x' b3].
Proof.
have Z : mx_of_fn (1 * 1) (1 * 1) (fun _ _ => 0 : rat) = 0 by apply/matrixP => i j; rewrite !mxE.
split=> //.
- by rewrite /tp Z mulmx0.
- by rewrite Z => X; rewrite !mul0mx unvec0 dag0 cvec0.
- by move=> [|i] //= _; rewrite /fmulv /fsum /=.
Qed.

(* Gaussian-integer instance on the executable model: a qubit with decay
   (2*liouvillian(0,[sigmam])), weight 3, rcm order [2;0;3;1]: the handed
   system is solved by the permuted vec(|1><1|) and post-processing returns
   2*|1><1| (statement and vm_compute proof in Proofs/C18_exec.v) *)
Example C18_nonvacuous_exec : exec_example_stmt.
Proof. exact: exec_example. Qed.

(* a null vector with non-real trace of a genuine generator (svd_witness,
   svd_witness_tp) *)
Example C18_nonvacuous_svd_complex_phase :
  gz_is_zero_vec (gz_mulv 9 wL wv) = true /\ (gz_eigen_post 3 wv).2 = gz13c.
Proof. by split; vm_compute. Qed.

Example C18_nonvacuous_power_loop :
  power_result 10 (fun k => (2 <= k)%N) = Some 2%N /\
  power_result 2 (fun k => (2 <= k)%N) = Some 2%N /\
  power_result 1 (fun k => (2 <= k)%N) = None.
Proof. by []. Qed.

(* ======================================================================== *)
(* Extension: equivalence of the permuted systems, pseudo-inverse routes,     *)
(* stopping rule of the power method.                                         *)
From QV Require Import Proofs.C18_equiv Proofs.C18_pinv Proofs.C18_stop.

(* For EVERY permutation the matching / RCM oracles may return, the system
   handed to the solver is EQUIVALENT to the un-permuted modified system:
   y solves (P L' Q) y = P b  <->  x = Q y solves L' x = b.  In particular the
   vector handed back after _reverse_rcm is a solution of the un-permuted
   system, and every solution of the latter is offered to the solver. *)
Theorem C18_permuted_system_equivalent :
  forall (R : fieldType) (n' : nat) (w : R) (Lf : fmx R)
         (wbm rcm : option (seq nat)) (y : fvec R),
  let n := n'.+1 in let NN := (n * n)%N in
  opt_perm n' wbm -> opt_perm n' rcm ->
  let '(L3, b3, perm) := direct_system 0 1 +%R *%R n w Lf wbm rcm in
  solves NN L3 y b3 <->
  solves NN (direct_L 0 1 +%R *%R n w Lf)
         (match perm with Some p => reverse_rcm y p | None => y end) (direct_b 0 w).
Proof. move=> R n' w Lf wbm rcm y /=; exact: direct_system_equiv. Qed.
Print Assumptions C18_permuted_system_equivalent.
Example C18_nonvacuous_permuted_system :
  opt_perm 1 (Some [:: 2; 0; 3; 1]%N) /\ opt_perm 1 (Some [:: 1; 3; 0; 2]%N).
Proof. by []. Qed.

(* pseudo_inverse, solve route: LIQ = solve(L + s, Q) is ANY solution X of
   (L + s) X = Q; then R = Q X is the matrix of C18_pseudo_inverse_relations *)
Theorem C18_pseudo_inverse_solve_route :
  forall (R : fieldType) (N : nat) (L Linv P X : 'M[R]_N) (s : R),
  Linv *m (L + s%:M) = 1%:M -> (L + s%:M) *m X = Qp P ->
  Qp P *m X = Rp Linv P.
Proof. move=> R N L Linv P X s; exact: pinv_solve_route. Qed.
Print Assumptions C18_pseudo_inverse_solve_route.

(* pseudo_inverse(use_rcm=True): for EVERY permutation returned by the RCM
   oracle (used without argsort) and EVERY answer X' of the solver to the
   permuted system, the matrix handed back after un-permuting is that same R *)
Theorem C18_pseudo_inverse_rcm_route :
  forall (R : fieldType) (N : nat) (Af Qf X' : fmx R) (p : seq nat) (Linv P : 'M[R]_N),
  is_perm N p -> mx_of_fn N N Qf = Qp P -> Linv *m mx_of_fn N N Af = 1%:M ->
  let '(A', Q') := pinv_rcm_system p Af Qf in
  msolves N A' X' Q' ->
  mx_of_fn N N (pinv_rcm_R 0 +%R *%R N p Q' X') = Rp Linv P.
Proof. move=> R N Af Qf X' p Linv P; exact: pinv_rcm_is_Rp. Qed.
Print Assumptions C18_pseudo_inverse_rcm_route.
Example C18_nonvacuous_pinv_rcm : pinv_rcm_example_stmt.
Proof. exact: pinv_rcm_example. Qed.

(* power method: when the loop ends by its own criterion norm(L y) <= tol
   (C18_power_loop_returns_first_converged), the returned state
   (Y + Y^dag) / tr has residual <= 2 tol / |tr (Y + Y^dag)| for the shifted
   generator L = L0 + eps, and at most eps * norm(rho) more for L0 itself.
   nrm is any absolutely homogeneous subadditive function invariant under
   x -> vec((unvec x)^dag) (the max-norm the code uses is one). *)
Theorem C18_power_stopping_rule_residual :
  forall (R : fieldType) (conj : {rmorphism R -> R}) (K : numFieldType) (n : nat)
         (absr : R -> K) (nrm : 'cV[R]_(n * n) -> K),
  (forall a x, nrm (a *: x) = absr a * nrm x) ->
  (forall x y, nrm (x + y) <= nrm x + nrm y)%R ->
  (forall x, nrm (cvec (dag conj (unvec x))) = nrm x) ->
  (forall a, 0 <= absr a)%R ->
  forall (L0 : 'M[R]_(n * n)) (eps : R) (y : 'cV[R]_(n * n)) (tol : K),
  hp conj (L0 + eps%:M) ->
  (nrm ((L0 + eps%:M) *m y) <= tol)%R ->
  let Y := unvec y in let rho := power_normalise conj Y in
  (nrm ((L0 + eps%:M) *m cvec rho) <= absr (\tr (Y + dag conj Y))^-1 * (tol + tol))%R /\
  (nrm (L0 *m cvec rho)
     <= absr (\tr (Y + dag conj Y))^-1 * (tol + tol) + absr (- eps) * nrm (cvec rho))%R.
Proof.
move=> R conj K n absr nrm hZ hD hdag h0 L0 eps y tol Lhp Hy /=; split.
- exact: (power_residual_shifted hZ hD hdag h0 Lhp Hy).
- exact: (power_residual hZ hD hdag h0 Lhp Hy).
Qed.
Print Assumptions C18_power_stopping_rule_residual.
(* the norm hypotheses are satisfiable by a genuine norm (rat, n = 1, |x_00|) *)
Example C18_nonvacuous_stopping_rule :
  [/\ forall a x, ex_nrm (a *: x) = `|a| * ex_nrm x,
      forall x y, (ex_nrm (x + y) <= ex_nrm x + ex_nrm y)%R,
      forall x, ex_nrm (cvec (dag [rmorphism of idfun] (unvec x))) = ex_nrm x
    & forall a : rat, (0 <= `|a|)%R ].
Proof. exact: ex_norm_hyps. Qed.

(* ---- solve_csr_dense / solve_dia_dense: result dispatch --------------------- *)
(* the answer x of an iterative solver (x, info) is handed on only when the
   solver reports success (info = 0); any other flag raises *)
Theorem C18_solver_answer_returned_only_on_success :
  forall x c,
  (forall y, solve_dispatch (STup x [:: c]) = SRet y -> c = Z0 /\ y = x) /\
  (c <> Z0 -> exists k, solve_dispatch (STup x [:: c]) = SRaiseTol k \/
                        solve_dispatch (STup x [:: c]) = SRaiseBad k).
Proof.
move=> x c; split; first by move=> y; exact: solve_dispatch_iterative.
exact: solve_dispatch_iterative_raises.
Qed.
Print Assumptions C18_solver_answer_returned_only_on_success.

(* whatever is returned is the solver's own solution entry *)
Theorem C18_solver_dispatch_returns_solution_entry :
  forall r y, solve_dispatch r = SRet y ->
  match r with SArr x => y = x | STup x _ => y = x end.
Proof. exact: solve_dispatch_payload. Qed.
Print Assumptions C18_solver_dispatch_returns_solution_entry.
Example C18_nonvacuous_solver_dispatch : solve_dispatch_example_stmt.
Proof. exact: solve_dispatch_example. Qed.

(* ======================================================================== *)
(* svd / eigen / propagator routes given the decomposition oracles.           *)
From QV Require Import Proofs.C18_routes.

(* _steadystate_svd picks the last column of vh^dagger.  For ANY factorisation
   L = U diag(s) Vh with Vh Vh^dagger = 1 (the svd oracle) its residual is the
   last singular value times the last column of U; it is a null vector as soon
   as that singular value is 0 *)
Theorem C18_svd_picked_vector_residual :
  forall (R : fieldType) (conj : {rmorphism R -> R}) (N' : nat)
         (L U : 'M[R]_N'.+1) (vhf : fmx R) (s : 'rV[R]_N'.+1),
  let Vh := mx_of_fn N'.+1 N'.+1 vhf in
  L = U *m diag_mx s *m Vh -> Vh *m dag conj Vh = 1%:M ->
  let v := col_of_fn N'.+1 (svd_pick conj N'.+1 vhf) in
  L *m v = s 0 ord_max *: col ord_max U /\ (s 0 ord_max = 0 -> L *m v = 0).
Proof.
move=> R conj N' L U vhf s /= E VV; rewrite (svd_pick_bridge (Vh:=mx_of_fn _ _ vhf) _ erefl).
by split; [exact: (svd_pick_residual E VV)|exact: (svd_pick_null E VV)].
Qed.
Print Assumptions C18_svd_picked_vector_residual.
Example C18_nonvacuous_svd_oracle :
  let I1 := (1%:M : 'M[rat]_1) in
  (0 : 'M[rat]_1) = I1 *m diag_mx (0 : 'rV[rat]_1) *m I1 /\
  I1 *m dag [rmorphism of idfun] I1 = 1%:M.
Proof. exact: svd_hyps_example. Qed.

(* _steadystate_eigen takes the eigenvector of L^dag L for the lowest
   eigenvalue: |L v|^2 = lambda |v|^2, and for lambda = 0 it is a null vector
   of L (in any field where x^dag x = 0 forces x = 0) *)
Theorem C18_eigen_zero_eigenvector_is_null :
  forall (R : fieldType) (conj : {rmorphism R -> R}) (N : nat),
  (forall x : 'cV[R]_N, dag conj x *m x = 0 -> x = 0) ->
  forall (L : 'M[R]_N) (v : 'cV[R]_N),
  (forall lam, (dag conj L *m L) *m v = lam *: v ->
     dag conj (L *m v) *m (L *m v) = lam *: (dag conj v *m v)) /\
  ((dag conj L *m L) *m v = 0 -> L *m v = 0).
Proof.
move=> R conj N def L v; split; first by move=> lam; exact: gram_norm.
exact: eigen_null.
Qed.
Print Assumptions C18_eigen_zero_eigenvector_is_null.
Example C18_nonvacuous_definite :
  forall x : 'cV[rat]_1, dag [rmorphism of idfun] x *m x = 0 -> x = 0.
Proof. exact: definite_rat1. Qed.

(* dense fallback of _steadystate_eigen: the sparse solver's vector is used
   only when sparse was requested AND its eigenvalue passed the smallness test;
   the solver is called once, or twice (sparse then dense) when the test fails *)
Theorem C18_eigen_fallback_decision :
  forall (V : Type) sparse big (vs vd : V),
  (sparse && ~~ big -> eigen_pick sparse big vs vd = vs) /\
  (~~ (sparse && ~~ big) -> eigen_pick sparse big vs vd = vd) /\
  eigen_calls sparse big = (if sparse && big then [:: true; false] else [:: sparse]).
Proof.
move=> V sparse big vs vd; have [a b] := eigen_pick_sparse sparse big vs vd.
by split=> //; split=> //; exact: eigen_calls_spec.
Qed.
Print Assumptions C18_eigen_fallback_decision.
Example C18_nonvacuous_eigen_fallback :
  eigen_pick true true 1%N 2%N = 2%N /\ eigen_pick true false 1%N 2%N = 1%N /\
  eigen_calls true true = [:: true; false].
Proof. by []. Qed.

(* propagator method: the loop returns in the first iteration whose distance
   test passes, raises exactly when none of the iterations 0..max_iter-1 passes,
   and the propagator applied in iteration k is the initial one to the 2^k *)
Theorem C18_propagator_loop_returns_first_converged :
  forall max_iter conv k, expm_result max_iter conv = Some k ->
  [/\ (k < max_iter)%N, conv k & forall j, (j < k)%N -> ~~ conv j].
Proof. exact: expm_result_some. Qed.
Print Assumptions C18_propagator_loop_returns_first_converged.
Theorem C18_propagator_loop_raises_iff :
  forall max_iter conv,
  expm_result max_iter conv = None <-> (forall j, (j < max_iter)%N -> ~~ conv j).
Proof. exact: expm_result_none. Qed.
Print Assumptions C18_propagator_loop_raises_iff.
Theorem C18_propagator_uses_power_of_two_steps :
  forall (A : ringType) (p : A) k, sq_iter *%R p k = p ^+ (2 ^ k).
Proof. exact: sq_iter_exp. Qed.
Print Assumptions C18_propagator_uses_power_of_two_steps.
Example C18_nonvacuous_propagator_loop :
  expm_result 30 (fun k => (3 <= k)%N) = Some 3%N /\
  expm_result 3 (fun k => (3 <= k)%N) = None /\ sq_iter muln 3%N 2 = 81%N.
Proof. by []. Qed.
