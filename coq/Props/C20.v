(* C20 - standard operators, states, gates and random objects satisfy their
   definitions.  Property theorems only; proofs are in Proofs/C20*.v.

   Quantifiers: every dimension N (Z), every offset, every doubled spin J = 2j,
   every pair of indices inside the matrix, every commutative ring R with any
   function sq that squares to the radicands that occur (the reals with the
   square root are one instance; no property of the reals is used).  Radicand
   matrices: the model stores r where the library stores sqrt r. *)
From Coq Require Import List ZArith Bool Arith Lia Ring InitialRing.
Import ListNotations.
From Coq Require Import Sorted.
From Coq Require Import NArith.
From Coq Require Import QArith.
From QV Require Import Model.C20 Model.C20_b Proofs.C20 Proofs.C20_enum Proofs.C20_alg Proofs.C20_had
  Proofs.C20_ext Proofs.C20_qft Proofs.C20_enrth.
Open Scope Z_scope.

(* ---------------------------------------------------------------- ladder *)
(* destroy(N, offset) for every N >= 1: an N x N matrix whose only non-zero
   elements are <n-1|a|n> = sqrt(n + offset) (the 1x1 zero operator for N = 1) *)
Theorem C20_destroy_matrix_elements :
  forall N off, 1 <= N ->
  exists m, destroy_rad N off = Ok m /\ dim m = Z.to_nat N /\
    forall i j, (i < Z.to_nat N)%nat -> (j < Z.to_nat N)%nat ->
      zentry m i j = if (j =? S i)%nat then off + Z.of_nat j else 0.
Proof. exact destroy_rad_ok. Qed.
Print Assumptions C20_destroy_matrix_elements.

Theorem C20_create_matrix_elements :
  forall N off, 1 <= N ->
  exists m, create_rad N off = Ok m /\ dim m = Z.to_nat N /\
    forall i j, (i < Z.to_nat N)%nat -> (j < Z.to_nat N)%nat ->
      zentry m i j = if (i =? S j)%nat then off + Z.of_nat i else 0.
Proof. exact create_rad_ok. Qed.
Print Assumptions C20_create_matrix_elements.

Theorem C20_num_matrix_elements :
  forall N off, 1 <= N ->
  exists m, num_diag N off = Ok m /\ dim m = Z.to_nat N /\
    forall i j, (i < Z.to_nat N)%nat -> (j < Z.to_nat N)%nat ->
      zentry m i j = if (i =? j)%nat then off + Z.of_nat i else 0.
Proof. exact num_diag_ok. Qed.
Print Assumptions C20_num_matrix_elements.

(* inadmissible N <= 0 is not rejected: it gives the same 1x1 zero operator
   as N = 1 (error branch of the totalised model: there is none any more) *)
Theorem C20_destroy_dimension_le_one :
  forall N off, N <= 1 ->
    destroy_rad N off = Ok {| dim := 1; dgs := [(1, [])] |} /\
    create_rad N off = Ok {| dim := 1; dgs := [(-1, [])] |}.
Proof. intros N off H. split; [now apply destroy_rad_le1|now apply create_rad_le1]. Qed.
Print Assumptions C20_destroy_dimension_le_one.

(* a a^dag and a^dag a on number states, truncated commutation relation:
     [a, a^dag] = 1 + offset |0><0| - (N + offset) |N-1><N-1|  *)
Theorem C20_truncated_commutator :
  forall (R : Type) (rO rI : R) (radd rmul rsub : R -> R -> R) (ropp : R -> R)
         (Rth : ring_theory rO rI radd rmul rsub ropp eq) (sq : Z -> R),
    sq 0 = rO ->
  forall N off, 1 <= N ->
    (forall n, off < n < N + off -> rmul (sq n) (sq n) = zr R rO rI radd rmul ropp n) ->
  forall ma mc, destroy_rad N off = Ok ma -> create_rad N off = Ok mc ->
  forall i j, (i < Z.to_nat N)%nat -> (j < Z.to_nat N)%nat ->
    rsub (mmul R rO radd rmul (Z.to_nat N) (rmat R sq ma) (rmat R sq mc) i j)
         (mmul R rO radd rmul (Z.to_nat N) (rmat R sq mc) (rmat R sq ma) i j) =
    if (i =? j)%nat then
      rsub (radd rI (if (i =? 0)%nat then zr R rO rI radd rmul ropp off else rO))
           (if (S i =? Z.to_nat N)%nat then zr R rO rI radd rmul ropp (N + off) else rO)
    else rO.
Proof.
  intros R rO rI radd rmul rsub ropp Rth sq sq0 N off HN Hsq ma mc Ea Ec i j Hi Hj.
  exact (truncated_ccr R rO rI radd rmul rsub ropp Rth sq sq0 N off HN Hsq ma mc Ea Ec i j Hi Hj).
Qed.
Print Assumptions C20_truncated_commutator.

(* a^dag a = num - offset |0><0|  (the number operator for offset 0) *)
Theorem C20_adag_a_is_number :
  forall (R : Type) (rO rI : R) (radd rmul rsub : R -> R -> R) (ropp : R -> R)
         (Rth : ring_theory rO rI radd rmul rsub ropp eq) (sq : Z -> R),
    sq 0 = rO ->
  forall N off, 1 <= N ->
    (forall n, off < n < N + off -> rmul (sq n) (sq n) = zr R rO rI radd rmul ropp n) ->
  forall ma mc mn, destroy_rad N off = Ok ma -> create_rad N off = Ok mc -> num_diag N off = Ok mn ->
  forall i j, (i < Z.to_nat N)%nat -> (j < Z.to_nat N)%nat ->
    mmul R rO radd rmul (Z.to_nat N) (rmat R sq mc) (rmat R sq ma) i j =
    if (i =? j)%nat && (0 <? i)%nat then zr R rO rI radd rmul ropp (zentry mn i j) else rO.
Proof.
  intros R rO rI radd rmul rsub ropp Rth sq sq0 N off HN Hsq ma mc mn Ea Ec En i j Hi Hj.
  rewrite (adag_a R rO rI radd rmul rsub ropp Rth sq sq0 N off HN Hsq ma mc Ea Ec i j Hi Hj).
  destruct (num_diag_ok N off ltac:(lia)) as (m & E & _ & H). rewrite En in E. injection E as <-.
  rewrite (H i j Hi Hj). destruct (i =? j)%nat; [|reflexivity]. now destruct (0 <? i)%nat.
Qed.
Print Assumptions C20_adag_a_is_number.

(* hypotheses are satisfiable by a non-trivial instance: destroy(2, offset=3)
   over the integers with the integer square root (entry sqrt 4 = 2) *)
Example C20_nonvacuous_ladder :
  Z.sqrt 0 = 0 /\ 1 <= 2 /\ 0 <= 3 /\
  (forall n, 3 < n < 2 + 3 -> Z.sqrt n * Z.sqrt n = zr Z 0 1 Z.add Z.mul Z.opp n) /\
  exists ma mc, destroy_rad 2 3 = Ok ma /\ create_rad 2 3 = Ok mc /\
                rmat Z Z.sqrt ma 0%nat 1%nat = 2.
Proof.
  split; [reflexivity|]. split; [lia|]. split; [lia|]. split.
  - intros n Hn. assert (n = 4) as -> by lia. reflexivity.
  - eexists. eexists. split; [reflexivity|]. split; reflexivity.
Qed.

(* ------------------------------------------------------------------ spin *)
(* _jplus(j): <m+1| J+ |m> = sqrt((j-m)(j+m+1)); with i the row index and
   J = 2j the radicand is (i+1)(J-i) *)
Theorem C20_jplus_matrix_elements :
  forall J, 0 <= J ->
  exists m, jplus_rad J = Ok m /\ dim m = Z.to_nat (J + 1) /\
    forall i j, (i < Z.to_nat (J + 1))%nat -> (j < Z.to_nat (J + 1))%nat ->
      zentry m i j = if (j =? S i)%nat then (Z.of_nat i + 1) * (J - Z.of_nat i) else 0.
Proof. exact jplus_rad_ok. Qed.
Print Assumptions C20_jplus_matrix_elements.

Theorem C20_jz_matrix_elements :
  forall J, 0 <= J ->
  exists m, jz2_diag J = Ok m /\ dim m = Z.to_nat (J + 1) /\
    forall i j, (i < Z.to_nat (J + 1))%nat -> (j < Z.to_nat (J + 1))%nat ->
      zentry m i j = if (i =? j)%nat then J - 2 * Z.of_nat i else 0.
Proof. exact jz2_diag_ok. Qed.
Print Assumptions C20_jz_matrix_elements.

(* spin 0 (dimension 1): the 1x1 zero operator *)
Theorem C20_jplus_spin_zero : jplus_rad 0 = Ok {| dim := 1; dgs := [(1, [])] |}.
Proof. reflexivity. Qed.
Print Assumptions C20_jplus_spin_zero.

(* angular momentum algebra for every spin j >= 0:
   [J+, J-] = 2 Jz,  [Jz, J+] = J+ (doubled),  2(J+J- + J-J+) + (2Jz)^2 = J(J+2) *)
Theorem C20_spin_algebra :
  forall (R : Type) (rO rI : R) (radd rmul rsub : R -> R -> R) (ropp : R -> R)
         (Rth : ring_theory rO rI radd rmul rsub ropp eq) (sq : Z -> R),
    sq 0 = rO ->
  forall J, 0 <= J ->
    (forall i, 0 <= i < J -> rmul (sq ((i + 1) * (J - i))) (sq ((i + 1) * (J - i)))
                             = zr R rO rI radd rmul ropp ((i + 1) * (J - i))) ->
  forall mp mz, jplus_rad J = Ok mp -> jz2_diag J = Ok mz ->
  let n := Z.to_nat (J + 1) in
  let P := Jp R sq mp in let M := Jm R sq mp in let Z2 := Jz2 R rO rI radd rmul ropp mz in
  let mm := mmul R rO radd rmul n in
  forall i j, (i < n)%nat -> (j < n)%nat ->
    rsub (mm P M i j) (mm M P i j) = Z2 i j /\
    rsub (mm Z2 P i j) (mm P Z2 i j) = rmul (zr R rO rI radd rmul ropp 2) (P i j) /\
    radd (rmul (zr R rO rI radd rmul ropp 2) (radd (mm P M i j) (mm M P i j))) (mm Z2 Z2 i j)
      = if (i =? j)%nat then zr R rO rI radd rmul ropp (J * (J + 2)) else rO.
Proof.
  intros R rO rI radd rmul rsub ropp Rth sq sq0 J HJ Hsq mp mz Ep Ez n P M Z2 mm i j Hi Hj.
  split; [|split].
  - exact (comm_JpJm R rO rI radd rmul rsub ropp Rth sq sq0 J HJ Hsq mp mz Ep Ez i j Hi Hj).
  - exact (comm_JzJp R rO rI radd rmul rsub ropp Rth sq sq0 J HJ mp mz Ep Ez i j Hi Hj).
  - exact (casimir R rO rI radd rmul rsub ropp Rth sq sq0 J HJ Hsq mp mz Ep Ez i j Hi Hj).
Qed.
Print Assumptions C20_spin_algebra.

(* non-trivial instance: spin 1/2 over the integers (radicand 1) *)
Example C20_nonvacuous_spin :
  Z.sqrt 0 = 0 /\ 0 <= 1 /\
  (forall i, 0 <= i < 1 -> Z.sqrt ((i + 1) * (1 - i)) * Z.sqrt ((i + 1) * (1 - i))
                           = zr Z 0 1 Z.add Z.mul Z.opp ((i + 1) * (1 - i))) /\
  exists mp mz, jplus_rad 1 = Ok mp /\ jz2_diag 1 = Ok mz /\ Jp Z Z.sqrt mp 0%nat 1%nat = 1.
Proof.
  split; [reflexivity|]. split; [lia|]. split.
  - intros i Hi. assert (i = 0) as -> by lia. reflexivity.
  - eexists. eexists. split; [reflexivity|]. split; reflexivity.
Qed.

(* ------------------------------------------------ qdiags literal flags *)
(* for every Gaussian-integer diagonal the flags qdiags passes to Qobj say
   exactly what holds of the matrix: main diagonal - Hermitian iff every entry
   equals its conjugate, unitary iff every entry times its conjugate is 1 *)
Theorem C20_qdiags_main_diagonal_flags_exact :
  forall d, qdiags_flags (Flat d) [0] =
    (Some (forallb (fun x => geqb (gconj x) x) d),
     Some (forallb (fun x => geqb (gmul x (gconj x)) (1, 0)) d)).
Proof. exact qdiags_flags_main. Qed.
Print Assumptions C20_qdiags_main_diagonal_flags_exact.

(* single off-diagonal: Hermitian iff entirely zero, never unitary *)
Theorem C20_qdiags_offdiagonal_flags_exact :
  forall d k, k <> 0 -> qdiags_flags (Flat d) [k] = (Some (diag_is_zero d), Some false).
Proof. exact qdiags_flags_offdiagonal. Qed.
Print Assumptions C20_qdiags_offdiagonal_flags_exact.

(* the former counterexamples now carry the right flags *)
Example C20_qdiags_flags_former_witnesses :
  qdiags_flags (Flat [(0, 0); (1, 0)]) [0] = (Some true, Some false) /\     (* num(2) *)
  qdiags_flags (Flat [(0, -1)]) [0] = (Some false, Some true) /\            (* qdiags([-1j]) *)
  qdiags_flags (Flat [(0, 0); (0, 0)]) [1] = (Some true, Some false).       (* zero matrix *)
Proof. repeat split. Qed.

(* ----------------------------------------------------- literal gate tables *)
(* the checker run on every table generated from gates.py is sound *)
Theorem C20_gate_checker_sound :
  forall g, gate_ok g = true ->
    gwellformed (g_n g) (g_mat g) = true /\
    (forall b, g_isherm g = Some b ->
       gmat_eqb (g_n g) (g_mat g) (gdag (g_n g) (g_mat g)) = b) /\
    (forall b, g_isunitary g = Some b ->
       gmat_eqb (g_n g) (gmatmul (g_n g) (g_mat g) (gdag (g_n g) (g_mat g)))
                (gscaled_id (g_n g) (g_scale g * g_scale g)) = b).
Proof. exact gate_ok_sound. Qed.
Print Assumptions C20_gate_checker_sound.

(* ------------------------------------------- restricted state enumeration *)
(* state_number_enumerate(dims, E), for every list of dimensions >= 1 and
   every E >= 0: the generator terminates within the model's fuel and yields
   exactly the states with 0 <= n_k < dims_k and sum n_k <= E *)
Theorem C20_enumerate_exact :
  forall dims E, Forall (fun d => 1 <= d) dims -> 0 <= E ->
  exists l, state_number_enumerate dims E = Ok (l, true) /\
            forall st, In st l <-> admissible dims st E.
Proof. exact enumerate_exact. Qed.
Print Assumptions C20_enumerate_exact.

Example C20_nonvacuous_enumerate :
  Forall (fun d => 1 <= d) [2; 3] /\ 0 <= 2 /\ admissible [2; 3] [1; 1] 2 /\
  state_number_enumerate [2; 3] 2 = Ok ([[0; 0]; [0; 1]; [0; 2]; [1; 0]; [1; 1]], true).
Proof.
  split; [repeat constructor; lia|]. split; [lia|].
  split; [split; [repeat constructor; lia|simpl; lia]|reflexivity].
Qed.

(* each state once, in increasing standard (mixed-radix) index order: the
   yielded list is the image of a list whose ranks strictly increase *)
Theorem C20_enumerate_sorted :
  forall dims E, Forall (fun d => 1 <= d) dims ->
  let ps0 := rev (map (fun d => (d, 0)) dims) in
  fst (enum_loop (enum_fuel dims) ps0 E 0) = map occ (enum_ps (enum_fuel dims) ps0 E 0) /\
  StronglySorted (fun a b => rk a < rk b) (enum_ps (enum_fuel dims) ps0 E 0).
Proof. exact enumerate_sorted. Qed.
Print Assumptions C20_enumerate_sorted.

(* dims = [] : the empty state, once *)
Theorem C20_enumerate_empty_dims : forall E, state_number_enumerate [] E = Ok ([[]], true).
Proof. reflexivity. Qed.
Print Assumptions C20_enumerate_empty_dims.

(* enr_destroy over the enumerated dictionary (any list that holds exactly the
   admissible states): no missing key, and every stored element (n2, n1, s)
   is the full-space matrix element <t2| a_idx |t1> = sqrt(s) between the
   states with these indices - the ENR operator is the restriction of
   1 (x) .. destroy .. (x) 1.
   partial: the converse (every non-zero full-space element between two
   admissible states is stored) is checked by the correspondence only. *)
Theorem C20_enr_destroy_restriction_partial :
  forall dims E l idx, (forall st, In st l <-> admissible dims st E) ->
  Forall (fun x => exists n2 n1 s t1 t2,
            x = Ok (n2, n1, s) /\ nth_error l n1 = Some t1 /\ nth_error l n2 = Some t2 /\
            0 < s /\ full_destroy_rad idx t2 t1 = s)
         (enr_destroy_mode l idx).
Proof. exact enr_destroy_restriction. Qed.
Print Assumptions C20_enr_destroy_restriction_partial.

(* --------------------------- constructions behind the random generators *)
(* for every commutative ring with an involutive conjugation (ring morphism):
   0.5 (M + M^dagger) is Hermitian; zeroing a symmetric pair and adding a real
   diagonal keep it Hermitian (rand_herm, all branches) *)
Theorem C20_rand_herm_construction :
  forall (R : Type) (rO rI : R) (radd rmul rsub : R -> R -> R) (ropp : R -> R)
         (Rth : ring_theory rO rI radd rmul rsub ropp eq) (cj : R -> R),
    (forall a b, cj (radd a b) = radd (cj a) (cj b)) ->
    (forall a b, cj (rmul a b) = rmul (cj a) (cj b)) ->
    (forall a, cj (cj a) = a) ->
  forall n h M r c (dg : nat -> R), cj h = h -> (forall i, cj (dg i) = dg i) ->
    hermitian R cj n (herm_part R radd rmul cj h M) /\
    hermitian R cj n (zero_pair R rO r c (herm_part R radd rmul cj h M)) /\
    hermitian R cj n (add_diag R radd dg (zero_pair R rO r c (herm_part R radd rmul cj h M))).
Proof.
  intros R rO rI radd rmul rsub ropp Rth cj A M_ I n h M r c dg Hh Hd.
  pose proof (herm_part_hermitian R rO rI radd rmul rsub ropp Rth cj A M_ I n h M Hh) as H1.
  pose proof (zero_pair_hermitian R rO rI radd rmul rsub ropp Rth cj A n r c _ H1) as H2.
  split; [exact H1|]. split; [exact H2|].
  exact (add_diag_hermitian R radd cj A n dg _ Hd H2).
Qed.
Print Assumptions C20_rand_herm_construction.

(* X X^dagger is Hermitian, its trace is real, and its quadratic form is a
   sum of |.|^2 terms (rand_dm 'ginibre'/'hs', rand_super_bcsz) *)
Theorem C20_gram_matrix_psd_form :
  forall (R : Type) (rO rI : R) (radd rmul rsub : R -> R -> R) (ropp : R -> R)
         (Rth : ring_theory rO rI radd rmul rsub ropp eq) (cj : R -> R),
    (forall a b, cj (radd a b) = radd (cj a) (cj b)) ->
    (forall a b, cj (rmul a b) = rmul (cj a) (cj b)) ->
    (forall a, cj (cj a) = a) ->
  forall n m X (x : nat -> R),
    hermitian R cj n (gram R rO radd rmul cj m X) /\
    cj (sumn R rO radd n (fun i => gram R rO radd rmul cj m X i i))
      = sumn R rO radd n (fun i => gram R rO radd rmul cj m X i i) /\
    sumn R rO radd n (fun i => sumn R rO radd n (fun j =>
        rmul (rmul (cj (x i)) (gram R rO radd rmul cj m X i j)) (x j))) =
    sumn R rO radd m (fun k =>
        let y := sumn R rO radd n (fun i => rmul (cj (X i k)) (x i)) in rmul (cj y) y).
Proof.
  intros R rO rI radd rmul rsub ropp Rth cj A M_ I n m X x.
  split; [exact (gram_hermitian R rO rI radd rmul rsub ropp Rth cj A M_ I n m X)|].
  split; [exact (trace_gram_real R rO rI radd rmul rsub ropp Rth cj A M_ I n m X)|].
  exact (gram_quadratic_form R rO rI radd rmul rsub ropp Rth cj A M_ I n m X x).
Qed.
Print Assumptions C20_gram_matrix_psd_form.

(* rand_kraus_map: the N^2 blocks cut from N orthonormal columns of length
   N^3 satisfy sum_a K_a^dagger K_a = 1 (orthonormality is the assumed
   specification of rand_unitary / QR) *)
Theorem C20_kraus_set_complete :
  forall (R : Type) (rO rI : R) (radd rmul rsub : R -> R -> R) (ropp : R -> R)
         (Rth : ring_theory rO rI radd rmul rsub ropp eq) (cj : R -> R) N (V : nat -> nat -> R),
    (forall j j', (j < N)%nat -> (j' < N)%nat ->
       sumn R rO radd (N * N * N) (fun r => rmul (cj (V r j)) (V r j'))
       = if (j =? j')%nat then rI else rO) ->
    forall j j', (j < N)%nat -> (j' < N)%nat ->
      sumn R rO radd (N * N) (fun a => sumn R rO radd N (fun i =>
          rmul (cj (V (a * N + i)%nat j)) (V (a * N + i)%nat j')))
      = if (j =? j')%nat then rI else rO.
Proof.
  intros R rO rI radd rmul rsub ropp Rth cj N V H.
  exact (kraus_completeness R rO rI radd rmul rsub ropp Rth cj N V H).
Qed.
Print Assumptions C20_kraus_set_complete.

(* the Section hypotheses are satisfiable non-trivially: Gaussian integers
   are not needed - Z with the identity conjugation already is an instance,
   and the orthonormal-columns hypothesis holds for N = 1, V = (1) *)
Example C20_nonvacuous_involution :
  (forall a b : Z, id (a + b) = id a + id b) /\ (forall a b : Z, id (a * b) = id a * id b) /\
  (forall a : Z, id (id a) = a) /\
  (forall j j', (j < 1)%nat -> (j' < 1)%nat ->
     sumn Z 0 Z.add (1 * 1 * 1) (fun r => id ((fun _ _ => 1) r j) * (fun _ _ => 1) r j')
     = if (j =? j')%nat then 1 else 0).
Proof.
  repeat split; try reflexivity. intros j j' Hj Hj'.
  assert (j = 0%nat) as -> by lia. assert (j' = 0%nat) as -> by lia. reflexivity.
Qed.

(* -------------------------------------------------- basis(dims, n, offset) *)
(* the position of the single 1 of basis(dims, n): defined exactly for labels
   inside the dimensions, inside the vector, and different labels give
   different positions (the number states form an orthonormal basis); any
   label outside raises *)
Theorem C20_basis_positions :
  forall dims,
    (forall ns, Forall2 (fun d n => 0 <= n < d) dims ns -> exists p, dims2idx dims ns = Ok p) /\
    (forall ns p, dims2idx dims ns = Ok p ->
       0 <= p < fold_right Z.mul 1 dims /\ Forall2 (fun d n => 0 <= n < d) dims ns) /\
    (forall a b p, dims2idx dims a = Ok p -> dims2idx dims b = Ok p -> a = b).
Proof.
  intros dims. split; [apply dims2idx_total|]. split; [apply dims2idx_bound|apply dims2idx_injective].
Qed.
Print Assumptions C20_basis_positions.


(* ------------------------------------------------- hadamard_transform(N) *)
(* for every number of qubits n and all indices below 2^n, the sign the code
   computes, (-1) ** _hamming_distance(i & j) with the Kernighan bit-count
   loop, is the (i, j) entry of the n-fold tensor power of [[1,1],[1,-1]]
   (the common factor 2^(-n/2) is outside the model) *)
Theorem C20_hadamard_is_tensor_power :
  forall n i j, (i < 2 ^ N.of_nat n)%N -> (j < 2 ^ N.of_nat n)%N ->
    hadamard_sign i j = hpow n i j.
Proof. exact hadamard_sign_is_tensor_power. Qed.
Print Assumptions C20_hadamard_is_tensor_power.

(* _hamming_distance counts the set bits of every non-negative integer (no
   width limit) and the table is symmetric (literal isherm=True) *)
Theorem C20_hamming_distance_counts_bits :
  forall x, hamming_distance x = popN x.
Proof. exact hamming_distance_pop. Qed.
Print Assumptions C20_hamming_distance_counts_bits.

Theorem C20_hadamard_symmetric : forall i j, hadamard_sign i j = hadamard_sign j i.
Proof. exact hadamard_sign_sym. Qed.
Print Assumptions C20_hadamard_symmetric.

Example C20_nonvacuous_hadamard :
  (301 < 2 ^ N.of_nat 9)%N /\ (511 < 2 ^ N.of_nat 9)%N /\
  hadamard_sign 301 511 = -1 /\ hpow 9 301 511 = -1 /\ hamming_distance 301 = 5%nat.
Proof. repeat split; try reflexivity. Qed.

(* ====================================================== extension round *)
(* ---- jmat(j, 'x'|'y'|'z') as the code builds them from J+:
   [Jz, J-] = -J- (doubled) for every j, and for ANY matrices with
   [P, M] = Z2, half + half = 1:  [Jx, Jy] = i Jz  with
   Jx = (P + M) half,  Jy = P (-half i) + M (half i),  Jz = Z2 half *)
Theorem C20_spin_lowering_commutator :
  forall (R : Type) (rO rI : R) (radd rmul rsub : R -> R -> R) (ropp : R -> R)
         (Rth : ring_theory rO rI radd rmul rsub ropp eq) (sq : Z -> R),
    sq 0 = rO ->
  forall J, 0 <= J -> forall mp mz, jplus_rad J = Ok mp -> jz2_diag J = Ok mz ->
  let n := Z.to_nat (J + 1) in
  forall i j, (i < n)%nat -> (j < n)%nat ->
    rsub (mmul R rO radd rmul n (Jz2 R rO rI radd rmul ropp mz) (Jm R sq mp) i j)
         (mmul R rO radd rmul n (Jm R sq mp) (Jz2 R rO rI radd rmul ropp mz) i j)
    = ropp (rmul (zr R rO rI radd rmul ropp 2) (Jm R sq mp i j)).
Proof.
  intros R rO rI radd rmul rsub ropp Rth sq sq0 J HJ mp mz Ep Ez n i j Hi Hj.
  exact (comm_JzJm R rO rI radd rmul rsub ropp Rth sq sq0 J HJ mp mz Ep Ez i j Hi Hj).
Qed.
Print Assumptions C20_spin_lowering_commutator.

Theorem C20_spin_xyz_commutator :
  forall (R : Type) (rO rI : R) (radd rmul rsub : R -> R -> R) (ropp : R -> R)
         (Rth : ring_theory rO rI radd rmul rsub ropp eq) (half im : R),
    radd half half = rI ->
  forall n (P M Z2 : nat -> nat -> R),
    (forall i j, (i < n)%nat -> (j < n)%nat ->
       rsub (mmul R rO radd rmul n P M i j) (mmul R rO radd rmul n M P i j) = Z2 i j) ->
  forall i j, (i < n)%nat -> (j < n)%nat ->
    rsub (mmul R rO radd rmul n (Jx_ R radd rmul half P M) (Jy_ R radd rmul ropp half im P M) i j)
         (mmul R rO radd rmul n (Jy_ R radd rmul ropp half im P M) (Jx_ R radd rmul half P M) i j)
    = rmul im (Jz_ R rmul half Z2 i j).
Proof.
  intros R rO rI radd rmul rsub ropp Rth half im Hh n P M Z2 H i j Hi Hj.
  exact (comm_JxJy R rO rI radd rmul rsub ropp Rth half im Hh n P M Z2 H i j Hi Hj).
Qed.
Print Assumptions C20_spin_xyz_commutator.

(* the commutator premise is satisfiable non-trivially: the 2x2 ladder pair
   over Z with [P, M] = diag(1, -1) *)
Example C20_nonvacuous_xyz :
  exists (P M Z2 : nat -> nat -> Z),
    (forall i j, (i < 2)%nat -> (j < 2)%nat ->
       mmul Z 0 Z.add Z.mul 2 P M i j - mmul Z 0 Z.add Z.mul 2 M P i j = Z2 i j) /\ Z2 0%nat 0%nat = 1.
Proof.
  exists (fun i j => if (i =? 0)%nat && (j =? 1)%nat then 1 else 0),
         (fun i j => if (i =? 1)%nat && (j =? 0)%nat then 1 else 0),
         (fun i j => if (i =? j)%nat then (if (i =? 0)%nat then 1 else -1) else 0).
  split; [|reflexivity]. intros i j Hi Hj.
  destruct i as [|[|i]], j as [|[|j]]; try lia; reflexivity.
Qed.

(* ---- swap(N, M) is the index exchange for every N, M: the row of |m>|n>
   carries its 1 in the column of |n>|m>, the table is a permutation of
   0..NM-1 and swap(N, M) swap(M, N) = 1 *)
Theorem C20_swap_index_exchange :
  forall N M,
    length (swap_cols N M) = (M * N)%nat /\
    (forall m n, (m < M)%nat -> (n < N)%nat -> swap_col N M (m * N + n) = (n * M + m)%nat) /\
    (forall r, (r < M * N)%nat -> (swap_col N M r < N * M)%nat) /\
    (forall r, (r < N * M)%nat -> swap_col N M (swap_col M N r) = r).
Proof.
  intros N M. split; [apply swap_cols_length|]. split; [apply swap_col_exchange|].
  split; [apply swap_col_range|apply swap_col_involution].
Qed.
Print Assumptions C20_swap_index_exchange.

(* closed form used by the harness at large sizes *)
Theorem C20_swap_closed_form :
  forall N M r, (r < M * N)%nat ->
    Z.of_nat (swap_col N M r) = swap_col_formula (Z.of_nat N) (Z.of_nat M) (Z.of_nat r).
Proof. exact swap_col_formula_ok. Qed.
Print Assumptions C20_swap_closed_form.

Example C20_nonvacuous_swap : swap_cols 3 2 = [0; 2; 4; 1; 3; 5]%nat /\ swap_col 3 2 (1 * 3 + 2) = (2 * 2 + 1)%nat.
Proof. split; reflexivity. Qed.

(* ---- W and GHZ states for every number of qubits: the N kets summed by
   w_state sit at 2^(N-1-k), k = 0..N-1 (pairwise different, so with the
   amplitude sqrt(1/N) the norm is 1); ghz_state sums |0..0> and |1..1> at 0
   and 2^N - 1.  Replaces the bounded C20_w_ghz_positions_upto_10. *)
Theorem C20_w_ghz_positions_all_N :
  forall N, length (w_positions N) = N /\
    (forall k, (k < N)%nat -> nth k (w_positions N) (Err EIndex) = Ok (2 ^ Z.of_nat (N - 1 - k))) /\
    ghz_positions N = [Ok 0; Ok (2 ^ Z.of_nat N - 1)].
Proof.
  intros N. split; [apply w_positions_length|]. split; [apply w_position|apply ghz_positions_all].
Qed.
Print Assumptions C20_w_ghz_positions_all_N.

(* ---- thermal_dm: exact rational populations.  analytic: the truncated
   geometric series sums to 1 - (n/(1+n))^N (< 1: not normalised, as
   documented); operator: populations divided by their (positive) sum have
   unit trace *)
Theorem C20_thermal_analytic_trace :
  forall N n, ~ (1 + n == 0)%Q ->
    (qsum (thermal_analytic N n) == 1 - qpow (n / (1 + n)) N)%Q.
Proof. exact thermal_analytic_sum. Qed.
Print Assumptions C20_thermal_analytic_trace.

Theorem C20_thermal_operator_trace :
  forall N n, (0 <= n)%Q -> (1 <= N)%nat -> (qsum (thermal_operator N n) == 1)%Q.
Proof.
  intros N n Hn HN. apply thermal_operator_sum. intros E.
  pose proof (thermal_partition_positive N n Hn HN) as P. rewrite E in P. discriminate.
Qed.
Print Assumptions C20_thermal_operator_trace.

Example C20_nonvacuous_thermal :
  ~ (1 + 1 == 0)%Q /\ map Qred (thermal_analytic 3 1) = [1 # 2; 1 # 4; 1 # 8]%Q.
Proof. split; [discriminate|reflexivity]. Qed.

(* ---- tunneling(N, m) for every N >= 1, 0 <= m <= N: entries, and the
   literal _isunitary = (2m == N) is exact (T T = 1 iff 2m = N) *)
Theorem C20_tunneling_matrix_elements :
  forall N m, 1 <= N -> 0 <= m <= N ->
  exists t, tunneling_mat N m = Ok t /\ dim t = Z.to_nat N /\
    forall i j, (i < Z.to_nat N)%nat -> (j < Z.to_nat N)%nat -> zentry t i j = tun_entry m i j.
Proof. exact tunneling_ok. Qed.
Print Assumptions C20_tunneling_matrix_elements.

Theorem C20_tunneling_unitary_flag_exact :
  forall N m, 1 <= N -> 0 <= m <= N ->
  let n := Z.to_nat N in
  tunneling_isunitary N m = true <->
  (forall i j, (i < n)%nat -> (j < n)%nat ->
     mmul Z 0 Z.add Z.mul n (tun_entry m) (tun_entry m) i j = if (i =? j)%nat then 1 else 0).
Proof. exact tunneling_flag_exact. Qed.
Print Assumptions C20_tunneling_unitary_flag_exact.

(* N - m < 0: np.ones raises *)
Theorem C20_tunneling_error_branch : forall N m, N < m -> tunneling_mat N m = Err ENegLen.
Proof. intros N m H. unfold tunneling_mat. now replace (N - m <? 0) with true by (symmetry; apply Z.ltb_lt; lia). Qed.
Print Assumptions C20_tunneling_error_branch.

(* ---- charge(Nmax, Nmin, frac) for every Nmin <= Nmax and integer frac:
   diagonal frac*(Nmin + i), and the literal _isunitary says exactly that all
   diagonal entries square to 1 *)
Theorem C20_charge_matrix_elements :
  forall Nmax Nmin frac, Nmin <= Nmax ->
  exists t, charge_diag Nmax Nmin frac = Ok t /\ dim t = Z.to_nat (Nmax - Nmin + 1) /\
    forall i j, (i < Z.to_nat (Nmax - Nmin + 1))%nat -> (j < Z.to_nat (Nmax - Nmin + 1))%nat ->
      zentry t i j = if (i =? j)%nat then frac * (Nmin + Z.of_nat i) else 0.
Proof. exact charge_ok. Qed.
Print Assumptions C20_charge_matrix_elements.

Theorem C20_charge_unitary_flag_exact :
  forall Nmax Nmin frac, charge_isunitary Nmax Nmin frac =
    forallb (fun x => x * x =? 1) (map (Z.mul frac) (arange Nmin (Nmax + 1))).
Proof. exact charge_flag_exact. Qed.
Print Assumptions C20_charge_unitary_flag_exact.

(* ---- enr_destroy, converse of C20_enr_destroy_restriction_partial: every
   element <t1 - e_idx| a_idx |t1> = sqrt(t1_idx) between enumerated states is
   stored.  Together: the ENR operator is exactly the restriction of the
   full-space lowering operator to the allowed states. *)
Theorem C20_enr_destroy_complete :
  forall dims E l idx, (forall st, In st l <-> admissible dims st E) ->
  forall n1 t1, nth_error l n1 = Some t1 -> 0 < nth idx t1 0 ->
  exists n2, nth_error l n2 = Some (set_nth idx (nth idx t1 0 - 1) t1) /\
             In (Ok (n2, n1, nth idx t1 0)) (enr_destroy_mode l idx).
Proof. exact enr_destroy_complete. Qed.
Print Assumptions C20_enr_destroy_complete.

(* ---- qft(N) is unitary for every N >= 1: with w an N-th root of unity such
   that w^d - 1 (0 < d < N) is no zero divisor, the table w^(r c) times the
   table of conjugates w^((N-r) c) is N times the identity (the common factor
   1/sqrt(N) of the code squares to 1/N) *)
Theorem C20_qft_unitary :
  forall (R : Type) (rO rI : R) (radd rmul rsub : R -> R -> R) (ropp : R -> R)
         (Rth : ring_theory rO rI radd rmul rsub ropp eq) (w : R) (N : nat),
    (1 <= N)%nat -> rpow R rI rmul w N = rI ->
    (forall d x, (0 < d < N)%nat -> rmul x (rsub (rpow R rI rmul w d) rI) = rO -> x = rO) ->
  forall j j', (j < N)%nat -> (j' < N)%nat ->
    sumn R rO radd N (fun k => rmul (F R rI rmul w j k) (Fdag R rI rmul w N k j')) =
    if (j =? j')%nat then zr R rO rI radd rmul ropp (Z.of_nat N) else rO.
Proof.
  intros R rO rI radd rmul rsub ropp Rth w N HN Hr Hp j j' Hj Hj'.
  exact (qft_unitary R rO rI radd rmul rsub ropp Rth w N HN Hr Hp j j' Hj Hj').
Qed.
Print Assumptions C20_qft_unitary.

(* instance: N = 2, w = -1 over the integers (the unnormalised Hadamard table) *)
Example C20_nonvacuous_qft :
  (1 <= 2)%nat /\ rpow Z 1 Z.mul (-1) 2 = 1 /\
  (forall d x, (0 < d < 2)%nat -> x * (rpow Z 1 Z.mul (-1) d - 1) = 0 -> x = 0) /\
  F Z 1 Z.mul (-1) 1 1 = -1.
Proof.
  split; [lia|]. split; [reflexivity|]. split; [|reflexivity].
  intros d x Hd H. assert (d = 1%nat) as -> by lia. simpl in H. lia.
Qed.

(* ------------------------------------------------------- enr_thermal_dm *)
(* exact rationals, every list of states, every per-mode occupation list
   (zeros allowed: 0^0 = 1).  The populations of enr_thermal_dm are those of
   the product of single-mode thermal states, restricted to the listed states
   and renormalised; they sum to 1.  The normalising sum is non-zero whenever
   the occupations are >= 0 and the vacuum is listed (it always is, by
   C20_enumerate_exact). *)
Theorem C20_enr_thermal_is_restricted_product :
  forall dims n sts,
    length n = length dims -> (forall st, In st sts -> length st = length dims) ->
    (forall d nk, In (d, nk) (combine dims n) -> ~ (partition d nk == 0)%Q) ->
    ~ (qsum (map (enr_weight n) sts) == 0)%Q ->
    forall st, In st sts ->
      (prod_weight dims n st / qsum (map (prod_weight dims n) sts)
       == enr_weight n st / qsum (map (enr_weight n) sts))%Q.
Proof. exact enr_thermal_restricted_product. Qed.
Print Assumptions C20_enr_thermal_is_restricted_product.

Theorem C20_enr_thermal_trace :
  forall sts n, ~ (qsum (map (enr_weight n) sts) == 0)%Q -> (qsum (enr_thermal sts n) == 1)%Q.
Proof. exact enr_thermal_trace. Qed.
Print Assumptions C20_enr_thermal_trace.

Theorem C20_enr_thermal_normaliser_nonzero :
  forall sts n vac, (forall nk, In nk n -> (0 <= nk)%Q) -> In vac sts ->
    (forall s, In s vac -> s = 0) -> ~ (qsum (map (enr_weight n) sts) == 0)%Q.
Proof. exact enr_thermal_sum_positive. Qed.
Print Assumptions C20_enr_thermal_normaliser_nonzero.

(* instance with a zero and a non-zero occupation: dims [3;4], E = 2,
   n = [1/2, 0]: only the states without quanta in the second mode survive *)
Example C20_nonvacuous_enr_thermal :
  map Qred (enr_thermal [[0;0];[0;1];[0;2];[1;0];[1;1];[2;0]] [(1 # 2)%Q; 0%Q])
  = [(9 # 13)%Q; 0%Q; 0%Q; (3 # 13)%Q; 0%Q; (1 # 13)%Q].
Proof. reflexivity. Qed.
