(* C13 for mixed initial ensembles.  Property theorems only; proofs in
   Proofs/C13_mix.v, which composes the ensemble model of C13 with the model
   of _InitialConditions.get_state_index of check C16 and the C14 scheduler. *)
From Coq Require Import List ZArith Bool Arith Lia.
Import ListNotations.
From QV Require Import Model.C14 Proofs.C14 Model.C13 Proofs.C13_ens Model.C16_mix Proofs.C16_mix
                       Model.C13_mix Proofs.C13_mix.

(* for any completion order and keep_runs_results setting: the trajectory
   stored beside seed number id started from the member state k with
   n_0+..+n_{k-1} <= id < n_0+..+n_k (a function of id and the counts alone)
   and is trajm k seed; an id beyond the counts is an IndexError *)
Theorem C13_mixed_member_fixed_by_position :
  forall TR (trajm : nat -> seedid -> TR) counts keep seeds order s tr,
    let r := reduce_all (option TR) keep seeds (mixed_val TR trajm counts seeds) order in
    In (s, tr) (combine (r_seeds r) (r_coll r)) ->
    exists id, In id order /\ nth_error seeds id = Some s /\
      match state_index counts id with
      | Some k => tr = Some (trajm k (sid s)) /\ k < length counts /\
                  psum counts k <= id < psum counts (S k)
      | None => tr = None /\ fold_right plus 0 counts <= id
      end.
Proof. intros TR trajm counts keep seeds order s tr. exact (mixed_entries TR trajm counts keep seeds order s tr). Qed.
Print Assumptions C13_mixed_member_fixed_by_position.

(* under any configuration / schedule / execution point of the parallel map,
   with as many seeds as trajectories: every stored entry belongs to a
   completed task and is (seed, trajectory of (its member state, that seed)) *)
Theorem C13_mixed_any_schedule :
  forall TR (trajm : nat -> seedid -> TR) counts (c : cfg) stopf keep seeds sched e0 fuel,
    reducer c = true -> 1 <= workers c ->
    outs c = map (fun j => Val (Z.of_nat j) (stopf j)) (seq 0 (length seeds)) ->
    length seeds = fold_right plus 0 counts ->
    let st := iter c fuel (init c sched e0) in
    let r := reduce_all (option TR) keep seeds (mixed_val TR trajm counts seeds) (order_of st) in
    forall s tr, In (s, tr) (combine (r_seeds r) (r_coll r)) ->
      exists id k, In id (s_compl st) /\ nth_error seeds id = Some s /\
        tr = Some (trajm k (sid s)) /\ psum counts k <= id < psum counts (S k).
Proof. intros TR trajm counts c stopf keep seeds sched e0 fuel. exact (mixed_any_schedule TR trajm counts c stopf keep seeds sched e0 fuel). Qed.
Print Assumptions C13_mixed_any_schedule.

(* non-vacuity: counts 2,1,3; results arrive in the order 4,0,2,5 *)
Example C13_mixed_nonvacuous :
  mixed_observe 7%Z [2; 1; 3] [4; 0; 2; 5] =
  ([(7%Z, [4]); (7%Z, [0]); (7%Z, [2]); (7%Z, [5])], [Some 2; Some 0; Some 1; Some 2]).
Proof. vm_compute. reflexivity. Qed.
