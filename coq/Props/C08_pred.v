(* C08 - the predicates of the model as exact statements on the Choi matrix
   (definition level), to_super of a plain operator, the vec formula of
   kraus_to_choi and kraus_to_choi o _choi_to_kraus given the eigen-solver
   oracle.  Proofs: Proofs/C08_pred.v (stdlib). *)
From Coq Require Import List ZArith Bool Arith Lia.
Import ListNotations.
From QV Require Import Model.C08 Proofs.C08 Proofs.C08_pauli Model.C08_kraus Proofs.C08_pred.

(* Qobj.ishp says True exactly when the Choi matrix is (square and) Hermitian
   entry by entry - the hypothesis of C08_hp_iff_choi_hermitian *)
Theorem C08_ishp_is_choi_hermitian :
  forall x J, to_choi x = Ok J ->
    (ishp x = true <->
     s_rows J = s_cols J /\
     forall r c, r < s_rows J -> c < s_rows J ->
       mget (s_data J) (s_rows J) r c = gconj (mget (s_data J) (s_rows J) c r)).
Proof. exact ishp_iff. Qed.
Print Assumptions C08_ishp_is_choi_hermitian.

Example C08_nonvacuous_ishp :
  let Jh := mkS [(1,0);(0,1);(0,0);(2,0); (0,-1);(3,0);(0,0);(0,0);
                 (0,0);(0,0);(0,0);(1,1); (2,0);(0,0);(1,-1);(5,0)]%Z (([2], [2]), ([2], [2])) Choi in
  to_choi (QSuper Jh) = Ok Jh /\ ishp (QSuper Jh) = true /\
  ishp (QSuper (mkS [(1,0);(0,1);(0,0);(2,0); (0,1);(3,0);(0,0);(0,0);
                     (0,0);(0,0);(0,0);(1,1); (2,0);(0,0);(1,-1);(5,0)]%Z (([2], [2]), ([2], [2])) Choi)) = false.
Proof. repeat split. Qed.

(* error branch: anything to_choi refuses is reported "not HP" (bare except) *)
Theorem C08_ishp_refused_is_false :
  forall x, (forall J, to_choi x <> Ok J) -> ishp x = false.
Proof. exact ishp_error. Qed.
Print Assumptions C08_ishp_refused_is_false.

(* the test of Qobj.istp on a Choi object labelled [[a, b], [c, d]]: True exactly
   when Tr_out J = 1_in entry by entry - the hypothesis of
   C08_tp_iff_partial_trace_identity; ptrace refuses dims[0] <> dims[1] *)
Theorem C08_istp_is_partial_trace_identity :
  forall (q : sobj GZ) a b c d, s_dims q = ((a, b), (c, d)) ->
    prodl c = prodl a -> prodl d = prodl b ->
    (istp_sobj q = Some true <->
     forall i j, i < prodl a -> j < prodl a ->
       gS (prodl b) (fun x => mget (s_data q) (prodl a * prodl b) (i * prodl b + x) (j * prodl b + x))
       = (if i =? j then g1 else g0)).
Proof. exact istp_sobj_iff. Qed.
Print Assumptions C08_istp_is_partial_trace_identity.

Example C08_nonvacuous_istp_partial_trace :
  let q := mkS [(1,0);(0,0);(0,0);(0,0);(0,0);(0,0); (0,0);(0,0);(0,0);(0,0);(0,0);(0,0);
                (0,0);(0,0);(0,0);(0,0);(0,0);(0,0); (0,0);(0,0);(0,0);(0,0);(0,0);(0,0);
                (0,0);(0,0);(0,0);(0,0);(0,0);(0,0); (0,0);(0,0);(0,0);(0,0);(0,0);(1,0)]%Z
               (([2], [3]), ([2], [3])) Choi in
  s_dims q = (([2], [3]), ([2], [3])) /\ istp_sobj q = Some true.
Proof. split; reflexivity. Qed.

Theorem C08_istp_nonsquare_labels_raise :
  forall (q : sobj GZ) a b c d, s_dims q = ((a, b), (c, d)) ->
    (prodl c <> prodl a \/ prodl d <> prodl b) -> istp_sobj q = None.
Proof. exact istp_sobj_error. Qed.
Print Assumptions C08_istp_nonsquare_labels_raise.

(* the plain-operator branch of Qobj.istp (to_choi(A), then the partial trace):
   it never raises and says True exactly when A is an isometry,
   sum_a A[a,i] conj A[a,j] = delta_ij, for EVERY m x n operator - in particular
   the non-square ones, where isunitary is False *)
Theorem C08_istp_of_operator_is_isometry :
  forall A,
    o_dl A = [o_m A] -> o_dr A = [o_n A] -> 1 < o_m A -> 1 < o_n A ->
    (exists v, istp (QOper A) = Some v) /\
    (istp (QOper A) = Some true <->
     forall i j, i < o_n A -> j < o_n A ->
       gS (o_m A) (fun a => gmul (mget (o_data A) (o_n A) a i) (gconj (mget (o_data A) (o_n A) a j)))
       = (if i =? j then g1 else g0)).
Proof. exact istp_oper_iff. Qed.
Print Assumptions C08_istp_of_operator_is_isometry.

(* a 4 x 2 isometry: TP although not square (not unitary) *)
Example C08_nonvacuous_istp_isometry :
  let V := mkO 4 2 [4] [2] [(1,0);(0,0); (0,0);(0,0); (0,0);(0,0); (0,0);(0,1)]%Z in
  o_dl V = [o_m V] /\ o_dr V = [o_n V] /\ 1 < o_m V /\ 1 < o_n V /\
  istp (QOper V) = Some true /\
  istp (QOper (mkO 4 2 [4] [2] [(1,0);(0,0); (0,0);(0,0); (0,0);(0,0); (0,0);(2,0)]%Z)) = Some false.
Proof. repeat split; try (simpl; lia); vm_compute; reflexivity. Qed.

(* to_super of a plain operator is sprepost(A, A^dag) = kron(conj A, A):
   S[(b*m+a), (j*n+i)] = conj A[b,j] * A[a,i], any shape, labels from the
   operator (size-1 factors dropped), tag super *)
Theorem C08_to_super_of_operator :
  forall A S a b i j,
    to_super (QOper A) = Ok S ->
    a < o_m A -> b < o_m A -> i < o_n A -> j < o_n A ->
    mget (s_data S) (o_n A * o_n A) (b * o_m A + a) (j * o_n A + i)
    = gmul (gconj (mget (o_data A) (o_n A) b j)) (mget (o_data A) (o_n A) a i)
    /\ s_dims S = ((drop1 (o_dl A), drop1 (o_dl A)), (drop1 (o_dr A), drop1 (o_dr A)))
    /\ s_rep S = Super.
Proof. exact to_super_oper_entries. Qed.
Print Assumptions C08_to_super_of_operator.

Example C08_nonvacuous_to_super_of_operator :
  exists S, to_super (QOper (mkO 3 2 [3] [2] [(1,0);(0,1);(2,0);(0,0);(0,-1);(1,1)]%Z)) = Ok S /\
            s_dims S = (([3], [3]), ([2], [2])).
Proof. eexists. split; vm_compute; reflexivity. Qed.

(* kraus_to_choi = sum_k vec(K_k) vec(K_k)^dag on the flat (column stacking)
   indices, any number of operators of any (also rectangular) shape *)
Theorem C08_kraus_to_choi_is_sum_of_vec_outer_products :
  forall K0 Ks J I I',
    kraus_to_choi (K0 :: Ks) = Ok J ->
    I < o_m K0 * o_n K0 -> I' < o_m K0 * o_n K0 ->
    mget (s_data J) (o_m K0 * o_n K0) I I'
    = gsum (map (fun K => gmul (vecF K I) (gconj (vecF K I'))) (K0 :: Ks)).
Proof. exact kraus_vec_formula. Qed.
Print Assumptions C08_kraus_to_choi_is_sum_of_vec_outer_products.

(* _choi_to_kraus after the eigen-solver (K_k = unstack_columns(v_k) sqrt(val_k),
   zero eigenvalues dropped, dims [out, in]) followed by kraus_to_choi:
   entries sum_k (v_k sq_k)[I] conj (v_k sq_k)[I'] over ALL k, labels
   [[in, out], [in, out]] of the Choi matrix, tag choi *)
Theorem C08_kraus_of_spectral_data :
  forall (q : sobj GZ) a b c d sq vecs Jk i x j y,
    s_dims q = ((a, b), (c, d)) ->
    kraus_to_choi (choi_to_kraus_from q sq vecs) = Ok Jk ->
    x < prodl b -> y < prodl b -> i < prodl a -> j < prodl a ->
    mget (s_data Jk) (prodl b * prodl a) (i * prodl b + x) (j * prodl b + y)
    = gS (length sq) (fun k =>
        gmul (gmul (nth (i * prodl b + x) (nth k vecs []) g0) (nth k sq g0))
             (gconj (gmul (nth (j * prodl b + y) (nth k vecs []) g0) (nth k sq g0))))
    /\ s_dims Jk = ((a, b), (a, b)) /\ s_rep Jk = Choi.
Proof. exact kraus_from_spectral. Qed.
Print Assumptions C08_kraus_of_spectral_data.

(* with the oracle's specification J = sum_k sq_k^2 v_k v_k^dag, sq_k real:
   kraus_to_choi (to_kraus J) = J - entries, dims labels and tag *)
Theorem C08_kraus_roundtrip_given_eigensolver :
  forall (q : sobj GZ) a b sq vecs Jk,
    s_dims q = ((a, b), (a, b)) -> s_rep q = Choi ->
    (forall k, k < length sq -> gconj (nth k sq g0) = nth k sq g0) ->
    (forall I I', I < prodl a * prodl b -> I' < prodl a * prodl b ->
       mget (s_data q) (prodl b * prodl a) I I'
       = gS (length sq) (fun k => gmul (gmul (nth k sq g0) (nth k sq g0))
                                    (gmul (nth I (nth k vecs []) g0) (gconj (nth I' (nth k vecs []) g0))))) ->
    kraus_to_choi (choi_to_kraus_from q sq vecs) = Ok Jk ->
    s_dims Jk = s_dims q /\ s_rep Jk = s_rep q /\
    forall i x j y, x < prodl b -> y < prodl b -> i < prodl a -> j < prodl a ->
      mget (s_data Jk) (prodl b * prodl a) (i * prodl b + x) (j * prodl b + y)
      = mget (s_data q) (prodl b * prodl a) (i * prodl b + x) (j * prodl b + y).
Proof. exact kraus_roundtrip_given_spectral. Qed.
Print Assumptions C08_kraus_roundtrip_given_eigensolver.

(* a rank-2 Choi matrix on [[2],[3]] with one zero eigenvalue dropped *)
Example C08_nonvacuous_kraus_roundtrip :
  let v0 := [(1,0);(0,1);(0,0);(2,0);(0,0);(0,-1)]%Z in
  let v1 := [(0,0);(1,0);(1,1);(0,0);(0,0);(0,0)]%Z in
  let v2 := [(0,0);(0,0);(0,0);(0,0);(1,0);(0,0)]%Z in
  let sq := [(2,0);(0,0);(3,0)]%Z in
  let vecs := [v0; v1; v2] in
  let J := mkS (mbuild 6 6 (fun I I' => gS 3 (fun k =>
             gmul (gmul (nth k sq g0) (nth k sq g0))
                  (gmul (nth I (nth k vecs []) g0) (gconj (nth I' (nth k vecs []) g0))))))
               (([2], [3]), ([2], [3])) Choi in
  length (choi_to_kraus_from J sq vecs) = 2 /\
  exists Jk, kraus_to_choi (choi_to_kraus_from J sq vecs) = Ok Jk /\ Jk = J.
Proof. split; [reflexivity|]. eexists. split; vm_compute; reflexivity. Qed.
