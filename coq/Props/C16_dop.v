(* C16 - the mcstep contract for qutip's dop853 integrator: model of
   IntegratorScipyDop853.set_state / mcstep in Model/C16_dop.v (tied to
   scipy_integrator.py by exact trace correspondence on call histories of the
   real integrator), proofs in Proofs/C16_dop.v.  SciPy's dop853 is an oracle:
   integrate(t) reports t, or - going forward - a time short of t by a rounding
   error (`near`), the case mcstep snaps to t (fix c421643). *)
From Coq Require Import List ZArith Bool Lia.
Import ListNotations.
From QV Require Import Model.C16_dop Proofs.C16_dop.
Open Scope Z_scope.

(* a request at the current time is a no-op (fix 85209fd) *)
Theorem C16_dop853_same_time_noop :
  forall s dt r near, d_mcstep s (d_t s) dt r near = (s, (negb (d_isset s), d_t s)).
Proof. exact d_same. Qed.
Print Assumptions C16_dop853_same_time_noop.

(* forward: the answer is exactly the time asked of SciPy, in (ode.t, t], also
   when SciPy stops a rounding error short; it is t when work[6] = 0 or t is
   within ode.t + work[6] *)
Theorem C16_dop853_forward :
  forall s t dt r near,
    d_isset s = true -> d_t s < t -> 0 <= dt ->
    (r = d_target s t dt \/ near = true) ->
    let '(s1, (raised, tout)) := d_mcstep s t dt r near in
    raised = false /\ tout = d_target s t dt /\ d_t s1 = tout /\ d_isset s1 = true /\
    d_t s < tout <= t /\ ((dt = 0 \/ t <= d_t s + dt) -> tout = t).
Proof. exact d_forward. Qed.
Print Assumptions C16_dop853_forward.

(* forward with work[6] > 0 and a target beyond ode.t + work[6]: the answer is
   ode.t + work[6], short of the request *)
Theorem C16_dop853_forward_cut_by_safe_step :
  forall s t dt r near,
    d_isset s = true -> 0 < dt -> d_t s + dt < t ->
    (r = d_target s t dt \/ near = true) ->
    snd (snd (d_mcstep s t dt r near)) = d_t s + dt.
Proof. exact d_forward_cut. Qed.
Print Assumptions C16_dop853_forward_cut_by_safe_step.

(* backward: the requested time *)
Theorem C16_dop853_backward :
  forall s t dt near, d_isset s = true -> t < d_t s ->
    d_mcstep s t dt t near = (mk_dst true t, (false, t)).
Proof. exact d_backward. Qed.
Print Assumptions C16_dop853_backward.

(* a whole collapse search with work[6] = 0: requests in any order - forward,
   backward, repeated - are each answered at exactly the requested time, none
   raises: the hypothesis `stp sg c g = g` of the search theorems holds for
   dop853 too *)
Theorem C16_dop853_search_requests_exact :
  forall ops s, d_isset s = true -> d_all_ok0 s ops ->
    d_trace s ops = map (fun o => (false, req_time o, (true, req_time o))) ops.
Proof. exact d_requests_exact. Qed.
Print Assumptions C16_dop853_search_requests_exact.

Example C16_dop853_nonvacuous :
  let s := d_set_state d_new 0 in
  let ops := [DMc 12 0 11 true; DMc 3 0 3 false; DMc 9 0 9 false; DMc 9 0 0 false; DMc 5 0 5 false] in
  d_isset s = true /\ d_all_ok0 s ops /\
  d_trace s ops = [(false, 12, (true, 12)); (false, 3, (true, 3)); (false, 9, (true, 9));
                   (false, 9, (true, 9)); (false, 5, (true, 5))] /\
  snd (snd (d_mcstep s 12 4 4 false)) = 4.
Proof.
  split; [reflexivity|]. split; [|split; vm_compute; reflexivity].
  cbn. repeat split; auto.
Qed.
