(* C16 - the effective generator built by MCSolver.__init__ (definitions
   regenerated from the source by tools/tx_c16_rhs.py into Gen/C16_rhs.v):
   norm decay = total jump rate, in every dimension n, over every field with
   an involutive ring morphism `conj`, an element iu with conj iu = - iu and
   an element half with conj half = half, half + half = 1. *)
From mathcomp Require Import all_ssreflect all_algebra.
From mathcomp Require Import algC.
From QV Require Import Base.MxHerm Gen.C16_rhs Proofs.C16_gen.
Import GRing.Theory Num.Theory Num.Def.
Local Open Scope ring_scope.

(* rhs = -1j*H - 0.5*sum(n_ops) and, for Hermitian H,  G^dag + G = - sum c^dag c *)
Theorem C16_generator_antihermitian_part :
  forall (R : fieldType) (conj : {rmorphism R -> R}), involutive conj ->
  forall iu half : R, conj iu = - iu -> conj half = half -> half + half = 1 ->
  forall (n : nat) (H : 'M[R]_n) (cs : seq 'M[R]_n),
    ket_rhs conj iu half H cs = (- iu) *: H - half *: (\sum_(c <- cs) dag conj c *m c) /\
    (dag conj H = H ->
     dag conj (ket_rhs conj iu half H cs) + ket_rhs conj iu half H cs
     = - (\sum_(c <- cs) dag conj c *m c)).
Proof.
move=> R conj conjK iu half Hi Hh H2 n H cs; split; first exact: ket_rhs_sum.
exact: generator_antiherm_part.
Qed.
Print Assumptions C16_generator_antihermitian_part.

(* d<psi|psi>/dt under d psi/dt = G psi equals minus the sum of the channel
   rates |c_k psi|^2; these rates are the expectation values of the n_ops *)
Theorem C16_norm_decay_is_total_jump_rate :
  forall (R : fieldType) (conj : {rmorphism R -> R}), involutive conj ->
  forall iu half : R, conj iu = - iu -> conj half = half -> half + half = 1 ->
  forall (n : nat) (H : 'M[R]_n) (cs : seq 'M[R]_n) (psi : 'cV[R]_n),
    dag conj H = H ->
    let G := ket_rhs conj iu half H cs in
    dag conj (G *m psi) *m psi + dag conj psi *m (G *m psi)
    = - (\sum_(c <- cs) dag conj (ket_c_op c *m psi) *m (ket_c_op c *m psi)) /\
    (forall c, dag conj psi *m (ket_n_op conj c *m psi)
               = dag conj (ket_c_op c *m psi) *m (ket_c_op c *m psi)).
Proof.
move=> R conj conjK iu half Hi Hh H2 n H cs psi HH G; split.
  exact: norm_decay_is_total_jump_rate.
move=> c; exact: rate_is_jump_norm.
Qed.
Print Assumptions C16_norm_decay_is_total_jump_rate.

(* superoperator form: rhs = L - 0.5*sum(spre(cdc)+spost(cdc)); the trace
   decays at tr(L rho) minus the sum of the rates tr(c rho c^dag), the
   expectation values of n_ops = c_ops = spre(c)*spost(c^dag); a commutator
   part of L contributes nothing *)
Theorem C16_trace_decay_is_total_jump_rate :
  forall (R : fieldType) (conj : {rmorphism R -> R}) (iu half : R), half + half = 1 ->
  forall (n : nat) (L : 'M[R]_n -> 'M[R]_n) (cs : seq 'M[R]_n) (X H : 'M[R]_n),
    \tr (sup_rhs conj half L cs X) = \tr (L X) - \sum_(c <- cs) \tr (sup_n_op conj c X) /\
    sup_n_op conj = sup_c_op conj /\
    (forall c, sup_c_op conj c X = c *m (X *m dag conj c)) /\
    \tr ((- iu) *: (H *m X - X *m H)) = 0.
Proof.
move=> R conj iu half H2 n L cs X H; split; first exact: trace_decay_is_total_jump_rate.
split; first by []. split; first by []. exact: commutator_traceless.
Qed.
Print Assumptions C16_trace_decay_is_total_jump_rate.

(* the state after a jump, c psi / |c psi|, has norm one *)
Theorem C16_post_jump_state_normalised :
  forall (R : fieldType) (conj : {rmorphism R -> R}),
  forall (n : nat) (v : 'cV[R]_n) (nrm N : R),
    dag conj v *m v = N%:M -> conj nrm = nrm -> nrm * nrm = N -> N != 0 ->
    dag conj (nrm^-1 *: v) *m (nrm^-1 *: v) = 1%:M.
Proof. move=> R conj n v nrm N; exact: post_jump_state_normalised. Qed.
Print Assumptions C16_post_jump_state_normalised.

(* the hypotheses are satisfiable by the complex algebraic numbers with
   complex conjugation, iu = 'i, half = 2^-1 *)
Example C16_nonvacuous_complex :
  involutive (@conjC algCnumClosedField) /\ @conjC algCnumClosedField 'i = - 'i /\
  @conjC algCnumClosedField (2%:R^-1) = 2%:R^-1 /\ (2%:R^-1 + 2%:R^-1 = 1 :> algC).
Proof.
split; first exact: conjCK. split; first exact: conjCi.
split; first by rewrite fmorphV rmorph_nat.
by rewrite -[2%:R^-1]div1r -splitr.
Qed.
