(* C17 - extension: closed-system terms, Rouchon's step, and the term cache of
   the open system.  Property theorems only; proofs in Proofs/C17_sys.v,
   Proofs/C17_rouchon.v, Proofs/C17_cache.v. *)
From mathcomp Require Import all_ssreflect all_algebra.
From QV Require Import Model.C17_sde Model.C17_sys Proofs.C17_sde Proofs.C17_lindblad
                       Proofs.C17_sys Proofs.C17_rouchon Proofs.C17_cache Proofs.C17_sse_norm.
Set Implicit Arguments.
Unset Strict Implicit.
Unset Printing Implicit Defensive.
Import GRing.Theory.
Local Open Scope ring_scope.

(* The wave-function equation: with the closed-system drift
   (-iH - 1/2 sum c^dag c) psi + sum (-e^2/8 psi + e/2 c psi) and diffusion
   c psi - e/2 psi, e = <c + c^dag>, the Euler and Platen steps (the schemes
   modelled for SSESolver), also with measurement input, depend on the
   increments only through dW_0 .. dW_{n-1}: the trajectory is determined by
   its noise record.  Any scalars and operator algebra. *)
Theorem C17_sse_step_determined_by_increments :
  forall (K V : Type) (A : alg K V) (B : malg K V) (re : K -> K)
         (H : V) (sc_ops : list V) meas psi dt (dW1 dW2 : nat -> K),
    (forall i, (i < length sc_ops)%coq_nat -> dW1 i = dW2 i) ->
    let S := closed_sys B re H sc_ops in
    euler_step A S meas psi dt dW1 = euler_step A S meas psi dt dW2 /\
    (forall sdt isdt4, platen_step A S meas psi dt sdt isdt4 dW1
                       = platen_step A S meas psi dt sdt isdt4 dW2).
Proof. intros K V A B re H sc_ops meas psi dt dW1 dW2 Hd. now apply sse_determined. Qed.
Print Assumptions C17_sse_step_determined_by_increments.

(* The closed-system (wave-function) terms keep the norm in the mean: with
   <x, y> = tr(x^dag y) (= x^dag y for kets), drift a and diffusions b_c of
   StochasticClosedSystem, the Ito drift of <psi, psi>,
       <psi, a(psi)> + <a(psi), psi> + sum_c <b_c(psi), b_c(psi)>,
   is identically zero - for every psi (normalised or not), every Hermitian
   H, every list of monitored operators, every dimension, over any
   commutative unit ring with an involutive conjugation, i with conj i = -i
   and a real 1/2.  (The density-matrix counterpart is trace preservation,
   Props/C17_sde.v.) *)
Theorem C17_sse_norm_drift_vanishes :
  forall (R : comUnitRingType) (conj : {rmorphism R -> R}), involutive conj ->
  forall (imag halfr : R), conj imag = - imag -> conj halfr = halfr -> halfr + halfr = 1 ->
  forall (n : nat) (H : 'M[R]_n) (cs : seq 'M[R]_n) (X : 'M[R]_n),
    herm conj H ->
    let B := mc_malg conj imag halfr n in
    ip conj X (closed_drift B H cs X) + ip conj (closed_drift B H cs X) X
    + \sum_(c <- cs) ip conj (closed_diff B c X) (closed_diff B c X) = 0.
Proof. move=> R conj cK imag halfr ci ch h2 n H cs X HH B. exact: norm_drift_zero. Qed.
Print Assumptions C17_sse_norm_drift_vanishes.

Example C17_nonvacuous_sse_norm (R : fieldType) (conj : {rmorphism R -> R}) :
  (2%:R : R) != 0 -> herm conj (1%:M : 'M[R]_3) /\ (2%:R^-1 + 2%:R^-1 = 1 :> R)
                     /\ conj (2%:R^-1) = 2%:R^-1.
Proof.
  move=> H2. split; first by rewrite /herm /dagger trmx1 map_mx1.
  split; first by rewrite -mulr2n -[_ *+ 2]mulr_natr mulVf.
  by rewrite fmorphV rmorph_nat.
Qed.

(* Rouchon's step (density matrix: M rho M^dag + sum c rho c^dag dt divided by
   its trace; wave function: M psi) is determined by the state and the
   increments of the stochastic operators. *)
Theorem C17_rouchon_step_determined_by_increments :
  forall (K V : Type) (B : malg K V) H sc_ops c_ops dt (dW1 dW2 : nat -> K) rho,
    (forall i, (i < length sc_ops)%coq_nat -> dW1 i = dW2 i) ->
    rouchon_step B H sc_ops c_ops dt dW1 rho = rouchon_step B H sc_ops c_ops dt dW2 rho /\
    rouchon_ket_unnorm B H sc_ops dt dW1 rho = rouchon_ket_unnorm B H sc_ops dt dW2 rho.
Proof. intros K V B H sc_ops c_ops dt dW1 dW2 rho Hd. now apply rouchon_determined. Qed.
Print Assumptions C17_rouchon_step_determined_by_increments.

(* Rouchon's step keeps trace one (by its normalisation, whenever the trace
   of the unnormalised state is invertible) and Hermiticity (for Hermitian
   rho and real dt; no condition on H, the operators or the increments: the
   sandwich M rho M^dag is Hermitian for every M).  Every dimension, every
   commutative unit ring with an involutive conjugation. *)
Theorem C17_rouchon_keeps_trace_and_hermiticity :
  forall (R : comUnitRingType) (conj : {rmorphism R -> R}), involutive conj ->
  forall (imag halfr : R) (n : nat) (H : 'M[R]_n) (sc_ops c_ops : seq 'M[R]_n)
         (dt : R) (dW : nat -> R) (rho : 'M[R]_n),
    let B := mc_malg conj imag halfr n in
    \tr (rouchon_unnorm B H sc_ops c_ops dt dW rho) \is a GRing.unit ->
    \tr (rouchon_step B H sc_ops c_ops dt dW rho) = 1 /\
    (herm conj rho -> real conj dt ->
     herm conj (rouchon_unnorm B H sc_ops c_ops dt dW rho) /\
     herm conj (rouchon_step B H sc_ops c_ops dt dW rho)).
Proof.
  move=> R conj conjK imag halfr n H sc_ops c_ops dt dW rho B Hu.
  split; first exact: tr_rouchon_step.
  move=> Hr Hdt. split; first exact: herm_rouchon_unnorm.
  exact: herm_rouchon_step.
Qed.
Print Assumptions C17_rouchon_keeps_trace_and_hermiticity.

Example C17_nonvacuous_rouchon (R : fieldType) (conj : {rmorphism R -> R}) :
  (1 : R) \is a GRing.unit /\ herm conj (1%:M : 'M[R]_2).
Proof. split; first exact: unitr1. by rewrite /herm /dagger trmx1 map_mx1. Qed.

(* Same limit for the wave-function and the density-matrix equation, at the
   level of one Rouchon step: for rho = X X^dag and no unmonitored channel
   the unnormalised density-matrix step is the projector of the unnormalised
   wave-function step, with the same M_dy. *)
Theorem C17_rouchon_pure_state_consistency :
  forall (R : comUnitRingType) (conj : {rmorphism R -> R}), involutive conj ->
  forall (imag halfr : R) (n : nat) (H : 'M[R]_n) (sc_ops : seq 'M[R]_n)
         (dt : R) (dW : nat -> R) (X : 'M[R]_n),
    let B := mc_malg conj imag halfr n in
    rouchon_unnorm B H sc_ops [::] dt dW (X *m dagger conj X)
    = rouchon_ket_unnorm B H sc_ops dt dW X
      *m dagger conj (rouchon_ket_unnorm B H sc_ops dt dW X).
Proof. move=> R conj conjK imag halfr n H sc_ops dt dW X B. exact: rouchon_pure. Qed.
Print Assumptions C17_rouchon_pure_state_consistency.

(* The term cache of StochasticOpenSystem (a, bi, Libj, Lia, L0bi, LiLjbk,
   L0a, expect_i computed on demand, flags cleared by set_state).  After
   set_state(t_k, state_k) on a system object with ANY cache content (i.e.
   after any history of earlier steps, restarts and accessor calls), a step
   that calls a() before L0a() reads only terms computed from (t_k, state_k);
   this holds for the accessor sequences of the steppers that use the cache.
   Hence the result of such a step is a function of (t, state, dW) only. *)
Theorem C17_cached_terms_are_current_after_set_state :
  forall (c : cache) (k : nat),
    (forall tms, a_before_L0a false tms = true ->
       snd (c_run c (SetState k :: map Get tms))
       = None :: map (fun _ => Some (k, k)) tms) /\
    a_before_L0a false prog_taylor15 = true /\
    a_before_L0a false prog_taylor15_imp = true /\
    a_before_L0a false prog_milstein = true /\
    a_before_L0a false prog_predcorr = true.
Proof.
  move=> c k. split; last by [].
  move=> tms Hp. exact: step_reads_current_state.
Qed.
Print Assumptions C17_cached_terms_are_current_after_set_state.

(* ... and for ANY order of accessor calls (every _compute_* method makes sure
   of its own inputs; _compute_L0a did not before the fix recorded in
   known_findings.json). *)
Theorem C17_cached_terms_are_current_for_any_accessor_order :
  forall (c : cache) (k : nat) (tms : list term),
    snd (c_run c (SetState k :: map Get tms)) = None :: map (fun _ => Some (k, k)) tms.
Proof. exact: any_step_reads_current_state. Qed.
Print Assumptions C17_cached_terms_are_current_for_any_accessor_order.
