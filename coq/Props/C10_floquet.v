(* C10 - fsesolve takes the initial state at t = 0 instead of tlist[0].
   Property theorems only; proofs in Proofs/C10_floquet.v.  to_fb / from_fb
   are the Floquet-basis oracle (numerics); the only thing assumed of them is
   that going to the basis and back at one and the same time is the
   identity. *)
From Coq Require Import List ZArith.
Import ListNotations.
From QV Require Import Model.C10_floquet Proofs.C10_floquet.

(* Full statement that every other solver satisfies and that the model of the
   current code does NOT:
     forall basis with roundtrip, psi0, t0, r,
       hd_error (fsesolve ... psi0 (t0 :: r)) = Some psi0
   (the state returned for tlist[0] is the initial state).  Refuted: *)
Theorem C10_fsesolve_initial_state_refuted :
  exists (to_fb : Z -> Z -> Z) (from_fb : Z -> Z -> Z),
    (forall psi t, from_fb (to_fb psi t) t = psi) /\
    exists psi0 t0 r,
      hd_error (fsesolve Z Z Z 0%Z to_fb from_fb psi0 (t0 :: r)) <> Some psi0.
Proof. exact fsesolve_initial_refuted. Qed.
Print Assumptions C10_fsesolve_initial_state_refuted.

(* what does hold for the code as it is: correct when the time list starts
   at 0, for every Floquet basis *)
Theorem C10_fsesolve_initial_state_partial :
  forall (S F T : Type) (tzero : T) (to_fb : S -> T -> F) (from_fb : F -> T -> S),
    (forall psi t, from_fb (to_fb psi t) t = psi) ->
    forall psi0 r,
      hd_error (fsesolve S F T tzero to_fb from_fb psi0 (tzero :: r)) = Some psi0.
Proof. intros S F T tzero to_fb from_fb H psi0 r. exact (fsesolve_t0_zero S F T tzero to_fb from_fb H psi0 r). Qed.
Print Assumptions C10_fsesolve_initial_state_partial.

(* the proposed repair (to_floquet_basis(psi0, tlist[0])) satisfies the full
   statement and does not change any result for time lists starting at 0 *)
Theorem C10_fsesolve_repaired :
  forall (S F T : Type) (tzero : T) (to_fb : S -> T -> F) (from_fb : F -> T -> S),
    (forall psi t, from_fb (to_fb psi t) t = psi) ->
    (forall psi0 t0 r,
       hd_error (fsesolve_at_t0 S F T to_fb from_fb psi0 (t0 :: r)) = Some psi0) /\
    (forall psi0 r,
       fsesolve_at_t0 S F T to_fb from_fb psi0 (tzero :: r)
       = fsesolve S F T tzero to_fb from_fb psi0 (tzero :: r)).
Proof.
  intros S F T tzero to_fb from_fb H. split.
  - intros psi0 t0 r. exact (fsesolve_at_t0_initial S F T to_fb from_fb H psi0 t0 r).
  - intros psi0 r. exact (fsesolve_at_t0_same_when_zero S F T tzero to_fb from_fb psi0 r).
Qed.
Print Assumptions C10_fsesolve_repaired.

(* the hypothesis is satisfiable and the model is not trivial *)
Example C10_nonvacuous_fsesolve :
  (forall psi t, toy_from (toy_to psi t) t = psi) /\
  toy_fsesolve 7 [0; 2; 5]%Z = [7; 9; 12]%Z /\
  toy_fsesolve 7 [5; 6]%Z = [12; 13]%Z /\ toy_fsesolve_at_t0 7 [5; 6]%Z = [7; 8]%Z.
Proof. split; [exact toy_roundtrip|]. vm_compute. repeat split. Qed.
