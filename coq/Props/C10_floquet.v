(* C10 - fsesolve returns the initial state at tlist[0] (after a3f3594).
   Property theorems only; proofs in Proofs/C10_floquet.v.  to_fb / from_fb
   are the Floquet-basis oracle (numerics); the only thing assumed of them is
   that going to the basis and back at one and the same time is the
   identity. *)
From Coq Require Import List ZArith.
Import ListNotations.
From QV Require Import Model.C10_floquet Proofs.C10_floquet.

(* for every Floquet basis, initial state and non-empty time list (starting
   anywhere): one state per time, the first one is the initial state, and the
   k-th one is the initial state carried from tlist[0] to tlist[k] - what
   sesolve and FMESolver.run mean by "state0 is the state at tlist[0]" *)
Theorem C10_fsesolve_initial_state :
  forall (S F T : Type) (to_fb : S -> T -> F) (from_fb : F -> T -> S),
    (forall psi t, from_fb (to_fb psi t) t = psi) ->
    forall psi0 t0 r,
      exists states,
        fsesolve S F T to_fb from_fb psi0 (t0 :: r) = Some states /\
        hd_error states = Some psi0 /\ length states = length (t0 :: r) /\
        forall k t, nth_error (t0 :: r) k = Some t ->
                    nth_error states k = Some (from_fb (to_fb psi0 t0) t).
Proof.
  intros S F T to_fb from_fb H psi0 t0 r.
  destruct (fsesolve_initial S F T to_fb from_fb H psi0 t0 r) as (st & E & Hh & Hl).
  exists st. split; [exact E|]. split; [exact Hh|]. split; [exact Hl|].
  intros k t Hk. exact (fsesolve_states S F T to_fb from_fb psi0 t0 r st k t E Hk).
Qed.
Print Assumptions C10_fsesolve_initial_state.

(* error branch of the totalised model: an empty time list has no tlist[0] *)
Theorem C10_fsesolve_empty_tlist :
  forall (S F T : Type) (to_fb : S -> T -> F) (from_fb : F -> T -> S) psi0,
    fsesolve S F T to_fb from_fb psi0 [] = None.
Proof. intros. apply fsesolve_empty. Qed.
Print Assumptions C10_fsesolve_empty_tlist.

(* the repair changed nothing for time lists that start at the old default *)
Theorem C10_fsesolve_agrees_with_old_rule_from_zero :
  forall (S F T : Type) (to_fb : S -> T -> F) (from_fb : F -> T -> S) (tzero : T) psi0 r,
    fsesolve S F T to_fb from_fb psi0 (tzero :: r)
    = Some (old_fsesolve S F T to_fb from_fb tzero psi0 (tzero :: r)).
Proof. intros. apply old_fsesolve_same_when_zero. Qed.
Print Assumptions C10_fsesolve_agrees_with_old_rule_from_zero.

(* the hypothesis is satisfiable, the model is not trivial, and the rule
   before a3f3594 (psi0 expanded at t = 0) did violate the statement: for
   tlist = [5; 6] it returned 12 instead of the initial state 7 *)
Example C10_nonvacuous_fsesolve :
  (forall psi t, toy_from (toy_to psi t) t = psi) /\
  toy_fsesolve 7 [0; 2; 5]%Z = Some [7; 9; 12]%Z /\
  toy_fsesolve 7 [5; 6]%Z = Some [7; 8]%Z /\
  toy_old_fsesolve 7 [5; 6]%Z = [12; 13]%Z.
Proof. split; [exact toy_roundtrip|]. vm_compute. repeat split. Qed.
