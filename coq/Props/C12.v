(* C12 - result objects report exactly what was computed, aligned with the
   time list.  Property theorems only; proofs are in Proofs/C12.v.

   Quantifiers: every result class of the model (Result, HEOMResult,
   FloquetResult, StochasticTrajResult), every option valuation
   (store_states in {None, True, False}, store_final_state, store_ados,
   store_floquet_states, store_measurement), every form of e_ops (None, single,
   list of any length, dict with any keys; operator / time-dependent operator
   / callback entries), every list of measurement operators, every history
   of `add` calls (any length), and for the run theorems every tlist, every
   integrator (an arbitrary state machine) and every prepare/restore pair.
   The values of expectation operations are oracles (expectQ, expectE, callF),
   as are rho (HierarchyADOsState.rho) and conv (from_floquet_basis). *)
From Coq Require Import List ZArith Bool Arith Lia.
Import ListNotations.
From QV Require Import Model.C12 Proofs.C12 Model.C12_mt Proofs.C12_mt.

Section Props.
  Variables T S V N : Type.
  Variable expectQ : Z -> S -> V.
  Variable expectE : Z -> T -> S -> V.
  Variable callF : Z -> T -> S -> V.
  Variable rho : S -> S.
  Variable conv : S -> T -> S.

  Local Notation ev := (ev T S V expectQ expectE callF rho).
  Local Notation adds := (adds T S V N expectQ expectE callF rho conv).
  Local Notation new_result := (new_result T S V N).
  Local Notation seen := (seen T S N conv).
  Local Notation kept := (kept T S N rho conv).
  Local Notation pt_time := (pt_time T S N).
  Local Notation pt_raw := (pt_raw T S N).
  Local Notation pt := (T * S * option N)%type.

  (* one time per add, in order *)
  Theorem C12_times_one_per_add :
    forall c o e m r0 (pts : list pt), new_result c o e m = Ok r0 ->
      r_times _ _ _ _ (adds r0 pts) = map pt_time pts.
  Proof. intros c o e m r0 pts H. rewrite (adds_spec _ _ _ _ _ _ _ _ _ c o e m r0 pts H). reflexivity. Qed.

  (* every expectation list has one entry per add; entry k is the e_op's own
     operation applied to (time k, the state handed over at add k); the lists
     appear under the dict's keys, in the dict's order; `expect` is the list
     of the same value lists in the same order *)
  Theorem C12_expect_aligned :
    forall c o e m r0 (pts : list pt), new_result c o e m = Ok r0 ->
      e_data _ _ _ _ (adds r0 pts)
      = map (fun ko => (fst ko, map (fun p => ev c (snd ko) (pt_time p) (seen c p)) pts))
            (e_ops_to_dict e)
      /\ expect _ _ _ _ (adds r0 pts) = map snd (e_data _ _ _ _ (adds r0 pts)).
  Proof.
    intros c o e m r0 pts H. rewrite (adds_spec _ _ _ _ _ _ _ _ _ c o e m r0 pts H).
    split; [apply spec_e_data|].
    rewrite spec_e_data. unfold expect, spec. cbn [r_edata].
    rewrite !map_map. reflexivity.
  Qed.

  (* documented keys: none -> no entry; single -> 0; list -> 0..n-1 in order;
     dict -> the user's keys in the user's order; and the operation attached
     to each key is the one supplied under it *)
  Theorem C12_keys_documented :
    forall c o e m r0 (pts : list pt), new_result c o e m = Ok r0 ->
      map fst (e_data _ _ _ _ (adds r0 pts))
      = match e with
        | ENone => []
        | ESingle _ => [KInt 0]
        | EList l => map KInt (seq 0 (length l))
        | EDict d => map fst d
        end
      /\ r_ops _ _ _ _ (adds r0 pts)
         = match e with
           | ENone => []
           | ESingle x => [x]
           | EList l => l
           | EDict d => map snd d
           end.
  Proof.
    intros c o e m r0 pts H. rewrite (adds_spec _ _ _ _ _ _ _ _ _ c o e m r0 pts H).
    split.
    - rewrite spec_e_data, map_map. cbn [fst]. apply dict_keys.
    - unfold spec. cbn [r_ops]. apply dict_ops.
  Qed.

  (* states are stored exactly when store_states is True, or is None and no
     e_ops were given; when stored there is one per add, entry k being the
     state of add k (its system part `rho` for HEOMResult) *)
  Theorem C12_states_stored_iff :
    forall c o e m r0 (pts : list pt), new_result c o e m = Ok r0 ->
      r_states _ _ _ _ (adds r0 pts)
      = (if stores_states o (nops e) then map (kept c) pts else [])
      /\ (stores_states o (nops e) = true <->
          store_states o = Some true \/ (store_states o = None /\ nops e = 0)).
  Proof.
    intros c o e m r0 pts H. rewrite (adds_spec _ _ _ _ _ _ _ _ _ c o e m r0 pts H).
    split; [reflexivity|apply stores_states_iff].
  Qed.

  (* final_state is available exactly when requested or when states are
     stored (and at least one state was added), and is the last state *)
  Theorem C12_final_state_iff :
    forall c o e m r0 (pts : list pt), new_result c o e m = Ok r0 ->
      final_state _ _ _ _ (adds r0 pts)
      = if store_final_state o || stores_states o (nops e)
        then last_opt (map (kept c) pts) else None.
  Proof.
    intros c o e m r0 pts H. rewrite (adds_spec _ _ _ _ _ _ _ _ _ c o e m r0 pts H).
    apply spec_final_state.
  Qed.

  (* a copy of the state is requested exactly when something keeps it *)
  Theorem C12_copy_iff_kept :
    forall c o e m r0 (pts : list pt), new_result c o e m = Ok r0 ->
      r_copy _ _ _ _ (adds r0 pts) = stores_states o (nops e) || store_final_state o.
  Proof.
    intros c o e m r0 pts H. rewrite (adds_spec _ _ _ _ _ _ _ _ _ c o e m r0 pts H).
    apply spec_copy.
  Qed.

  (* construction fails (TypeError) exactly on an unsupported e_op / m_op *)
  Theorem C12_construction_errors :
    forall c o e m,
      (forallb op_ok (map snd (e_ops_to_dict e)) = false ->
         new_result c o e m = Raise TypeError)
      /\ (forallb op_ok (map snd (e_ops_to_dict e)) = true ->
          use_m c o = true -> forallb op_ok m = false ->
          new_result c o e m = Raise TypeError)
      /\ (forallb op_ok (map snd (e_ops_to_dict e)) = true ->
          (use_m c o = true -> forallb op_ok m = true) ->
          exists r0, new_result c o e m = Ok r0).
  Proof.
    intros c o e m. split; [apply new_result_bad_eop|split; [apply new_result_bad_mop|]].
    intros H1 H2. eexists. apply (new_result_ok T S V N expectQ expectE callF rho conv); assumption.
  Qed.

  (* HEOMResult.ado_states: present only with store_ados; filled exactly
     when states are stored, entry k being the ADO state of add k *)
  Theorem C12_heom_ado_states :
    forall o e m r0 (pts : list pt), new_result CHeom o e m = Ok r0 ->
      ado_states _ _ _ _ (adds r0 pts)
      = if store_ados o
        then Obj (if stores_states o (nops e) then map pt_raw pts else [])
        else NoAttr.
  Proof.
    intros o e m r0 pts H. rewrite (adds_spec _ _ _ _ _ _ _ _ _ CHeom o e m r0 pts H).
    unfold ado_states, spec, nops. cbn [r_cls r_opts r_ado is_heom andb].
    destruct (store_ados o); [|reflexivity].
    destruct (stores_states o (length (map snd (e_ops_to_dict e)))); reflexivity.
  Qed.

  (* HEOMResult.final_ado_state: present only with store_ados; it is the
     last ADO state exactly when the final state was requested or states
     are stored (an ADO state, never its system part), None otherwise *)
  Theorem C12_heom_final_ado_state :
    forall o e m r0 (pts : list pt), new_result CHeom o e m = Ok r0 ->
      final_ado_state _ _ _ _ (adds r0 pts)
      = if store_ados o then
          if store_final_state o || stores_states o (nops e)
          then match last_opt (map pt_raw pts) with Some a => Obj a | None => PyNone end
          else PyNone
        else NoAttr.
  Proof.
    intros o e m r0 pts H. rewrite (adds_spec _ _ _ _ _ _ _ _ _ CHeom o e m r0 pts H).
    apply spec_final_ado.
  Qed.

  (* FloquetResult: floquet_states holds the raw (Floquet basis) states, one
     per add, exactly when store_floquet_states; everything else sees the
     state converted at its own time *)
  Theorem C12_floquet_states :
    forall o e m r0 (pts : list pt), new_result CFloquet o e m = Ok r0 ->
      floquet_states _ _ _ _ (adds r0 pts)
      = (if store_floquet_states o then Obj (map pt_raw pts) else PyNone)
      /\ forall p, seen CFloquet p = conv (pt_raw p) (pt_time p).
  Proof.
    intros o e m r0 pts H. rewrite (adds_spec _ _ _ _ _ _ _ _ _ CFloquet o e m r0 pts H).
    split; [|reflexivity].
    unfold floquet_states, spec. cbn [r_cls r_opts r_flo is_flo andb].
    destruct (store_floquet_states o); reflexivity.
  Qed.

  (* what MultiTrajResult tests on a trajectory (`trajectory.states`,
     `trajectory.final_state` as booleans): after at least one add, states
     is non-empty iff states are stored, final_state is not None iff it was
     requested or states are stored *)
  Theorem C12_trajectory_flags :
    forall c o e m r0 (pts : list pt), new_result c o e m = Ok r0 -> pts <> [] ->
      (r_states _ _ _ _ (adds r0 pts) <> [] <-> stores_states o (nops e) = true)
      /\ (final_state _ _ _ _ (adds r0 pts) <> None
          <-> store_final_state o || stores_states o (nops e) = true).
  Proof.
    intros c o e m r0 pts H Hne.
    destruct (C12_states_stored_iff c o e m r0 pts H) as [Hs _].
    rewrite Hs, (C12_final_state_iff c o e m r0 pts H).
    assert (L : last_opt (map (kept c) pts) <> None).
    { destruct pts as [|p pts] using rev_ind; [contradiction|].
      rewrite map_app. cbn [map]. rewrite last_opt_snoc. discriminate. }
    split.
    - destruct (stores_states o (nops e)).
      + split; [reflexivity|]. intros _ E. apply map_eq_nil in E. contradiction.
      + split; [intros E; exfalso; apply E; reflexivity|discriminate].
    - destruct (store_final_state o || stores_states o (nops e)).
      + split; [reflexivity|intros _; exact L].
      + split; [intros E; exfalso; apply E; reflexivity|discriminate].
  Qed.

  (* ---------------------------------------------------------- Solver.run *)
  Variables (D IS : Type).
  Variable prepare : S -> D.
  Variable restore : D -> S.
  Variable set_state : T -> D -> IS.
  Variable integrate : IS -> T -> IS * (T * D * option N).
  Local Notation solver_run :=
    (solver_run T S V N D expectQ expectE callF rho conv IS prepare restore set_state integrate).
  Local Notation run_points := (run_points T S N D IS prepare restore set_state integrate).

  (* the run skeleton: the object returned is the one obtained by adding the
     prepared initial state at tlist[0] and then one point per integrator
     output, in order - so every theorem above applies with
     pts = run_points; in particular there is one time per requested time,
     and they are the requested times when the integrator reports the time
     it was asked for *)
  Theorem C12_run_one_point_per_time :
    forall c o e m s0 tlist r, solver_run c o e m s0 tlist = Ok r ->
      length (r_times _ _ _ _ r) = length tlist
      /\ (forall k vs, In (k, vs) (e_data _ _ _ _ r) -> length vs = length tlist)
      /\ (stores_states o (nops e) = true -> length (r_states _ _ _ _ r) = length tlist)
      /\ ((forall j t, fst (fst (snd (integrate j t))) = t) -> r_times _ _ _ _ r = tlist).
  Proof.
    intros c o e m s0 tlist r H. destruct tlist as [|t0 rest]; [discriminate|].
    rewrite (solver_run_spec T S V N expectQ expectE callF rho conv D IS prepare restore set_state integrate _ _ _ _ _ _ _ _ H).
    assert (L : length (run_points s0 t0 rest) = length (t0 :: rest)).
    { unfold Proofs.C12.run_points. simpl. rewrite map_length, integ_run_length. reflexivity. }
    remember (run_points s0 t0 rest) as P eqn:EP.
    split; [|split; [|split]].
    - unfold spec. cbn [r_times]. rewrite map_length. exact L.
    - intros k vs Hin. rewrite spec_e_data in Hin. apply in_map_iff in Hin.
      destruct Hin as (ko & Hko & _). injection Hko as _ Hvs. subst vs.
      rewrite map_length. exact L.
    - intros St. unfold spec. cbn [r_states]. unfold nops in St. rewrite St.
      rewrite map_length. exact L.
    - intros Ht. subst P. unfold spec. cbn [r_times]. unfold Proofs.C12.run_points. cbn [map].
      unfold Proofs.C12.pt_time at 1. cbn [fst]. f_equal.
      rewrite map_map.
      rewrite <- (integ_run_times T N D IS integrate rest (set_state t0 (prepare s0)) Ht) at 2.
      apply map_ext. intros x. reflexivity.
  Qed.

  Theorem C12_run_is_add_sequence :
    forall c o e m s0 t0 rest r, solver_run c o e m s0 (t0 :: rest) = Ok r ->
      exists r0, new_result c o e m = Ok r0 /\ r = adds r0 (run_points s0 t0 rest)
      /\ hd_error (run_points s0 t0 rest) = Some (t0, restore (prepare s0), None).
  Proof.
    intros c o e m s0 t0 rest r H.
    pose proof (solver_run_spec T S V N expectQ expectE callF rho conv D IS prepare restore set_state integrate _ _ _ _ _ _ _ _ H) as E.
    unfold Model.C12.solver_run in H.
    destruct (new_result c o e m) as [r0|x] eqn:N0; [|discriminate].
    exists r0. split; [reflexivity|]. split; [|reflexivity].
    rewrite (adds_spec _ _ _ _ _ _ _ _ _ c o e m r0 _ N0). exact E.
  Qed.

  Theorem C12_run_errors :
    forall c o e m s0,
      solver_run c o e m s0 [] = Raise IndexError
      /\ forall t0 rest,
           forallb op_ok (map snd (e_ops_to_dict e)) = false ->
           solver_run c o e m s0 (t0 :: rest) = Raise TypeError.
  Proof.
    intros c o e m s0. split; [reflexivity|].
    intros t0 rest Hb. unfold Model.C12.solver_run.
    rewrite (new_result_bad_eop T S V N c o e m Hb). reflexivity.
  Qed.

  (* stochastic trajectories: the first point carries no noise, every
     integrator step carries one increment: dW has len(tlist)-1 columns,
     wiener_process len(tlist); with store_measurement every m_op has one
     expectation per time, so `measurement` has len(tlist)-1 columns in all
     three of its terms; without it `measurement` is None *)
  Theorem C12_stochastic_shapes :
    forall o e m s0 tlist r,
      (forall j t, snd (snd (integrate j t)) <> None) ->
      solver_run CStoch o e m s0 tlist = Ok r ->
      dW_len _ _ _ _ r = length tlist - 1
      /\ wiener_len _ _ _ _ r = length tlist
      /\ measurement_cols _ _ _ _ r
         = if store_measurement o
           then Obj (map (fun _ => length tlist - 1) m, length tlist - 1, length tlist - 1)
           else PyNone.
  Proof.
    intros o e m s0 tlist r Hn H. destruct tlist as [|t0 rest]; [discriminate|].
    rewrite (solver_run_spec T S V N expectQ expectE callF rho conv D IS prepare restore set_state integrate _ _ _ _ _ _ _ _ H).
    assert (L : length (run_points s0 t0 rest) = Datatypes.S (length rest)).
    { unfold Proofs.C12.run_points. simpl. rewrite map_length, integ_run_length. reflexivity. }
    assert (Nz : length (noises T S N (run_points s0 t0 rest)) = length rest).
    { unfold Proofs.C12.run_points. unfold noises. cbn [flat_map snd app].
      apply (integ_run_noise T S N D IS restore integrate rest _ Hn). }
    cbn [length]. rewrite Nat.sub_succ, Nat.sub_0_r.
    split; [|split].
    - unfold dW_len, spec. cbn [r_noise is_stoch]. exact Nz.
    - unfold wiener_len, spec. cbn [r_times]. rewrite map_length. exact L.
    - unfold measurement_cols, spec. cbn [r_cls r_opts r_mexp r_noise r_times use_m is_stoch].
      destruct (store_measurement o); [|reflexivity].
      rewrite Nz, !map_length, L. cbn [pred]. rewrite map_map.
      f_equal. f_equal. f_equal. apply map_ext. intros x. rewrite map_length, L. reflexivity.
  Qed.
End Props.

Print Assumptions C12_times_one_per_add.
Print Assumptions C12_expect_aligned.
Print Assumptions C12_keys_documented.
Print Assumptions C12_states_stored_iff.
Print Assumptions C12_final_state_iff.
Print Assumptions C12_copy_iff_kept.
Print Assumptions C12_construction_errors.
Print Assumptions C12_heom_ado_states.
Print Assumptions C12_heom_final_ado_state.
Print Assumptions C12_floquet_states.
Print Assumptions C12_run_one_point_per_time.
Print Assumptions C12_run_is_add_sequence.
Print Assumptions C12_run_errors.
Print Assumptions C12_stochastic_shapes.

Print Assumptions C12_trajectory_flags.

(* ----------------------------------------------- MultiTrajResult option logic
   (mcsolve, nm_mcsolve, ssesolve, smesolve results): for every valuation of
   store_states / store_final_state / keep_runs_results and every number of
   e_ops, after at least one trajectory over at least one time *)

(* states are available exactly when a single run would store them, whether
   or not the runs are kept; per-run states only when runs are kept *)
Theorem C12_multitraj_states_iff : forall o nops,
  states_avail o nops = stores_states (traj_opts o) nops
  /\ average_states_avail o nops = stores_states (traj_opts o) nops
  /\ runs_states_avail o nops = m_keep o && stores_states (traj_opts o) nops.
Proof. exact mt_states. Qed.
Print Assumptions C12_multitraj_states_iff.

(* the final state is available exactly when requested or states are stored;
   when states are stored the averaged final state *is* the last averaged
   state; otherwise it is summed while running (runs not kept) or from the
   kept runs *)
Theorem C12_multitraj_final_iff : forall o nops,
  (final_avail o nops = m_store_final o || stores_states (traj_opts o) nops
   /\ average_final_avail o nops = m_store_final o || stores_states (traj_opts o) nops
   /\ runs_final_avail o nops
      = m_keep o && (m_store_final o || stores_states (traj_opts o) nops))
  /\ average_final_src o nops
     = if stores_states (traj_opts o) nops then FLastAverageState
       else if m_store_final o then (if m_keep o then FFromTrajectories else FFromSum)
       else FNone.
Proof. intros o nops. split; [apply mt_final|apply mt_final_src]. Qed.
Print Assumptions C12_multitraj_final_iff.

(* e_data / expect are per-run exactly when runs are kept and there are e_ops *)
Theorem C12_multitraj_e_data_kind : forall o nops,
  e_data_is_runs o nops = true <-> (m_keep o = true /\ nops <> 0).
Proof. exact mt_e_data_kind. Qed.
Print Assumptions C12_multitraj_e_data_kind.

(* the processors registered by _post_init are exactly those needed *)
Theorem C12_multitraj_processors : forall o nops,
  hd_error (mt_procs o nops) = Some MIncrement
  /\ (In MStoreTrajectory (mt_procs o nops) <-> m_keep o = true)
  /\ (In MReduceStates (mt_procs o nops)
      <-> (stores_states (traj_opts o) nops = true /\ m_keep o = false))
  /\ (In MReduceFinal (mt_procs o nops)
      <-> (m_store_final o = true /\ stores_states (traj_opts o) nops = false
           /\ m_keep o = false))
  /\ (In MReduceExpect (mt_procs o nops) <-> nops <> 0).
Proof. exact mt_processors. Qed.
Print Assumptions C12_multitraj_processors.

(* Historical note (qutip before commit 676e94e): `old_final_ado_state`
   returned self._final_state, i.e. the system density matrix rho(a) instead
   of the ADO state a, with store_ados, store_final_state and no stored
   states.  The witness below is about the explicitly named old definition,
   and the same input on the model of the current code gives the ADO state. *)
Definition c12_w_opts := {| store_states := None; store_final_state := true;
  store_ados := true; store_floquet_states := false; store_measurement := false |}.
Definition c12_w_eops := ESingle {| o_kind := OQobj; o_id := 3 |}.

Example C12_old_final_ado_state_witness :
  exists r0,
    x_new CHeom c12_w_opts c12_w_eops [] = Ok r0 /\
    old_final_ado_state _ _ _ _ (x_adds r0 [(0, 10, None); (1, 11, None)]%Z) = Obj (x_rho 11%Z) /\
    final_ado_state _ _ _ _ (x_adds r0 [(0, 10, None); (1, 11, None)]%Z) = Obj 11%Z.
Proof. eexists. split; [vm_compute; reflexivity|]. split; vm_compute; reflexivity. Qed.

(* ------------------------------------------------------------ non-vacuity *)
Definition c12_nv_opts := {| store_states := Some true; store_final_state := true;
  store_ados := true; store_floquet_states := true; store_measurement := true |}.
Definition c12_nv_eops := EDict [(KUser 7, {| o_kind := OCall; o_id := 1 |});
                                 (KInt 2, {| o_kind := OQobjEvo; o_id := 2 |})].

(* hypotheses `new_result ... = Ok r0` are satisfiable for each class *)
Example C12_nonvacuous_new :
  forall c, exists r0, x_new c c12_nv_opts c12_nv_eops [{| o_kind := OQobj; o_id := 9 |}] = Ok r0.
Proof. intros c. destruct c; eexists; vm_compute; reflexivity. Qed.

(* the run hypotheses: a scripted integrator that reports the requested
   time and always carries a noise increment *)
Example C12_nonvacuous_run :
  exists r, x_run CStoch c12_nv_opts c12_nv_eops [{| o_kind := OQobj; o_id := 9 |}] 5
              [0; 1; 2]%Z [(1, 21, Some 31); (2, 22, Some 32)]%Z = Ok r.
Proof. eexists. vm_compute. reflexivity. Qed.

Example C12_nonvacuous_integrator :
  exists (integrate : Z -> Z -> Z * (Z * Z * option Z)),
    (forall j t, fst (fst (snd (integrate j t))) = t) /\
    (forall j t, snd (snd (integrate j t)) <> None).
Proof.
  exists (fun j t => ((j + 1)%Z, (t, j, Some t))). split; intros; simpl; [reflexivity|discriminate].
Qed.

(* the construction-error branches are reachable *)
Example C12_nonvacuous_errors :
  x_new CResult c12_nv_opts (EList [{| o_kind := OBad; o_id := 0 |}]) [] = Raise TypeError
  /\ x_new CStoch c12_nv_opts ENone [{| o_kind := OBad; o_id := 0 |}] = Raise TypeError.
Proof. split; vm_compute; reflexivity. Qed.
