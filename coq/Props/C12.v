(* C12 - result objects report exactly what was computed, aligned with the
   time list.  Property theorems only; proofs are in Proofs/C12.v.

   Quantifiers: every result class of the model (Result, HEOMResult,
   FloquetResult, StochasticTrajResult), every option valuation
   (store_states in {None, True, False}, store_final_state, store_ados,
   store_floquet_states, store_measurement), every form of e_ops (None, single,
   list of any length, dict with any keys; operator / time-dependent operator
   / callback entries), every list of measurement operators, every history
   of `add` calls (any length), and for the run theorems every tlist, every
   integrator (an arbitrary state machine) and every prepare/restore pair.
   The values of expectation operations are oracles (expectQ, expectE, callF),
   as are rho (HierarchyADOsState.rho) and conv (from_floquet_basis). *)
From Coq Require Import List ZArith Bool Arith Lia.
Import ListNotations.
From QV Require Import Model.C12 Proofs.C12 Model.C12_mt Proofs.C12_mt.
From QV Require Import Model.C12_mc Proofs.C12_mc Model.C12_sto Proofs.C12_sto.
From QV Require Import Model.C12_nm Proofs.C12_nm.
From QV Require Model.C15 Model.C15_nm.

Section Props.
  Variables T S V N : Type.
  Variable expectQ : Z -> S -> V.
  Variable expectE : Z -> T -> S -> V.
  Variable callF : Z -> T -> S -> V.
  Variable rho : S -> S.
  Variable conv : S -> T -> S.

  Local Notation ev := (ev T S V expectQ expectE callF rho).
  Local Notation adds := (adds T S V N expectQ expectE callF rho conv).
  Local Notation new_result := (new_result T S V N).
  Local Notation seen := (seen T S N conv).
  Local Notation kept := (kept T S N rho conv).
  Local Notation pt_time := (pt_time T S N).
  Local Notation pt_raw := (pt_raw T S N).
  Local Notation pt := (T * S * option N)%type.

  (* one time per add, in order *)
  Theorem C12_times_one_per_add :
    forall c o e m r0 (pts : list pt), new_result c o e m = Ok r0 ->
      r_times _ _ _ _ (adds r0 pts) = map pt_time pts.
  Proof. intros c o e m r0 pts H. rewrite (adds_spec _ _ _ _ _ _ _ _ _ c o e m r0 pts H). reflexivity. Qed.

  (* every expectation list has one entry per add; entry k is the e_op's own
     operation applied to (time k, the state handed over at add k); the lists
     appear under the dict's keys, in the dict's order; `expect` is the list
     of the same value lists in the same order *)
  Theorem C12_expect_aligned :
    forall c o e m r0 (pts : list pt), new_result c o e m = Ok r0 ->
      e_data _ _ _ _ (adds r0 pts)
      = map (fun ko => (fst ko, map (fun p => ev c (snd ko) (pt_time p) (seen c p)) pts))
            (e_ops_to_dict e)
      /\ expect _ _ _ _ (adds r0 pts) = map snd (e_data _ _ _ _ (adds r0 pts)).
  Proof.
    intros c o e m r0 pts H. rewrite (adds_spec _ _ _ _ _ _ _ _ _ c o e m r0 pts H).
    split; [apply spec_e_data|].
    rewrite spec_e_data. unfold expect, spec. cbn [r_edata].
    rewrite !map_map. reflexivity.
  Qed.

  (* documented keys: none -> no entry; single -> 0; list -> 0..n-1 in order;
     dict -> the user's keys in the user's order; and the operation attached
     to each key is the one supplied under it *)
  Theorem C12_keys_documented :
    forall c o e m r0 (pts : list pt), new_result c o e m = Ok r0 ->
      map fst (e_data _ _ _ _ (adds r0 pts))
      = match e with
        | ENone => []
        | ESingle _ => [KInt 0]
        | EList l => map KInt (seq 0 (length l))
        | EDict d => map fst d
        end
      /\ r_ops _ _ _ _ (adds r0 pts)
         = match e with
           | ENone => []
           | ESingle x => [x]
           | EList l => l
           | EDict d => map snd d
           end.
  Proof.
    intros c o e m r0 pts H. rewrite (adds_spec _ _ _ _ _ _ _ _ _ c o e m r0 pts H).
    split.
    - rewrite spec_e_data, map_map. cbn [fst]. apply dict_keys.
    - unfold spec. cbn [r_ops]. apply dict_ops.
  Qed.

  (* states are stored exactly when store_states is True, or is None and no
     e_ops were given; when stored there is one per add, entry k being the
     state of add k (its system part `rho` for HEOMResult) *)
  Theorem C12_states_stored_iff :
    forall c o e m r0 (pts : list pt), new_result c o e m = Ok r0 ->
      r_states _ _ _ _ (adds r0 pts)
      = (if stores_states o (nops e) then map (kept c) pts else [])
      /\ (stores_states o (nops e) = true <->
          store_states o = Some true \/ (store_states o = None /\ nops e = 0)).
  Proof.
    intros c o e m r0 pts H. rewrite (adds_spec _ _ _ _ _ _ _ _ _ c o e m r0 pts H).
    split; [reflexivity|apply stores_states_iff].
  Qed.

  (* final_state is available exactly when requested or when states are
     stored (and at least one state was added), and is the last state *)
  Theorem C12_final_state_iff :
    forall c o e m r0 (pts : list pt), new_result c o e m = Ok r0 ->
      final_state _ _ _ _ (adds r0 pts)
      = if store_final_state o || stores_states o (nops e)
        then last_opt (map (kept c) pts) else None.
  Proof.
    intros c o e m r0 pts H. rewrite (adds_spec _ _ _ _ _ _ _ _ _ c o e m r0 pts H).
    apply spec_final_state.
  Qed.

  (* a copy of the state is requested exactly when something keeps it *)
  Theorem C12_copy_iff_kept :
    forall c o e m r0 (pts : list pt), new_result c o e m = Ok r0 ->
      r_copy _ _ _ _ (adds r0 pts) = stores_states o (nops e) || store_final_state o.
  Proof.
    intros c o e m r0 pts H. rewrite (adds_spec _ _ _ _ _ _ _ _ _ c o e m r0 pts H).
    apply spec_copy.
  Qed.

  (* construction fails (TypeError) exactly on an unsupported e_op / m_op *)
  Theorem C12_construction_errors :
    forall c o e m,
      (forallb op_ok (map snd (e_ops_to_dict e)) = false ->
         new_result c o e m = Raise TypeError)
      /\ (forallb op_ok (map snd (e_ops_to_dict e)) = true ->
          use_m c o = true -> forallb op_ok m = false ->
          new_result c o e m = Raise TypeError)
      /\ (forallb op_ok (map snd (e_ops_to_dict e)) = true ->
          (use_m c o = true -> forallb op_ok m = true) ->
          exists r0, new_result c o e m = Ok r0).
  Proof.
    intros c o e m. split; [apply new_result_bad_eop|split; [apply new_result_bad_mop|]].
    intros H1 H2. eexists. apply (new_result_ok T S V N expectQ expectE callF rho conv); assumption.
  Qed.

  (* HEOMResult.ado_states: present only with store_ados; filled exactly
     when states are stored, entry k being the ADO state of add k *)
  Theorem C12_heom_ado_states :
    forall o e m r0 (pts : list pt), new_result CHeom o e m = Ok r0 ->
      ado_states _ _ _ _ (adds r0 pts)
      = if store_ados o
        then Obj (if stores_states o (nops e) then map pt_raw pts else [])
        else NoAttr.
  Proof.
    intros o e m r0 pts H. rewrite (adds_spec _ _ _ _ _ _ _ _ _ CHeom o e m r0 pts H).
    unfold ado_states, spec, nops. cbn [r_cls r_opts r_ado is_heom andb].
    destruct (store_ados o); [|reflexivity].
    destruct (stores_states o (length (map snd (e_ops_to_dict e)))); reflexivity.
  Qed.

  (* HEOMResult.final_ado_state: present only with store_ados; it is the
     last ADO state exactly when the final state was requested or states
     are stored (an ADO state, never its system part), None otherwise *)
  Theorem C12_heom_final_ado_state :
    forall o e m r0 (pts : list pt), new_result CHeom o e m = Ok r0 ->
      final_ado_state _ _ _ _ (adds r0 pts)
      = if store_ados o then
          if store_final_state o || stores_states o (nops e)
          then match last_opt (map pt_raw pts) with Some a => Obj a | None => PyNone end
          else PyNone
        else NoAttr.
  Proof.
    intros o e m r0 pts H. rewrite (adds_spec _ _ _ _ _ _ _ _ _ CHeom o e m r0 pts H).
    apply spec_final_ado.
  Qed.

  (* FloquetResult: floquet_states holds the raw (Floquet basis) states, one
     per add, exactly when store_floquet_states; everything else sees the
     state converted at its own time *)
  Theorem C12_floquet_states :
    forall o e m r0 (pts : list pt), new_result CFloquet o e m = Ok r0 ->
      floquet_states _ _ _ _ (adds r0 pts)
      = (if store_floquet_states o then Obj (map pt_raw pts) else PyNone)
      /\ forall p, seen CFloquet p = conv (pt_raw p) (pt_time p).
  Proof.
    intros o e m r0 pts H. rewrite (adds_spec _ _ _ _ _ _ _ _ _ CFloquet o e m r0 pts H).
    split; [|reflexivity].
    unfold floquet_states, spec. cbn [r_cls r_opts r_flo is_flo andb].
    destruct (store_floquet_states o); reflexivity.
  Qed.

  (* what MultiTrajResult tests on a trajectory (`trajectory.states`,
     `trajectory.final_state` as booleans): after at least one add, states
     is non-empty iff states are stored, final_state is not None iff it was
     requested or states are stored *)
  Theorem C12_trajectory_flags :
    forall c o e m r0 (pts : list pt), new_result c o e m = Ok r0 -> pts <> [] ->
      (r_states _ _ _ _ (adds r0 pts) <> [] <-> stores_states o (nops e) = true)
      /\ (final_state _ _ _ _ (adds r0 pts) <> None
          <-> store_final_state o || stores_states o (nops e) = true).
  Proof.
    intros c o e m r0 pts H Hne.
    destruct (C12_states_stored_iff c o e m r0 pts H) as [Hs _].
    rewrite Hs, (C12_final_state_iff c o e m r0 pts H).
    assert (L : last_opt (map (kept c) pts) <> None).
    { destruct pts as [|p pts] using rev_ind; [contradiction|].
      rewrite map_app. cbn [map]. rewrite last_opt_snoc. discriminate. }
    split.
    - destruct (stores_states o (nops e)).
      + split; [reflexivity|]. intros _ E. apply map_eq_nil in E. contradiction.
      + split; [intros E; exfalso; apply E; reflexivity|discriminate].
    - destruct (store_final_state o || stores_states o (nops e)).
      + split; [reflexivity|intros _; exact L].
      + split; [intros E; exfalso; apply E; reflexivity|discriminate].
  Qed.

  (* ---------------------------------------------------------- Solver.run *)
  Variables (D IS : Type).
  Variable prepare : S -> D.
  Variable restore : D -> S.
  Variable set_state : T -> D -> IS.
  Variable integrate : IS -> T -> IS * (T * D * option N).
  Local Notation solver_run :=
    (solver_run T S V N D expectQ expectE callF rho conv IS prepare restore set_state integrate).
  Local Notation run_points := (run_points T S N D IS prepare restore set_state integrate).

  (* the run skeleton: the object returned is the one obtained by adding the
     prepared initial state at tlist[0] and then one point per integrator
     output, in order - so every theorem above applies with
     pts = run_points; in particular there is one time per requested time,
     and they are the requested times when the integrator reports the time
     it was asked for *)
  Theorem C12_run_one_point_per_time :
    forall c o e m s0 tlist r, solver_run c o e m s0 tlist = Ok r ->
      length (r_times _ _ _ _ r) = length tlist
      /\ (forall k vs, In (k, vs) (e_data _ _ _ _ r) -> length vs = length tlist)
      /\ (stores_states o (nops e) = true -> length (r_states _ _ _ _ r) = length tlist)
      /\ ((forall j t, fst (fst (snd (integrate j t))) = t) -> r_times _ _ _ _ r = tlist).
  Proof.
    intros c o e m s0 tlist r H. destruct tlist as [|t0 rest];
      [exfalso; exact (solver_run_empty_not_ok T S V N expectQ expectE callF rho conv D IS prepare restore set_state integrate _ _ _ _ _ _ H)|].
    rewrite (solver_run_spec T S V N expectQ expectE callF rho conv D IS prepare restore set_state integrate _ _ _ _ _ _ _ _ H).
    assert (L : length (run_points s0 t0 rest) = length (t0 :: rest)).
    { unfold Proofs.C12.run_points. simpl. rewrite map_length, integ_run_length. reflexivity. }
    remember (run_points s0 t0 rest) as P eqn:EP.
    split; [|split; [|split]].
    - unfold spec. cbn [r_times]. rewrite map_length. exact L.
    - intros k vs Hin. rewrite spec_e_data in Hin. apply in_map_iff in Hin.
      destruct Hin as (ko & Hko & _). injection Hko as _ Hvs. subst vs.
      rewrite map_length. exact L.
    - intros St. unfold spec. cbn [r_states]. unfold nops in St. rewrite St.
      rewrite map_length. exact L.
    - intros Ht. subst P. unfold spec. cbn [r_times]. unfold Proofs.C12.run_points. cbn [map].
      unfold Proofs.C12.pt_time at 1. cbn [fst]. f_equal.
      rewrite map_map.
      rewrite <- (integ_run_times T N D IS integrate rest (set_state t0 (prepare s0)) Ht) at 2.
      apply map_ext. intros x. reflexivity.
  Qed.

  Theorem C12_run_is_add_sequence :
    forall c o e m s0 t0 rest r, solver_run c o e m s0 (t0 :: rest) = Ok r ->
      exists r0, new_result c o e m = Ok r0 /\ r = adds r0 (run_points s0 t0 rest)
      /\ hd_error (run_points s0 t0 rest) = Some (t0, restore (prepare s0), None).
  Proof.
    intros c o e m s0 t0 rest r H.
    pose proof (solver_run_spec T S V N expectQ expectE callF rho conv D IS prepare restore set_state integrate _ _ _ _ _ _ _ _ H) as E.
    unfold Model.C12.solver_run in H.
    destruct (new_result c o e m) as [r0|x] eqn:N0; [|discriminate].
    exists r0. split; [reflexivity|]. split; [|reflexivity].
    rewrite (adds_spec _ _ _ _ _ _ _ _ _ c o e m r0 _ N0). exact E.
  Qed.

  Theorem C12_run_errors :
    forall c o e m s0,
      (* empty tlist: IndexError - except that the multi-trajectory skeleton
         builds the result object first, so an unsupported e_op wins there *)
      (c <> CStoch -> solver_run c o e m s0 [] = Raise IndexError)
      /\ (forallb op_ok (map snd (e_ops_to_dict e)) = true ->
          (use_m c o = true -> forallb op_ok m = true) ->
          solver_run c o e m s0 [] = Raise IndexError)
      /\ (forallb op_ok (map snd (e_ops_to_dict e)) = false ->
          solver_run CStoch o e m s0 [] = Raise TypeError)
      /\ forall t0 rest,
           forallb op_ok (map snd (e_ops_to_dict e)) = false ->
           solver_run c o e m s0 (t0 :: rest) = Raise TypeError.
  Proof.
    intros c o e m s0. split; [|split; [|split]].
    - intros Hc. rewrite solver_run_empty. destruct c; try reflexivity. contradiction.
    - intros H1 H2. rewrite solver_run_empty. destruct c; try reflexivity.
      rewrite (new_result_ok T S V N expectQ expectE callF rho conv CStoch o e m H1 H2).
      reflexivity.
    - intros Hb. rewrite solver_run_empty.
      rewrite (new_result_bad_eop T S V N CStoch o e m Hb). reflexivity.
    - intros t0 rest Hb. unfold Model.C12.solver_run.
      rewrite (new_result_bad_eop T S V N c o e m Hb). reflexivity.
  Qed.

  (* stochastic trajectories: the first point carries no noise, every
     integrator step carries one increment: dW has len(tlist)-1 columns,
     wiener_process len(tlist); with store_measurement every m_op has one
     expectation per time, so `measurement` has len(tlist)-1 columns in all
     three of its terms; without it `measurement` is None *)
  Theorem C12_stochastic_shapes :
    forall o e m s0 tlist r,
      (forall j t, snd (snd (integrate j t)) <> None) ->
      solver_run CStoch o e m s0 tlist = Ok r ->
      dW_len _ _ _ _ r = length tlist - 1
      /\ wiener_len _ _ _ _ r = length tlist
      /\ measurement_cols _ _ _ _ r
         = if store_measurement o
           then Obj (map (fun _ => length tlist - 1) m, length tlist - 1, length tlist - 1)
           else PyNone.
  Proof.
    intros o e m s0 tlist r Hn H. destruct tlist as [|t0 rest];
      [exfalso; exact (solver_run_empty_not_ok T S V N expectQ expectE callF rho conv D IS prepare restore set_state integrate _ _ _ _ _ _ H)|].
    rewrite (solver_run_spec T S V N expectQ expectE callF rho conv D IS prepare restore set_state integrate _ _ _ _ _ _ _ _ H).
    assert (L : length (run_points s0 t0 rest) = Datatypes.S (length rest)).
    { unfold Proofs.C12.run_points. simpl. rewrite map_length, integ_run_length. reflexivity. }
    assert (Nz : length (noises T S N (run_points s0 t0 rest)) = length rest).
    { unfold Proofs.C12.run_points. unfold noises. cbn [flat_map snd app].
      apply (integ_run_noise T S N D IS restore integrate rest _ Hn). }
    cbn [length]. rewrite Nat.sub_succ, Nat.sub_0_r.
    split; [|split].
    - unfold dW_len, spec. cbn [r_noise is_stoch]. exact Nz.
    - unfold wiener_len, spec. cbn [r_times]. rewrite map_length. exact L.
    - unfold measurement_cols, spec. cbn [r_cls r_opts r_mexp r_noise r_times use_m is_stoch].
      destruct (store_measurement o); [|reflexivity].
      rewrite Nz, !map_length, L. cbn [pred]. rewrite map_map.
      f_equal. f_equal. f_equal. apply map_ext. intros x. rewrite map_length, L. reflexivity.
  Qed.
  (* the shape invariant the accessor theorems below assume, for every record
     produced by a stochastic run: one noise increment per step, one m_expect
     row per measurement operator, each with one entry per time *)
  Theorem C12_stochastic_record_invariant :
    forall o e m s0 tlist r,
      (forall j t, snd (snd (integrate j t)) <> None) ->
      solver_run CStoch o e m s0 tlist = Ok r ->
      Datatypes.S (length (r_noise _ _ _ _ r)) = length (r_times _ _ _ _ r)
      /\ length (r_mexp _ _ _ _ r) = (if store_measurement o then length m else 0%nat)
      /\ forall row, In row (r_mexp _ _ _ _ r) -> length row = length (r_times _ _ _ _ r).
  Proof.
    intros o e m s0 tlist r Hn H. destruct tlist as [|t0 rest];
      [exfalso; exact (solver_run_empty_not_ok T S V N expectQ expectE callF rho conv D IS prepare restore set_state integrate _ _ _ _ _ _ H)|].
    rewrite (solver_run_spec T S V N expectQ expectE callF rho conv D IS prepare restore set_state integrate _ _ _ _ _ _ _ _ H).
    assert (L : length (run_points s0 t0 rest) = Datatypes.S (length rest)).
    { unfold Proofs.C12.run_points. simpl. rewrite map_length, integ_run_length. reflexivity. }
    assert (Nz : length (noises T S N (run_points s0 t0 rest)) = length rest).
    { unfold Proofs.C12.run_points. unfold noises. cbn [flat_map snd app].
      apply (integ_run_noise T S N D IS restore integrate rest _ Hn). }
    unfold spec. cbn [r_noise r_times r_mexp use_m is_stoch].
    rewrite map_length, L, Nz. split; [reflexivity|]. split.
    - destruct (store_measurement o); [apply map_length|reflexivity].
    - intros row Hin. destruct (store_measurement o); [|destruct Hin].
      apply in_map_iff in Hin. destruct Hin as (op0 & Hrow & _). subst row.
      rewrite map_length. exact L.
  Qed.
End Props.

Print Assumptions C12_times_one_per_add.
Print Assumptions C12_expect_aligned.
Print Assumptions C12_keys_documented.
Print Assumptions C12_states_stored_iff.
Print Assumptions C12_final_state_iff.
Print Assumptions C12_copy_iff_kept.
Print Assumptions C12_construction_errors.
Print Assumptions C12_heom_ado_states.
Print Assumptions C12_heom_final_ado_state.
Print Assumptions C12_floquet_states.
Print Assumptions C12_run_one_point_per_time.
Print Assumptions C12_run_is_add_sequence.
Print Assumptions C12_run_errors.
Print Assumptions C12_stochastic_shapes.
Print Assumptions C12_stochastic_record_invariant.

Print Assumptions C12_trajectory_flags.

(* ----------------------------------------------- MultiTrajResult option logic
   (mcsolve, nm_mcsolve, ssesolve, smesolve results): for every valuation of
   store_states / store_final_state / keep_runs_results and every number of
   e_ops, after at least one trajectory over at least one time *)

(* states are available exactly when a single run would store them, whether
   or not the runs are kept; per-run states only when runs are kept *)
Theorem C12_multitraj_states_iff : forall o nops,
  states_avail o nops = stores_states (traj_opts o) nops
  /\ average_states_avail o nops = stores_states (traj_opts o) nops
  /\ runs_states_avail o nops = m_keep o && stores_states (traj_opts o) nops.
Proof. exact mt_states. Qed.
Print Assumptions C12_multitraj_states_iff.

(* the final state is available exactly when requested or states are stored;
   when states are stored the averaged final state *is* the last averaged
   state; otherwise it is summed while running (runs not kept) or from the
   kept runs *)
Theorem C12_multitraj_final_iff : forall o nops,
  (final_avail o nops = m_store_final o || stores_states (traj_opts o) nops
   /\ average_final_avail o nops = m_store_final o || stores_states (traj_opts o) nops
   /\ runs_final_avail o nops
      = m_keep o && (m_store_final o || stores_states (traj_opts o) nops))
  /\ average_final_src o nops
     = if stores_states (traj_opts o) nops then FLastAverageState
       else if m_store_final o then (if m_keep o then FFromTrajectories else FFromSum)
       else FNone.
Proof. intros o nops. split; [apply mt_final|apply mt_final_src]. Qed.
Print Assumptions C12_multitraj_final_iff.

(* e_data / expect are per-run exactly when runs are kept and there are e_ops *)
Theorem C12_multitraj_e_data_kind : forall o nops,
  e_data_is_runs o nops = true <-> (m_keep o = true /\ nops <> 0).
Proof. exact mt_e_data_kind. Qed.
Print Assumptions C12_multitraj_e_data_kind.

(* the processors registered by _post_init are exactly those needed *)
Theorem C12_multitraj_processors : forall o nops,
  hd_error (mt_procs o nops) = Some MIncrement
  /\ (In MStoreTrajectory (mt_procs o nops) <-> m_keep o = true)
  /\ (In MReduceStates (mt_procs o nops)
      <-> (stores_states (traj_opts o) nops = true /\ m_keep o = false))
  /\ (In MReduceFinal (mt_procs o nops)
      <-> (m_store_final o = true /\ stores_states (traj_opts o) nops = false
           /\ m_keep o = false))
  /\ (In MReduceExpect (mt_procs o nops) <-> nops <> 0).
Proof. exact mt_processors. Qed.
Print Assumptions C12_multitraj_processors.


(* =========================================================================
   Collapse records of the Monte-Carlo results (Model/C12_mc.v): for every
   number of c_ops, every tlist, every history of add / add_deterministic
   calls and every collapse record *)

(* one record and one weight per added trajectory, in order; deterministic
   (no-jump) trajectories contribute none; col_times[i] / col_which[i] are
   the times / c_ops indices of trajectory i's collapses, pairwise aligned *)
Theorem C12_mc_collapse_records : forall nc times evs,
  let r := mc_run nc times evs in
  (mc_collapse r = map fst (adds_of evs) /\ mc_weights r = map snd (adds_of evs)
   /\ mc_ntraj r = length (adds_of evs) /\ mc_nc r = nc /\ mc_times r = times)
  /\ length (col_times (mc_collapse r)) = length (mc_collapse r)
  /\ length (col_which (mc_collapse r)) = length (mc_collapse r)
  /\ forall i rec, nth_error (mc_collapse r) i = Some rec ->
       nth_error (col_times (mc_collapse r)) i = Some (map fst rec)
       /\ nth_error (col_which (mc_collapse r)) i = Some (map snd rec)
       /\ combine (map fst rec) (map snd rec) = rec.
Proof.
  intros nc times evs r. split; [apply mc_run_records|].
  destruct (col_records (mc_collapse r)) as (A & B & C). split; [exact A|split; [exact B|exact C]].
Qed.
Print Assumptions C12_mc_collapse_records.

(* np.histogram with explicit monotone edges, as used by photocurrent: bin k
   holds the weight of the samples in [e_k, e_k+1) - closed on the right for
   the last bin - for every sample list and every edge list *)
Theorem C12_histogram_bins : forall a e,
  (monotone e = true -> histogram a e = HOk (bin_sums a e)
                        /\ length (bin_sums a e) = pred (length e))
  /\ (monotone e = false -> histogram a e = HRaise HValueError).
Proof.
  intros a e. split; [intros M; split; [apply histogram_ok; exact M|apply bin_sums_length]|].
  apply histogram_err.
Qed.
Print Assumptions C12_histogram_bins.

(* nothing is lost or counted twice: the bins add up to the weight of the
   samples inside [e_0, e_last]; a single sample inside the range contributes
   its weight to exactly one bin in total, a sample outside to none *)
Theorem C12_histogram_conserves : forall a x y e, monotone (x :: y :: e) = true ->
  zsum (bin_sums a (x :: y :: e))
  = wsum (fun u => (x <=? u) && (u <=? lastz (x :: y :: e)))%Z a
  /\ (forall t w, (x <= t <= lastz (x :: y :: e))%Z ->
        zsum (bin_sums [(t, w)] (x :: y :: e)) = w)
  /\ (forall t w, (t < x \/ lastz (x :: y :: e) < t)%Z ->
        zsum (bin_sums [(t, w)] (x :: y :: e)) = 0%Z).
Proof.
  intros a x y e M. rewrite <- !hist_bins by exact M.
  split; [apply hist_total; exact M|]. split; intros t w H.
  - rewrite <- hist_bins by exact M. apply hist_single; assumption.
  - rewrite <- hist_bins by exact M. apply hist_outside; assumption.
Qed.
Print Assumptions C12_histogram_conserves.

(* runs_photocurrent[i][c][k] (times the bin width) is the number of
   collapses of trajectory i through c_op c inside bin k, and every recorded
   collapse inside [tlist[0], tlist[-1]] is counted exactly once over all
   channels and bins *)
Theorem C12_runs_photocurrent_counts : forall r,
  forallb (fun rec => negb (bad_which (mc_nc r) rec)) (mc_collapse r) = true ->
  monotone (mc_times r) = true ->
  runs_photocurrent r = HOk (map (run_counts (mc_nc r) (mc_times r)) (mc_collapse r))
  /\ forall x y e rec, mc_times r = x :: y :: e -> In rec (mc_collapse r) ->
       zsum (map zsum (run_counts (mc_nc r) (x :: y :: e) rec))
       = in_range x (lastz (x :: y :: e)) rec.
Proof.
  intros r B M. split; [apply runs_photocurrent_ok; assumption|].
  intros x y e rec Ht Hin. apply run_counts_total.
  - rewrite forallb_forall in B. specialize (B rec Hin).
    destruct (bad_which (mc_nc r) rec); [discriminate|reflexivity].
  - rewrite <- Ht. exact M.
Qed.
Print Assumptions C12_runs_photocurrent_counts.

(* photocurrent[c] (times num_trajectories and the bin widths) is the
   weight-weighted sum of the per-run histograms, trajectory by trajectory *)
Theorem C12_photocurrent_weighted_runs : forall nc times evs,
  let r := mc_run nc times evs in
  forallb (fun rec => negb (bad_which nc rec)) (mc_collapse r) = true ->
  monotone times = true ->
  photocurrent r
  = HOk (map (fun c => weighted_runs c times (adds_of evs)) (seq 0 nc)).
Proof.
  intros nc times evs r B M.
  destruct (mc_run_records nc times evs) as (A1 & A2 & _ & A4 & A5). fold r in A1, A2, A4, A5.
  rewrite photocurrent_ok.
  - rewrite A4, A5, A1, A2.
    rewrite combine_fst_snd. reflexivity.
  - rewrite A1, A2, !map_length. reflexivity.
  - rewrite A4. exact B.
  - rewrite A5. exact M.
Qed.
Print Assumptions C12_photocurrent_weighted_runs.

(* error branches: a c_ops index outside range(num_c_ops) -> IndexError;
   a tlist that is not monotone -> ValueError (when there is a channel) *)
Theorem C12_photocurrent_errors : forall nc times rec,
  (bad_which nc rec = true -> run_hist nc times rec = HRaise HIndexError)
  /\ (bad_which (Datatypes.S nc) rec = false -> monotone times = false ->
      run_hist (Datatypes.S nc) times rec = HRaise HValueError).
Proof.
  intros nc times rec. split; [apply run_hist_bad_which|apply run_hist_not_monotone].
Qed.
Print Assumptions C12_photocurrent_errors.

Example C12_nonvacuous_photocurrent :
  let evs := [EvAdd [(1, 0%nat); (2, 1%nat); (7, 0%nat)] 1; EvDet [] 1; EvAdd [(4, 1%nat)] 3]%Z in
  let r := mc_run 2 [0; 2; 4]%Z evs in
  forallb (fun rec => negb (bad_which 2 rec)) (mc_collapse r) = true
  /\ monotone [0; 2; 4]%Z = true
  /\ photocurrent r = HOk [[1; 0]; [0; 4]]%Z
  /\ runs_photocurrent r = HOk [[[1; 0]; [0; 1]]; [[0; 0]; [0; 1]]]%Z
  /\ run_hist 1 [0; 2]%Z [(1, 3%nat)]%Z = HRaise HIndexError
  /\ run_hist 1 [2; 0]%Z [(1, 0%nat)]%Z = HRaise HValueError.
Proof. vm_compute. repeat split; reflexivity. Qed.

(* =========================================================================
   Stochastic trajectory records (Model/C12_sto.v): index alignment of dW,
   wiener_process and measurement with the time list, for every well-shaped
   record (C12_stochastic_record_invariant proves the shape for every run) *)

(* dW[i][j] is component i of the increment of step j *)
Theorem C12_dW_index : forall r, st_het r = false -> st_noise r <> [] ->
  rectangular (st_noise r) = true ->
  dW r = SOk (Homodyne (noise_T (st_noise r)))
  /\ length (noise_T (st_noise r)) = nrows (st_noise r)
  /\ forall i j, (i < nrows (st_noise r))%nat -> (j < length (st_noise r))%nat ->
       length (nth i (noise_T (st_noise r)) []) = length (st_noise r)
       /\ nth j (nth i (noise_T (st_noise r)) []) 0%Z = nth i (nth j (st_noise r) []) 0%Z.
Proof.
  intros r Hh Hn Hr. split; [apply dW_homodyne; assumption|].
  destruct (noise_T_shape (st_noise r)) as [L1 L2]. split; [exact L1|].
  intros i j Hi Hj. split; [apply L2; exact Hi|apply noise_T_entry; assumption].
Qed.
Print Assumptions C12_dW_index.

(* wiener_process[i] has one entry per time: 0 at tlist[0], and entry k+1 is
   entry k plus the increment of step k (so entry k is the sum of the first k
   increments) *)
Theorem C12_wiener_process_index : forall r, st_noise r <> [] ->
  rectangular (st_noise r) = true ->
  Datatypes.S (length (st_noise r)) = length (st_times r) ->
  wiener_process r = shape_rows (st_het r) (W_rows (st_noise r))
  /\ length (W_rows (st_noise r)) = nrows (st_noise r)
  /\ forall i, (i < nrows (st_noise r))%nat ->
       length (nth i (W_rows (st_noise r)) []) = length (st_times r)
       /\ nth 0 (nth i (W_rows (st_noise r)) []) 0%Z = 0%Z
       /\ forall k, (k < length (st_noise r))%nat ->
            nth (Datatypes.S k) (nth i (W_rows (st_noise r)) []) 0%Z
            = (nth k (nth i (W_rows (st_noise r)) []) 0 + nth i (nth k (st_noise r) []) 0)%Z.
Proof.
  intros r Hn Hr Hl. split; [apply wiener_ok; assumption|].
  destruct (W_rows_shape (st_noise r)) as [L1 L2]. split; [exact L1|].
  intros i Hi. split; [rewrite (L2 i Hi); exact Hl|]. apply W_rows_entries. exact Hi.
Qed.
Print Assumptions C12_wiener_process_index.

(* measurement[i][j] = expectation of m_op i at the documented end of step j
   ('start': tlist[j], 'end'/True: tlist[j+1], 'middle': the mean of both)
   + dW_factor[i] * (increment i of step j) / (tlist[j+1] - tlist[j]) *)
Theorem C12_measurement_index : forall r,
  conv_ok (st_opt r) = true -> st_mexp r <> [] -> meas_wf r = true ->
  measurement r = shape_rows (st_het r) (meas_rows (st_opt r) r)
  /\ forall i j, (i < nrows (st_noise r))%nat -> (j < length (st_noise r))%nat ->
       length (meas_rows (st_opt r) r) = nrows (st_noise r)
       /\ length (nth i (meas_rows (st_opt r) r) []) = length (st_noise r)
       /\ nth j (nth i (meas_rows (st_opt r) r) []) (0, 1, 0, 0)%Z
          = (fst (mterm (st_opt r) (nth i (st_mexp r) []) j),
             snd (mterm (st_opt r) (nth i (st_mexp r) []) j),
             (nth i (st_factor r) 0 * nth i (nth j (st_noise r) []) 0)%Z,
             (nth (Datatypes.S j) (st_times r) 0 - nth j (st_times r) 0)%Z).
Proof.
  intros r Ho Hm Hw. split; [apply measurement_ok; assumption|].
  intros i j Hi Hj. apply meas_rows_entry; assumption.
Qed.
Print Assumptions C12_measurement_index.

(* heterodyne records: rows 2g and 2g+1 become [g][0] and [g][1] *)
Theorem C12_heterodyne_grouping : forall (A : Type) (rows : list A) (d : A),
  Nat.even (length rows) = true ->
  shape_rows true rows = SOk (Heterodyne (pair_rows rows))
  /\ (2 * length (pair_rows rows) = length rows)%nat
  /\ forall g, (2 * g + 1 < length rows)%nat ->
       nth g (pair_rows rows) (d, d) = (nth (2 * g) rows d, nth (2 * g + 1) rows d).
Proof.
  intros A rows d He. split; [unfold shape_rows; rewrite He; reflexivity|].
  split; [apply pair_rows_length; exact He|]. intros g Hg. apply nth_pair_rows. exact Hg.
Qed.
Print Assumptions C12_heterodyne_grouping.

(* the remaining branches: measurement is None when store_measurement is off,
   empty without m_ops, a ValueError for an unknown convention; without any
   step wiener_process raises IndexError and dW is empty (IndexError for
   heterodyne) *)
Theorem C12_stochastic_accessor_branches : forall r,
  (st_opt r = SMOff -> measurement r = SNone)
  /\ (st_opt r <> SMOff -> st_mexp r = [] -> measurement r = SOk (Homodyne []))
  /\ (st_opt r = SMOther -> st_mexp r <> [] -> measurement r = SRaise SValueError)
  /\ (st_noise r = [] -> wiener_process r = SRaise SIndexError)
  /\ (st_noise r = [] ->
      dW r = if st_het r then SRaise SIndexError else SOk (Homodyne [])).
Proof.
  intros r. split; [apply measurement_off|]. split; [apply measurement_no_mops|].
  split; [apply measurement_other|]. split; [apply wiener_no_noise|apply dW_no_noise].
Qed.
Print Assumptions C12_stochastic_accessor_branches.

(* StochasticResult.measurement / dW / wiener_process: the per-trajectory
   records in trajectory order when the runs are kept or store_measurement
   is set, None otherwise *)
Theorem C12_trajectories_attr : forall (A : Type) keep store (per : list A),
  traj_attr keep store per = if keep || store then SOk per else SNone.
Proof. exact traj_attr_cases. Qed.
Print Assumptions C12_trajectories_attr.

Definition c12_nv_straj (o : smopt) (het : bool) := {|
  st_times := [0; 1; 3; 4]%Z; st_noise := [[1; -2]; [3; 5]; [-1; 0]]%Z;
  st_mexp := [[10; 20; 30; 40]; [1; 2; 3; 4]]%Z; st_factor := [2; 1]%Z;
  st_opt := o; st_het := het |}.

Example C12_nonvacuous_stochastic_records :
  rectangular (st_noise (c12_nv_straj SMStart false)) = true
  /\ meas_wf (c12_nv_straj SMMiddle false) = true
  /\ dW (c12_nv_straj SMStart false) = SOk (Homodyne [[1; 3; -1]; [-2; 5; 0]]%Z)
  /\ wiener_process (c12_nv_straj SMStart true)
     = SOk (Heterodyne [([0; 1; 4; 3], [0; -2; 3; 3])]%Z)
  /\ measurement (c12_nv_straj SMEnd false)
     = SOk (Homodyne [[(20, 1, 2, 1); (30, 1, 6, 2); (40, 1, -2, 1)];
                      [(2, 1, -2, 1); (3, 1, 5, 2); (4, 1, 0, 1)]]%Z)
  /\ measurement (c12_nv_straj SMMiddle false)
     = SOk (Homodyne [[(30, 2, 2, 1); (50, 2, 6, 2); (70, 2, -2, 1)];
                      [(3, 2, -2, 1); (5, 2, 5, 2); (7, 2, 0, 1)]]%Z)
  /\ measurement (c12_nv_straj SMOther false) = SRaise SValueError.
Proof. vm_compute. repeat split; reflexivity. Qed.


(* Historical note (qutip before commit 676e94e): `old_final_ado_state`
   returned self._final_state, i.e. the system density matrix rho(a) instead
   of the ADO state a, with store_ados, store_final_state and no stored
   states.  The witness below is about the explicitly named old definition,
   and the same input on the model of the current code gives the ADO state. *)
Definition c12_w_opts := {| store_states := None; store_final_state := true;
  store_ados := true; store_floquet_states := false; store_measurement := false |}.
Definition c12_w_eops := ESingle {| o_kind := OQobj; o_id := 3 |}.

Example C12_old_final_ado_state_witness :
  exists r0,
    x_new CHeom c12_w_opts c12_w_eops [] = Ok r0 /\
    old_final_ado_state _ _ _ _ (x_adds r0 [(0, 10, None); (1, 11, None)]%Z) = Obj (x_rho 11%Z) /\
    final_ado_state _ _ _ _ (x_adds r0 [(0, 10, None); (1, 11, None)]%Z) = Obj 11%Z.
Proof. eexists. split; [vm_compute; reflexivity|]. split; vm_compute; reflexivity. Qed.

(* ------------------------------------------------------------ non-vacuity *)
Definition c12_nv_opts := {| store_states := Some true; store_final_state := true;
  store_ados := true; store_floquet_states := true; store_measurement := true |}.
Definition c12_nv_eops := EDict [(KUser 7, {| o_kind := OCall; o_id := 1 |});
                                 (KInt 2, {| o_kind := OQobjEvo; o_id := 2 |})].

(* hypotheses `new_result ... = Ok r0` are satisfiable for each class *)
Example C12_nonvacuous_new :
  forall c, exists r0, x_new c c12_nv_opts c12_nv_eops [{| o_kind := OQobj; o_id := 9 |}] = Ok r0.
Proof. intros c. destruct c; eexists; vm_compute; reflexivity. Qed.

(* the run hypotheses: a scripted integrator that reports the requested
   time and always carries a noise increment *)
Example C12_nonvacuous_run :
  exists r, x_run CStoch c12_nv_opts c12_nv_eops [{| o_kind := OQobj; o_id := 9 |}] 5
              [0; 1; 2]%Z [(1, 21, Some 31); (2, 22, Some 32)]%Z = Ok r.
Proof. eexists. vm_compute. reflexivity. Qed.

Example C12_nonvacuous_integrator :
  exists (integrate : Z -> Z -> Z * (Z * Z * option Z)),
    (forall j t, fst (fst (snd (integrate j t))) = t) /\
    (forall j t, snd (snd (integrate j t)) <> None).
Proof.
  exists (fun j t => ((j + 1)%Z, (t, j, Some t))). split; intros; simpl; [reflexivity|discriminate].
Qed.

(* the construction-error branches are reachable *)
Example C12_nonvacuous_errors :
  x_new CResult c12_nv_opts (EList [{| o_kind := OBad; o_id := 0 |}]) [] = Raise TypeError
  /\ x_new CStoch c12_nv_opts ENone [{| o_kind := OBad; o_id := 0 |}] = Raise TypeError.
Proof. split; vm_compute; reflexivity. Qed.

(* =========================================================================
   Trajectory-level run code of the Monte-Carlo solvers (Model/C12_nm.v):
   MCSolver._run_one_traj (both branches) and
   NonMarkovianMCSolver._run_one_traj, for every option valuation, e_ops
   form, tlist, integrator, collapse record and martingale *)
Section TrajProps.
  Variables T S V N D W C M : Type.
  Variable expectQ : Z -> S -> V.
  Variable expectE : Z -> T -> S -> V.
  Variable callF : Z -> T -> S -> V.
  Variable rho : S -> S.
  Variable conv : S -> T -> S.
  Variable IS : Type.
  Variable restore : D -> S.
  Variable set_state : T -> D -> IS.
  Variable integrate : IS -> T -> IS * (T * D * option N).
  Variable zero_like : S -> S.
  Variable collapses : D -> list T -> list C.
  Variable wzero : W.
  Variable wscale : W -> bool -> W.
  Variable wone : W.
  Variable mart : list C -> T -> M.

  Local Notation adds := (adds T S V N expectQ expectE callF rho conv).
  Local Notation mc_run :=
    (mc_run_one_traj T S V N D W C M expectQ expectE callF rho conv IS restore set_state
       integrate zero_like collapses wzero wscale wone).
  Local Notation nm_run :=
    (nm_run_one_traj T S V N D W C M expectQ expectE callF rho conv IS restore set_state
       integrate zero_like collapses wzero wscale wone mart).
  Local Notation run_pts := (run_pts T S N D IS restore set_state integrate zero_like).

  (* the trajectory result is the Result obtained by adding one point per
     requested time (so every add-history theorem above applies): the
     restored initial data and the integrator outputs in the normal branch,
     the zero state at every tlist[k] in the dark-state branch; the collapse
     record is the integrator's (empty in the dark branch), the weight is
     rescaled (0 in the dark branch); times = tlist *)
  Theorem C12_mc_traj_result :
    forall dark fl o e d0 tlist tr, mc_run dark fl o e d0 tlist = Ok tr ->
      (exists r0, new_result T S V N CResult o e [] = Ok r0
                  /\ tr_result _ _ _ _ _ _ _ tr = adds r0 (run_pts dark d0 tlist))
      /\ length (r_times _ _ _ _ (tr_result _ _ _ _ _ _ _ tr)) = length tlist
      /\ ((dark = false -> forall j t, fst (fst (snd (integrate j t))) = t) ->
          r_times _ _ _ _ (tr_result _ _ _ _ _ _ _ tr) = tlist)
      /\ tr_collapse _ _ _ _ _ _ _ tr = (if dark then [] else collapses d0 tlist)
      /\ tr_weight _ _ _ _ _ _ _ tr = (if dark then wzero else wscale wone fl)
      /\ tr_trace _ _ _ _ _ _ _ tr = None
      /\ (dark = true -> forall p, In p (run_pts dark d0 tlist) ->
                           snd (fst p) = zero_like (restore d0)).
  Proof.
    intros dark fl o e d0 tlist tr H.
    destruct (mc_run_spec T S V N D W C M expectQ expectE callF rho conv IS restore set_state
                integrate zero_like collapses wzero wscale wone dark fl o e d0 tlist tr H)
      as (R & Cc & Ww & Tt & Ne).
    split; [|split; [|split; [|split; [exact Cc|split; [exact Ww|split; [exact Tt|]]]]]].
    - unfold Model.C12_nm.mc_run_one_traj in H.
      destruct (new_result T S V N CResult o e []) as [r0|x] eqn:E.
      + exists r0. split; [reflexivity|]. rewrite R.
        symmetry. apply (adds_spec T S V N expectQ expectE callF rho conv _ _ _ _ _ _ E).
      + destruct dark; [discriminate|]. unfold Model.C12_nm.base_run in H. rewrite E in H.
        discriminate.
    - rewrite R. unfold spec. cbn [r_times]. rewrite map_length.
      apply run_pts_length. exact Ne.
    - intros Ht. rewrite R. unfold spec. cbn [r_times]. apply run_pts_times; assumption.
    - intros Hd p Hin. subst dark. unfold Proofs.C12_nm.run_pts, dark_points in Hin.
      apply in_map_iff in Hin. destruct Hin as (t & Hp & _). subst p. reflexivity.
  Qed.

  (* nm_mcsolve: the trajectory's trace has one value per requested time and
     entry k is the martingale at tlist[k], evaluated on the jump record the
     martingale holds when the run returns.
     Full intended statement: that record is this trajectory's own collapse
     record.  Proved in the normal branch; in the dark-state branch the
     integrator (which resets the martingale's record) is never called, and
     the record is whatever was left by the code that ran before (`prev`) -
     hence `_partial`.  (On the implementation a dark state requires a zero
     rate shift on the whole interval, for which every recorded factor is 1;
     no observable difference was found.) *)
  Theorem C12_nm_traj_trace_aligned_partial :
    forall prev dark fl o e d0 tlist tr, nm_run prev dark fl o e d0 tlist = Ok tr ->
      exists l,
        tr_trace _ _ _ _ _ _ _ tr = Some l
        /\ length l = length tlist
        /\ length l = length (r_times _ _ _ _ (tr_result _ _ _ _ _ _ _ tr))
        /\ forall k t, nth_error tlist k = Some t ->
             nth_error l k
             = Some (mart (if dark then prev else tr_collapse _ _ _ _ _ _ _ tr) t).
  Proof.
    intros prev dark fl o e d0 tlist tr H.
    destruct (nm_run_spec T S V N D W C M expectQ expectE callF rho conv IS restore set_state
                integrate zero_like collapses wzero wscale wone mart prev dark fl o e d0 tlist tr H)
      as (tr0 & H0 & R & Cc & _ & Tt).
    destruct (C12_mc_traj_result dark fl o e d0 tlist tr0 H0) as (_ & L & _).
    exists (map (mart (if dark then prev else tr_collapse _ _ _ _ _ _ _ tr0)) tlist).
    split; [exact Tt|]. split; [apply map_length|]. split; [rewrite map_length, R, L; reflexivity|].
    intros k t Hk. rewrite Cc. apply map_nth_error. exact Hk.
  Qed.

  (* errors: an unsupported e_op (TypeError) is detected before the time
     list is read; an empty tlist raises IndexError in the normal branch and
     gives an empty result in the dark-state branch *)
  Theorem C12_traj_run_errors :
    forall fl o e d0 tlist,
      (forallb op_ok (map snd (e_ops_to_dict e)) = false ->
         forall dark, mc_run dark fl o e d0 tlist = Raise TypeError)
      /\ (forallb op_ok (map snd (e_ops_to_dict e)) = true ->
          mc_run false fl o e d0 [] = Raise IndexError
          /\ exists tr, mc_run true fl o e d0 [] = Ok tr
                        /\ r_times _ _ _ _ (tr_result _ _ _ _ _ _ _ tr) = []).
  Proof.
    intros fl o e d0 tlist. split.
    - intros Hb dark. unfold Model.C12_nm.mc_run_one_traj, Model.C12_nm.base_run.
      rewrite (new_result_bad_eop T S V N CResult o e [] Hb). destruct dark; reflexivity.
    - intros Hk.
      pose proof (new_result_ok T S V N expectQ expectE callF rho conv CResult o e [] Hk
                    (fun U => ltac:(discriminate))) as E.
      split.
      + unfold Model.C12_nm.mc_run_one_traj, Model.C12_nm.base_run. rewrite E. reflexivity.
      + unfold Model.C12_nm.mc_run_one_traj. rewrite E. eexists. split; reflexivity.
  Qed.
End TrajProps.
Print Assumptions C12_mc_traj_result.
Print Assumptions C12_nm_traj_trace_aligned_partial.
Print Assumptions C12_traj_run_errors.

Example C12_nonvacuous_traj_runs :
  (exists v, x_nm_run true false true c12_nv_opts c12_nv_eops 5 [0; 1; 2]%Z
               [(1, 21, None); (2, 22, None)]%Z [7; 9]%Z [3]%Z = Ok v)
  /\ (exists v, x_nm_run true true false c12_nv_opts c12_nv_eops 5 [0; 1; 2]%Z [] [7]%Z [3; 4]%Z
                = Ok v)
  /\ x_nm_run false false false c12_nv_opts c12_nv_eops 5 [] [] [] [] = Raise IndexError.
Proof. split; [eexists; vm_compute; reflexivity|split; [eexists; vm_compute; reflexivity|]]. vm_compute. reflexivity. Qed.

(* composition with the NmmcResult model of C15 (Model/C15_nm.v): with
   keep_runs_results, runs_trace lists the traces of the sampled trajectories
   in the order they were added (deterministic ones are not listed); so when
   trajectory i's trace is [martingale_i(t) for t in tlist], runs_trace[i][k]
   is the martingale of trajectory i at tlist[k] *)
Theorem C12_nm_runs_trace_aligned : forall keep evs,
  C15_nm.q_runs_trace (fold_left nm_step evs (C15_nm.nnew keep))
  = (if keep then map C15_nm.n_tr (sampled evs) else [])
  /\ forall (T : Type) (mart : nat -> T -> Qcanon.Qc) (tlist : list T),
       keep = true ->
       (forall i tj, nth_error (sampled evs) i = Some tj -> C15_nm.n_tr tj = map (mart i) tlist) ->
       forall i tj k t, nth_error (sampled evs) i = Some tj -> nth_error tlist k = Some t ->
         exists row, nth_error (C15_nm.q_runs_trace (fold_left nm_step evs (C15_nm.nnew keep))) i
                     = Some row /\ nth_error row k = Some (mart i t).
Proof.
  intros keep evs. split; [apply nm_runs_trace|].
  intros T mart tlist Hk Htr i tj k t Hi Ht. rewrite nm_runs_trace, Hk.
  exists (C15_nm.n_tr tj). split; [apply map_nth_error; exact Hi|].
  rewrite (Htr i tj Hi). apply map_nth_error. exact Ht.
Qed.
Print Assumptions C12_nm_runs_trace_aligned.

(* MultiTrajResult.steady_state(N): the mean of the last N averaged states
   (indices n-N .. n-1) for 0 < N <= n = len(times); of all of them for
   N = 0 or N > n; None when no states are available *)
Theorem C12_steady_state_window : forall (l : list Z) (N : Z),
  ((0 < N <= Z.of_nat (length l))%Z ->
     steady_state (length l) (Some l) N
     = SSValue (Proofs.C12_nm.zsum (skipn (length l - Z.to_nat N) l)) N
     /\ length (skipn (length l - Z.to_nat N) l) = Z.to_nat N
     /\ forall j, (j < Z.to_nat N)%nat ->
          nth j (skipn (length l - Z.to_nat N) l) 0%Z = nth (length l - Z.to_nat N + j) l 0%Z)
  /\ (l <> [] -> (N = 0 \/ Z.of_nat (length l) < N)%Z ->
      steady_state (length l) (Some l) N
      = SSValue (Proofs.C12_nm.zsum l) (Z.of_nat (length l)))
  /\ (forall nt, steady_state nt None N = SSNone).
Proof.
  intros l N. split; [|split; [apply steady_all|intros nt; apply steady_none]].
  intros H. split; [apply steady_last_N; exact H|].
  apply skipn_last_window. lia.
Qed.
Print Assumptions C12_steady_state_window.

(* inputs outside the documented domain, as the code treats them: a negative
   N is not rejected - the first |N| states are dropped and the sum is divided
   by the negative N; with no times at all the division is by zero *)
Theorem C12_steady_state_outside_domain : forall (nt : nat) (l : list Z) (N : Z),
  ((N < 0)%Z -> steady_state nt (Some l) N
               = SSValue (Proofs.C12_nm.zsum (skipn (Z.to_nat (- N)) l)) N)
  /\ steady_state 0 (Some l) 0 = SSZeroDiv.
Proof. intros nt l N. split; [apply steady_negative|apply steady_no_times]. Qed.
Print Assumptions C12_steady_state_outside_domain.

Example C12_nonvacuous_steady_state :
  steady_state 4 (Some [1; 2; 3; 4]%Z) 2 = SSValue 7 2
  /\ steady_state 4 (Some [1; 2; 3; 4]%Z) 0 = SSValue 10 4
  /\ steady_state 4 (Some [1; 2; 3; 4]%Z) 9 = SSValue 10 4
  /\ steady_state 4 (Some [1; 2; 3; 4]%Z) (-1) = SSValue 9 (-1)
  /\ steady_state 4 None 2 = SSNone.
Proof. vm_compute. repeat split; reflexivity. Qed.

Example C12_nonvacuous_runs_trace :
  let t1 := {| C15_nm.n_id := 1%Z; C15_nm.n_x := []; C15_nm.n_trx := [];
               C15_nm.n_tr := [Qcanon.Q2Qc (QArith_base.Qmake 1 1); Qcanon.Q2Qc (QArith_base.Qmake 2 1)] |} in
  let t2 := {| C15_nm.n_id := 2%Z; C15_nm.n_x := []; C15_nm.n_trx := [];
               C15_nm.n_tr := [Qcanon.Q2Qc (QArith_base.Qmake 3 1); Qcanon.Q2Qc (QArith_base.Qmake 4 1)] |} in
  sampled [NmAdd t1 (Qcanon.Q2Qc (QArith_base.Qmake 1 1)); NmDet t2 (Qcanon.Q2Qc (QArith_base.Qmake 1 1)); NmAdd t2 (Qcanon.Q2Qc (QArith_base.Qmake 1 1))] = [t1; t2].
Proof. reflexivity. Qed.

