(* C16 - the contract MCIntegrator needs of Integrator.mcstep is met by the
   model of qutip's zvode integrators (adams, bdf): Model/C11_zvode.v, tied to
   scipy_integrator.py by C11's exact trace correspondence.  Proofs in
   Proofs/C16_mcstep.v.  This discharges, for those integrators, the
   hypothesis `stp sg c g = g` of C16_found_collapse_time_within_tolerances /
   C16_search_requests_inside_bracket and shows that no request of the search
   can make the integrator raise. *)
From Coq Require Import List ZArith Bool Arith Lia.
Import ListNotations.
From QV Require Import Model.C11_zvode Proofs.C11_zvode Proofs.C16_mcstep.
Open Scope Z_scope.

(* requests inside the window [_back, _front], in any order and number: each
   is answered at exactly the requested time, none raises, zvode's own input
   contract is respected, the window does not move *)
Theorem C16_mcstep_window_requests_exact :
  forall rs s, ZInv s -> z_isset s = true ->
    (forall t f, In (t, f) rs -> z_back s <= t <= z_front s) ->
    z_answers s rs = map (fun tf => (false, fst tf, true)) rs /\
    ZInv (z_after s rs) /\ z_isset (z_after s rs) = true /\
    z_back (z_after s rs) = z_back s /\ z_front (z_after s rs) = z_front s.
Proof. exact z_window_requests. Qed.
Print Assumptions C16_mcstep_window_requests_exact.

(* one collapse search as MCIntegrator.integrate performs it: a forward step
   from the front t_old of the window reaches f with t_old < f <= t and makes
   [t_old, f] the window - exactly the bracket given to _find_collapse_time -;
   every later request in (t_old, f] is answered at that time; set_state at the
   collapse time then starts afresh *)
Theorem C16_mcstep_search_pattern :
  forall s t f rs tc,
    ZInv s -> z_isset s = true -> z_t s = z_front s -> z_front s < t -> z_tcur s < f <= t ->
    (forall r g, In (r, g) rs -> z_front s < r <= f) ->
    exists s1,
      z_mcstep s t f = (s1, (false, f, true)) /\
      z_answers s1 rs = map (fun tf => (false, fst tf, true)) rs /\
      z_back (z_after s1 rs) = z_front s /\ z_front (z_after s1 rs) = f /\
      let s2 := z_set_state (z_after s1 rs) tc in
      ZInv s2 /\ z_isset s2 = true /\ z_t s2 = tc /\ z_back s2 = tc /\ z_front s2 = tc.
Proof. exact z_search_pattern. Qed.
Print Assumptions C16_mcstep_search_pattern.

Example C16_mcstep_nonvacuous :
  let s := z_set_state z_new 0 in
  ZInv s /\ z_isset s = true /\ z_t s = z_front s /\
  exists s1, z_mcstep s 10 4 = (s1, (false, 4, true)) /\
    z_answers s1 [(2, 0); (1, 0); (3, 0); (3, 0); (4, 0)]
    = [(false, 2, true); (false, 1, true); (false, 3, true); (false, 3, true); (false, 4, true)].
Proof.
  split; [apply z_set_inv|]. split; [reflexivity|]. split; [reflexivity|].
  eexists. split; vm_compute; reflexivity.
Qed.
