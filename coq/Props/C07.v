(* C07 - superoperator constructors implement the operator identities they
   stand for.  Property theorems only; proofs are in Proofs/C07.v (Tier A,
   MathComp) and Proofs/C07_br.v (Tier B, executable element formula).

   Quantifiers: every field R with a ring involution `conj` (the complex
   numbers are one instance), every dimension n (and every rectangular shape
   where stated), every operand matrix / operand term, every list of collapse
   operators with counting-field parameters chi, every operator X acted on.
   The terms gen_* are GENERATED from the current qutip source by
   tools/tx_c07_superop.py (coq/Gen/C07_terms.v); `den e` is the matrix the
   constructor returns (kron / kron_transpose / add / mul semantics of the
   data layer), `act e X` the operator expression it stands for.
   i, h, expi stand for 1j, 0.5 and chi |-> np.exp(1j*chi).               *)
From mathcomp Require Import all_ssreflect all_algebra.
From mathcomp Require Import mxtens.
From QV Require Import Base.MxHerm Model.C07 Gen.C07_terms Proofs.C07.
From QV Require Import Model.C07_br Proofs.C07_br.
Set Implicit Arguments. Unset Strict Implicit. Unset Printing Implicit Defensive.
Import GRing.Theory.
Local Open Scope ring_scope.

(* ---- stacking and unstacking are mutually inverse (all shapes) ---- *)
Theorem C07_stack_unstack_inverse :
  forall (R : fieldType) (m n : nat),
    (forall X : 'M[R]_(m,n), unvec (cvec X) = X) /\
    (forall v : 'cV[R]_(n * m), cvec (unvec v) = v).
Proof. move=> R m n; split; [exact: cvecK | exact: unvecK]. Qed.
Print Assumptions C07_stack_unstack_inverse.

(* the stacked index of entry (r,c) is r + rows*c (superoperator.stacked_index) *)
Theorem C07_stacked_index :
  forall (R : fieldType) (m n : nat) (X : 'M[R]_(m,n)) (r : 'I_m) (c : 'I_n),
    cvec X (mxtens_index (c, r)) 0 = X r c /\
    (mxtens_index (c, r) : nat) = (r + m * c)%N.
Proof. exact: cvec_index. Qed.
Print Assumptions C07_stacked_index.

(* vec(A X B) = (B^T (x) A) vec(X) for all (rectangular) shapes: the
   Kronecker form of pre/post multiplication under column stacking *)
Theorem C07_vec_sandwich :
  forall (R : fieldType) m n p q
         (A : 'M[R]_(m,n)) (X : 'M[R]_(n,p)) (B : 'M[R]_(p,q)),
    cvec (A *m X *m B) = (B^T *t A) *m cvec X.
Proof. exact: vec_sandwich. Qed.
Print Assumptions C07_vec_sandwich.

(* meta-theorem: for EVERY term built from the data-layer primitives, the
   returned matrix applied to the stacked operator is the stacked result of
   the operator expression *)
Theorem C07_den_act :
  forall (R : fieldType) (conj : {rmorphism R -> R}) n (e : Sexpr R n) (X : 'M[R]_n),
    den conj e *m cvec X = cvec (act conj e X).
Proof. exact: den_act. Qed.
Print Assumptions C07_den_act.

(* spre / spost / sprepost (both routes) as generated from the source *)
Theorem C07_spre :
  forall (R : fieldType) (conj : {rmorphism R -> R}) n (A : Oexpr R n) X,
    den conj (gen_spre A) *m cvec X = cvec (oden conj A *m X).
Proof. by move=> R conj n A X; rewrite den_act act_spre. Qed.
Print Assumptions C07_spre.

Theorem C07_spost :
  forall (R : fieldType) (conj : {rmorphism R -> R}) n (A : Oexpr R n) X,
    den conj (gen_spost A) *m cvec X = cvec (X *m oden conj A).
Proof. by move=> R conj n A X; rewrite den_act act_spost. Qed.
Print Assumptions C07_spost.

Theorem C07_sprepost :
  forall (R : fieldType) (conj : {rmorphism R -> R}) n (A B : Oexpr R n) X,
    den conj (gen_sprepost A B) *m cvec X = cvec (oden conj A *m X *m oden conj B) /\
    den conj (gen_sprepost_evo A B) = den conj (gen_sprepost A B).
Proof.
move=> R conj n A B X; split; first by rewrite den_act act_sprepost.
by apply: den_ext=> Y; rewrite act_sprepost_evo act_sprepost.
Qed.
Print Assumptions C07_sprepost.

(* lindblad_dissipator(a, b, chi): e^{i chi} a X b^dag - 1/2 a^dag b X - 1/2 X a^dag b,
   both branches of `if chi:` *)
Theorem C07_lindblad_dissipator :
  forall (R : fieldType) (conj : {rmorphism R -> R}) n (h : R) (expi : R -> R),
    expi 0 = 1 ->
    forall (a b : Oexpr R n) (chi : R) X,
      den conj (gen_lindblad_dissipator h expi a b chi) *m cvec X
      = cvec (dissip conj h (oden conj a) (oden conj b) (expi chi) X).
Proof. by move=> R conj n h expi e0 a b chi X; rewrite den_act act_dissipator. Qed.
Print Assumptions C07_lindblad_dissipator.

(* liouvillian(H, c_ops, chi): all three assembly routes act as
   -i[H,X] + sum_k ( e^{i chi_k} c X c^dag - 1/2 c^dag c X - 1/2 X c^dag c ) *)
Theorem C07_liouvillian_data_route :
  forall (R : fieldType) (conj : {rmorphism R -> R}) n (i h : R) (expi : R -> R)
         (H : Oexpr R n) (cs : seq (Oexpr R n * R)) X,
    den conj (gen_liouvillian_data i h expi H cs) *m cvec X
    = cvec (lindblad_rhs conj i h expi (oden conj H) (ocs conj cs) X).
Proof. by move=> *; rewrite den_act act_liouvillian_data. Qed.
Print Assumptions C07_liouvillian_data_route.

Theorem C07_liouvillian_qobj_route :
  forall (R : fieldType) (conj : {rmorphism R -> R}) n (i h : R) (expi : R -> R),
    expi 0 = 1 ->
    forall (H : Oexpr R n) (cs : seq (Oexpr R n * R)) X,
      den conj (gen_liouvillian_qobj i h expi H cs) *m cvec X
      = cvec (lindblad_rhs conj i h expi (oden conj H) (ocs conj cs) X).
Proof. by move=> R conj n i h expi e0 H cs X; rewrite den_act act_liouvillian_qobj. Qed.
Print Assumptions C07_liouvillian_qobj_route.

Theorem C07_liouvillian_noH_route :
  forall (R : fieldType) (conj : {rmorphism R -> R}) n (i h : R) (expi : R -> R),
    expi 0 = 1 ->
    forall (cs : seq (Oexpr R n * R)) X,
      den conj (gen_liouvillian_noH h expi cs) *m cvec X
      = cvec (lindblad_rhs conj i h expi 0 (ocs conj cs) X).
Proof.
move=> R conj n i h expi e0 cs X; rewrite den_act act_liouvillian_noH //.
by rewrite /lindblad_rhs mul0mx mulmx0 subrr scaler0 add0r.
Qed.
Print Assumptions C07_liouvillian_noH_route.

(* hence the construction routes return the SAME matrix *)
Theorem C07_liouvillian_routes_agree :
  forall (R : fieldType) (conj : {rmorphism R -> R}) n (i h : R) (expi : R -> R),
    expi 0 = 1 ->
    forall (H : Oexpr R n) (cs : seq (Oexpr R n * R)),
      den conj (gen_liouvillian_data i h expi H cs)
      = den conj (gen_liouvillian_qobj i h expi H cs).
Proof.
move=> R conj n i h expi e0 H cs; apply: den_ext=> X.
by rewrite act_liouvillian_data act_liouvillian_qobj.
Qed.
Print Assumptions C07_liouvillian_routes_agree.

(* every Liouvillian (any H, Hermitian or not, any collapse operators, no
   counting field) sends every operator to a traceless one *)
Theorem C07_liouvillian_traceless :
  forall (R : fieldType) (conj : {rmorphism R -> R}) n (i h : R) (expi : R -> R),
    h + h = 1 -> expi 0 = 1 ->
    forall (H : Oexpr R n) (cs : seq (Oexpr R n * R)) X,
      all (fun p => p.2 == 0) cs ->
      \tr (act conj (gen_liouvillian_data i h expi H cs) X) = 0 /\
      \tr (act conj (gen_liouvillian_qobj i h expi H cs) X) = 0.
Proof.
move=> R conj n i h expi hh e0 H cs X Hall.
have Hall' : all (fun p : 'M[R]_n * R => expi p.2 == 1) (ocs conj cs).
  rewrite /ocs all_map; apply: sub_all Hall=> p /= /eqP ->.
  by rewrite e0.
by rewrite act_liouvillian_data act_liouvillian_qobj // (tr_lindblad_rhs _ _ hh).
Qed.
Print Assumptions C07_liouvillian_traceless.

(* the same as a statement about the returned matrix: the trace functional
   vec(I)^T is a left null vector of L.full() *)
Theorem C07_liouvillian_trace_functional :
  forall (R : fieldType) (conj : {rmorphism R -> R}) n (i h : R) (expi : R -> R),
    h + h = 1 -> expi 0 = 1 ->
    forall (H : Oexpr R n) (cs : seq (Oexpr R n * R)),
      all (fun p => p.2 == 0) cs ->
      (cvec (1%:M : 'M[R]_n))^T *m den conj (gen_liouvillian_data i h expi H cs) = 0.
Proof.
move=> R conj n i h expi hh e0 H cs Hall; apply: trace_functional=> X.
by have [-> _] := C07_liouvillian_traceless conj i hh e0 H X Hall.
Qed.
Print Assumptions C07_liouvillian_trace_functional.

(* a Liouvillian built from a Hermitian H commutes with taking the adjoint *)
Theorem C07_liouvillian_hermiticity_preserving :
  forall (R : fieldType) (conj : {rmorphism R -> R}) n (i h : R) (expi : R -> R),
    involutive conj -> conj i = - i -> h + h = 1 -> expi 0 = 1 ->
    forall (H : Oexpr R n) (cs : seq (Oexpr R n * R)) X,
      is_herm conj (oden conj H) -> all (fun p => p.2 == 0) cs ->
      dag conj (act conj (gen_liouvillian_data i h expi H cs) X)
      = act conj (gen_liouvillian_data i h expi H cs) (dag conj X).
Proof.
move=> R conj n i h expi cK ci hh e0 H cs X HH Hall.
have Hall' : all (fun p : 'M[R]_n * R => conj (expi p.2) == expi p.2) (ocs conj cs).
  rewrite /ocs all_map; apply: sub_all Hall=> p /= /eqP ->.
  by rewrite e0 rmorph1.
by rewrite !act_liouvillian_data (dag_lindblad_rhs cK ci hh).
Qed.
Print Assumptions C07_liouvillian_hermiticity_preserving.

Example C07_nonvacuous_liouvillian :
  forall (R : fieldType) (conj : {rmorphism R -> R}) n (c : 'M[R]_n),
    is_herm conj (oden conj (@OId R n)) /\
    all (fun p : Oexpr R n * R => p.2 == 0) [:: (OMx c, 0)].
Proof. by move=> R conj n c; split; [exact: herm1 | rewrite /= eqxx]. Qed.

(* ---- Bloch-Redfield, matrix-operation route (_br_term_data, no cut-off) ----
   The generated term acts on the column-stacked operator as the documented
   Bloch-Redfield expression
     1/2 [ (A o S^T) X A + A X (A o S) - A (A o S^T) X - X (A o S) A ].     *)
Theorem C07_br_data_action :
  forall (R : fieldType) (conj : {rmorphism R -> R}) n (h : R) (A S : Oexpr R n) X,
    den conj (gen_br_term_data h A S) *m cvec X
    = cvec (br_rhs h (oden conj A) (oden conj S) X).
Proof. by move=> *; rewrite den_act act_br_term_data. Qed.
Print Assumptions C07_br_data_action.

(* generator-level invariants: traceless output ... *)
Theorem C07_br_data_traceless :
  forall (R : fieldType) (conj : {rmorphism R -> R}) n (h : R) (A S : Oexpr R n) X,
    \tr (act conj (gen_br_term_data h A S) X) = 0.
Proof. by move=> *; rewrite act_br_term_data tr_br_rhs. Qed.
Print Assumptions C07_br_data_traceless.

(* ... and, for a Hermitian coupling operator and a real spectrum,
   commutation with the adjoint *)
Theorem C07_br_data_hermiticity_preserving :
  forall (R : fieldType) (conj : {rmorphism R -> R}) n (h : R),
    involutive conj -> h + h = 1 ->
    forall (A S : Oexpr R n) X,
      is_herm conj (oden conj A) -> cj conj (oden conj S) = oden conj S ->
      dag conj (act conj (gen_br_term_data h A S) X)
      = act conj (gen_br_term_data h A S) (dag conj X).
Proof.
move=> R conj n h cK hh A S X HA HS; rewrite !act_br_term_data.
exact: (dag_br_rhs cK hh _ HA HS).
Qed.
Print Assumptions C07_br_data_hermiticity_preserving.

Example C07_nonvacuous_br :
  forall (R : fieldType) (conj : {rmorphism R -> R}) n,
    is_herm conj (oden conj (@OId R n)) /\
    cj conj (oden conj (@OId R n)) = oden conj (@OId R n).
Proof. by move=> R conj n; split; [exact: herm1 | exact: cj1]. Qed.

(* white spectrum S(w) = g: the documented Bloch-Redfield expression is the
   Lindblad dissipator g * D[A] ... *)
Theorem C07_br_flat_spectrum_is_lindblad :
  forall (R : fieldType) (conj : {rmorphism R -> R}) n (h : R),
    h + h = 1 ->
    forall (A X : 'M[R]_n) (g : R), is_herm conj A ->
      br_rhs h A (const_mx g) X = g *: dissip conj h A A 1 X.
Proof. move=> R conj n h hh A X g HA; exact: br_rhs_flat. Qed.
Print Assumptions C07_br_flat_spectrum_is_lindblad.

(* ... hence so is the generated tensor: white noise gives the same matrix
   action as lindblad_dissipator(sqrt(g) A) *)
Theorem C07_br_data_white_noise_is_lindblad :
  forall (R : fieldType) (conj : {rmorphism R -> R}) n (h : R) (expi : R -> R),
    h + h = 1 -> expi 0 = 1 ->
    forall (A : Oexpr R n) (g : R) X, is_herm conj (oden conj A) ->
      den conj (gen_br_term_data h A (OMx (const_mx g))) *m cvec X
      = g *: (den conj (gen_lindblad_dissipator h expi A A 0) *m cvec X).
Proof.
move=> R conj n h expi hh e0 A g X HA.
rewrite !den_act act_br_term_data act_dissipator //= e0 -cvec_scale.
by rewrite (br_rhs_flat hh _ _ HA).
Qed.
Print Assumptions C07_br_data_white_noise_is_lindblad.

(* ---- Bloch-Redfield, element formula of _br_term_dense (Tier B) ----
   bounded domain (the bound is in the statement): for every 2x2 Gaussian
   matrix with entries in gvals (Hermitian or not), both spectra of specs2 and
   every matrix unit, the tensor applied to the column-stacked operator is the
   documented expression; all dimensions: exact correspondence of this model
   with the Cython kernel on every run (tools/c07.py). *)
Theorem C07_br_dense_small_domain :
  forall A S X, List.In A mats2 -> List.In S specs2 -> List.In X units2 ->
    meqb 2 (apply_super 2 (br_dense2 2 A S wK None) X) (br_expr2 2 A S X) = true.
Proof. exact: br_dense_small_domain_forall. Qed.
Print Assumptions C07_br_dense_small_domain.
