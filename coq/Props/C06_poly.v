(* C06 - "between samples ... a continuous piecewise polynomial of the
   requested order otherwise": the value computed by InterCoefficient._call
   (index computation + Horner loop, Model/C06.v) IS the piecewise polynomial
   written as a specification (Model/C06_poly.v: powers of t - t_k, cell by
   linear scan, constant outside), for every order, every strictly
   increasing grid and every t; continuity at the knots reduces to the pieces
   joining, which is proved for order 1 and is the scipy oracle's property
   for orders >= 2.  Hypotheses: order_laws, field_laws (exact arithmetic). *)
From Coq Require Import List ZArith Bool Lia QArith Qcanon.
Import ListNotations.
From QV Require Import Model.C06 Proofs.C06 Model.C06_poly Proofs.C06_poly.
Open Scope Z_scope.

(* the Horner loop of _call evaluates the polynomial with coefficients col
   (highest power first) at f, for every length (order) *)
Theorem C06_horner_is_polynomial :
  forall (T : Type) (N : num T), field_laws N ->
  forall (col : list (cplx (T:=T))) (f : T), horner N col f = peval N col f.
Proof. exact @horner_peval. Qed.
Print Assumptions C06_horner_is_polynomial.

Example C06_horner_is_polynomial_nonvacuous :
  (* 2 x^3 - x + (5 + i) at x = 3/2, complex coefficients *)
  cqout (peval NQ [(qc 2 1, qc 0 1); (qc 0 1, qc 0 1); (qc (-1) 1, qc 0 1); (qc 5 1, qc 1 1)]
                (qc 3 2)) = ((41, 4), (1, 1)) /\
  cqout (horner NQ [(qc 2 1, qc 0 1); (qc 0 1, qc 0 1); (qc (-1) 1, qc 0 1); (qc 5 1, qc 1 1)]
                 (qc 3 2)) = ((41, 4), (1, 1)).
Proof. split; vm_compute; reflexivity. Qed.

(* THE CODE COMPUTES THE SPECIFICATION: for every order (number of rows),
   every strictly increasing grid of any scale/spacing, every t - inside,
   at the knots, outside *)
Theorem C06_call_equals_specification :
  forall (T : Type) (N : num T), field_laws N -> order_laws N ->
  forall (g : list T) (o : inter (T:=T)) (t : T),
    increasing N g -> zlen g < two63 ->
    i_tlist o = g -> 1 <= zlen g -> i_poly o <> [] ->
    (forall row, In row (i_poly o) -> zlen row = zlen g) ->
    call N o t = spec_eval N (i_poly o) g t.
Proof.
  intros T N HF HO g o t Hinc Hn. exact (call_is_spec N HF HO g Hinc Hn o t).
Qed.
Print Assumptions C06_call_equals_specification.

(* inside cell k, order >= 1: the k-th piece evaluated at t - g_k *)
Theorem C06_piece_polynomial_any_order :
  forall (T : Type) (N : num T), field_laws N -> order_laws N ->
  forall (g : list T) (o : inter (T:=T)) (t : T) (k : Z),
    increasing N g -> zlen g < two63 ->
    i_tlist o = g -> order o <> 0 ->
    in_cell N g t k -> nleb N t (zn g 0 (n0 N)) = false ->
    call N o t = Val (peval N (column N (i_poly o) k) (nsub N t (zn g k (n0 N)))).
Proof.
  intros T N HF HO g o t k Hinc Hn. exact (call_piece N HF HO g Hinc Hn o t k).
Qed.
Print Assumptions C06_piece_polynomial_any_order.

(* continuity at knot k+1 <=> pieces k and k+1 join there: the polynomial of
   cell k continued to its right end is the value returned AT the knot *)
Theorem C06_continuity_reduces_to_joining_pieces :
  forall (T : Type) (N : num T), field_laws N -> order_laws N ->
  forall (g : list T) (o : inter (T:=T)) (k : Z),
    increasing N g -> zlen g < two63 ->
    i_tlist o = g -> 2 <= zlen g -> i_poly o <> [] ->
    (forall row, In row (i_poly o) -> zlen row = zlen g) ->
    0 <= k -> k + 1 < zlen g -> joins N g o k ->
    call N o (zn g (k + 1) (n0 N)) =
      Val (peval N (column N (i_poly o) k) (nsub N (zn g (k + 1) (n0 N)) (zn g k (n0 N)))).
Proof.
  intros T N HF HO g o k Hinc Hn. exact (continuous_at_knot N HF HO g Hinc Hn o k).
Qed.
Print Assumptions C06_continuity_reduces_to_joining_pieces.

(* order 1 as built by __init__ (np.diff / np.diff): the pieces join at every
   knot - the linear interpolant is continuous; no oracle involved *)
Theorem C06_order1_pieces_join :
  forall (T : Type) (N : num T), field_laws N -> order_laws N ->
  forall (g : list T) (c : list (cplx (T:=T))) (k : Z),
    increasing N g -> zlen c = zlen g -> 2 <= zlen g -> 0 <= k -> k + 1 < zlen g ->
    joins N g (init01 N 1 c g) k.
Proof.
  intros T N HF HO g c k Hinc. exact (order1_joins N HF HO g Hinc c k).
Qed.
Print Assumptions C06_order1_pieces_join.

(* non-vacuity: the cubic x^3 written as PPoly pieces on the non-uniform grid
   [0, 1, 3] (Taylor coefficients at 0 and at 1): hypotheses hold, the pieces
   join at knot 1, and code = specification = x^3 at x = 2 (cell 1), 1/2
   (cell 0), the knots and outside *)
Definition cub_grid : list Qc := [qc 0 1; qc 1 1; qc 3 1].
Definition zq (a : Z) : Qc * Qc := (qc a 1, qc 0 1).
Definition cub_poly : list (list (Qc * Qc)) :=
  [[zq 1; zq 1; zq 0]; [zq 0; zq 3; zq 0]; [zq 0; zq 3; zq 0]; [zq 0; zq 1; zq 27]].
Definition cub : inter (T:=Qc) := prepare NQ cub_grid cub_poly None.

Example C06_poly_nonvacuous :
  increasing NQ cub_grid /\ i_tlist cub = cub_grid /\ order cub = 3 /\
  (forall row, In row (i_poly cub) -> zlen row = zlen cub_grid) /\
  in_cell NQ cub_grid (qc 2 1) 1 /\
  cqout (peval NQ (column NQ cub_poly 0) (qc 1 1)) = cqout (zn (last_row cub) 1 (c0 NQ)) /\
  map rqout (map (call NQ cub) [qc 2 1; qc 1 2; qc 1 1; qc 3 1; qc (-5) 1; qc 9 1]) =
    map (fun a => Val (a, (0, 1))) [(8, 1); (1, 8); (1, 1); (27, 1); (0, 1); (27, 1)] /\
  map rqout (map (spec_eval NQ cub_poly cub_grid)
                 [qc 2 1; qc 1 2; qc 1 1; qc 3 1; qc (-5) 1; qc 9 1]) =
    map rqout (map (call NQ cub) [qc 2 1; qc 1 2; qc 1 1; qc 3 1; qc (-5) 1; qc 9 1]).
Proof.
  split; [unfold cub_grid; small_increasing [0; 1; 2]|].
  split; [reflexivity|]. split; [reflexivity|]. split.
  - intros row Hin. cbn in Hin.
    repeat (destruct Hin as [Hin|Hin]; [subst row; reflexivity|]). contradiction.
  - split; [unfold in_cell; repeat split; try (vm_compute; congruence)|].
    split; [vm_compute; reflexivity|]. split; vm_compute; reflexivity.
Qed.
