(* C13 - which generator object a trajectory draws from (seed lists that
   contain SeedSequences, integers or numpy Generator objects; the
   bitgenerator option).  Property theorems only; proofs in Proofs/C13_gen.v.
   A trajectory is a function of the generator's class, seed and starting
   position (Props/C13.v: C13_mc_reads_only_own_stream, C13_mc_draw_order),
   so what is characterised here is (object, starting position) per task. *)
From Coq Require Import List ZArith Bool Arith Lia.
Import ListNotations.
From QV Require Import Model.C13 Model.C13_gen Proofs.C13_gen.

(* seed lists without Generator objects (the quantifier of C13: integer,
   SeedSequence, list of those; also every spawned form): each trajectory gets
   a NEW generator of the configured class made from its own sequence,
   starting at 0; no object is shared, none of this process is advanced;
   in-process and worker-process execution give the same *)
Theorem C13_no_generator_object_shared :
  forall bitgen draws xs, forallb (fun x => negb (is_obj x)) xs = true ->
    forall heap j,
      run_serial bitgen draws heap j xs = Some (map (fresh_of bitgen) xs) /\
      run_forked bitgen heap xs = Some (map (fresh_of bitgen) xs).
Proof. exact no_objects. Qed.
Print Assumptions C13_no_generator_object_shared.
Example C13_no_generator_object_shared_nonvacuous :
  run_serial (Some 2) (fun _ => 4) [7] 0 (map read_item [GInt 5; GSeq (child (fresh 9) 1)]) =
  Some [(Fresh (Some 2) (5%Z, []), 0); (Fresh (Some 2) (9%Z, [1]), 0)].
Proof. vm_compute. reflexivity. Qed.

(* a Generator object in the list IS the generator of its trajectory: run in
   this process, task i starts where the object stands after the earlier
   tasks it was listed for ... *)
Theorem C13_generator_object_continues_in_process :
  forall draws xs heap j out i k,
    run_serial None draws heap j xs = Some out ->
    nth_error xs i = Some (RG k) -> k < length heap ->
    nth_error out i = Some (Shared k, nth k heap 0 + prior draws k (firstn i xs) j).
Proof. exact serial_start. Qed.
Print Assumptions C13_generator_object_continues_in_process.

(* ... sent to worker processes, every task starts from a copy of the object
   as it stood at submission *)
Theorem C13_generator_object_copied_to_workers :
  forall xs heap out i k,
    run_forked None heap xs = Some out ->
    nth_error xs i = Some (RG k) -> nth_error out i = Some (Shared k, nth k heap 0).
Proof. exact forked_start. Qed.
Print Assumptions C13_generator_object_copied_to_workers.

(* hence for Generator objects the full statement of C13 (same trajectory for a
   list element whatever the map and the position) is false: they are outside
   the property's quantifier, and this is why *)
Theorem C13_generator_objects_refuted :
  run_serial None (fun _ => 3) [5] 0 [RG 0; RG 0] <> run_forked None [5] [RG 0; RG 0] /\
  run_serial None (fun j => S j) [0] 0 [RG 0; RS (fresh 1); RG 0] =
    Some [(Shared 0, 0); (Fresh None (1%Z, []), 0); (Shared 0, 1)].
Proof. exact object_items_order_and_map_matter. Qed.
Print Assumptions C13_generator_objects_refuted.

(* error branch: with options["bitgenerator"] a Generator object is refused *)
Theorem C13_bitgenerator_rejects_generator_objects :
  forall bitgen draws b xs, bitgen = Some b -> existsb is_obj xs = true ->
    forall heap j, run_serial bitgen draws heap j xs = None /\ run_forked bitgen heap xs = None.
Proof. exact bitgen_rejects_objects. Qed.
Print Assumptions C13_bitgenerator_rejects_generator_objects.
Example C13_bitgenerator_rejects_nonvacuous :
  run_serial (Some 0) (fun _ => 1) [0] 0 (map read_item [GInt 1; GObj 0]) = None.
Proof. vm_compute. reflexivity. Qed.
