(* C18 - theorems over the bookkeeping terms REGENERATED from
   qutip/solver/steadystate.py on every run (Gen/C18_bookkeeping.v, written by
   tools/tx_c18_bookkeeping.py): _permute_wbm, _permute_rcm, _reverse_rcm and
   the weight row / right-hand side / order of reorderings / reversal /
   unstacking / Hermitisation of _steadystate_direct.  m_oracle, r_oracle (the
   permutations scipy returns) and the solver answer are universally
   quantified. *)
From Coq Require Import ZArith.
From mathcomp Require Import all_ssreflect all_algebra.
From mathcomp Require Import mxtens.
From QV Require Import Base.MxHerm Model.C18 Gen.C18_bookkeeping Proofs.C18 Proofs.C18_bridge
  Proofs.C18_perm Proofs.C18_equiv Proofs.C18_gen Proofs.C18_exec.

Set Implicit Arguments.
Unset Strict Implicit.
Unset Printing Implicit Defensive.
Import GRing.Theory.
Local Open Scope ring_scope.

(* the generated terms are the model of Model/C18.v, for every carrier *)
Theorem C18_gen_bookkeeping_is_model :
  forall (T : Type) (zero one : T) (add mul : T -> T -> T) (cj : T -> T),
  (forall m (L : fmx T) b, g_permute_wbm m L b = permute_wbm m L b) /\
  (forall r (L : fmx T) b, g_permute_rcm r L b = permute_rcm r L b) /\
  (forall (x : fvec T) p, g_reverse_rcm x p = reverse_rcm x p) /\
  (forall n w (A : fmx T), g_assemble zero one add mul n w A
                           = (direct_L zero one add mul n w A, direct_b zero w)) /\
  (forall n w (A : fmx T) wbm rcm, g_direct_system zero one add mul n w A wbm rcm
                                   = direct_system zero one add mul n w A wbm rcm) /\
  (forall n (x : fvec T) perm, g_direct_post2 add cj n x perm = direct_post2 add cj n x perm).
Proof.
move=> T zero one add mul cj; split; first exact: g_permute_wbm_ok.
split; first exact: g_permute_rcm_ok.
split; first exact: g_reverse_rcm_ok.
split; first exact: g_assemble_ok.
split; [exact: g_direct_system_ok|exact: g_direct_post2_ok].
Qed.
Print Assumptions C18_gen_bookkeeping_is_model.

(* P L Q y = P b  <->  L x = b with x = Q y, over the generated terms *)
Theorem C18_gen_permuted_system_equivalent :
  forall (R : fieldType) (n' : nat) (w : R) (Af : fmx R)
         (wbm rcm : option (seq nat)) (y : fvec R),
  let n := n'.+1 in let NN := (n * n)%N in
  opt_perm n' wbm -> opt_perm n' rcm ->
  let '(L3, b3, perm) := g_direct_system 0 1 +%R *%R n w Af wbm rcm in
  let '(L1, b1) := g_assemble 0 1 +%R *%R n w Af in
  solves NN L3 y b3 <->
  solves NN L1 (match perm with Some p => g_reverse_rcm y p | None => y end) b1.
Proof.
move=> R n' w Af wbm rcm y /= Hm Hr; rewrite g_direct_system_ok.
exact: (@direct_system_equiv R n' w Af wbm rcm y Hm Hr).
Qed.
Print Assumptions C18_gen_permuted_system_equivalent.

(* end to end over the generated terms: any answer of the solver to the
   generated system gives a Hermitian unit-trace fixed point *)
Theorem C18_gen_direct_result_hermitian_unit_trace_fixed_point :
  forall (R : fieldType) (conj : {rmorphism R -> R}), involutive conj ->
  forall (n' : nat) (w : R) (Af : fmx R) (wbm rcm : option (seq nat)) (x' : fvec R),
  let n := n'.+1 in let NN := (n * n)%N in
  opt_perm n' wbm -> opt_perm n' rcm -> w != 0 -> (2%:R : R) != 0 ->
  tp (mx_of_fn NN NN Af) -> hp conj (mx_of_fn NN NN Af) ->
  let '(L3, b3, perm) := g_direct_system 0 1 +%R *%R n w Af wbm rcm in
  solves NN L3 x' b3 ->
  let rho := 2%:R^-1 *: mx_of_fn n n (g_direct_post2 +%R conj n x' perm) in
  [/\ dag conj rho = rho, \tr rho = 1 & mx_of_fn NN NN Af *m cvec rho = 0].
Proof.
move=> R conj conjK n' w Af wbm rcm x' /= Hm Hr w0 two Ltp Lhp.
rewrite g_direct_system_ok.
have := @direct_end_to_end_rho R conj conjK n' w Af wbm rcm x' Hm Hr w0 two Ltp Lhp.
case: (direct_system _ _ _ _ _ _ _ _ _) => [[L3 b3] perm] H S.
by rewrite g_direct_post2_ok; apply: H.
Qed.
Print Assumptions C18_gen_direct_result_hermitian_unit_trace_fixed_point.

(* the generated system is solvable in a concrete Gaussian-integer instance *)
Example C18_gen_nonvacuous :
  let '(L3, b3, perm) := g_direct_system gz0 gz1 gzadd gzmul 2 gz3 (of_rows exL) None
                                         (Some [:: 2; 0; 3; 1]%N) in
  tab_vec 4 (fmulv gz0 gzadd gzmul 4 L3 (of_list [:: gz0; gz0; gz1; gz0])) = tab_vec 4 b3.
Proof. by vm_compute. Qed.
