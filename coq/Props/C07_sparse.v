(* C07 - the sparse Bloch-Redfield kernels: soundness of the loop-skipping
   devices and agreement of the three computation routes, as theorems.
   gen_sparse_* (Gen/C07_sparse.v) and the element formulas
   (Gen/C07_kernels.v) are GENERATED from the current _brtensor.pyx.

   Quantifiers: every ordered field F of eigenvalues (realDomainType), every
   cut-off, every dimension n, every eigenvalue list w SORTED in
   non-decreasing order (what the eigen-solver returns: the hypothesis),
   every complex A, B, S.  skew[x,y] = w x - w y exactly (floating-point
   evaluation of the differences is outside). *)
From mathcomp Require Import all_ssreflect all_algebra.
From mathcomp Require Import mxtens.
From QV Require Import Base.MxHerm Model.C07 Gen.C07_terms Proofs.C07.
From QV Require Import Model.C07_kernels Gen.C07_kernels Proofs.C07_kernels.
From QV Require Import Gen.C07_sparse Model.C07_sparse Proofs.C07_sparse.
Set Implicit Arguments. Unset Strict Implicit. Unset Printing Implicit Defensive.
Import GRing.Theory Num.Theory.
Local Open Scope ring_scope.

Definition sorted_upto (F : realDomainType) (n : nat) (w : nat -> F) : Prop :=
  forall i j, (i <= j)%N -> (j < n)%N -> w i <= w j.

(* the element loop with `break` over c, `d_min` and `break` over d visits,
   for every (a,b), exactly the pairs (c,d) that pass the secular test, each
   once *)
Theorem C07_br_sparse_kept_exact :
  forall (F : realDomainType) (cutoff : F) n (w : nat -> F), sorted_upto n w ->
  forall a b,
    (forall c d, ((c, d) \in gen_sparse_kept cutoff n (skw w) a b)
       <-> [/\ (c < n)%N, (d < n)%N & `|skw w a b - skw w c d| < cutoff])
    /\ uniq (gen_sparse_kept cutoff n (skw w) a b).
Proof. move=> F cutoff n w Hs a b; exact: sparse_kept_spec. Qed.
Print Assumptions C07_br_sparse_kept_exact.

(* the pre-sum loop with its `break` computes ac_term/bd_term for exactly the
   b that pass the test *)
Theorem C07_br_sparse_presum_exact :
  forall (F : realDomainType) (cutoff : F) n (w : nat -> F), sorted_upto n w ->
  forall a b,
    (b \in gen_sparse_presum_computed cutoff n (skw w) a)
    <-> ((b < n)%N /\ `|skw w a b| < cutoff).
Proof. move=> F cutoff n w Hs a b; exact: sparse_presum_spec. Qed.
Print Assumptions C07_br_sparse_presum_exact.

(* hence the sparse kernels return the same tensor as the dense kernels ... *)
Theorem C07_br_term_sparse_is_dense :
  forall (R : fieldType) (F : realDomainType) n (h : R) (cutoff : F) (w : nat -> F),
    sorted_upto n w ->
    forall A S : 'M[R]_n,
      br_term_sparse_tensor h cutoff w A S
      = gen_br_term_dense h (near_cut cutoff) A S (skew_ord w).
Proof. move=> R F n h cutoff w Hs A S; exact: br_term_sparse_eq_dense. Qed.
Print Assumptions C07_br_term_sparse_is_dense.

Theorem C07_br_cterm_sparse_is_dense :
  forall (R : fieldType) (F : realDomainType) n (h : R) (cutoff : F) (w : nat -> F),
    sorted_upto n w ->
    forall A B S : 'M[R]_n,
      br_cterm_sparse_tensor h cutoff w A B S
      = gen_br_cterm_dense h (near_cut cutoff) A B S (skew_ord w).
Proof. move=> R F n h cutoff w Hs A B S; exact: br_cterm_sparse_eq_dense. Qed.
Print Assumptions C07_br_cterm_sparse_is_dense.

(* ... and all three computation methods agree: sparse = dense = 'matrix'
   route under the secular mask *)
Theorem C07_br_term_three_routes_agree :
  forall (R : fieldType) (conj : {rmorphism R -> R}) (F : realDomainType) n (h : R)
         (cutoff : F) (w : nat -> F),
    sorted_upto n w ->
    forall A S : 'M[R]_n,
      let data := had (den conj (gen_br_term_data h (OMx A) (OMx S)))
                      (gen_br_term_data_mask R (near_cut cutoff) (skew_ord w)) in
      br_term_sparse_tensor h cutoff w A S = data /\
      gen_br_term_dense h (near_cut cutoff) A S (skew_ord w) = data.
Proof.
move=> R conj F n h cutoff w Hs A S /=.
rewrite (br_term_sparse_eq_dense h cutoff Hs).
by split; exact: (term_dense_eq_data conj h (near_cut cutoff) (fun i : 'I_n => w i)).
Qed.
Print Assumptions C07_br_term_three_routes_agree.

Example C07_nonvacuous_sorted :
  forall (F : realDomainType) n, sorted_upto n (fun i => i%:R : F).
Proof. by move=> F n i j Hij _; rewrite ler_nat. Qed.
