(* C19 - the hierarchy solver: label bookkeeping, block placement, limits and
   bath re-writing.  Property theorems only; proofs are in Proofs/C19*.v.

   Quantifiers: every list of exponents / list of dims (any length, the empty
   list included; any positive dims), every max_depth, every label and exponent position, every
   coefficient ring (an arbitrary commutative ring given by a ring_theory; the
   only facts used about 1j and conj are that they are elements/functions of
   the ring and conj 0 = 0), both parities where stated. *)
From Coq Require Import List ZArith Bool Arith Lia Ring.
Import ListNotations.
From Coq Require Import Permutation.
From QV Require Import Model.C19 Proofs.C19 Proofs.C19_enum Proofs.C19_gen Proofs.C19_perm Proofs.C19_keys.

Definition pos_dims (dims : list nat) : Prop := Forall (fun d => 1 <= d) dims.

(* ---- enumeration of ADO labels ------------------------------------------ *)

(* the labels are exactly the multi-indices within dims and max_depth *)
Theorem C19_labels_exact :
  forall dims D labels, pos_dims dims -> sne dims D = Some labels ->
    forall n, In n labels <-> valid dims D n.
Proof.
  intros dims D labels Hpos H n. rewrite sne_enum in H by assumption.
  inversion H; subst. rewrite enum_spec_iff. symmetry. apply valid_valid2.
Qed.
Print Assumptions C19_labels_exact.

(* the enumeration never fails for a list of positive dims (empty list included) *)
Theorem C19_labels_defined :
  forall dims D, pos_dims dims -> exists labels, sne dims D = Some labels.
Proof. intros dims D Hpos. eexists. apply sne_enum; assumption. Qed.
Print Assumptions C19_labels_defined.

(* no label twice, and in strictly increasing lexicographic order *)
Theorem C19_labels_nodup_sorted :
  forall dims D labels, pos_dims dims -> sne dims D = Some labels ->
    NoDup labels /\ sorted_lex labels.
Proof.
  intros dims D labels Hpos H. rewrite sne_enum in H by assumption.
  inversion H; subst. split; [apply enum_spec_NoDup|apply enum_spec_sorted].
Qed.
Print Assumptions C19_labels_nodup_sorted.

(* the dims built by HierarchyADOs are always positive *)
Theorem C19_ados_dims_positive :
  forall D edims, pos_dims (ados_dims D edims).
Proof. exact ados_dims_pos. Qed.
Print Assumptions C19_ados_dims_positive.

(* no exponent at all (an empty bath): the hierarchy is the single label (),
   which is the only multi-index within dims = [] and any depth
   [holds since fix 1d30075; the code before it is refuted below] *)
Theorem C19_labels_empty_bath :
  forall D, sne [] D = Some [[]] /\ (forall n, valid [] D n <-> n = []).
Proof.
  intros D. split; [reflexivity|]. intros n. split.
  - intros (Hl & _ & _). destruct n; [reflexivity|discriminate].
  - intros ->. split; [reflexivity|]. split; [intros k Hk; simpl in Hk; lia|simpl; lia].
Qed.
Print Assumptions C19_labels_empty_bath.

(* state_number_enumerate before fix 1d30075: the multi-index () is within
   dims = [] and the depth, but the enumeration raised IndexError, so a
   HEOMSolver without bath could not be built *)
Theorem C19_labels_empty_bath_before_fix_refuted :
  exists dims D, valid dims D [] /\ sne_before_fix dims D = None.
Proof.
  exists [], 2. split; [|reflexivity].
  split; [reflexivity|]. split; [intros k Hk; simpl in Hk; lia|simpl; lia].
Qed.
Print Assumptions C19_labels_empty_bath_before_fix_refuted.

(* idx is the inverse of labels *)
Theorem C19_idx_inverse :
  forall dims D labels, pos_dims dims -> sne dims D = Some labels ->
    (forall i n, nth_error labels i = Some n -> idx_of labels n = Some i) /\
    (forall i n, idx_of labels n = Some i -> nth_error labels i = Some n) /\
    (forall n, valid dims D n -> exists i, idx_of labels n = Some i /\ i < length labels).
Proof.
  intros dims D labels Hpos H.
  destruct (C19_labels_nodup_sorted dims D labels Hpos H) as [ND _].
  split; [|split].
  - intros i n Hn. now apply idx_of_nth.
  - intros i n Hn. now apply idx_of_sound.
  - intros n Hv. apply (C19_labels_exact dims D labels Hpos H) in Hv.
    destruct (idx_of_in _ _ Hv) as [i Hi]. exists i. split; [assumption|].
    eapply idx_of_lt; eassumption.
Qed.
Print Assumptions C19_idx_inverse.

(* next / prev *)
Theorem C19_prev_next :
  forall dims D n k m, k < length n -> ados_next dims D n k = Some m -> ados_prev m k = Some n.
Proof. exact prev_next. Qed.
Print Assumptions C19_prev_next.

Theorem C19_next_prev :
  forall dims D n k m, valid dims D n -> k < length dims ->
    ados_prev n k = Some m -> ados_next dims D m k = Some n.
Proof. exact next_prev. Qed.
Print Assumptions C19_next_prev.

(* next and prev stay inside the hierarchy (so every idx lookup succeeds) *)
Theorem C19_next_prev_closed :
  forall dims D n k m, valid dims D n -> k < length dims ->
    (ados_next dims D n k = Some m -> valid dims D m) /\
    (ados_prev n k = Some m -> valid dims D m).
Proof.
  intros dims D n k m Hv Hk. split; intros H;
    [eapply next_valid|eapply prev_valid]; eassumption.
Qed.
Print Assumptions C19_next_prev_closed.

(* next is undefined exactly when the bound is hit, i.e. exactly when the
   incremented label is not in the hierarchy; prev exactly when n_k = 0 *)
Theorem C19_next_none_iff :
  forall dims D n k, valid dims D n -> k < length dims ->
    (ados_next dims D n k = None <-> ~ valid dims D (set_at n k (nth k n 0 + 1))) /\
    (ados_prev n k = None <-> nth k n 0 = 0).
Proof.
  intros dims D n k Hv Hk. split; [now apply next_none_iff_invalid|apply prev_none].
Qed.
Print Assumptions C19_next_none_iff.

(* ---- block placement ------------------------------------------------------ *)

(* every f_idx lookup of _GatherHEOMRHS.add_op succeeds and lands inside the
   block grid *)
Theorem C19_blocks_lookup_total :
  forall dims D labels, pos_dims dims -> sne dims D = Some labels ->
    forall b, In b (rhs_ops dims D labels) ->
      exists r c, blk_key b = Some (r, c) /\ r < length labels /\ c < length labels.
Proof.
  intros dims D labels Hpos H b Hb. rewrite sne_enum in H by assumption.
  inversion H; subst. now apply blocks_lookup_total.
Qed.
Print Assumptions C19_blocks_lookup_total.

(* blocks never overlap: one block position receives one operator *)
Theorem C19_blocks_no_overlap :
  forall dims D labels, pos_dims dims -> sne dims D = Some labels ->
    forall b1 b2 key, In b1 (rhs_ops dims D labels) -> In b2 (rhs_ops dims D labels) ->
      blk_key b1 = Some key -> blk_key b2 = Some key -> snd b1 = snd b2.
Proof.
  intros dims D labels Hpos H. rewrite sne_enum in H by assumption.
  inversion H; subst. apply blocks_no_overlap.
Qed.
Print Assumptions C19_blocks_no_overlap.

(* NoDup form: the (row, col) keys of all collected operators are pairwise
   different and every one is defined, so list.sort() in gather never has to
   compare two operators and the strict-order check of _from_csr_blocks can
   only pass *)
Theorem C19_blocks_keys_nodup :
  forall dims D labels, pos_dims dims -> sne dims D = Some labels ->
    NoDup (map blk_key (rhs_ops dims D labels)) /\
    ~ In None (map blk_key (rhs_ops dims D labels)).
Proof.
  intros dims D labels Hpos H. rewrite sne_enum in H by assumption.
  inversion H; subst. split; [apply keys_NoDup|].
  intros Hin. apply in_map_iff in Hin. destruct Hin as (b & E & Hb).
  destruct (blocks_lookup_total dims D b Hb) as (r & c & K & _). congruence.
Qed.
Print Assumptions C19_blocks_keys_nodup.

(* ---- generator algebra over an arbitrary commutative ring ---------------- *)
Section AnyRing.
Variable C : Type.
Variables (c0 c1 : C) (cadd cmul : C -> C -> C) (cneg : C -> C) (ci : C)
          (cconj : C -> C) (ceqb : C -> C -> bool).
Hypothesis Rth : ring_theory c0 c1 cadd cmul (fun a b => cadd a (cneg b)) cneg eq.
Hypothesis cconj_0 : cconj c0 = c0.
Hypothesis ceqb_eq : forall a b, ceqb a b = true -> a = b.

(* depth 0: the hierarchy contributes the single block 0 * Id, i.e. the
   generator is L_sys alone (added by _calculate_rhs on the diagonal);
   this includes the empty bath (exps = []) *)
Theorem C19_depth0_generator :
  forall (exps : list (bexp C)) odd,
    heom_blocks C c0 c1 cadd cmul cneg ci cconj exps 0 odd = Some [((0, 0), [(c0, BId)])].
Proof. exact (depth0_blocks C c0 c1 cadd cmul cneg ci cconj Rth). Qed.

(* trace conservation of the system block, even parity: every operator put
   into the block row of rho_0 (for every bath, bosonic or fermionic, every
   depth) has vanishing trace functional: the coefficients of tr(.),
   tr(Q_k .) and tr(Q_k^dag .) are all 0 *)
Theorem C19_trace_conserved_even_parity :
  forall (exps : list (bexp C)) D b op cls,
    let dims := heom_dims C exps D in
    In b (rhs_ops dims D (enum_spec dims D)) ->
    tag_row (snd b) = repeat 0 (length dims) ->
    block_op C c0 c1 cadd cmul cneg ci cconj exps false (snd b) = Some op ->
    tr_coef C c0 cadd op cls = c0.
Proof. exact (trace_row0 C c0 c1 cadd cmul cneg ci cconj Rth). Qed.

(* vanishing coupling: every block that feeds a lower ADO into a higher one
   is zero, so from (rho, 0, 0, ...) the ADOs stay zero and rho follows the
   diagonal block alone *)
Theorem C19_zero_coupling_decouples :
  forall (exps : list (bexp C)) n k odd op,
    zero_coupling C c0 exps ->
    grad_prev C c0 c1 cadd cmul cneg ci cconj exps n k odd = Some op ->
    Forall (fun p : C * sbasis => fst p = c0) op.
Proof. exact (prev_zero C c0 c1 cadd cmul cneg ci cconj Rth cconj_0). Qed.

(* merging exponents (ExponentialBosonicEnvironment.combine with the
   BathExponent overrides) preserves the correlation function as a formal
   exponential sum: for EVERY function f standing for (v, Q) |-> exp(-v t) Q *)
Theorem C19_combine_preserves_correlation :
  forall (f : C -> nat -> C) (l : list (bexp C)),
    Forall (wf C) l ->
    fsum C c0 cadd cmul ci f (combine_exps C c0 cadd ceqb l) = fsum C c0 cadd cmul ci f l.
Proof. exact (combine_preserves_sum C c0 c1 cadd cmul cneg ci ceqb Rth ceqb_eq). Qed.

End AnyRing.
Print Assumptions C19_depth0_generator.
Print Assumptions C19_trace_conserved_even_parity.
Print Assumptions C19_zero_coupling_decouples.
Print Assumptions C19_combine_preserves_correlation.

(* ---- restart from a stored auxiliary state -------------------------------- *)

(* whenever the run stores anything (states along the run, or only the final
   state), final_ado_state is the last ADO state that was added, so a restart
   from it continues the same hierarchy  [holds since fix 676e94e; the code
   before it is refuted below] *)
Theorem C19_final_ado_state_is_last :
  forall (A R : Type) (rho_of : A -> R) o l a,
    o_store_ados o = true -> (o_store_states o = true \/ o_store_final o = true) ->
    final_ado_state A R (h_run A R rho_of o (l ++ [a])) = FAdo A R a.
Proof. exact final_ado_any. Qed.
Print Assumptions C19_final_ado_state_is_last.

(* the property as written before fix 676e94e: with store_states=False,
   store_final_state=True, store_ados=True it returned the bare system density
   matrix (self._final_state), so a restart from it silently dropped all ADOs *)
Theorem C19_final_ado_state_before_fix_refuted :
  exists (o : hopts) (l : list nat) (a : nat),
    o_store_ados o = true /\
    final_ado_state_before_fix nat nat (h_run nat nat (fun a => a) o (l ++ [a])) <> FAdo nat nat a.
Proof.
  exists {| o_store_states := false; o_store_final := true; o_store_ados := true |}, [1], 2.
  split; [reflexivity|]. vm_compute. discriminate.
Qed.
Print Assumptions C19_final_ado_state_before_fix_refuted.

Example C19_nonvacuous_final_ado :
  final_ado_state nat nat
    (h_run nat nat (fun a => a)
       {| o_store_states := false; o_store_final := true; o_store_ados := true |} [5; 7]) =
  FAdo nat nat 7.
Proof. reflexivity. Qed.

(* ---- non-vacuity ----------------------------------------------------------- *)
Example C19_nonvacuous_labels :
  sne [3; 2; 3] 2 =
  Some [[0;0;0]; [0;0;1]; [0;0;2]; [0;1;0]; [0;1;1]; [1;0;0]; [1;0;1]; [1;1;0]; [2;0;0]]
  /\ valid [3; 2; 3] 2 [1; 1; 0]
  /\ ados_next [3; 2; 3] 2 [1; 0; 0] 1 = Some [1; 1; 0]
  /\ ados_prev [1; 1; 0] 1 = Some [1; 0; 0]
  /\ ados_next [3; 2; 3] 2 [1; 1; 0] 2 = None.
Proof.
  repeat split; try reflexivity; try (simpl; lia).
  intros [|[|[|k]]] Hk; simpl in *; lia.
Qed.

(* a mixed bosonic/fermionic hierarchy whose row 0 holds 1 + 3 blocks, all with
   vanishing trace functional for even parity *)
Example C19_nonvacuous_trace :
  let exps := [mkexp TRI None 0 (1,2)%Z (1,0)%Z (Some (3,0)%Z) None;
               mkexp TPlus (Some 2) 1 (1,2)%Z (1,0)%Z None (Some 1%Z);
               mkexp TMinus (Some 2) 1 (2,-1)%Z (1,1)%Z None (Some (-1)%Z)] in
  match g_blocks exps 2 false with
  | Some l => length (filter (fun b => fst (fst b) =? 0) l) = 4 /\ length l = 28
  | None => False
  end.
Proof. vm_compute. split; reflexivity. Qed.

(* combination really merges: R + I + R with one rate become one RI exponent *)
Example C19_nonvacuous_combine :
  g_combine [mkexp TR None 0 (1,0)%Z (2,0)%Z None None;
             mkexp TI None 0 (3,1)%Z (2,0)%Z None None;
             mkexp TR None 0 (5,0)%Z (7,0)%Z None None;
             mkexp TR None 0 (4,0)%Z (2,0)%Z None None] =
  [mkexp TRI None 0 (5,0)%Z (2,0)%Z (Some (3,1)%Z) None;
   mkexp TR None 0 (5,0)%Z (7,0)%Z None None].
Proof. vm_compute. reflexivity. Qed.

(* the ring hypotheses are satisfiable: Gaussian integers *)
Example C19_nonvacuous_ring :
  ring_theory g0 g1 gadd gmul (fun a b => gadd a (gneg b)) gneg eq /\
  gconj g0 = g0 /\ (forall a b, geqb a b = true -> a = b).
Proof. split; [exact G_ring|split; [reflexivity|exact geqb_eq]]. Qed.

(* ---- re-ordering the exponents -------------------------------------------- *)

(* a permutation pi of the exponent list induces the label map n |-> n o pi,
   which is a bijection between the two hierarchies (validity is preserved in
   both directions, the map is injective) and fixes the label of rho_0 *)
Theorem C19_permutation_label_bijection :
  forall dims D pi, Permutation pi (seq 0 (length dims)) ->
    (forall n, length n = length dims ->
       (valid dims D n <-> valid (permute 0 pi dims) D (permute 0 pi n))) /\
    (forall n n', length n = length dims -> length n' = length dims ->
       permute 0 pi n = permute 0 pi n' -> n = n') /\
    permute 0 pi (repeat 0 (length dims)) = repeat 0 (length (permute 0 pi dims)).
Proof.
  intros dims D pi P. split; [|split].
  - intros n Hl. now apply valid_permute.
  - intros n n' L1 L2. now apply (permute_inj pi (length dims)).
  - unfold permute at 2. rewrite map_length. apply permute_zero.
    intros j Hj. assert (In j (seq 0 (length dims))) by (eapply Permutation_in; eassumption).
    apply in_seq in H. lia.
Qed.
Print Assumptions C19_permutation_label_bijection.

(* under that bijection the decay term sum_k n_k v_k of every ADO (the
   diagonal block of the generator) is unchanged, in any commutative ring *)
Theorem C19_permutation_decay_term :
  forall (C : Type) (c0 c1 : C) (cadd cmul : C -> C -> C) (cneg : C -> C),
    ring_theory c0 c1 cadd cmul (fun a b => cadd a (cneg b)) cneg eq ->
    forall (d : bexp C) pi (exps : list (bexp C)) (n : label),
      Permutation pi (seq 0 (length exps)) -> length n = length exps ->
      grad_n C c0 c1 cadd cmul cneg (permute d pi exps) (permute 0 pi n) =
      grad_n C c0 c1 cadd cmul cneg exps n.
Proof.
  intros C c0 c1 cadd cmul cneg Rth d pi exps n P Hl. unfold grad_n.
  now rewrite (vk_sum_permute C c0 c1 cadd cmul cneg Rth d pi exps n P Hl).
Qed.
Print Assumptions C19_permutation_decay_term.

Example C19_nonvacuous_permutation :
  Permutation [2; 0; 1] (seq 0 3) /\ valid [3; 2; 4] 3 [1; 1; 1] /\
  permute 0 [2; 0; 1] [3; 2; 4] = [4; 3; 2] /\ permute 0 [2; 0; 1] [2; 0; 1] = [1; 2; 0].
Proof.
  split; [|split; [|split; reflexivity]].
  - simpl. apply Permutation_sym. apply (Permutation_cons_app [2] [1] 0).
    apply (Permutation_cons_app [2] [] 1). apply Permutation_refl.
  - split; [reflexivity|]. split; [|simpl; lia].
    intros [|[|[|k]]] Hk; simpl in *; lia.
Qed.

(* re-ordering a list of bosonic exponents is a relabelling isomorphism of the
   whole hierarchy generator, for every depth and every number of exponents:
   with n' = n o pi and exps' = exps o pi, the ADO n' has a `next`/`prev`
   neighbour through exponent j exactly when n has one through exponent pi[j],
   the neighbours correspond under the label bijection, and the operator placed
   on that block is the same operator (the cached super-operator index j of the
   re-ordered list renamed to pi[j] of the original list); the diagonal decay
   term is unchanged.  Together with C19_permutation_label_bijection this is
   G_pi = P G P^-1 with P fixing rho_0.
   Partial (named): all exponents bosonic - fermionic re-ordering changes the
   sign factors (sign2 counts the fermionic excitations before k) and is not
   covered *)
Theorem C19_permutation_generator_isomorphism_bosonic_partial :
  forall (C : Type) (c0 c1 : C) (cadd cmul : C -> C -> C) (cneg : C -> C) (ci : C)
         (cconj : C -> C),
    ring_theory c0 c1 cadd cmul (fun a b => cadd a (cneg b)) cneg eq ->
    forall pi (exps : list (bexp C)) D odd (n : label) j,
      Permutation pi (seq 0 (length exps)) ->
      Forall (fun e => fermionic (e_type C e) = false) exps ->
      length n = length exps -> j < length exps ->
      let exps' := permute (dflt C c0) pi exps in
      let n' := permute 0 pi n in
      heom_dims C exps' D = permute 0 pi (heom_dims C exps D) /\
      ados_next (heom_dims C exps' D) D n' j =
        option_map (permute 0 pi) (ados_next (heom_dims C exps D) D n (nth j pi 0)) /\
      ados_prev n' j = option_map (permute 0 pi) (ados_prev n (nth j pi 0)) /\
      grad_next C c0 c1 cmul cneg ci exps n (nth j pi 0) odd =
        option_map (ren (fun i => nth i pi 0)) (grad_next C c0 c1 cmul cneg ci exps' n' j odd) /\
      grad_prev C c0 c1 cadd cmul cneg ci cconj exps n (nth j pi 0) odd =
        option_map (ren (fun i => nth i pi 0))
                   (grad_prev C c0 c1 cadd cmul cneg ci cconj exps' n' j odd) /\
      grad_n C c0 c1 cadd cmul cneg exps' n' = grad_n C c0 c1 cadd cmul cneg exps n.
Proof.
  intros C c0 c1 cadd cmul cneg ci cconj Rth pi exps D odd n j P Hb Hl Hj exps' n'.
  assert (Hlp : length pi = length exps) by (rewrite (Permutation_length P); apply seq_length).
  assert (Hr : forall i, In i pi -> i < length exps).
  { intros i Hi. assert (In i (seq 0 (length exps))) by (eapply Permutation_in; eassumption).
    apply in_seq in H. lia. }
  assert (Hd : heom_dims C exps' D = permute 0 pi (heom_dims C exps D))
    by (apply heom_dims_permute; assumption).
  assert (Hld : length (heom_dims C exps D) = length exps)
    by (unfold heom_dims, ados_dims; now rewrite !map_length).
  split; [exact Hd|]. split.
  - rewrite Hd. apply next_permute; rewrite ?Hld; assumption.
  - split; [apply (prev_permute (length exps)); assumption|]. split.
    + apply grad_next_permute; [assumption|lia].
    + split; [apply grad_prev_permute; [assumption|lia]|].
      unfold grad_n. unfold exps', n'.
      now rewrite (vk_sum_permute C c0 c1 cadd cmul cneg Rth (dflt C c0) pi exps n P Hl).
Qed.
Print Assumptions C19_permutation_generator_isomorphism_bosonic_partial.

(* non-vacuity: R, I, RI exponents re-ordered by [2; 0; 1]; the ADO (1,2,0) of the
   re-ordered hierarchy is (2,0,1) of the original one; its `prev` block through
   exponent 0 (= original exponent 2, the RI one) is a non-zero operator *)
Example C19_nonvacuous_permutation_generator :
  let exps := [mkexp TR None 0 (1, 2)%Z (1, 0)%Z None None;
               mkexp TI (Some 2) 1 (2, 0)%Z (2, 0)%Z None None;
               mkexp TRI None 0 (1, 1)%Z (3, 1)%Z (Some (2, -1)%Z) None] in
  let pi := [2; 0; 1] in
  permute 0 pi [2; 0; 1] = [1; 2; 0] /\
  heom_dims G (permute (dflt G g0) pi exps) 3 = [4; 4; 2] /\
  grad_prev G g0 g1 gadd gmul gneg gi gconj (permute (dflt G g0) pi exps) [1; 2; 0] 0 false =
    Some [((1, -1)%Z, BPre 0); ((-1, 1)%Z, BPost 0); ((2, -1)%Z, BPre 0); ((2, -1)%Z, BPost 0)] /\
  grad_prev G g0 g1 gadd gmul gneg gi gconj exps [2; 0; 1] 2 false =
    Some [((1, -1)%Z, BPre 2); ((-1, 1)%Z, BPost 2); ((2, -1)%Z, BPre 2); ((2, -1)%Z, BPost 2)].
Proof. vm_compute. repeat split; reflexivity. Qed.
