(* C04 - temporary writes to an argument are undone on every way out of the
   function (normal completion, return, exception at any call).  Property
   theorems only; proofs in Proofs/C04_fin.v.  Quantifiers: every program of
   the control-flow IR (the generated instances: QobjEvo._expect_dense, see
   Gen/C04_obl.v), every oracle (which calls raise, every branch and loop
   decision, every valuation of the k stable conditions), every fuel. *)
From Coq Require Import List Bool Arith.
Import ListNotations.
From QV Require Import Model.C04_fin Proofs.C04_fin.

(* If the checker accepts, no object is left displaced at any exit. *)
Theorem C04_restored_on_every_exit :
  forall k s, restored_on_every_exit k s = true ->
  forall O fuel st' r,
    length (fvals O) = k ->
    fexec O fuel s (mkfst [] 0) = (st', r) -> r <> FOutOfFuel ->
    disp st' = [].
Proof. exact restored_on_every_exit_sound. Qed.
Print Assumptions C04_restored_on_every_exit.

(* Statement level: the sets computed by the checker cover the displaced
   objects at the exit actually taken, from any entry set. *)
Theorem C04_exit_sets_sound :
  forall O s D e fuel st st' r,
    fabs (fvals O) s D = Some e ->
    (forall x, In x (disp st) -> In x D) ->
    fexec O fuel s st = (st', r) ->
    r = FOutOfFuel \/
    match (match r with FNormal => eN e | FReturned => eR e | FRaised => eX e
                   | FOutOfFuel => None end) with
    | None => False
    | Some D' => forall x, In x (disp st') -> In x D'
    end.
Proof. exact fabs_sound. Qed.
Print Assumptions C04_exit_sets_sound.

(* The flattened shape (restore after the loop instead of in `finally:`) is
   rejected, and there is an execution that leaves the argument displaced:
   the 4th call raises. *)
Theorem C04_flattened_try_finally_refuted :
  restored_on_every_exit 1 prog_flattened = false /\
  exists O fuel st' r,
    length (fvals O) = 1 /\
    fexec O fuel prog_flattened (mkfst [] 0) = (st', r) /\ r = FRaised /\ disp st' = [0].
Proof.
  split; [reflexivity|]. exists forc_example, 50. eexists. eexists.
  split; [reflexivity|]. split; [vm_compute; reflexivity|]. split; reflexivity.
Qed.
Print Assumptions C04_flattened_try_finally_refuted.

(* non-vacuity: the try/finally shape is accepted, and it has executions that
   displace the argument, raise inside the loop, and still end restored *)
Example C04_nonvacuous_try_finally :
  restored_on_every_exit 1 prog_try_finally = true /\
  exists st', fexec forc_example 50 prog_try_finally (mkfst [] 0) = (st', FRaised) /\
              disp st' = [] /\ fcnt st' = 4.
Proof. split; [reflexivity|]. eexists. split; [vm_compute; reflexivity|]. split; reflexivity. Qed.
