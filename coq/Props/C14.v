(* C14 - the parallel map delivers every task result exactly once under any
   schedule.  Property theorems only; proofs are in Proofs/C14.v.
   Quantifiers: every configuration c (any task outcomes, any worker count
   >= 1, both fail_fast settings, with or without reducer), every schedule
   (list of decisions, any length, including ill-formed ones), every point of
   the execution (any fuel), clock expired at the start or not. *)
From Coq Require Import List ZArith Bool Arith Lia.
Import ListNotations.
From QV Require Import Model.C14 Proofs.C14.

Definition reach (c : cfg) sched e0 fuel := iter c fuel (init c sched e0).

(* never more than num_workers tasks in flight *)
Theorem C14_inflight_bounded :
  forall c sched e0 fuel, 1 <= workers c ->
    length (s_waiting (reach c sched e0 fuel)) <= workers c.
Proof. intros c sched e0 fuel HW. exact (proj1 (reach_inv c sched e0 fuel HW)). Qed.
Print Assumptions C14_inflight_bounded.

(* values are submitted in order, each once *)
Theorem C14_submission_order :
  forall c sched e0 fuel, 1 <= workers c ->
    let s := reach c sched e0 fuel in rev (s_submitted s) = seq 0 (s_i s).
Proof.
  intros c sched e0 fuel HW s.
  pose proof (proj1 (proj2 (reach_inv c sched e0 fuel HW))) as H.
  unfold Iorder in H. unfold s, reach. rewrite H. apply rev_involutive.
Qed.
Print Assumptions C14_submission_order.

(* the done-callback runs at most once per task and only for submitted tasks;
   a submitted task whose callback has not run is still in `waiting` (it is
   handed to shutdown_executor, never forgotten) *)
Theorem C14_callbacks_once_nothing_lost :
  forall c sched e0 fuel, 1 <= workers c ->
    let s := reach c sched e0 fuel in
    NoDup (s_compl s) /\
    (forall j, In j (s_compl s) -> In j (s_submitted s)) /\
    (forall j, In j (s_submitted s) -> In j (s_compl s) \/ In j (s_waiting s)).
Proof.
  intros c sched e0 fuel HW s.
  destruct (reach_inv c sched e0 fuel HW) as (_ & _ & [A B] & C & _).
  split; [exact A|split; [exact B|exact C]].
Qed.
Print Assumptions C14_callbacks_once_nothing_lost.

(* with a reducer: the reducer is called exactly once for every completed
   task that returned, with that task's value, and for nothing else *)
Theorem C14_reducer_exactly_once :
  forall c sched e0 fuel, 1 <= workers c ->
    let s := reach c sched e0 fuel in
    NoDup (map fst (s_rlog s)) /\
    forall j v, In (j, v) (s_rlog s) <->
      (reducer c = true /\ In j (s_compl s) /\ exists b, nth_error (outs c) j = Some (Val v b)).
Proof.
  intros c sched e0 fuel HW s.
  destruct (reach_inv c sched e0 fuel HW) as (_ & _ & _ & _ & (A & _ & B & _) & _).
  split; [exact A|exact B].
Qed.
Print Assumptions C14_reducer_exactly_once.

(* without a reducer: the returned list is positional *)
Theorem C14_results_positional :
  forall c sched e0 fuel res, 1 <= workers c ->
    let s := reach c sched e0 fuel in
    (final c s = Return (Some res) \/ exists errs, final c s = RaiseMap errs (Some res)) ->
    reducer c = false /\ length res = length (outs c) /\
    forall j, j < length (outs c) ->
      nth_error res j =
      Some (match nth_error (outs c) j with
            | Some (Val v _) => if memb j (s_compl s) then Some v else None
            | _ => None
            end).
Proof.
  intros c sched e0 fuel res HW s H.
  destruct (reach_inv c sched e0 fuel HW) as (_ & _ & _ & _ & D & _).
  destruct (final_results c s res D H) as (A & B & C).
  split; [exact A|split; [exact B|]]. intros j Hj. rewrite (C j Hj).
  unfold want_result. rewrite A. reflexivity.
Qed.
Print Assumptions C14_results_positional.

(* a task error that reached the callback is never dropped: the map cannot
   return normally; fail_fast raises one of the collected errors, otherwise
   MapExceptions carries exactly the failed tasks with their indices *)
Theorem C14_errors_never_dropped :
  forall c sched e0 fuel, 1 <= workers c ->
    let s := reach c sched e0 fuel in
    match final c s with
    | Return _ => forall j, In j (s_compl s) -> forall e, nth_error (outs c) j <> Some (Err e)
    | Raise e => fail_fast c = true /\
                 exists j, In j (s_compl s) /\ nth_error (outs c) j = Some (Err e)
    | RaiseMap errs _ =>
        fail_fast c = false /\ errs <> [] /\ NoDup (map fst errs) /\
        forall j e, In (j, e) errs <-> In j (s_compl s) /\ nth_error (outs c) j = Some (Err e)
    | OutOfFuel => s_pc s <> PDone
    end.
Proof.
  intros c sched e0 fuel HW s.
  destruct (reach_inv c sched e0 fuel HW) as (_ & _ & _ & _ & D & _).
  exact (final_errors c s D).
Qed.
Print Assumptions C14_errors_never_dropped.

(* once a stop condition holds (reducer signalled completion, time limit, or
   an error in fail_fast mode) fewer than num_workers further tasks are
   submitted *)
Theorem C14_one_round_after_stop :
  forall c sched e0 fuel, 1 <= workers c ->
    s_late (reach c sched e0 fuel) <= workers c - 1.
Proof.
  intros c sched e0 fuel HW.
  destruct (reach_inv c sched e0 fuel HW) as (_ & _ & _ & _ & _ & (A & _)). exact A.
Qed.
Print Assumptions C14_one_round_after_stop.

(* the map always terminates: the fuel of `run` suffices for every schedule,
   so `final` is never OutOfFuel and the theorems above speak about the value
   the caller actually receives *)
Theorem C14_run_terminates :
  forall c sched e0, 1 <= workers c ->
    s_pc (run c sched e0) = PDone /\ final c (run c sched e0) <> OutOfFuel.
Proof.
  intros c sched e0 HW. pose proof (run_terminates c HW sched e0) as H.
  split; [exact H|]. unfold final. rewrite H.
  destruct (s_errors _) as [| [j e] l]; [discriminate|]. destruct (fail_fast c); discriminate.
Qed.
Print Assumptions C14_run_terminates.

(* serial_map gives the same guarantees: each value reduced at most once and
   in order, errors kept, results positional, nothing skipped unless the map
   was stopped *)
Theorem C14_serial_map :
  forall c expire_at, Sinv c (length (outs c)) (serial_run c expire_at).
Proof. exact serial_inv. Qed.
Print Assumptions C14_serial_map.

(* interchangeability on the common case: no task raises, no reducer, the
   map is not stopped: both maps return [task v0; task v1; ...] *)
Theorem C14_serial_parallel_agree :
  forall c sched e0 fuel res, 1 <= workers c -> reducer c = false ->
    let s := reach c sched e0 fuel in
    final c s = Return (Some res) ->
    (forall j, j < length (outs c) -> In j (s_compl s)) ->
    let q := serial_run c (fun _ => false) in
    q_stop q = false -> q_raised q = None ->
    forall j, j < length (outs c) ->
      match nth_error (outs c) j with
      | Some (Val v _) => nth_error res j = Some (Some v) /\ nth_error (q_results q) j = Some (Some v)
      | _ => True
      end.
Proof.
  intros c sched e0 fuel res HW Hred s Hf Hall q Hs Hr j Hj.
  destruct (C14_results_positional c sched e0 fuel res HW (or_introl Hf)) as (_ & _ & P).
  pose proof (serial_inv c (fun _ => false)) as (_ & _ & _ & _ & _ & _ & Full).
  specialize (Full Hs Hr j Hj). specialize (P j Hj). fold s in P.
  destruct (nth_error (outs c) j) as [[v b|e]|]; auto.
  rewrite Hred in Full. split; [|exact Full].
  rewrite P. assert (Hm : memb j (s_compl s) = true) by (apply memb_In; auto).
  rewrite Hm. reflexivity.
Qed.
Print Assumptions C14_serial_parallel_agree.

(* non-vacuity: a concrete run with 5 tasks, 2 workers, one failing task and
   an out-of-order schedule reaches PDone and raises MapExceptions *)
Example C14_nonvacuous :
  let c := {| outs := [Val 10 false; Err 7; Val 30 false; Val 40 false; Val 50 false];
              workers := 2; fail_fast := false; reducer := false |} in
  let sched := [ {| d_expire := false; d_done := [] |};
                 {| d_expire := false; d_done := [] |};
                 {| d_expire := false; d_done := [1; 0] |} ] in
  observe c sched false =
    ([0; 1; 2; 3; 4], [],
     RaiseMap [(1, 7%Z)] (Some [Some 10%Z; None; Some 30%Z; Some 40%Z; Some 50%Z])).
Proof. vm_compute. reflexivity. Qed.
