(* C15, stored states: average_states / average_final_state equal the weighted
   statistics of exactly the trajectories added.  Model: Model/C15_st.v
   (reduce_states / reduce_final_state processors, the on-demand
   recomputation from the kept trajectories, merge with its "ensure reduced"
   reads), proofs: Proofs/C15_st.v.

   Quantifiers: every history `ops` of SNew / SAdd / SAddDet / SMerge /
   SReadStates / SReadFinal on any number of result objects (bad indices are
   no-ops; any rational weights and mixing probabilities; merges and reads in
   any order), in which all results are created with the same options
   (store_states = ss, store_final_state = sf, keep_runs_results = kk) and
   every trajectory carries what the solver produces under these options
   (`wf`: states iff ss, a final state iff ss or sf, equal to the last block of
   its states), any sizes d (one flattened density matrix) and ns (all states
   of a trajectory); every object x of the world reached; every component k.
   o_grel x / o_gdet x are the trajectories added to x (ghost history) and
   o_wrel / o_wdet the stored weights; meanS f x is
       sum_det w * f(t)  +  (1 / N) * sum_rel w * f(t).
   Histories mixing keep_runs_results settings are covered by the exact
   correspondence with the implementation only. *)
From Coq Require Import List ZArith QArith Qcanon Bool Arith Lia.
Import ListNotations.
From QV Require Import Model.C15 Model.C15_st Proofs.C15_st.
Local Open Scope Qc_scope.

(* average_states, whenever it returns a value, returns the weighted mean of
   the states of exactly the trajectories added (deterministic ones with
   their absolute weights, sampled ones with relative weight / N) - whether
   the sums were kept up to date by the _reduce_states processor or rebuilt on
   demand from the kept trajectories; it raises only on an empty result; it
   does return a value whenever states are stored and runs are kept; the read
   changes nothing but the on-demand sums *)
Theorem C15_average_states_is_weighted_mean :
  forall (ss sf kk : bool) (d ns : nat), (ss = true -> (d <= ns)%nat) ->
  forall (ops : list sop) (i : nat) (x : sobj),
    Forall (sop_ok ss sf kk d ns) ops -> nth_error (srun d [] ops) i = Some x ->
    (forall v, snd (average_states x) = SVal v ->
       length v = ns /\ forall k, nth k v 0 = meanS (sat k) x) /\
    (snd (average_states x) = SErr -> o_grel x = [] /\ o_gdet x = []) /\
    (ss = true -> o_trajs x <> [] -> exists v, snd (average_states x) = SVal v) /\
    same_ens x (fst (average_states x)).
Proof. exact reached_states. Qed.
Print Assumptions C15_average_states_is_weighted_mean.

(* the same for average_final_state, including the shortcut states[-1] *)
Theorem C15_average_final_state_is_weighted_mean :
  forall (ss sf kk : bool) (d ns : nat), (ss = true -> (d <= ns)%nat) ->
  forall (ops : list sop) (i : nat) (x : sobj),
    Forall (sop_ok ss sf kk d ns) ops -> nth_error (srun d [] ops) i = Some x ->
    (forall v, snd (average_final d x) = SVal v ->
       length v = d /\ forall k, nth k v 0 = meanS (fat k) x) /\
    (snd (average_final d x) = SErr -> o_grel x = [] /\ o_gdet x = []) /\
    same_ens x (fst (average_final d x)).
Proof. exact reached_final. Qed.
Print Assumptions C15_average_final_state_is_weighted_mean.

(* consequence of the two theorems above: whenever both are reported,
   average_final_state is the last block of average_states (states[-1]) - after
   any history, in particular after merge followed by further add /
   add_deterministic on an operand or on the merged result *)
Theorem C15_average_final_state_is_last_averaged_state :
  forall (ss sf kk : bool) (d ns : nat), (ss = true -> (d <= ns)%nat) ->
  forall (ops : list sop) (i : nat) (x : sobj) (vs vf : vec),
    Forall (sop_ok ss sf kk d ns) ops -> nth_error (srun d [] ops) i = Some x -> ss = true ->
    snd (average_states x) = SVal vs -> snd (average_final d x) = SVal vf ->
    vf = lastblock d vs.
Proof. exact reached_final_is_last_block. Qed.
Print Assumptions C15_average_final_state_is_last_averaged_state.

(* the invariant behind both: for every object reached, each running sum of
   states / final states that is present holds the weighted sum of what was
   added (sum_inv), is present whenever a processor maintains it, and the
   kept trajectories are exactly the trajectories added *)
Theorem C15_state_sums_invariant :
  forall (ss sf kk : bool) (d ns : nat), (ss = true -> (d <= ns)%nat) ->
  forall (ops : list sop) (i : nat) (x : sobj),
    Forall (sop_ok ss sf kk d ns) ops -> nth_error (srun d [] ops) i = Some x ->
    SI ss sf kk d ns x.
Proof. exact reached_SI. Qed.
Print Assumptions C15_state_sums_invariant.

(* non-vacuity: keep_runs_results, states stored; read, add, read, a
   deterministic trajectory, read: the history of the former counterexample
   (a9be42a); the last read gives 1/2 * 3 + (1 + 3) / 2 = 7/2 *)
Local Open Scope Z_scope.
Example C15_nonvacuous_states :
  let t (id : Z) (v : Z) := mkst id (Some [(v, 1)]) (Some [(v, 1)]) in
  let ops := [SNew true true true; SAdd 0%nat (t 0 1) 1%Qc; SReadStates 0%nat;
              SAdd 0%nat (t 1 3) 1%Qc; SReadStates 0%nat;
              SAddDet 0%nat (t 2 3) (mkq 1 2); SReadFinal 0%nat] in
  Forall (sop_ok true true true 1%nat 1%nat) ops /\
  exists x, nth_error (srun 1%nat [] ops) 0%nat = Some x /\
    sres_z (snd (average_states x)) = (1, [(7, 2)]) /\
    sres_z (snd (average_final 1%nat x)) = (1, [(7, 2)]).
Proof.
  assert (W : forall id v, wf true true 1%nat 1%nat (mkst id (Some [(v, 1)]) (Some [(v, 1)]))).
  { intros id v. split; [eexists; split; reflexivity|split; [eexists; split; reflexivity|]].
    intros v0 H. injection H as <-. reflexivity. }
  split.
  - repeat constructor; apply W.
  - eexists. split; [vm_compute; reflexivity|]. split; vm_compute; reflexivity.
Qed.

(* merge followed by further adds on an operand and on the merged result
   (store_states, runs not kept): the history of seeded change C15_4 *)
Example C15_nonvacuous_merge_then_add :
  let t (id : Z) (v : Z) := mkst id (Some [(v, 1)]) (Some [(v, 1)]) in
  let ops := [SNew true false false; SAdd 0%nat (t 0 1) 1%Qc;
              SNew true false false; SAdd 1%nat (t 1 3) 1%Qc;
              SMerge 0%nat 1%nat None; SAdd 0%nat (t 2 5) 1%Qc; SAdd 2%nat (t 3 8) 1%Qc] in
  Forall (sop_ok true false false 1%nat 1%nat) ops /\
  exists a m, nth_error (srun 1%nat [] ops) 0%nat = Some a /\ nth_error (srun 1%nat [] ops) 2%nat = Some m /\
    sres_z (snd (average_states a)) = (1, [(3, 1)]) /\ sres_z (snd (average_final 1%nat a)) = (1, [(3, 1)]) /\
    sres_z (snd (average_states m)) = (1, [(4, 1)]) /\ sres_z (snd (average_final 1%nat m)) = (1, [(4, 1)]).
Proof.
  assert (W : forall id v, wf true false 1%nat 1%nat (mkst id (Some [(v, 1)]) (Some [(v, 1)]))).
  { intros id v. split; [eexists; split; reflexivity|split; [eexists; split; reflexivity|]].
    intros v0 H. injection H as <-. reflexivity. }
  split; [repeat constructor; apply W|].
  eexists. eexists. split; [vm_compute; reflexivity|]. split; [vm_compute; reflexivity|].
  repeat split; vm_compute; reflexivity.
Qed.
