(* C10 - deterministic evolution routes agree with the exact solution.
   Property theorems only; proofs are in Proofs/C10*.v.

   What is a theorem here (see the final report / MANIFEST note for what is
   not): the kernel of QuTiP's own Runge-Kutta integrator (model in
   Model/C10.v, tied to explicit_rk.pyx by exact correspondence) and the
   Butcher tableaux it is run with (read from the source on every run as the
   exact doubles, Gen/C10_tab_*.v).  Global error / step-size control /
   "within the requested tolerance" is numerics and is explored by the
   oracle in tools/c10.py, not proved.

   Reading the tableau statements: numbers are dyadic rationals (m, e) = m/2^e
   (every IEEE double is one); `dclose k x g tgt = true` is by definition
   |m*g - tgt*2^e| * 2^k <= 2^e, i.e. |x*g - tgt| <= 2^-k, evaluated exactly
   in integer arithmetic; Phi a t is the vector of elementary weights of the
   rooted tree t, gamma t its density. *)
From Coq Require Import List ZArith QArith Bool Lia.
Import ListNotations.
From QV Require Import Model.C10_trees Model.C10 Proofs.C10_trees Proofs.C10.

(* ------------------------------------------------------------ kernel --- *)

(* Route agreement at the level of the integrator: for ANY tableau, any
   two state spaces and any map h between them that is additive,
   homogeneous and intertwines the two right-hand sides, a whole session
   set_initial_value; integrate(t1); integrate(t2); ... run on the mapped
   initial state returns the mapped results at every time - same steps,
   same dense-output evaluations.  Instances of h: multiplying by the
   initial ket from the right (propagator route vs state route), column
   stacking (operator vs operator-ket), conversion between data layers. *)
Theorem C10_kernel_sessions_commute_with_linear_maps :
  forall (C V1 V2 : Type) (cadd cmul csub cdiv : C -> C -> C) (czero : C)
         (ciszero : C -> bool) (cltb ceqb : C -> C -> bool)
         (vadd1 : V1 -> V1 -> V1) (vscal1 : C -> V1 -> V1) (F1 : C -> V1 -> V1)
         (vadd2 : V2 -> V2 -> V2) (vscal2 : C -> V2 -> V2) (F2 : C -> V2 -> V2)
         (h : V1 -> V2),
    (forall u v, h (vadd1 u v) = vadd2 (h u) (h v)) ->
    (forall c v, h (vscal1 c v) = vscal2 c (h v)) ->
    (forall t v, h (F1 t v) = F2 t (h v)) ->
    forall (tb : tableau C) (fuel : nat) (hstep : C) (ts : list C) (y0 : V1) (t0 : C),
      map (option_map (fun p => (fst p, h (snd p))))
          (session C V1 cadd cmul csub cdiv czero ciszero cltb ceqb vadd1 vscal1 F1 tb
                   fuel hstep ts (set_initial_value C V1 czero y0 t0))
      = session C V2 cadd cmul csub cdiv czero ciszero cltb ceqb vadd2 vscal2 F2 tb
                fuel hstep ts (set_initial_value C V2 czero (h y0) t0).
Proof.
  intros C V1 V2 cadd cmul csub cdiv czero ciszero cltb ceqb vadd1 vscal1 F1
         vadd2 vscal2 F2 h Ha Hs HF tb fuel hstep ts y0 t0.
  exact (session_hom C V1 V2 cadd cmul csub cdiv czero ciszero cltb ceqb
           vadd1 vscal1 F1 vadd2 vscal2 F2 h Ha Hs HF tb fuel hstep ts
           (set_initial_value C V1 czero y0 t0)).
Qed.
Print Assumptions C10_kernel_sessions_commute_with_linear_maps.

(* the same for one step and for one dense-output evaluation *)
Theorem C10_kernel_step_commutes_with_linear_maps :
  forall (C V1 V2 : Type) (cadd cmul : C -> C -> C) (czero : C) (ciszero : C -> bool)
         (vadd1 : V1 -> V1 -> V1) (vscal1 : C -> V1 -> V1) (F1 : C -> V1 -> V1)
         (vadd2 : V2 -> V2 -> V2) (vscal2 : C -> V2 -> V2) (F2 : C -> V2 -> V2)
         (h : V1 -> V2),
    (forall u v, h (vadd1 u v) = vadd2 (h u) (h v)) ->
    (forall c v, h (vscal1 c v) = vscal2 c (h v)) ->
    (forall t v, h (F1 t v) = F2 t (h v)) ->
    forall (tb : tableau C) (t : C) (y : V1) (dt tau : C),
      h (compute_step C V1 cadd cmul czero ciszero vadd1 vscal1 F1 tb t y dt)
      = compute_step C V2 cadd cmul czero ciszero vadd2 vscal2 F2 tb t (h y) dt
      /\
      h (interpolate_step C V1 cadd cmul czero ciszero vadd1 vscal1 tb y dt tau
           (prep_dense_out C V1 cadd cmul czero ciszero vadd1 vscal1 F1 tb t y dt
              (compute_ks C V1 cadd cmul czero ciszero vadd1 vscal1 F1 tb t y dt)))
      = interpolate_step C V2 cadd cmul czero ciszero vadd2 vscal2 tb (h y) dt tau
           (prep_dense_out C V2 cadd cmul czero ciszero vadd2 vscal2 F2 tb t (h y) dt
              (compute_ks C V2 cadd cmul czero ciszero vadd2 vscal2 F2 tb t (h y) dt)).
Proof.
  intros C V1 V2 cadd cmul czero ciszero vadd1 vscal1 F1 vadd2 vscal2 F2 h Ha Hs HF
         tb t y dt tau. split.
  - exact (compute_step_hom C V1 V2 cadd cmul czero ciszero vadd1 vscal1 F1
             vadd2 vscal2 F2 h Ha Hs HF tb t y dt).
  - rewrite (interp_hom C V1 V2 cadd cmul czero ciszero vadd1 vscal1 vadd2 vscal2 h Ha Hs).
    rewrite (prep_hom C V1 V2 cadd cmul czero ciszero vadd1 vscal1 F1 vadd2 vscal2 F2 h Ha Hs HF).
    rewrite (compute_ks_hom C V1 V2 cadd cmul czero ciszero vadd1 vscal1 F1 vadd2 vscal2 F2 h Ha Hs HF).
    reflexivity.
Qed.
Print Assumptions C10_kernel_step_commutes_with_linear_maps.

(* Time-independent linear generator: in any state space satisfying the
   module laws, with any linear L (y' = L y: L = -iH on kets, the
   Liouvillian on stacked density matrices ...), one step of the kernel is
   y_front = p(L) y_prev = sum_j p_j L^j y_prev, where the coefficient list p
   is obtained by running the very same kernel code on polynomials (states =
   polynomials in x, right-hand side = multiplication by x, start = 1).
   For every tableau, step size and dimension. *)
Theorem C10_linear_step_is_kernel_polynomial :
  forall (C V : Type) (cadd cmul : C -> C -> C) (czero cone : C) (ciszero : C -> bool)
         (vadd : V -> V -> V) (vscal : C -> V -> V) (vzero : V) (L : V -> V),
    (forall u v, vadd u v = vadd v u) ->
    (forall u v w, vadd u (vadd v w) = vadd (vadd u v) w) ->
    (forall v, vadd v vzero = v) ->
    (forall a b v, vscal (cadd a b) v = vadd (vscal a v) (vscal b v)) ->
    (forall c u v, vscal c (vadd u v) = vadd (vscal c u) (vscal c v)) ->
    (forall a b v, vscal (cmul a b) v = vscal a (vscal b v)) ->
    (forall v, vscal czero v = vzero) ->
    (forall v, vscal cone v = v) ->
    (forall c, vscal c vzero = vzero) ->
    (forall u v, L (vadd u v) = vadd (L u) (L v)) ->
    (forall c v, L (vscal c v) = vscal c (L v)) ->
    forall (y : V) (tb : tableau C) (t dt : C),
      compute_step C V cadd cmul czero ciszero vadd vscal (fun _ => L) tb t y dt
      = peval C V vadd vscal vzero L y
          (compute_step C (list C) cadd cmul czero ciszero
             (padd C cadd) (pscal C cmul) (fun _ => pshift C czero) tb t [cone] dt).
Proof.
  intros C V cadd cmul czero cone ciszero vadd vscal vzero L
         H1 H2 H3 H4 H5 H6 H7 H8 H9 H10 H11 y tb t dt.
  exact (step_is_polynomial C V cadd cmul czero cone ciszero vadd vscal vzero L
           H1 H2 H3 H4 H5 H6 H7 H8 H9 H10 H11 y tb t dt).
Qed.
Print Assumptions C10_linear_step_is_kernel_polynomial.

(* dense output of the linear problem: likewise the symbolic dense output *)
Theorem C10_linear_dense_output_is_kernel_polynomial :
  forall (C V : Type) (cadd cmul : C -> C -> C) (czero cone : C) (ciszero : C -> bool)
         (vadd : V -> V -> V) (vscal : C -> V -> V) (vzero : V) (L : V -> V),
    (forall u v, vadd u v = vadd v u) ->
    (forall u v w, vadd u (vadd v w) = vadd (vadd u v) w) ->
    (forall v, vadd v vzero = v) ->
    (forall a b v, vscal (cadd a b) v = vadd (vscal a v) (vscal b v)) ->
    (forall c u v, vscal c (vadd u v) = vadd (vscal c u) (vscal c v)) ->
    (forall a b v, vscal (cmul a b) v = vscal a (vscal b v)) ->
    (forall v, vscal czero v = vzero) ->
    (forall v, vscal cone v = v) ->
    (forall c, vscal c vzero = vzero) ->
    (forall u v, L (vadd u v) = vadd (L u) (L v)) ->
    (forall c v, L (vscal c v) = vscal c (L v)) ->
    forall (y : V) (tb : tableau C) (t dt tau : C),
      interpolate_step C V cadd cmul czero ciszero vadd vscal tb y dt tau
        (prep_dense_out C V cadd cmul czero ciszero vadd vscal (fun _ => L) tb t y dt
           (compute_ks C V cadd cmul czero ciszero vadd vscal (fun _ => L) tb t y dt))
      = peval C V vadd vscal vzero L y
          (interpolate_step C (list C) cadd cmul czero ciszero
             (padd C cadd) (pscal C cmul) tb [cone] dt tau
             (prep_dense_out C (list C) cadd cmul czero ciszero
                (padd C cadd) (pscal C cmul) (fun _ => pshift C czero) tb t [cone] dt
                (compute_ks C (list C) cadd cmul czero ciszero
                   (padd C cadd) (pscal C cmul) (fun _ => pshift C czero) tb t [cone] dt))).
Proof.
  intros C V cadd cmul czero cone ciszero vadd vscal vzero L
         H1 H2 H3 H4 H5 H6 H7 H8 H9 H10 H11 y tb t dt tau.
  exact (dense_is_polynomial C V cadd cmul czero cone ciszero vadd vscal vzero L
           H1 H2 H3 H4 H5 H6 H7 H8 H9 H10 H11 y tb t dt tau).
Qed.
Print Assumptions C10_linear_dense_output_is_kernel_polynomial.

(* Headline form of local exactness: for every tableau, dimension, step size
   and linear generator,  y_front = sum_j p_j (dt L)^j y_prev  where p is the
   symbolic run of the kernel at step size 1 - the list whose entries
   C10_taylor_coefficients (Props/C10_tab.v) shows to be 1/j! up to 2^-40 for j <= order
   when the tableau is one of those in the source.  Step size and generator
   enter only through dt*L. *)
Theorem C10_linear_step_taylor_form :
  forall (C V : Type) (cadd cmul : C -> C -> C) (czero cone : C) (ciszero : C -> bool)
         (vadd : V -> V -> V) (vscal : C -> V -> V) (vzero : V) (L : V -> V),
    (forall a b, cmul a b = cmul b a) ->
    (forall a, cmul cone a = a) ->
    (forall c v, ciszero c = true -> vscal c v = vzero) ->
    (forall u v, vadd u v = vadd v u) ->
    (forall u v w, vadd u (vadd v w) = vadd (vadd u v) w) ->
    (forall v, vadd v vzero = v) ->
    (forall a b v, vscal (cadd a b) v = vadd (vscal a v) (vscal b v)) ->
    (forall c u v, vscal c (vadd u v) = vadd (vscal c u) (vscal c v)) ->
    (forall a b v, vscal (cmul a b) v = vscal a (vscal b v)) ->
    (forall v, vscal czero v = vzero) ->
    (forall v, vscal cone v = v) ->
    (forall c, vscal c vzero = vzero) ->
    (forall u v, L (vadd u v) = vadd (L u) (L v)) ->
    (forall c v, L (vscal c v) = vscal c (L v)) ->
    forall (tb : tableau C) (t dt : C) (y : V),
      compute_step C V cadd cmul czero ciszero vadd vscal (fun _ => L) tb t y dt
      = peval C V vadd vscal vzero (fun v => vscal dt (L v)) y
          (compute_step C (list C) cadd cmul czero ciszero
             (padd C cadd) (pscal C cmul) (fun _ => pshift C czero) tb t [cone] cone).
Proof.
  intros C V cadd cmul czero cone ciszero vadd vscal vzero L
         H1 H2 H3 H4 H5 H6 H7 H8 H9 H10 H11 H12 H13 H14 tb t dt y.
  exact (step_taylor_form C V cadd cmul czero cone ciszero vadd vscal vzero L
           H1 H2 H3 H4 H5 H6 H7 H8 H9 H10 H11 H12 H13 H14 tb t dt y).
Qed.
Print Assumptions C10_linear_step_taylor_form.

(* non-vacuity of the module hypotheses: V = C = Z, L = multiplication by 3;
   a 2-stage tableau; the step and its polynomial form agree (and are not
   trivial) *)
Example C10_nonvacuous_linear :
  let tb := mk_tableau Z [[0; 0]; [2; 0]]%Z [1; 3]%Z [0; 2]%Z false [] in
  compute_step Z Z Z.add Z.mul 0%Z (Z.eqb 0) Z.add Z.mul (fun _ v => (3 * v)%Z) tb 0%Z 5%Z 2%Z = 1205%Z
  /\ compute_step Z (list Z) Z.add Z.mul 0%Z (Z.eqb 0) (padd Z Z.add) (pscal Z Z.mul)
                  (fun _ => pshift Z 0%Z) tb 0%Z [1%Z] 2%Z = [1; 8; 24]%Z
  /\ peval Z Z Z.add Z.mul 0%Z (fun v => (3 * v)%Z) 5%Z [1; 8; 24]%Z = 1205%Z.
Proof. vm_compute. repeat split. Qed.

(* ---------------------------------------------------------- packing --- *)

(* Solver._prepare_state / _restore_state: unstack_columns . stack_columns
   is the identity for every shape (index level), stack . unstack likewise,
   and the stacked index is a bijection onto [0, n*m) *)
Theorem C10_unstack_stack :
  forall (A : Type) (n m : nat) (X : nat -> nat -> A) (v : nat -> A),
    (forall i j, (i < n)%nat -> unstack_fun n (stack_fun n X) i j = X i j) /\
    ((0 < n)%nat -> forall k, stack_fun n (unstack_fun n v) k = v k) /\
    (forall i j, (i < n)%nat -> (j < m)%nat -> (stack_idx n i j < n * m)%nat) /\
    (forall i j i' j', (i < n)%nat -> (i' < n)%nat ->
        stack_idx n i j = stack_idx n i' j' -> i = i' /\ j = j').
Proof.
  intros A n m X v. repeat split.
  - intros i j Hi. apply unstack_stack_fun. exact Hi.
  - intros Hn k. apply stack_unstack_fun. exact Hn.
  - intros i j Hi Hj. apply stack_idx_range; assumption.
  - destruct (stack_idx_inj n i j i' j' H H0 H1). assumption.
  - destruct (stack_idx_inj n i j i' j' H H0 H1). assumption.
Qed.
Print Assumptions C10_unstack_stack.

(* ------------------------------------------- meaning of the dyadics --- *)

(* the arithmetic used for the tableau statements is exact rational
   arithmetic: conversion of a dyadic rational, sum and product commute with
   dy2Q : dy -> Q (exponents stay non-negative), and dclose is the stated
   inequality in Q *)
Theorem C10_dyadic_arithmetic_is_exact :
  (forall q, q_is_dyadic q = true -> dwf (q2dy q) /\ (dy2Q (q2dy q) == q)%Q) /\
  (forall x y, dwf x -> dwf y -> dwf (dadd x y) /\ (dy2Q (dadd x y) == dy2Q x + dy2Q y)%Q) /\
  (forall x y, dwf x -> dwf y -> dwf (dmul x y) /\ (dy2Q (dmul x y) == dy2Q x * dy2Q y)%Q) /\
  (forall k m e g tgt, (0 <= e)%Z -> (0 <= k)%Z -> dclose k (m, e) g tgt = true ->
     (Qabs.Qabs (dy2Q (m, e) * inject_Z g - inject_Z tgt) <= 1 / inject_Z (2 ^ k))%Q).
Proof.
  split; [exact q2dy_sound|]. split; [exact dadd_sound|]. split; [exact dmul_sound|].
  exact dclose_sound.
Qed.
Print Assumptions C10_dyadic_arithmetic_is_exact.
