(* C10 - deterministic evolution routes agree with the exact solution.
   Property theorems only; proofs are in Proofs/C10*.v.

   What is a theorem here (see the final report / MANIFEST note for what is
   not): the kernel of QuTiP's own Runge-Kutta integrator (model in
   Model/C10.v, tied to explicit_rk.pyx by exact correspondence) and the
   Butcher tableaux it is run with (read from the source on every run as the
   exact doubles, Gen/C10_tab_*.v).  Global error / step-size control /
   "within the requested tolerance" is numerics and is explored by the
   oracle in tools/c10.py, not proved.

   Reading the tableau statements: numbers are dyadic rationals (m, e) = m/2^e
   (every IEEE double is one); `dclose k x g tgt = true` is by definition
   |m*g - tgt*2^e| * 2^k <= 2^e, i.e. |x*g - tgt| <= 2^-k, evaluated exactly
   in integer arithmetic; Phi a t is the vector of elementary weights of the
   rooted tree t, gamma t its density. *)
From Coq Require Import List ZArith QArith Bool Lia.
Import ListNotations.
From QV Require Import Model.C10_trees Model.C10 Proofs.C10_trees Proofs.C10
  Proofs.C10_tab_small Proofs.C10_tab_vern7 Proofs.C10_tab_vern9
  Gen.C10_tab_euler Gen.C10_tab_rk4 Gen.C10_tab_vern7 Gen.C10_tab_vern9.

(* ------------------------------------------------------------ kernel --- *)

(* Route agreement at the level of the integrator: for ANY tableau, any
   two state spaces and any map h between them that is additive,
   homogeneous and intertwines the two right-hand sides, a whole session
   set_initial_value; integrate(t1); integrate(t2); ... run on the mapped
   initial state returns the mapped results at every time - same steps,
   same dense-output evaluations.  Instances of h: multiplying by the
   initial ket from the right (propagator route vs state route), column
   stacking (operator vs operator-ket), conversion between data layers. *)
Theorem C10_kernel_sessions_commute_with_linear_maps :
  forall (C V1 V2 : Type) (cadd cmul csub cdiv : C -> C -> C) (czero : C)
         (ciszero : C -> bool) (cltb ceqb : C -> C -> bool)
         (vadd1 : V1 -> V1 -> V1) (vscal1 : C -> V1 -> V1) (F1 : C -> V1 -> V1)
         (vadd2 : V2 -> V2 -> V2) (vscal2 : C -> V2 -> V2) (F2 : C -> V2 -> V2)
         (h : V1 -> V2),
    (forall u v, h (vadd1 u v) = vadd2 (h u) (h v)) ->
    (forall c v, h (vscal1 c v) = vscal2 c (h v)) ->
    (forall t v, h (F1 t v) = F2 t (h v)) ->
    forall (tb : tableau C) (fuel : nat) (hstep : C) (ts : list C) (y0 : V1) (t0 : C),
      map (option_map (fun p => (fst p, h (snd p))))
          (session C V1 cadd cmul csub cdiv czero ciszero cltb ceqb vadd1 vscal1 F1 tb
                   fuel hstep ts (set_initial_value C V1 czero y0 t0))
      = session C V2 cadd cmul csub cdiv czero ciszero cltb ceqb vadd2 vscal2 F2 tb
                fuel hstep ts (set_initial_value C V2 czero (h y0) t0).
Proof.
  intros C V1 V2 cadd cmul csub cdiv czero ciszero cltb ceqb vadd1 vscal1 F1
         vadd2 vscal2 F2 h Ha Hs HF tb fuel hstep ts y0 t0.
  exact (session_hom C V1 V2 cadd cmul csub cdiv czero ciszero cltb ceqb
           vadd1 vscal1 F1 vadd2 vscal2 F2 h Ha Hs HF tb fuel hstep ts
           (set_initial_value C V1 czero y0 t0)).
Qed.
Print Assumptions C10_kernel_sessions_commute_with_linear_maps.

(* the same for one step and for one dense-output evaluation *)
Theorem C10_kernel_step_commutes_with_linear_maps :
  forall (C V1 V2 : Type) (cadd cmul : C -> C -> C) (czero : C) (ciszero : C -> bool)
         (vadd1 : V1 -> V1 -> V1) (vscal1 : C -> V1 -> V1) (F1 : C -> V1 -> V1)
         (vadd2 : V2 -> V2 -> V2) (vscal2 : C -> V2 -> V2) (F2 : C -> V2 -> V2)
         (h : V1 -> V2),
    (forall u v, h (vadd1 u v) = vadd2 (h u) (h v)) ->
    (forall c v, h (vscal1 c v) = vscal2 c (h v)) ->
    (forall t v, h (F1 t v) = F2 t (h v)) ->
    forall (tb : tableau C) (t : C) (y : V1) (dt tau : C),
      h (compute_step C V1 cadd cmul czero ciszero vadd1 vscal1 F1 tb t y dt)
      = compute_step C V2 cadd cmul czero ciszero vadd2 vscal2 F2 tb t (h y) dt
      /\
      h (interpolate_step C V1 cadd cmul czero ciszero vadd1 vscal1 tb y dt tau
           (prep_dense_out C V1 cadd cmul czero ciszero vadd1 vscal1 F1 tb t y dt
              (compute_ks C V1 cadd cmul czero ciszero vadd1 vscal1 F1 tb t y dt)))
      = interpolate_step C V2 cadd cmul czero ciszero vadd2 vscal2 tb (h y) dt tau
           (prep_dense_out C V2 cadd cmul czero ciszero vadd2 vscal2 F2 tb t (h y) dt
              (compute_ks C V2 cadd cmul czero ciszero vadd2 vscal2 F2 tb t (h y) dt)).
Proof.
  intros C V1 V2 cadd cmul czero ciszero vadd1 vscal1 F1 vadd2 vscal2 F2 h Ha Hs HF
         tb t y dt tau. split.
  - exact (compute_step_hom C V1 V2 cadd cmul czero ciszero vadd1 vscal1 F1
             vadd2 vscal2 F2 h Ha Hs HF tb t y dt).
  - rewrite (interp_hom C V1 V2 cadd cmul czero ciszero vadd1 vscal1 vadd2 vscal2 h Ha Hs).
    rewrite (prep_hom C V1 V2 cadd cmul czero ciszero vadd1 vscal1 F1 vadd2 vscal2 F2 h Ha Hs HF).
    rewrite (compute_ks_hom C V1 V2 cadd cmul czero ciszero vadd1 vscal1 F1 vadd2 vscal2 F2 h Ha Hs HF).
    reflexivity.
Qed.
Print Assumptions C10_kernel_step_commutes_with_linear_maps.

(* Time-independent linear generator: in any state space satisfying the
   module laws, with any linear L (y' = L y: L = -iH on kets, the
   Liouvillian on stacked density matrices ...), one step of the kernel is
   y_front = p(L) y_prev = sum_j p_j L^j y_prev, where the coefficient list p
   is obtained by running the very same kernel code on polynomials (states =
   polynomials in x, right-hand side = multiplication by x, start = 1).
   For every tableau, step size and dimension. *)
Theorem C10_linear_step_is_kernel_polynomial :
  forall (C V : Type) (cadd cmul : C -> C -> C) (czero cone : C) (ciszero : C -> bool)
         (vadd : V -> V -> V) (vscal : C -> V -> V) (vzero : V) (L : V -> V),
    (forall u v, vadd u v = vadd v u) ->
    (forall u v w, vadd u (vadd v w) = vadd (vadd u v) w) ->
    (forall v, vadd v vzero = v) ->
    (forall a b v, vscal (cadd a b) v = vadd (vscal a v) (vscal b v)) ->
    (forall c u v, vscal c (vadd u v) = vadd (vscal c u) (vscal c v)) ->
    (forall a b v, vscal (cmul a b) v = vscal a (vscal b v)) ->
    (forall v, vscal czero v = vzero) ->
    (forall v, vscal cone v = v) ->
    (forall c, vscal c vzero = vzero) ->
    (forall u v, L (vadd u v) = vadd (L u) (L v)) ->
    (forall c v, L (vscal c v) = vscal c (L v)) ->
    forall (y : V) (tb : tableau C) (t dt : C),
      compute_step C V cadd cmul czero ciszero vadd vscal (fun _ => L) tb t y dt
      = peval C V vadd vscal vzero L y
          (compute_step C (list C) cadd cmul czero ciszero
             (padd C cadd) (pscal C cmul) (fun _ => pshift C czero) tb t [cone] dt).
Proof.
  intros C V cadd cmul czero cone ciszero vadd vscal vzero L
         H1 H2 H3 H4 H5 H6 H7 H8 H9 H10 H11 y tb t dt.
  exact (step_is_polynomial C V cadd cmul czero cone ciszero vadd vscal vzero L
           H1 H2 H3 H4 H5 H6 H7 H8 H9 H10 H11 y tb t dt).
Qed.
Print Assumptions C10_linear_step_is_kernel_polynomial.

(* dense output of the linear problem: likewise the symbolic dense output *)
Theorem C10_linear_dense_output_is_kernel_polynomial :
  forall (C V : Type) (cadd cmul : C -> C -> C) (czero cone : C) (ciszero : C -> bool)
         (vadd : V -> V -> V) (vscal : C -> V -> V) (vzero : V) (L : V -> V),
    (forall u v, vadd u v = vadd v u) ->
    (forall u v w, vadd u (vadd v w) = vadd (vadd u v) w) ->
    (forall v, vadd v vzero = v) ->
    (forall a b v, vscal (cadd a b) v = vadd (vscal a v) (vscal b v)) ->
    (forall c u v, vscal c (vadd u v) = vadd (vscal c u) (vscal c v)) ->
    (forall a b v, vscal (cmul a b) v = vscal a (vscal b v)) ->
    (forall v, vscal czero v = vzero) ->
    (forall v, vscal cone v = v) ->
    (forall c, vscal c vzero = vzero) ->
    (forall u v, L (vadd u v) = vadd (L u) (L v)) ->
    (forall c v, L (vscal c v) = vscal c (L v)) ->
    forall (y : V) (tb : tableau C) (t dt tau : C),
      interpolate_step C V cadd cmul czero ciszero vadd vscal tb y dt tau
        (prep_dense_out C V cadd cmul czero ciszero vadd vscal (fun _ => L) tb t y dt
           (compute_ks C V cadd cmul czero ciszero vadd vscal (fun _ => L) tb t y dt))
      = peval C V vadd vscal vzero L y
          (interpolate_step C (list C) cadd cmul czero ciszero
             (padd C cadd) (pscal C cmul) tb [cone] dt tau
             (prep_dense_out C (list C) cadd cmul czero ciszero
                (padd C cadd) (pscal C cmul) (fun _ => pshift C czero) tb t [cone] dt
                (compute_ks C (list C) cadd cmul czero ciszero
                   (padd C cadd) (pscal C cmul) (fun _ => pshift C czero) tb t [cone] dt))).
Proof.
  intros C V cadd cmul czero cone ciszero vadd vscal vzero L
         H1 H2 H3 H4 H5 H6 H7 H8 H9 H10 H11 y tb t dt tau.
  exact (dense_is_polynomial C V cadd cmul czero cone ciszero vadd vscal vzero L
           H1 H2 H3 H4 H5 H6 H7 H8 H9 H10 H11 y tb t dt tau).
Qed.
Print Assumptions C10_linear_dense_output_is_kernel_polynomial.

(* Headline form of local exactness: for every tableau, dimension, step size
   and linear generator,  y_front = sum_j p_j (dt L)^j y_prev  where p is the
   symbolic run of the kernel at step size 1 - the list whose entries
   C10_taylor_coefficients (below) shows to be 1/j! up to 2^-40 for j <= order
   when the tableau is one of those in the source.  Step size and generator
   enter only through dt*L. *)
Theorem C10_linear_step_taylor_form :
  forall (C V : Type) (cadd cmul : C -> C -> C) (czero cone : C) (ciszero : C -> bool)
         (vadd : V -> V -> V) (vscal : C -> V -> V) (vzero : V) (L : V -> V),
    (forall a b, cmul a b = cmul b a) ->
    (forall a, cmul cone a = a) ->
    (forall c v, ciszero c = true -> vscal c v = vzero) ->
    (forall u v, vadd u v = vadd v u) ->
    (forall u v w, vadd u (vadd v w) = vadd (vadd u v) w) ->
    (forall v, vadd v vzero = v) ->
    (forall a b v, vscal (cadd a b) v = vadd (vscal a v) (vscal b v)) ->
    (forall c u v, vscal c (vadd u v) = vadd (vscal c u) (vscal c v)) ->
    (forall a b v, vscal (cmul a b) v = vscal a (vscal b v)) ->
    (forall v, vscal czero v = vzero) ->
    (forall v, vscal cone v = v) ->
    (forall c, vscal c vzero = vzero) ->
    (forall u v, L (vadd u v) = vadd (L u) (L v)) ->
    (forall c v, L (vscal c v) = vscal c (L v)) ->
    forall (tb : tableau C) (t dt : C) (y : V),
      compute_step C V cadd cmul czero ciszero vadd vscal (fun _ => L) tb t y dt
      = peval C V vadd vscal vzero (fun v => vscal dt (L v)) y
          (compute_step C (list C) cadd cmul czero ciszero
             (padd C cadd) (pscal C cmul) (fun _ => pshift C czero) tb t [cone] cone).
Proof.
  intros C V cadd cmul czero cone ciszero vadd vscal vzero L
         H1 H2 H3 H4 H5 H6 H7 H8 H9 H10 H11 H12 H13 H14 tb t dt y.
  exact (step_taylor_form C V cadd cmul czero cone ciszero vadd vscal vzero L
           H1 H2 H3 H4 H5 H6 H7 H8 H9 H10 H11 H12 H13 H14 tb t dt y).
Qed.
Print Assumptions C10_linear_step_taylor_form.

(* non-vacuity of the module hypotheses: V = C = Z, L = multiplication by 3;
   a 2-stage tableau; the step and its polynomial form agree (and are not
   trivial) *)
Example C10_nonvacuous_linear :
  let tb := mk_tableau Z [[0; 0]; [2; 0]]%Z [1; 3]%Z [0; 2]%Z false [] in
  compute_step Z Z Z.add Z.mul 0%Z (Z.eqb 0) Z.add Z.mul (fun _ v => (3 * v)%Z) tb 0%Z 5%Z 2%Z = 1205%Z
  /\ compute_step Z (list Z) Z.add Z.mul 0%Z (Z.eqb 0) (padd Z Z.add) (pscal Z Z.mul)
                  (fun _ => pshift Z 0%Z) tb 0%Z [1%Z] 2%Z = [1; 8; 24]%Z
  /\ peval Z Z Z.add Z.mul 0%Z (fun v => (3 * v)%Z) 5%Z [1; 8; 24]%Z = 1205%Z.
Proof. vm_compute. repeat split. Qed.

(* --------------------------------------------------------- tableaux --- *)

(* every number of the four tableaux is a dyadic rational that q2dy
   converts without loss; shapes as _init_coeff requires; a_ij = 0 for
   j >= i (the kernel reads only a[i, :i]); c_i = sum_j a_ij within 2^-44;
   the advertised orders are 1, 4, 7, 9 *)
Theorem C10_tableaux_wellformed :
  all_dyadic_m euler_a && all_dyadic_v euler_b && all_dyadic_v euler_c &&
  all_dyadic_m rk4_a && all_dyadic_v rk4_b && all_dyadic_v rk4_c = true /\
  all_dyadic_m vern7_a && all_dyadic_v vern7_b && all_dyadic_v vern7_c &&
  all_dyadic_v vern7_e && all_dyadic_m vern7_bi = true /\
  all_dyadic_m vern9_a && all_dyadic_v vern9_b && all_dyadic_v vern9_c &&
  all_dyadic_v vern9_e && all_dyadic_m vern9_bi = true /\
  shapes_ok eu_a eu_b eu_c && strictly_lower eu_a && rowsum_ok 50 eu_a eu_c &&
  shapes_ok r4_a r4_b r4_c && strictly_lower r4_a && rowsum_ok 50 r4_a r4_c = true /\
  Nat.eqb euler_order 1 && Nat.eqb rk4_order 4 = true /\
  Nat.eqb vern7_order 7 && shapes_ok v7_a v7_b v7_c && strictly_lower v7_a &&
  rowsum_ok 44 v7_a v7_c && Nat.eqb (length v7_e) (length v7_b) &&
  Nat.eqb (length v7_bi) (length v7_c) &&
  forallb (fun r => Nat.eqb (length r) 7) v7_bi = true /\
  Nat.eqb vern9_order 9 && shapes_ok v9_a v9_b v9_c && strictly_lower v9_a &&
  rowsum_ok 44 v9_a v9_c && Nat.eqb (length v9_e) (length v9_b) &&
  Nat.eqb (length v9_bi) (length v9_c) &&
  forallb (fun r => Nat.eqb (length r) 9) v9_bi = true.
Proof.
  split; [exact small_dyadic|]. split; [exact vern7_dyadic|]. split; [exact vern9_dyadic|].
  split; [exact small_struct|]. split; [exact small_orders|]. split; [exact vern7_struct|].
  exact vern9_struct.
Qed.
Print Assumptions C10_tableaux_wellformed.

(* order conditions: for EVERY rooted tree t (all values of the inductive
   type; plane trees cover all rooted trees) of order <= p,
   | sum_i b_i Phi_i(t) * gamma(t) - 1 | <= 2^-40 *)
Theorem C10_euler_order_conditions :
  forall t, (order t <= 1)%nat -> dclose 50 (ddot eu_b (Phi eu_a t)) (gamma t) 1 = true.
Proof. exact (order_check_all eu_a 50 eu_b 1 euler_order_check). Qed.
Print Assumptions C10_euler_order_conditions.

Theorem C10_rk4_order_conditions :
  forall t, (order t <= 4)%nat -> dclose 50 (ddot r4_b (Phi r4_a t)) (gamma t) 1 = true.
Proof. exact (order_check_all r4_a 50 r4_b 4 rk4_order_check). Qed.
Print Assumptions C10_rk4_order_conditions.

(* vern7: b to order 7, the embedded weights b - e to order 6, and the
   dense-output polynomial coefficient by coefficient in theta to order 6
   (column j of bi multiplies theta^(j+1); tolerance 2^-30 because the
   entries of bi reach 10^3) *)
Theorem C10_vern7_order_conditions :
  forall t, (order t <= 7)%nat ->
    dclose 40 (ddot v7_b (Phi v7_a t)) (gamma t) 1 = true /\
    ((order t <= 6)%nat -> dclose 40 (ddot v7_bh (Phi v7_a t)) (gamma t) 1 = true) /\
    ((order t <= 6)%nat -> forall j, (j < 7)%nat ->
       dclose 30 (ddot (column j v7_bi) (Phi v7_a t)) (gamma t)
              (dense_target j (order t)) = true).
Proof. exact (full_check_all v7_a 40 30 v7_b v7_bh v7_bi 7 7 6 6 vern7_full). Qed.
Print Assumptions C10_vern7_order_conditions.

(* vern9: b to order 9, b - e to order 8, dense output to order 8 *)
Theorem C10_vern9_order_conditions :
  forall t, (order t <= 9)%nat ->
    dclose 40 (ddot v9_b (Phi v9_a t)) (gamma t) 1 = true /\
    ((order t <= 8)%nat -> dclose 40 (ddot v9_bh (Phi v9_a t)) (gamma t) 1 = true) /\
    ((order t <= 8)%nat -> forall j, (j < 9)%nat ->
       dclose 30 (ddot (column j v9_bi) (Phi v9_a t)) (gamma t)
              (dense_target j (order t)) = true).
Proof. exact (full_check_all v9_a 40 30 v9_b v9_bh v9_bi 9 9 8 8 vern9_full). Qed.
Print Assumptions C10_vern9_order_conditions.

(* the checks are not vacuous: no method satisfies the conditions one
   order higher *)
Example C10_orders_are_sharp :
  order_check eu_a 1 eu_b 2 = false /\ order_check r4_a 7 r4_b 5 = false /\
  taylor_close 40 done 8 (stab_poly v7_tb done) = false /\
  taylor_close 40 done 10 (stab_poly v9_tb done) = false.
Proof.
  split; [exact euler_not_order2|]. split; [exact rk4_not_order5|].
  split; [exact vern7_taylor_sharp|exact vern9_taylor_sharp].
Qed.

(* local exactness for y' = L y: the polynomial of
   C10_linear_step_is_kernel_polynomial, computed by the kernel model itself
   on the real tableaux with dt = 1 (so x stands for dt*L), has the Taylor
   coefficients of exp(x): |p_j * j! - 1| <= 2^-40 for j <= order.
   Dense output at theta in {1/2, 1/4, 3/4, 1}: coefficients of
   exp(theta x) through x^(q-1), within 2^-30; at theta = 1 the Horner
   factors of _interpolate_step reproduce b (and 0 on the extra stages). *)
Theorem C10_taylor_coefficients :
  taylor_close 50 done 1 (stab_poly eu_tb done) = true /\
  taylor_close 50 done 4 (stab_poly r4_tb done) = true /\
  taylor_close 40 done 7 (stab_poly v7_tb done) = true /\
  taylor_close 40 done 9 (stab_poly v9_tb done) = true /\
  forallb (fun tau => taylor_close 30 tau 6 (dense_poly v7_tb done tau))
          [(1, 1); (1, 2); (3, 2); (1, 0)]%Z = true /\
  forallb (fun tau => taylor_close 30 tau 8 (dense_poly v9_tb done tau))
          [(1, 1); (1, 2); (3, 2); (1, 0)]%Z = true /\
  theta1_ok 36 v7_tb = true /\ theta1_ok 36 v9_tb = true.
Proof.
  split; [exact euler_taylor|]. split; [exact rk4_taylor|]. split; [exact vern7_taylor|].
  split; [exact vern9_taylor|]. split; [exact vern7_dense_taylor|].
  split; [exact vern9_dense_taylor|]. split; [exact vern7_theta1|exact vern9_theta1].
Qed.
Print Assumptions C10_taylor_coefficients.

(* ---------------------------------------------------------- packing --- *)

(* Solver._prepare_state / _restore_state: unstack_columns . stack_columns
   is the identity for every shape (index level), stack . unstack likewise,
   and the stacked index is a bijection onto [0, n*m) *)
Theorem C10_unstack_stack :
  forall (A : Type) (n m : nat) (X : nat -> nat -> A) (v : nat -> A),
    (forall i j, (i < n)%nat -> unstack_fun n (stack_fun n X) i j = X i j) /\
    ((0 < n)%nat -> forall k, stack_fun n (unstack_fun n v) k = v k) /\
    (forall i j, (i < n)%nat -> (j < m)%nat -> (stack_idx n i j < n * m)%nat) /\
    (forall i j i' j', (i < n)%nat -> (i' < n)%nat ->
        stack_idx n i j = stack_idx n i' j' -> i = i' /\ j = j').
Proof.
  intros A n m X v. repeat split.
  - intros i j Hi. apply unstack_stack_fun. exact Hi.
  - intros Hn k. apply stack_unstack_fun. exact Hn.
  - intros i j Hi Hj. apply stack_idx_range; assumption.
  - destruct (stack_idx_inj n i j i' j' H H0 H1). assumption.
  - destruct (stack_idx_inj n i j i' j' H H0 H1). assumption.
Qed.
Print Assumptions C10_unstack_stack.

(* ------------------------------------------- meaning of the dyadics --- *)

(* the arithmetic used for the tableau statements is exact rational
   arithmetic: conversion of a dyadic rational, sum and product commute with
   dy2Q : dy -> Q (exponents stay non-negative), and dclose is the stated
   inequality in Q *)
Theorem C10_dyadic_arithmetic_is_exact :
  (forall q, q_is_dyadic q = true -> dwf (q2dy q) /\ (dy2Q (q2dy q) == q)%Q) /\
  (forall x y, dwf x -> dwf y -> dwf (dadd x y) /\ (dy2Q (dadd x y) == dy2Q x + dy2Q y)%Q) /\
  (forall x y, dwf x -> dwf y -> dwf (dmul x y) /\ (dy2Q (dmul x y) == dy2Q x * dy2Q y)%Q) /\
  (forall k m e g tgt, (0 <= e)%Z -> (0 <= k)%Z -> dclose k (m, e) g tgt = true ->
     (Qabs.Qabs (dy2Q (m, e) * inject_Z g - inject_Z tgt) <= 1 / inject_Z (2 ^ k))%Q).
Proof.
  split; [exact q2dy_sound|]. split; [exact dadd_sound|]. split; [exact dmul_sound|].
  exact dclose_sound.
Qed.
Print Assumptions C10_dyadic_arithmetic_is_exact.
