(* C06 - "regardless ... of whether arguments were given at construction, at
   call time or by replacement": for coefficients composed with + * conj
   norm from function, string and argument-free leaves (Model/C06_args.v),
   after ANY history of replace_arguments(_args, **kwargs) calls and with any
   call-time arguments, every leaf is evaluated with - for each name it
   accepts - the LAST value given anywhere along the way, else the value it
   was built with.  ffun / sfun stand for the wrapped Python function and the
   expression of a string coefficient; they are arbitrary, assumed only to
   depend on (t, the argument lookups). *)
From Coq Require Import List ZArith Bool.
Import ListNotations.
From QV Require Import Model.C06 Proofs.C06 Model.C06_args Proofs.C06_args.
Open Scope Z_scope.

(* __call__(t, _args, **kwargs) = replace_arguments(_args, **kwargs)(t), on
   every composite *)
Theorem C06_call_time_arguments_are_a_replacement :
  forall (V R : Type) (radd rmul : R -> R -> R) (rconj rnorm : R -> R)
         (ffun sfun : nat -> Z -> (nat -> option V) -> R) (xfun : nat -> Z -> R),
    (forall id t l1 l2, (forall k, l1 k = l2 k) -> ffun id t l1 = ffun id t l2) ->
    (forall id t l1 l2, (forall k, l1 k = l2 k) -> sfun id t l1 = sfun id t l2) ->
    forall (c : coeff (V:=V)) t a kw,
      ccall radd rmul rconj rnorm ffun sfun xfun c t a kw =
      ceval radd rmul rconj rnorm ffun sfun xfun (creplace c a kw) t.
Proof. exact @ccall_is_replace. Qed.
Print Assumptions C06_call_time_arguments_are_a_replacement.

(* the last value given wins, for every history and every composite *)
Theorem C06_history_last_value_given :
  forall (V R : Type) (radd rmul : R -> R -> R) (rconj rnorm : R -> R)
         (ffun sfun : nat -> Z -> (nat -> option V) -> R) (xfun : nat -> Z -> R),
    (forall id t l1 l2, (forall k, l1 k = l2 k) -> ffun id t l1 = ffun id t l2) ->
    (forall id t l1 l2, (forall k, l1 k = l2 k) -> sfun id t l1 = sfun id t l2) ->
    forall (c : coeff (V:=V)) hist t a kw,
      ccall radd rmul rconj rnorm ffun sfun xfun (apply_hist c hist) t a kw =
      eval_given radd rmul rconj rnorm ffun sfun xfun (hist_given (hist ++ [(a, kw)])) c t.
Proof. exact @history_last_value. Qed.
Print Assumptions C06_history_last_value_given.

(* a function coefficient: the function sees exactly its declared parameters
   (every name for **kw / dict style), each with the last value given *)
Theorem C06_function_sees_last_value_of_declared_parameters :
  forall (V R : Type) (radd rmul : R -> R -> R) (rconj rnorm : R -> R)
         (ffun sfun : nat -> Z -> (nat -> option V) -> R) (xfun : nat -> Z -> R),
    (forall id t l1 l2, (forall k, l1 k = l2 k) -> ffun id t l1 = ffun id t l2) ->
    (forall id t l1 l2, (forall k, l1 k = l2 k) -> sfun id t l1 = sfun id t l2) ->
    forall id (s : fsig) (st : style) (args0 : dict V) hist t a kw,
      ccall radd rmul rconj rnorm ffun sfun xfun
            (apply_hist (CFunc id (fc_init s st args0)) hist) t a kw =
      ffun id t (fun k => if allowed (snd (cfp s st)) k
                          then orelse (hist_given (hist ++ [(a, kw)]) k) (lookup args0 k)
                          else None).
Proof. exact @func_history. Qed.
Print Assumptions C06_function_sees_last_value_of_declared_parameters.

(* non-vacuity: conj(f) * s + const, f(t, a=0, b=0) = 2t + 3a + i b built
   with {a: 1, zz: 9}; s = "t + w" built with {w: 5}; history:
   replace_arguments({b: 4, w: 6}), replace_arguments(a=7); call-time {b: 2}.
   f sees a=7 b=2 (not zz, not w); s sees w=6 (and the rest) *)
Definition ex_tab : list lin_spec :=
  [(2, 0, [(2%nat, 3, 0); (3%nat, 0, 1)]); (1, 0, [(4%nat, 1, 0)])].
Definition ex_tree : coeff (V:=Z) :=
  CSum (CMul (CConj (CFunc 0 (fc_init {| f_params := [0; 2; 3]%nat; f_has_kw := false |} SAuto
                                      [(2%nat, 1); (5%nat, 9)])))
             (CStr 1 [(4%nat, 5)]))
       (CFixed 0).

Example C06_args_nonvacuous :
  let ev := ccall gadd gmul gconj gnorm (lin_leaf ex_tab) (lin_leaf ex_tab)
                  (fixed_leaf [[(10, 1)]]) in
  ev ex_tree 1 [] [] = (40, 1) /\
  ev (apply_hist ex_tree [([(3%nat, 4); (4%nat, 6)], []); ([], [(2%nat, 7)])]) 1
     [(3%nat, 2)] [] = (171, -13) /\
  (* f alone: sees a = 7, b = 2 *)
  ev (apply_hist (CFunc 0 (fc_init {| f_params := [0; 2; 3]%nat; f_has_kw := false |} SAuto
                                   [(2%nat, 1); (5%nat, 9)]))
                 [([(3%nat, 4); (4%nat, 6)], []); ([], [(2%nat, 7)])]) 1 [(3%nat, 2)] []
    = (23, 2).
Proof. repeat split; vm_compute; reflexivity. Qed.
