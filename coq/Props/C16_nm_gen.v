(* C16 - nm_mcsolve: algebra of the rate shift, every dimension, every field
   with an involutive conjugation (proofs in Proofs/C16_nm_gen.v; the
   generator is the one regenerated from MCSolver.__init__). *)
From mathcomp Require Import all_ssreflect all_algebra.
From QV Require Import Base.MxHerm Gen.C16_rhs Proofs.C16_gen Proofs.C16_nm_gen.
Import GRing.Theory.
Local Open Scope ring_scope.

(* the collapse operators nm_mcsolve hands to MCSolver are r_i L_i with r_i
   real, r_i^2 = gamma_i + s; if the family is complete, sum L_i^dag L_i = a 1
   (what _check_completeness arranges), then
     sum (r_i L_i)^dag (r_i L_i) = sum gamma_i L_i^dag L_i + s a 1
   and the effective generator is the one of the true rates minus (s a / 2) 1:
   the extra decay is exactly what exp(a int s), the continuous martingale,
   compensates *)
Theorem C16_nm_shift_is_multiple_of_identity :
  forall (R : fieldType) (conj : {rmorphism R -> R}) (iu half : R) (n : nat) (s a : R)
         (chans : seq (chan R n)),
    (forall x, x \in chans -> conj (cr x) = cr x /\ cr x * cr x = cg x + s) ->
    \sum_(x <- chans) dag conj (cL x) *m cL x = a%:M ->
    \sum_(x <- chans) dag conj (shifted_op x) *m shifted_op x
      = \sum_(x <- chans) cg x *: (dag conj (cL x) *m cL x) + (s * a)%:M /\
    forall H : 'M[R]_n,
      ket_rhs conj iu half H [seq shifted_op x | x <- chans]
      = (- iu) *: H - half *: (\sum_(x <- chans) cg x *: (dag conj (cL x) *m cL x))
        - (half * (s * a))%:M.
Proof.
move=> R conj iu half n s a chans Hs Hc; split; first exact: shifted_rates_sum.
by move=> H; apply: shifted_generator.
Qed.
Print Assumptions C16_nm_shift_is_multiple_of_identity.

(* one step, jump part of E[mu * state]: channels sampled with rate gamma_i + s,
   weighted with gamma_i / (gamma_i + s), give the jump term of the master
   equation with the true (possibly negative) rates gamma_i *)
Theorem C16_nm_jump_part_unbiased :
  forall (R : fieldType) (conj : {rmorphism R -> R}) (n : nat) (s : R)
         (chans : seq (chan R n)) (rho : 'M[R]_n),
    (forall x, x \in chans -> cg x + s != 0) ->
    \sum_(x <- chans) ((cg x + s) * (cg x / (cg x + s))) *: (cL x *m rho *m dag conj (cL x))
    = \sum_(x <- chans) cg x *: (cL x *m rho *m dag conj (cL x)).
Proof. move=> R conj n s chans rho; exact: jump_part_unbiased. Qed.
Print Assumptions C16_nm_jump_part_unbiased.
