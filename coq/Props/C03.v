(* C03 - cached Hermitian / unitary flags never contradict the matrix.
   Property theorems only.  R is any field with an involutive ring morphism
   `conj` (the only facts used of the complex numbers); matrices have
   arbitrary dimension.  The flag expressions (`*_herm`, `*_unit`) and data
   tags (`*_data`) are the definitions GENERATED from the current qutip source
   (Gen/C03_flags.v), so each theorem is re-proved against what the code says
   now.  `sound_h f A` / `sound_u f A`: a cached True means Hermitian /
   unitary, a cached False means not, None claims nothing. *)
From mathcomp Require Import all_ssreflect all_algebra.
From mathcomp Require Import mxtens.
From QV Require Import Base.PyVal Base.MxHerm Gen.C03_flags Proofs.C03.
Import GRing.Theory.
Local Open Scope ring_scope.

(* every finite history of operations and cache reads (fixed square
   dimension n > 0): all objects produced have sound flags *)
Theorem C03_all_histories :
  forall (R : fieldType) (conj : {rmorphism R -> R}), involutive conj ->
  forall n, (0 < n)%N ->
  forall (expm logm : 'M[R]_n -> 'M[R]_n),
    (forall A, expm (dag conj A) = dag conj (expm A)) ->
  forall fh fu A, derivable conj expm logm fh fu A ->
    sound_h conj fh A /\ sound_u conj fu A.
Proof. move=> R conj cK n n0 expm logm He fh fu A; exact: all_histories. Qed.
Print Assumptions C03_all_histories.

(* consumers that trust a cached True lose nothing *)
Theorem C03_trusted_trace_diag_dag :
  forall (R : fieldType) (conj : {rmorphism R -> R}) n (A : 'M[R]_n),
    sound_h conj (PBool true) A ->
    conj (\tr A) = \tr A /\ (forall i, conj (A i i) = A i i) /\ dag conj A = A.
Proof.
move=> R conj n A H; split; first exact: trusted_trace.
by split=> // i; exact: trusted_diag.
Qed.
Print Assumptions C03_trusted_trace_diag_dag.

(* one theorem per flag site of the source *)
Theorem C03_site_copy_to : forall (R : fieldType) (conj : {rmorphism R -> R}) n e (A : 'M[R]_n),
  sound_a conj e A ->
  (sound_h conj (copy_herm e) A /\ sound_u conj (copy_unit e) A /\ copy_data = DCopy) /\
  (sound_h conj (to_herm e) A /\ sound_u conj (to_unit e) A /\ to_data = DCopy).
Proof. by move=> R conj n e A H; split; [exact: copy_sound|exact: to_sound]. Qed.
Print Assumptions C03_site_copy_to.

Theorem C03_site_scalar_promotion : forall (R : fieldType) (conj : {rmorphism R -> R}) n e (z : R),
  (0 < n)%N -> scal_ok conj e z ->
  sound_h conj (scalar_id_herm e) (z%:M : 'M[R]_n) /\
  sound_u conj (scalar_id_unit e) (z%:M : 'M[R]_n) /\ scalar_id_data = DScaledId.
Proof. move=> R conj n e z; exact: scalar_id_sound. Qed.
Print Assumptions C03_site_scalar_promotion.

Theorem C03_site_add_sub : forall (R : fieldType) (conj : {rmorphism R -> R}) n e (A B : 'M[R]_n),
  sound_a conj e A -> sound_b conj e B ->
  (sound_h conj (add_herm e) (A + B) /\ sound_u conj (add_unit e) (A + B) /\ add_data = DAdd) /\
  (sound_h conj (sub_herm e) (A - B) /\ sound_u conj (sub_unit e) (A - B) /\ sub_data = DSub).
Proof. by move=> R conj n e A B Ha Hb; split; [exact: add_sound|exact: sub_sound]. Qed.
Print Assumptions C03_site_add_sub.

Theorem C03_site_mul : forall (R : fieldType) (conj : {rmorphism R -> R}) n e (A : 'M[R]_n) z,
  (0 < n)%N -> sound_a conj e A -> scal_ok conj e z ->
  sound_h conj (mul_herm e) (z *: A) /\ sound_u conj (mul_unit e) (z *: A) /\ mul_data = DMul.
Proof. move=> R conj n e A z; exact: mul_sound. Qed.
Print Assumptions C03_site_mul.

Theorem C03_site_matmul : forall (R : fieldType) (conj : {rmorphism R -> R}) n e (A B : 'M[R]_n),
  sound_a conj e A -> sound_b conj e B ->
  sound_h conj (matmul_herm e) (A *m B) /\ sound_u conj (matmul_unit e) (A *m B)
  /\ matmul_data = DMatmul.
Proof. move=> R conj n e A B; exact: matmul_sound. Qed.
Print Assumptions C03_site_matmul.

Theorem C03_site_matmul_outer :
  forall (R : fieldType) (conj : {rmorphism R -> R}) n e (u : 'cV[R]_n) (v : 'rV[R]_n),
  (1 < n)%N ->
  sound_h conj (matmul_outer_herm e) (u *m v) /\ sound_u conj (matmul_outer_unit e) (u *m v)
  /\ matmul_outer_data = DMatmulOuter.
Proof. move=> R conj n e u v; exact: matmul_outer_sound. Qed.
Print Assumptions C03_site_matmul_outer.

Theorem C03_site_neg_conj_trans :
  forall (R : fieldType) (conj : {rmorphism R -> R}), involutive conj ->
  forall n e (A : 'M[R]_n), sound_a conj e A ->
  (sound_h conj (neg_herm e) (- A) /\ sound_u conj (neg_unit e) (- A) /\ neg_data = DNeg) /\
  (sound_h conj (conj_herm e) (cj conj A) /\ sound_u conj (conj_unit e) (cj conj A)
     /\ conj_data = DConj) /\
  (sound_h conj (trans_herm e) A^T /\ sound_u conj (trans_unit e) A^T /\ trans_data = DTranspose).
Proof.
move=> R conj cK n e A H; split; first exact: neg_sound.
by split; [exact: conj_sound|exact: trans_sound].
Qed.
Print Assumptions C03_site_neg_conj_trans.

Theorem C03_site_dag :
  forall (R : fieldType) (conj : {rmorphism R -> R}), involutive conj ->
  forall n e (A : 'M[R]_n), sound_a conj e A ->
  let short := truthy (dag_shortcut_guard e) in
  let res := if short then A else dag conj A in
  res = dag conj A /\
  sound_h conj (if short then copy_herm e else dag_herm e) res /\
  sound_u conj (if short then copy_unit e else dag_unit e) res /\ dag_data = DAdjoint.
Proof. move=> R conj cK n e A; exact: dag_sound. Qed.
Print Assumptions C03_site_dag.

Theorem C03_site_pow : forall (R : fieldType) (conj : {rmorphism R -> R}) n e (A : 'M[R]_n) k,
  sound_a conj e A ->
  sound_h conj (pow_herm e) (mpow A k) /\ sound_u conj (pow_unit e) (mpow A k) /\ pow_data = DPow.
Proof. move=> R conj n e A k; exact: pow_sound. Qed.
Print Assumptions C03_site_pow.

Theorem C03_site_proj :
  forall (R : fieldType) (conj : {rmorphism R -> R}), involutive conj ->
  forall n e (u : 'cV[R]_n),
  sound_h conj (proj_herm e) (u *m dag conj u) /\ sound_u conj (proj_unit e) (u *m dag conj u)
  /\ proj_data = DProject.
Proof. move=> R conj cK n e u; exact: proj_sound. Qed.
Print Assumptions C03_site_proj.

Theorem C03_site_expm_logm_solver :
  forall (R : fieldType) (conj : {rmorphism R -> R}) n (expm logm evolve : 'M[R]_n -> 'M[R]_n),
  (forall A, expm (dag conj A) = dag conj (expm A)) ->
  (forall A, evolve (dag conj A) = dag conj (evolve A)) ->
  forall e (A : 'M[R]_n), sound_a conj e A ->
  (sound_h conj (expm_herm e) (expm A) /\ sound_u conj (expm_unit e) (expm A) /\ expm_data = DExpm) /\
  (sound_h conj (logm_herm e) (logm A) /\ sound_u conj (logm_unit e) (logm A) /\ logm_data = DLogm) /\
  (sound_h conj (solver_state_herm e) (evolve A) /\ solver_state_data = DEvolved).
Proof.
move=> R conj n expm logm evolve He Hv e A H; split; first exact: expm_sound.
by split; [exact: logm_sound|exact: solver_state_sound].
Qed.
Print Assumptions C03_site_expm_logm_solver.

(* solver functions returning a symmetrised matrix with a literal isherm=True
   (propagator_steadystate, _steadystate_direct, _steadystate_power) *)
Theorem C03_site_solver_symmetrised :
  forall (R : fieldType) (conj : {rmorphism R -> R}), involutive conj ->
  forall n e (X : 'M[R]_n),
  let H := X + dag conj X in
  (sound_h conj (prop_ss_herm e) H /\ sound_u conj (prop_ss_unit e) H /\ prop_ss_data = DSymm) /\
  (sound_h conj (ss_direct_herm e) (2%:R^-1 *: H) /\ sound_u conj (ss_direct_unit e) (2%:R^-1 *: H)
   /\ ss_direct_data = DSymmHalf) /\
  (sound_h conj (ss_power_herm e) ((\tr H)^-1 *: H) /\ sound_u conj (ss_power_unit e) ((\tr H)^-1 *: H)
   /\ ss_power_data = DSymmNormTr).
Proof.
move=> R conj cK n e X H; split; first exact: prop_ss_sound.
by split; [exact: ss_direct_sound|exact: ss_power_sound].
Qed.
Print Assumptions C03_site_solver_symmetrised.

Theorem C03_site_unit_inplace :
  forall (R : fieldType) (conj : {rmorphism R -> R}) n e (A : 'M[R]_n) z,
  (0 < n)%N -> z != 0 -> sound_a conj e A -> scal_ok conj e z ->
  sound_h conj (unit_inplace_herm e) (z *: A) /\ sound_u conj (unit_inplace_unit e) (z *: A)
  /\ unit_inplace_data = DMul.
Proof. move=> R conj n e A z; exact: unit_inplace_sound. Qed.
Print Assumptions C03_site_unit_inplace.

Theorem C03_site_permute_transform :
  forall (R : fieldType) (conj : {rmorphism R -> R}), involutive conj ->
  forall n e (P A : 'M[R]_n), is_unitary conj P -> sound_a conj e A ->
  (sound_h conj (permute_herm e) (P *m A *m dag conj P) /\
   sound_u conj (permute_unit e) (P *m A *m dag conj P) /\ permute_data = DPermute) /\
  (sound_h conj (transform_herm e) (P *m A *m dag conj P) /\
   sound_u conj (transform_unit e) (P *m A *m dag conj P) /\ transform_data = DTransform).
Proof.
by move=> R conj cK n e P A HP H; split; [exact: permute_sound|exact: transform_sound].
Qed.
Print Assumptions C03_site_permute_transform.

(* QobjEvo.__call__(t) with any number of terms: the isherm flag it attaches
   (generated from qobjevo.pyx) is sound for the sum it attaches it to *)
Theorem C03_site_qobjevo_call :
  forall (R : fieldType) (conj : {rmorphism R -> R}) n (t0 : qterm R n) (ts : seq (qterm R n)),
  qt_ok conj t0 -> all_ok conj ts ->
  sound_h conj (qevo_call t0 ts).1 (qevo_call t0 ts).2.
Proof. move=> R conj n t0 ts; exact: qevo_call_sound. Qed.
Print Assumptions C03_site_qobjevo_call.

(* expand_operator forwards the flags of the tensored operator through the
   permutation of tensor factors *)
Theorem C03_site_expand_operator :
  forall (R : fieldType) (conj : {rmorphism R -> R}), involutive conj ->
  forall n e (P A : 'M[R]_n), is_unitary conj P -> sound_a conj e A ->
  sound_h conj (expand_permute_herm e) (P *m A *m dag conj P) /\
  sound_u conj (expand_permute_unit e) (P *m A *m dag conj P) /\ expand_permute_data = DPermute.
Proof. move=> R conj cK n e P A; exact: expand_permute_sound. Qed.
Print Assumptions C03_site_expand_operator.

Theorem C03_site_tensor :
  forall (R : fieldType) (conj : {rmorphism R -> R}) m n e (A : 'M[R]_m) (B : 'M[R]_n),
  sound_a conj e A -> sound_b conj e B ->
  sound_h conj (tensor_step_herm e) (A *t B) /\ sound_u conj (tensor_step_unit e) (A *t B)
  /\ tensor_step_data = DKron.
Proof. move=> R conj m n e A B; exact: tensor_step_sound. Qed.
Print Assumptions C03_site_tensor.

Theorem C03_site_spre_spost_sprepost :
  forall (R : fieldType) (conj : {rmorphism R -> R}), involutive conj ->
  forall n e (A B : 'M[R]_n), (0 < n)%N -> sound_a conj e A -> sound_b conj e B ->
  (sound_h conj (spre_herm e) ((1%:M : 'M[R]_n) *t A) /\ spre_data = DKronIdL) /\
  (sound_h conj (spost_herm e) (A^T *t (1%:M : 'M[R]_n)) /\ spost_data = DKronTIdR) /\
  (sound_h conj (sprepost_herm e) (B^T *t A) /\ sprepost_data = DKronT).
Proof.
move=> R conj cK n e A B n0 Ha Hb; split; first exact: spre_sound.
by split; [exact: spost_sound|exact: sprepost_sound].
Qed.
Print Assumptions C03_site_spre_spost_sprepost.
