(* C15, target tolerance: decision logic of MultiTrajResult._target_tolerance_end
   (the value `add` returns when add_end_condition(ntraj, target_tol) was
   called; the map stops when it is <= 0).  Model: Model/C15_tt.v, proofs:
   Proofs/C15_tt.v.

   Quantifiers: every input i (target number of trajectories, number of
   sampled trajectories, their running sums of any shape, tolerances,
   deterministic weights).  tt_ratio i is, per component (e_op and time),
   std_k / target_k^2 with std_k = <x^2>_k * one - |<x>_k|^2 (the variance
   estimate of the code, `one` = 1 - sum of deterministic weights when that is
   non-zero) and target_k = atol + rtol * <x>_k; the jackknife criterion
   "std_k / (N - 1) <= target_k^2" reads r + 1 <= N, written r + (1 - N) <= 0. *)
From Coq Require Import List ZArith QArith Qcanon Bool Arith Lia.
Import ListNotations.
From QV Require Import Model.C15 Proofs.C15 Model.C15_tt Proofs.C15_tt.
Local Open Scope Qc_scope.

(* "ntraj" is always respected: at or beyond the target number the answer is 0
   and the end condition "ntraj reached" *)
Theorem C15_tolerance_ntraj_respected :
  forall i, (tt_target i <= tt_num i)%nat -> tt_end i = (TVal 0, 1%Z).
Proof. exact tt_ntraj. Qed.
Print Assumptions C15_tolerance_ntraj_respected.

(* never an end with fewer than two trajectories (no variance estimate yet):
   the answer is infinity *)
Theorem C15_tolerance_needs_two_trajectories :
  forall i, (tt_num i < tt_target i)%nat -> (tt_num i <= 1)%nat -> tt_end i = (TInf, 0%Z).
Proof. exact tt_too_few. Qed.
Print Assumptions C15_tolerance_needs_two_trajectories.

(* soundness: an answer <= 0 before ntraj means that there are at least two
   trajectories, the end condition is "target tolerance reached", and the
   criterion holds for EVERY e_op and time *)
Theorem C15_tolerance_end_is_sound :
  forall i e, fst (tt_end i) = TVal e -> e <= 0 -> (tt_num i < tt_target i)%nat ->
    (2 <= tt_num i)%nat /\ snd (tt_end i) = 2%Z /\
    forall r, In r (tt_ratio i) -> r + (1 - QcN (tt_num i)) <= 0.
Proof. exact tt_sound. Qed.
Print Assumptions C15_tolerance_end_is_sound.

(* completeness: when the criterion holds everywhere the end is signalled *)
Theorem C15_tolerance_end_is_complete :
  forall i, (tt_num i < tt_target i)%nat -> (2 <= tt_num i)%nat -> tt_ratio i <> [] ->
    (forall r, In r (tt_ratio i) -> r + (1 - QcN (tt_num i)) <= 0) ->
    exists e, tt_end i = (TVal e, 2%Z) /\ e <= 0.
Proof. exact tt_complete. Qed.
Print Assumptions C15_tolerance_end_is_complete.

(* the estimate never asks for more than what is left up to ntraj *)
Theorem C15_tolerance_estimate_bounded :
  forall i e, fst (tt_end i) = TVal e -> (tt_num i < tt_target i)%nat ->
    e <= QcN (tt_target i) - QcN (tt_num i).
Proof. exact tt_at_most_ntraj. Qed.
Print Assumptions C15_tolerance_estimate_bounded.

(* std = 0 (e.g. identical trajectories): the end is signalled with the
   second trajectory *)
Theorem C15_tolerance_zero_spread :
  forall i, (tt_num i < tt_target i)%nat -> (2 <= tt_num i)%nat -> tt_ratio i <> [] ->
    (forall s, In s (tt_std i) -> s = 0) -> exists e, tt_end i = (TVal e, 2%Z) /\ e <= 0.
Proof. exact tt_zero_spread. Qed.
Print Assumptions C15_tolerance_zero_spread.

(* deterministic trajectories enter only through `one` *)
Theorem C15_tolerance_deterministic_weight :
  forall i,
    (pysum (tt_wdet i) 0 = 0 -> tt_one i = 1) /\
    (pysum (tt_wdet i) 0 <> 0 -> tt_one i = 1 - pysum (tt_wdet i) 0).
Proof. exact tt_one_spec. Qed.
Print Assumptions C15_tolerance_deterministic_weight.

Theorem C15_tolerance_variance_estimate :
  forall i s, In s (tt_std i) ->
    exists a2 a, In a2 (tt_avg2 i) /\ In a (tt_avg i) /\ s = a2 * tt_one i - Qcabs a * Qcabs a.
Proof. exact tt_std_In. Qed.
Print Assumptions C15_tolerance_variance_estimate.

(* non-vacuity: 4 of at most 10 trajectories with values 1,3,1,3 (sum 8, sum of
   squares 20), one deterministic trajectory of weight 1/2, atol = 1:
   std = 5 * 1/2 - 4 = -3/2, the end is signalled; with atol = 1/4 and no
   deterministic trajectory std = 1, ratio 16: 13 more are estimated, capped at 6 *)
Local Open Scope Z_scope.
Example C15_nonvacuous_tolerance :
  let i1 := {| tt_target := 10; tt_num := 4; tt_s1 := tmkv [(8, 1)]; tt_s2 := tmkv [(20, 1)];
               tt_atol := tmkv [(1, 1)]; tt_rtol := tmkv [(0, 1)]; tt_wdet := tmkv [(1, 2)] |} in
  let i2 := {| tt_target := 10; tt_num := 4; tt_s1 := tmkv [(8, 1)]; tt_s2 := tmkv [(20, 1)];
               tt_atol := tmkv [(1, 4)]; tt_rtol := tmkv [(0, 1)]; tt_wdet := [] |} in
  (tt_num i1 < tt_target i1)%nat /\ (2 <= tt_num i1)%nat /\ tt_ratio i1 <> [] /\
  tt_obs 10 4 [(8, 1)] [(20, 1)] [(1, 1)] [(0, 1)] [(1, 2)] = ((0, (-9, 2)), 2) /\
  tt_obs 10 4 [(8, 1)] [(20, 1)] [(1, 4)] [(0, 1)] [] = ((0, (6, 1)), 0).
Proof.
  split; [vm_compute; lia|]. split; [vm_compute; lia|]. split; [vm_compute; discriminate|].
  split; vm_compute; reflexivity.
Qed.
