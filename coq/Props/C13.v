(* C13 - a trajectory is a function of the problem and its seed alone.
   Property theorems only; proofs are in Proofs/C13.v, Proofs/C13_sde.v,
   Proofs/C13_ens.v; the scheduler is the machine of Model/C14.v with the
   invariants of Proofs/C14.v.

   Quantifiers: every seed form (None, SeedSequence, integer, list), every
   ntraj, every problem (the numerical ingredients are arbitrary functions:
   the packs `mcp` / `sdp`), every bit stream, every state a previous
   trajectory / run / history left in the integrator, every schedule of the
   parallel map (any worker count, any completion order, time-outs), with or
   without keep_runs_results. *)
From Coq Require Import List ZArith Bool Arith Lia Permutation.
Import ListNotations.
From QV Require Import Model.C14 Proofs.C14 Model.C13 Model.C13_inst
                       Proofs.C13 Proofs.C13_sde Proofs.C13_ens Proofs.C13_imp Proofs.C13_nm.

(* ---------------------------------------------------------------- seeds *)

(* one seed per trajectory; spawned seeds are pairwise different streams *)
Theorem C13_one_seed_per_trajectory :
  forall ss a n l, rs_seeds (read_seed ss a n) = Some l ->
    length l = n /\ ((forall li, a <> SList li) -> NoDup (map sid l)).
Proof.
  intros ss a n l H. split; [exact (read_seed_length ss a n l H)|].
  intros Hn. exact (read_seed_spawned_nodup ss a n l Hn H).
Qed.
Print Assumptions C13_one_seed_per_trajectory.

(* error branch: a seed list shorter than ntraj is refused *)
Theorem C13_short_seed_list_refused :
  forall ss li n, length li < n -> rs_seeds (read_seed ss (SList li) n) = None.
Proof. exact read_seed_short_list. Qed.
Print Assumptions C13_short_seed_list_refused.

(* ensemble size does not enter: a smaller run with the same integer seed
   uses a prefix of the same seeds (on any solver object) *)
Theorem C13_sub_ensemble_same_seeds :
  forall ss ss' z k m, k <= m ->
    rs_seeds (read_seed ss (SInt z) k) =
    option_map (firstn k) (rs_seeds (read_seed ss' (SInt z) m)).
Proof. exact read_seed_int_prefix. Qed.
Print Assumptions C13_sub_ensemble_same_seeds.

(* a list of seeds is used as given, position by position, and leaves the
   solver's own sequence alone: result.seeds is a valid seeds= argument *)
Theorem C13_seed_list_used_as_given :
  forall ss (l : list sseq),
    read_seed ss (SList (map ISeq l)) (length l) =
    {| rs_seeds := Some l; rs_solver := ss; rs_user := None |}.
Proof. exact read_seed_list_identity. Qed.
Print Assumptions C13_seed_list_used_as_given.

Theorem C13_seed_list_positional :
  forall ss li n l j, rs_seeds (read_seed ss (SList li) n) = Some l -> j < n ->
    nth_error l j = option_map of_item (nth_error li j).
Proof. exact read_seed_list_positional. Qed.
Print Assumptions C13_seed_list_positional.

(* seeds=None: two successive runs of one solver never use a stream twice *)
Theorem C13_successive_runs_fresh_streams :
  forall ss n m l1 l2 x y,
    rs_seeds (read_seed ss SNone n) = Some l1 ->
    rs_seeds (read_seed (rs_solver (read_seed ss SNone n)) SNone m) = Some l2 ->
    In x l1 -> In y l2 -> sid x <> sid y.
Proof. exact read_seed_none_twice_disjoint. Qed.
Print Assumptions C13_successive_runs_fresh_streams.

(* ---------------------------------------------------- Monte-Carlo trajectory *)
Record mcp (U T Y : Type) := {
  zeroU : U; oneU : U; leU : U -> U -> bool; ltT : T -> T -> bool; mix : U -> U -> U;
  nchan : nat; prob : Y -> U; ode_step : T -> Y -> T -> T * Y;
  find : T -> Y -> T -> Y -> U -> U -> U -> option (T * Y);
  choose : T -> Y -> U -> nat; jump : nat -> T -> Y -> option Y; renorm : Y -> Y }.

Definition mc_one {U T Y} (P : mcp U T Y) (stream : seedid -> nat -> U) fuel s seed t0 y0 ts nj fl :=
  mc_run_one U T Y stream (zeroU _ _ _ P) (oneU _ _ _ P) (leU _ _ _ P) (ltT _ _ _ P) (mix _ _ _ P)
    (nchan _ _ _ P) (prob _ _ _ P) (ode_step _ _ _ P) (find _ _ _ P) (choose _ _ _ P)
    (jump _ _ _ P) (renorm _ _ _ P) fuel s seed t0 y0 ts nj fl.

(* whatever an earlier trajectory, run or step-wise evolution left in the
   MCIntegrator (collapse list, threshold, generator, ODE time and state),
   the trajectory computed for a seed is the same *)
Theorem C13_mc_trajectory_forgets_history :
  forall U T Y (P : mcp U T Y) stream fuel (s s' : mci U T Y) seed t0 y0 ts nj fl,
    fst (mc_one P stream fuel s seed t0 y0 ts nj fl) =
    fst (mc_one P stream fuel s' seed t0 y0 ts nj fl).
Proof. intros. unfold mc_one. apply mc_history_independent. Qed.
Print Assumptions C13_mc_trajectory_forgets_history.

(* ... and it reads no random number other than the stream of its own seed *)
Theorem C13_mc_reads_only_own_stream :
  forall U T Y (P : mcp U T Y) st1 st2 fuel (s : mci U T Y) seed t0 y0 ts nj fl,
    (forall k, st1 (sid seed) k = st2 (sid seed) k) ->
    mc_one P st1 fuel s seed t0 y0 ts nj fl = mc_one P st2 fuel s seed t0 y0 ts nj fl.
Proof.
  intros U T Y P st1 st2 fuel s seed t0 y0 ts nj fl H. unfold mc_one.
  apply (run_one_local U T Y _ _ _ _ _ _ _ _ _ _ _ _ st1 st2 (sid seed) H). reflexivity.
Qed.
Print Assumptions C13_mc_reads_only_own_stream.

(* the draws of a trajectory are the values number 0, 1, 2, ... of the
   generator made from its seed, each used once, in this order: one
   threshold at set_state (none for the no-jump trajectory), then per
   collapse one channel draw iff there are several channels, and one new
   threshold for every recorded collapse *)
Theorem C13_mc_draw_order :
  forall U T Y (P : mcp U T Y) stream fuel (s : mci U T Y) seed t0 y0 ts nj fl,
    let '(tr, s') := mc_one P stream fuel s seed t0 y0 ts nj fl in
    g_seed (m_gen s') = sid seed /\
    map snd (tr_draws tr) = seq 0 (g_pos (m_gen s')) /\
    n_thr (tr_draws tr) = (if nj then 0 else 1) + length (tr_coll tr) /\
    (nchan _ _ _ P = 1 -> n_which (tr_draws tr) = 0) /\
    (nchan _ _ _ P <> 1 -> length (tr_coll tr) <= n_which (tr_draws tr)).
Proof. intros. unfold mc_one. apply mc_draw_order. Qed.
Print Assumptions C13_mc_draw_order.

(* improved sampling (MCSolver._no_jump_simulation + _run_improved_sampling): the
   no-jump trajectory is computed first on the same integrator, its final norm
   is the floor of every threshold u -> floor + (1 - floor) u.  Floor and
   trajectory do not depend on what the integrator held before ... *)
Definition imp_one {U T Y} (P : mcp U T Y) (stream : seedid -> nat -> U) fuel s none_seed seed t0 y0 ts :=
  improved_one U T Y stream (zeroU _ _ _ P) (oneU _ _ _ P) (leU _ _ _ P) (ltT _ _ _ P) (mix _ _ _ P)
    (nchan _ _ _ P) (prob _ _ _ P) (ode_step _ _ _ P) (find _ _ _ P) (choose _ _ _ P)
    (jump _ _ _ P) (renorm _ _ _ P) fuel s none_seed seed t0 y0 ts.

Theorem C13_improved_sampling_forgets_history :
  forall U T Y (P : mcp U T Y) stream fuel (s s' : mci U T Y) none_seed seed t0 y0 ts,
    imp_one P stream fuel s none_seed seed t0 y0 ts = imp_one P stream fuel s' none_seed seed t0 y0 ts.
Proof. intros. unfold imp_one. apply improved_history_independent. Qed.
Print Assumptions C13_improved_sampling_forgets_history.

(* ... and the no-jump trajectory consumes no random number and records no
   collapse, as long as a norm is never <= the threshold 0 *)
Theorem C13_no_jump_trajectory_draws_nothing :
  forall U T Y (P : mcp U T Y) stream fuel (s : mci U T Y) seed t0 y0 ts fl,
    (forall y, leU _ _ _ P (prob _ _ _ P y) (zeroU _ _ _ P) = false) ->
    let tr := fst (mc_one P stream fuel s seed t0 y0 ts true fl) in
    tr_draws tr = [] /\ tr_coll tr = [].
Proof. intros U T Y P stream fuel s seed t0 y0 ts fl H. unfold mc_one. now apply no_jump_draws_nothing. Qed.
Print Assumptions C13_no_jump_trajectory_draws_nothing.

(* nm_mcsolve: the stored trajectory is the Monte-Carlo trajectory plus
   result.trace, the influence martingale at the output times.  By check C16
   (Props/C16_nmint.v: C16_nm_integrate_is_mc_integrate, C16_nm_trajectory_trace)
   NmMCIntegrator integrates exactly like MCIntegrator and the trace is a
   function `trace_of` of the trajectory's own (time, channel) list and the
   times; by Props/C13_conf.v the rates and the cache behind it are those of
   the last-set args.  Hence, trace included, an nm_mcsolve trajectory forgets
   the integrator's history and reads only the stream of its own seed. *)
Definition nm_one {U T Y TRACE} (P : mcp U T Y) (trace_of : list (T * nat) -> list T -> TRACE)
    (stream : seedid -> nat -> U) fuel s seed t0 y0 ts nj fl :=
  nm_run_one U T Y TRACE (zeroU _ _ _ P) (oneU _ _ _ P) (leU _ _ _ P) (ltT _ _ _ P) (mix _ _ _ P)
    (nchan _ _ _ P) (prob _ _ _ P) (ode_step _ _ _ P) (find _ _ _ P) (choose _ _ _ P)
    (jump _ _ _ P) (renorm _ _ _ P) trace_of stream fuel s seed t0 y0 ts nj fl.

Theorem C13_nm_trajectory_forgets_history :
  forall U T Y TRACE (P : mcp U T Y) trace_of stream fuel (s s' : mci U T Y) seed t0 y0 ts nj fl,
    @nm_one U T Y TRACE P trace_of stream fuel s seed t0 y0 ts nj fl =
    nm_one P trace_of stream fuel s' seed t0 y0 ts nj fl.
Proof. intros. unfold nm_one. apply nm_forgets_history. Qed.
Print Assumptions C13_nm_trajectory_forgets_history.

Theorem C13_nm_reads_only_own_stream :
  forall U T Y TRACE (P : mcp U T Y) trace_of st1 st2 fuel (s : mci U T Y) seed t0 y0 ts nj fl,
    (forall k, st1 (sid seed) k = st2 (sid seed) k) ->
    @nm_one U T Y TRACE P trace_of st1 fuel s seed t0 y0 ts nj fl =
    nm_one P trace_of st2 fuel s seed t0 y0 ts nj fl.
Proof. intros. unfold nm_one. now apply nm_reads_only_own_stream. Qed.
Print Assumptions C13_nm_reads_only_own_stream.

(* -------------------------------------------------------- diffusive trajectory *)
Record sdp (V Y : Type) := {
  zeroV : V; addV : V -> V -> V; ndw : nat; ncol : nat; sstep : Y -> list (list V) -> Y }.

Definition sd_one {V Y} (P : sdp V Y) (stream : seedid -> nat -> V) s seed t0 y0 ts :=
  s_run_one V Y stream (zeroV _ _ P) (addV _ _ P) (ndw _ _ P) (ncol _ _ P) (sstep _ _ P) s seed t0 y0 ts.
Definition sd_after {V Y} (P : sdp V Y) (stream : seedid -> nat -> V) restore s evs :=
  s_after V Y (zeroV _ _ P) (addV _ _ P) (ndw _ _ P) (ncol _ _ P) (sstep _ _ P) stream restore s evs.

(* the noise of a trajectory is the stream of its seed, row by row, however
   the time list cuts it into batches *)
Theorem C13_sde_noise_is_stream_of_seed :
  forall V Y (P : sdp V Y) stream (s : sint V Y) seed t0 y0 ts,
    let '(tr, s') := sd_one P stream s seed t0 y0 ts in
    let n := list_sum (st_calls tr) in
    w_rows (i_w s') = map (row_at V stream (ndw _ _ P) (ncol _ _ P) (mkgen seed)) (seq 0 n) /\
    w_gen (i_w s') = Some (adv (mkgen seed) (n * width (ndw _ _ P) (ncol _ _ P))).
Proof. intros. unfold sd_one. apply s_noise_is_stream. Qed.
Print Assumptions C13_sde_noise_is_stream_of_seed.

Theorem C13_sde_reads_only_own_stream :
  forall V Y (P : sdp V Y) st1 st2 (s : sint V Y) seed t0 y0 ts,
    (forall k, st1 (sid seed) k = st2 (sid seed) k) ->
    sd_one P st1 s seed t0 y0 ts = sd_one P st2 s seed t0 y0 ts.
Proof.
  intros V Y P st1 st2 s seed t0 y0 ts H. unfold sd_one.
  apply (s_run_one_local V Y _ _ _ _ _ st1 st2 (sid seed) H). reflexivity.
Qed.
Print Assumptions C13_sde_reads_only_own_stream.

(* the only thing a diffusive trajectory inherits from the integrator is the
   option "dt" *)
Theorem C13_sde_trajectory_given_dt :
  forall V Y (P : sdp V Y) stream (s s' : sint V Y) seed t0 y0 ts,
    i_dt s = i_dt s' ->
    fst (sd_one P stream s seed t0 y0 ts) = fst (sd_one P stream s' seed t0 y0 ts).
Proof. intros. unfold sd_one. now apply s_run_one_given_dt. Qed.
Print Assumptions C13_sde_trajectory_given_dt.

(* whether or not the option is put back by run_from_experiment: after any
   history made of run() calls only, a trajectory is the one a fresh solver
   computes (this was all that held before /repo commit 106cd48) *)
Theorem C13_sde_after_runs_only :
  forall V Y (P : sdp V Y) stream (s : sint V Y) evs seed t0 y0 ts,
    forallb (is_run V Y) evs = true ->
    fst (sd_one P stream (sd_after P stream false s evs) seed t0 y0 ts) =
    fst (sd_one P stream s seed t0 y0 ts).
Proof.
  intros V Y P stream s evs seed t0 y0 ts H. apply C13_sde_trajectory_given_dt.
  unfold sd_after. now apply s_after_dt_runs.
Qed.
Print Assumptions C13_sde_after_runs_only.

(* restore = false is run_from_experiment as it was before /repo commit
   106cd48 ("dt" put back in the `except` branch only).  That code violates
   the property: the full statement
     forall evs, fst (sd_one P stream (sd_after P stream false s evs) seed ..) =
                 fst (sd_one P stream s seed ..)
   is false.  Witness: dt = 1, one experiment on tlist 0,2,4; then seed 7 on
   tlist 0,2,4 draws 2 noise values instead of 4.  Kept so that the check
   names the defect if the correspondence K3 ever matches restore = false
   again. *)
Theorem C13_sde_after_experiment_refuted :
  exists (P : sdp Z (list (list Z))) stream s evs seed t0 y0 ts,
    fst (sd_one P stream (sd_after P stream false s evs) seed t0 y0 ts) <>
    fst (sd_one P stream s seed t0 y0 ts).
Proof.
  exists {| zeroV := 0%Z; addV := Z.add; ndw := 1; ncol := 1; sstep := wit_step |}.
  exists wit_stream, wit_solver.
  exists [EExp Z (list (list Z)) 0%Z 2%Z [] [2; 4]%Z [[5]; [6]]%Z].
  exists (fresh 7), 0%Z, [], [2; 4]%Z.
  vm_compute. discriminate.
Qed.
Print Assumptions C13_sde_after_experiment_refuted.

(* restore = true is the code under test (try/finally): the statement holds
   for every history of run() and run_from_experiment() calls *)
Theorem C13_sde_any_history_when_dt_restored :
  forall V Y (P : sdp V Y) stream (s : sint V Y) evs seed t0 y0 ts,
    fst (sd_one P stream (sd_after P stream true s evs) seed t0 y0 ts) =
    fst (sd_one P stream s seed t0 y0 ts).
Proof.
  intros V Y P stream s evs seed t0 y0 ts. apply C13_sde_trajectory_given_dt.
  unfold sd_after. apply s_after_dt_fixed.
Qed.
Print Assumptions C13_sde_any_history_when_dt_restored.

(* ------------------------------------------------------------- the ensemble *)

(* MultiTrajResult.add: whatever the order in which results arrive and
   whether or not trajectories are kept, seeds[k], collapse[k], the k-th
   summand of the averages and trajectories[k] belong to the same task *)
Theorem C13_result_lists_aligned :
  forall TR keep seeds (val : nat -> TR) order,
    let r := reduce_all TR keep seeds val order in
    let F := flat_map (entry TR seeds val) order in
    combine (r_seeds r) (r_coll r) = F /\
    r_seeds r = map fst F /\
    r_sum r = map snd F /\
    r_trajs r = (if keep then map snd F else []) /\
    r_num r = length F /\
    length (r_seeds r) = length F.
Proof. intros. apply reduce_all_aligned. Qed.
Print Assumptions C13_result_lists_aligned.

(* A run: seeds -> one task per seed -> parallel map (any configuration and
   schedule of the C14 machine, any point of its execution) -> result.add.
   Task j is executed by some worker whose integrator is in the state left
   by the tasks `pre j` it ran before (any tasks, any number).  `Inv` is what
   the integrator must satisfy for a trajectory to be a function of the seed
   (nothing for Monte-Carlo; the value of "dt" for the diffusive solvers). *)
Definition run_result {Sg TR} (run_one : Sg -> sseq -> TR * Sg) (g0 : Sg)
    (pre : nat -> list sseq) (keep : bool) (seeds : list sseq) (st : st) : mtres TR :=
  reduce_all TR keep seeds
    (fun j => fst (run_one (after Sg TR run_one g0 (pre j)) (nth j seeds (fresh 0))))
    (order_of st).

Definition task_outs (n : nat) (stopf : nat -> bool) : list outcome :=
  map (fun j => Val (Z.of_nat j) (stopf j)) (seq 0 n).

Theorem C13_ensemble_any_schedule :
  forall (Sg TR : Type) (run_one : Sg -> sseq -> TR * Sg) (Inv : Sg -> Prop) (traj : seedid -> TR),
    (forall g s, Inv g -> fst (run_one g s) = traj (sid s)) ->
    (forall g s, Inv g -> Inv (snd (run_one g s))) ->
  forall (c : cfg) (seeds : list sseq) stopf (g0 : Sg) (pre : nat -> list sseq) keep sched e0 fuel,
    Inv g0 -> reducer c = true -> 1 <= workers c -> outs c = task_outs (length seeds) stopf ->
    let st := iter c fuel (init c sched e0) in
    let r := run_result run_one g0 pre keep seeds st in
    NoDup (order_of st) /\
    (forall s tr, In (s, tr) (pairs TR r) ->
       tr = traj (sid s) /\ exists j, In j (s_compl st) /\ nth_error seeds j = Some s) /\
    r_num r = length (order_of st) /\
    ((forall j, j < length seeds -> In j (s_compl st)) ->
       Permutation (pairs TR r) (expected TR traj seeds)).
Proof.
  intros Sg TR run_one Inv traj Hfun Hinv c seeds stopf g0 pre keep sched e0 fuel
         Hg Hred HW Houts st r.
  set (val := fun j => fst (run_one (after Sg TR run_one g0 (pre j)) (nth j seeds (fresh 0)))).
  assert (Hval : forall j s, nth_error seeds j = Some s -> val j = traj (sid s)).
  { intros j s Hj. unfold val. rewrite (nth_error_nth _ _ _ Hj).
    apply (worker_value Sg TR run_one Inv traj Hfun Hinv). exact Hg. }
  destruct (order_spec c (length seeds) stopf Hred Houts HW sched e0 fuel) as [Hnd Hin].
  fold st in Hnd, Hin.
  destruct (reduce_all_aligned TR keep seeds val (order_of st)) as (A & B & _ & _ & E & _).
  fold val in r. unfold run_result in r. fold val in r. fold r in A, B, E.
  assert (Hlt : forall j, In j (order_of st) -> j < length seeds) by (intros j Hj; now apply Hin).
  split; [exact Hnd|]. split; [|split].
  - intros s tr Hs. unfold pairs in Hs. rewrite A in Hs.
    destruct (entry_in TR traj seeds val (order_of st) s tr Hval Hs) as [E1 [j [Hj1 Hj2]]].
    split; [exact E1|]. exists j. split; [now apply Hin|exact Hj2].
  - rewrite E. now apply entries_length.
  - intros Hall. unfold pairs, expected. rewrite A.
    rewrite <- (entries_seeds TR seeds val traj Hval).
    apply flat_map_entry_perm.
    apply (order_complete c (length seeds) stopf Hred Houts HW sched e0 fuel). exact Hall.
Qed.
Print Assumptions C13_ensemble_any_schedule.

(* two complete runs whose seed lists are permutations of each other - on
   other worker counts, schedules, integrator histories, with or without
   keep_runs_results - hold the same multiset of (seed, trajectory) pairs;
   in particular passing result.seeds back (any order) regenerates the
   result, and the averages are sums over the same multiset of summands *)
Theorem C13_reported_seeds_regenerate :
  forall (Sg TR : Type) (run_one : Sg -> sseq -> TR * Sg) (Inv : Sg -> Prop) (traj : seedid -> TR),
    (forall g s, Inv g -> fst (run_one g s) = traj (sid s)) ->
    (forall g s, Inv g -> Inv (snd (run_one g s))) ->
  forall c1 c2 (seeds1 : list sseq) stop1 stop2 g1 g2 pre1 pre2 keep1 keep2 sched1 sched2 e1 e2 f1 f2,
    Inv g1 -> Inv g2 -> reducer c1 = true -> reducer c2 = true ->
    1 <= workers c1 -> 1 <= workers c2 ->
    outs c1 = task_outs (length seeds1) stop1 ->
    let st1 := iter c1 f1 (init c1 sched1 e1) in
    let r1 := run_result run_one g1 pre1 keep1 seeds1 st1 in
    (forall j, j < length seeds1 -> In j (s_compl st1)) ->
    forall seeds2 ss, Permutation seeds2 (r_seeds r1) ->
    rs_seeds (read_seed ss (SList (map ISeq seeds2)) (length seeds2)) = Some seeds2 /\
    (outs c2 = task_outs (length seeds2) stop2 ->
     let st2 := iter c2 f2 (init c2 sched2 e2) in
     let r2 := run_result run_one g2 pre2 keep2 seeds2 st2 in
     (forall j, j < length seeds2 -> In j (s_compl st2)) ->
     Permutation (pairs TR r2) (pairs TR r1) /\ Permutation (r_sum r2) (r_sum r1)).
Proof.
  intros Sg TR run_one Inv traj Hfun Hinv c1 c2 seeds1 stop1 stop2 g1 g2 pre1 pre2 keep1 keep2
         sched1 sched2 e1 e2 f1 f2 Hg1 Hg2 Hr1 Hr2 Hw1 Hw2 Ho1 st1 r1 Hall1 seeds2 ss Hperm.
  split; [now rewrite read_seed_list_identity|].
  intros Ho2 st2 r2 Hall2.
  destruct (C13_ensemble_any_schedule Sg TR run_one Inv traj Hfun Hinv c1 seeds1 stop1 g1 pre1
              keep1 sched1 e1 f1 Hg1 Hr1 Hw1 Ho1) as (_ & _ & _ & P1).
  destruct (C13_ensemble_any_schedule Sg TR run_one Inv traj Hfun Hinv c2 seeds2 stop2 g2 pre2
              keep2 sched2 e2 f2 Hg2 Hr2 Hw2 Ho2) as (_ & _ & _ & P2).
  fold st1 in P1. fold r1 in P1. fold st2 in P2. fold r2 in P2.
  specialize (P1 Hall1). specialize (P2 Hall2).
  assert (Hs1 : Permutation (r_seeds r1) seeds1).
  { destruct (reduce_all_aligned TR keep1 seeds1
               (fun j => fst (run_one (after Sg TR run_one g1 (pre1 j)) (nth j seeds1 (fresh 0))))
               (order_of st1)) as (A & B & _).
    unfold r1, run_result. rewrite B, <- A. fold (run_result run_one g1 pre1 keep1 seeds1 st1).
    fold r1. fold (pairs TR r1).
    apply (Permutation_map fst) in P1. unfold expected in P1. rewrite map_map in P1. simpl in P1.
    now rewrite map_id in P1. }
  assert (PP : Permutation (pairs TR r2) (pairs TR r1)).
  { rewrite P1, P2. unfold expected. apply Permutation_map. now rewrite Hperm. }
  split; [exact PP|].
  assert (S1 : r_sum r1 = map snd (pairs TR r1)).
  { destruct (reduce_all_aligned TR keep1 seeds1
               (fun j => fst (run_one (after Sg TR run_one g1 (pre1 j)) (nth j seeds1 (fresh 0))))
               (order_of st1)) as (A & _ & C & _).
    unfold pairs, r1, run_result. now rewrite C, A. }
  assert (S2 : r_sum r2 = map snd (pairs TR r2)).
  { destruct (reduce_all_aligned TR keep2 seeds2
               (fun j => fst (run_one (after Sg TR run_one g2 (pre2 j)) (nth j seeds2 (fresh 0))))
               (order_of st2)) as (A & _ & C & _).
    unfold pairs, r2, run_result. now rewrite C, A. }
  rewrite S1, S2. now apply Permutation_map.
Qed.
Print Assumptions C13_reported_seeds_regenerate.

(* the hypotheses of the two ensemble theorems hold for the Monte-Carlo
   integrator with no condition on its state ... *)
Definition seed_of (sd : seedid) : sseq := {| ss_ent := fst sd; ss_key := snd sd; ss_n := 0 |}.

Theorem C13_mc_worker_value :
  forall U T Y (P : mcp U T Y) stream fuel t0 y0 ts nj fl (g g0 : mci U T Y) s,
    fst (mc_one P stream fuel g s t0 y0 ts nj fl) =
    fst (mc_one P stream fuel g0 (seed_of (sid s)) t0 y0 ts nj fl).
Proof.
  intros. unfold mc_one, mc_run_one.
  rewrite (mc_set_state_forgets U T Y _ _ stream g g0).
  replace (mkgen (seed_of (sid s))) with (mkgen s) by (apply mkgen_sid; reflexivity).
  reflexivity.
Qed.
Print Assumptions C13_mc_worker_value.

(* ... and for the diffusive integrator as long as "dt" has the configured
   value, which every trajectory preserves *)
Theorem C13_sde_worker_value :
  forall V Y (P : sdp V Y) stream t0 y0 ts (g g0 : sint V Y) s,
    i_dt g = i_dt g0 ->
    fst (sd_one P stream g s t0 y0 ts) = fst (sd_one P stream g0 (seed_of (sid s)) t0 y0 ts) /\
    i_dt (snd (sd_one P stream g s t0 y0 ts)) = i_dt g0.
Proof.
  intros V Y P stream t0 y0 ts g g0 s H. split.
  - unfold sd_one, s_run_one. rewrite (s_set_state_dt V Y g g0 _ _ _ H).
    replace (mkgen (seed_of (sid s))) with (mkgen s) by (apply mkgen_sid; reflexivity).
    reflexivity.
  - unfold sd_one. rewrite s_run_one_dt. exact H.
Qed.
Print Assumptions C13_sde_worker_value.

(* ---------------------------------------------------------- non-vacuity *)
Local Open Scope Z_scope.

(* seeds: the hypotheses of the seed theorems are met by ordinary calls *)
Example C13_nonvacuous_seeds :
  rs_seeds (read_seed (fresh 99) (SInt 7) 3) =
    Some [child (fresh 7) 0; child (fresh 7) 1; child (fresh 7) 2] /\
  rs_seeds (read_seed (fresh 99) (SList [IInt 5; ISeq (child (fresh 7) 1)]) 2) =
    Some [fresh 5; child (fresh 7) 1] /\
  rs_seeds (read_seed (fresh 99) (SList [IInt 5]) 2) = None /\
  rs_solver (read_seed (fresh 99) SNone 4) = bump (fresh 99) 4.
Proof. vm_compute. repeat split. Qed.

(* Monte-Carlo: a 3-level scripted problem with two channels; the second
   trajectory of a history has two collapses and uses five draws *)
Definition ex_prob : mcprob :=
  {| p_h := 4; p_rate := [0; 1; 2];
     p_chans := [ {| c_w := [0; 1; 3]; c_tgt := [None; Some 0%nat; Some 1%nat]; c_amp := [0; 0; 1] |};
                  {| c_w := [0; 3; 1]; c_tgt := [None; Some 1%nat; Some 2%nat]; c_amp := [0; 1; 0] |} ] |}.
Example C13_nonvacuous_mc :
  i_observe ex_prob
    [ [2^1199; 0; 0]; [2^1197; 2^1198; 2^1199 + 1; 2^1199; 1] ]
    [ (0, 1%nat, [8; 16], false, 0); (0, 2%nat, [8; 16; 24], false, 0) ] =
  [ (Some [(8, 0%nat, 0); (16, 0%nat, 0)], [(4, 0%nat)], [(0, 0%nat); (1, 1%nat); (0, 2%nat)]);
    (Some [(8, 1%nat, 0); (16, 1%nat, 0); (24, 1%nat, 0)], [(4, 0%nat); (8, 1%nat)],
     [(0, 0%nat); (1, 1%nat); (0, 2%nat); (1, 3%nat); (0, 4%nat)]) ].
Proof. vm_compute. reflexivity. Qed.

(* improved sampling on the same problem: no-jump run (no draw), then a
   trajectory with floor 1/4 and first draw 1/2: threshold 1/4 + 3/4 * 1/2 = 5/8 *)
Example C13_nonvacuous_improved :
  i_observe ex_prob [ []; [2^1199; 0; 0] ]
    [ (0, 1%nat, [8], true, 0); (0, 1%nat, [8], false, 2^1198) ] =
  [ (Some [(8, 1%nat, 0)], [], []);
    (Some [(8, 0%nat, 0)], [(4, 0%nat)], [(0, 0%nat); (1, 1%nat); (0, 2%nat)]) ] /\
  i_mix (2^1199) (2^1198) = 5 * 2^1197.
Proof. vm_compute. split; reflexivity. Qed.

(* non-vacuity: the scripted problem of C13_nonvacuous_mc with the trace
   "number of collapses before each output time" *)
Example C13_nm_nonvacuous :
  let tr_of := fun (c : list (Z * nat)) (ts : list Z) =>
                 map (fun t => length (filter (fun x => Z.ltb (fst x) t) c)) ts in
  snd (fst (nm_run_one Z Z YY (list nat) 0%Z one120 Z.leb Z.ltb i_mix 2 i_prob
              (i_ode_step ex_prob) i_find (i_choose ex_prob) (i_jump ex_prob) i_renorm tr_of
              (i_stream (2 ^ 1199) [[2^1197; 2^1198; 2^1199 + 1; 2^1199; 1]])
              1000 i_mci0 (fresh 0) 0 (2%nat, 0) [8; 16; 24] false 0))%Z = [0; 1; 2; 2]%nat.
Proof. vm_compute. reflexivity. Qed.

(* diffusive: dt = 3 time units, tlist 0,6,12: two batches of two rows *)
Example C13_nonvacuous_sde :
  j_observe false 2 1 3 [[1; 2; 3; 4; 5; 6; 7; 8]] [JRun 0 0 5 [6; 12]] =
  [ ((Some [(6, 41, Some [4]); (12, 221, Some [12])], [2%nat; 2%nat]), 3) ].
Proof. vm_compute. reflexivity. Qed.

(* the ensemble: 3 seeds, 2 workers, results arrive in the order 1, 0, 2 *)
Example C13_nonvacuous_ensemble :
  let c := {| outs := task_outs 3 (fun _ => false); workers := 2; fail_fast := true;
              reducer := true |} in
  let sched := [ {| d_expire := false; d_done := [] |};
                 {| d_expire := false; d_done := [] |};
                 {| d_expire := false; d_done := [1; 0]%nat |} ] in
  let st := run c sched false in
  order_of st = [1; 0; 2]%nat /\ s_pc st = PDone /\
  (forall j, (j < 3)%nat -> In j (s_compl st)).
Proof.
  vm_compute. split; [reflexivity|]. split; [reflexivity|].
  intros j Hj. destruct j as [|[|[|j]]]; auto. lia.
Qed.
