(* C07 - Bloch-Redfield loop kernels and eigenbasis change: property theorems
   (proofs in Proofs/C07_kernels.v).  The kernels gen_br_(c)term_dense /
   _sparse_elem, the secular masks, gen_br_cterm_data and the basis-change
   functions are GENERATED from the current qutip/core/_brtensor.pyx and
   _brtools.pyx by tools/tx_c07_kernels.py (coq/Gen/C07_kernels.v).

   Quantifiers: every field with involution, every dimension n, every complex
   coupling operator A (and B), every spectrum matrix S, every eigenvalue
   assignment w with values in an abelian group (skew[a,b] = w a - w b) and
   every secular predicate `near` standing for fabs(x) < cutoff.
   Not modelled: the loop-skipping devices of the sparse kernels (their
   element formula and pre-sums are), floating-point evaluation of skew. *)
From mathcomp Require Import all_ssreflect all_algebra.
From mathcomp Require Import mxtens.
From QV Require Import Base.MxHerm Model.C07 Gen.C07_terms Proofs.C07.
From QV Require Import Model.C07_kernels Gen.C07_kernels Proofs.C07_kernels.
Set Implicit Arguments. Unset Strict Implicit. Unset Printing Implicit Defensive.
Import GRing.Theory.
Local Open Scope ring_scope.

(* _br_term_dense (pre-sums ac_term/bd_term, element loop, A = A.transpose())
   returns the matrix of the 'matrix' route _br_term_data, secular mask
   included *)
Theorem C07_br_term_dense_is_matrix_route :
  forall (R : fieldType) (conj : {rmorphism R -> R}) n (h : R) (G : zmodType)
         (near : G -> bool) (w : 'I_n -> G) (A S : 'M[R]_n),
    gen_br_term_dense h near A S (skew_of w)
    = had (den conj (gen_br_term_data h (OMx A) (OMx S)))
          (gen_br_term_data_mask R near (skew_of w)).
Proof. exact: term_dense_eq_data. Qed.
Print Assumptions C07_br_term_dense_is_matrix_route.

(* without cut-off it acts on the column-stacked operator as the documented
   Bloch-Redfield expression *)
Theorem C07_br_term_dense_action :
  forall (R : fieldType) (conj : {rmorphism R -> R}) n (h : R) (G : zmodType)
         (near : G -> bool) (w : 'I_n -> G) (A S X : 'M[R]_n),
    (forall x, near x) ->
    gen_br_term_dense h near A S (skew_of w) *m cvec X = cvec (br_rhs h A S X).
Proof.
move=> R conj n h G near w A S X Hall.
by rewrite (term_dense_eq_data conj) had_mask_all // den_act act_br_term_data.
Qed.
Print Assumptions C07_br_term_dense_action.

(* entry by entry, at the column-stacked indices (X_ab sits at
   mxtens_index (b, a)), it is the R_abcd of the documentation under the
   secular mask: any complex A, any dimension *)
Theorem C07_br_term_dense_is_R_abcd :
  forall (R : fieldType) n (h : R) (G : zmodType) (near : G -> bool) (w : 'I_n -> G),
    (forall x, near (- x) = near x) ->
    forall (A S : 'M[R]_n) (a b c d : 'I_n),
      gen_br_term_dense h near A S (skew_of w) (mxtens_index (b, a)) (mxtens_index (d, c))
      = if near (skew_of w a b - skew_of w c d) then R_abcd h A A S a b c d else 0.
Proof. move=> R n h G near w Hs A S a b c d; exact: term_dense_R_abcd. Qed.
Print Assumptions C07_br_term_dense_is_R_abcd.

(* the sparse kernel computes its kept entries and pre-sums by the same
   formulas (its loop-skipping is not modelled) *)
Theorem C07_br_term_sparse_elem_is_dense_elem :
  forall (R : fieldType) n (h : R) (G : zmodType) (near : G -> bool)
         (At S : 'M[R]_n) (sk : 'I_n -> 'I_n -> G) a b c d,
    gen_br_term_sparse_elem h near At S sk a b c d
    = gen_br_term_dense_elem h near At S sk a b c d.
Proof. by []. Qed.
Print Assumptions C07_br_term_sparse_elem_is_dense_elem.

(* cross terms *)
Theorem C07_br_cterm_dense_is_matrix_route :
  forall (R : fieldType) (conj : {rmorphism R -> R}) n (h : R) (G : zmodType)
         (near : G -> bool) (w : 'I_n -> G) (A B S : 'M[R]_n),
    gen_br_cterm_dense h near A B S (skew_of w)
    = had (den conj (gen_br_cterm_data h (OMx A) (OMx B) (OMx S)))
          (gen_br_cterm_data_mask R near (skew_of w)).
Proof. exact: cterm_dense_eq_data. Qed.
Print Assumptions C07_br_cterm_dense_is_matrix_route.

Theorem C07_br_cterm_data_action :
  forall (R : fieldType) (conj : {rmorphism R -> R}) n (h : R) (A B S : Oexpr R n) X,
    den conj (gen_br_cterm_data h A B S) *m cvec X
    = cvec (cross_rhs h (oden conj A) (oden conj B) (oden conj S) X) /\
    \tr (act conj (gen_br_cterm_data h A B S) X) = 0.
Proof.
by move=> R conj n h A B S X; rewrite den_act !act_br_cterm_data tr_cross_rhs.
Qed.
Print Assumptions C07_br_cterm_data_action.

Theorem C07_br_cterm_dense_is_R_abcd :
  forall (R : fieldType) n (h : R) (G : zmodType) (near : G -> bool) (w : 'I_n -> G),
    (forall x, near (- x) = near x) ->
    forall (A B S : 'M[R]_n) (a b c d : 'I_n),
      gen_br_cterm_dense h near A B S (skew_of w) (mxtens_index (b, a)) (mxtens_index (d, c))
      = if near (skew_of w a b - skew_of w c d) then R_abcd h A B S a b c d else 0.
Proof. move=> R n h G near w Hs A B S a b c d; exact: cterm_dense_R_abcd. Qed.
Print Assumptions C07_br_cterm_dense_is_R_abcd.

Theorem C07_br_cterm_sparse_elem_is_dense_elem :
  forall (R : fieldType) n (h : R) (G : zmodType) (near : G -> bool)
         (At Bt S : 'M[R]_n) (sk : 'I_n -> 'I_n -> G) a b c d,
    gen_br_cterm_sparse_elem h near At Bt S sk a b c d
    = gen_br_cterm_dense_elem h near At Bt S sk a b c d.
Proof. move=> *; exact: cterm_sparse_elem_eq_dense. Qed.
Print Assumptions C07_br_cterm_sparse_elem_is_dense_elem.

Example C07_nonvacuous_near :
  forall (G : zmodType), let near := (fun _ : G => true) in
    (forall x, near (- x) = near x) /\ (forall x, near x).
Proof. by []. Qed.

(* eigenbasis change of tensors (_EigenBasisTransform.to_eigbasis /
   from_eigbasis, superoperator branch, kron_transpose(V^dag, V)):
   from_eigbasis(L) acts as X |-> V . L(V^dag X V) . V^dag, to_eigbasis(L)
   as X |-> V^dag . L(V X V^dag) . V (operator branches of the same methods) *)
Theorem C07_eigbasis_tensor_action :
  forall (R : fieldType) (conj : {rmorphism R -> R}) n,
    involutive conj ->
    forall (V : 'M[R]_n) (L : 'M[R]_(n * n)) X,
      gen_from_eigbasis_super conj V L *m cvec X
      = cvec (gen_from_eigbasis_oper conj V
                (unvec (L *m cvec (gen_to_eigbasis_oper conj V X)))) /\
      gen_to_eigbasis_super conj V L *m cvec X
      = cvec (gen_to_eigbasis_oper conj V
                (unvec (L *m cvec (gen_from_eigbasis_oper conj V X)))).
Proof.
move=> R conj n cK V L X; split.
  exact: from_eigbasis_super_action.
exact: to_eigbasis_super_action.
Qed.
Print Assumptions C07_eigbasis_tensor_action.

(* for unitary eigenvectors the two basis changes are mutually inverse *)
Theorem C07_eigbasis_tensor_roundtrip :
  forall (R : fieldType) (conj : {rmorphism R -> R}) n,
    involutive conj ->
    forall (V : 'M[R]_n) (L : 'M[R]_(n * n)), is_unitary conj V ->
      gen_to_eigbasis_super conj V (gen_from_eigbasis_super conj V L) = L /\
      gen_from_eigbasis_super conj V (gen_to_eigbasis_super conj V L) = L.
Proof. move=> R conj n cK V L HV; exact: to_from_eigbasis_super. Qed.
Print Assumptions C07_eigbasis_tensor_roundtrip.

Example C07_nonvacuous_unitary :
  forall (R : fieldType) (conj : {rmorphism R -> R}) n,
    is_unitary conj (1%:M : 'M[R]_n).
Proof. move=> R conj n; exact: unitary1. Qed.
