(* C10 - computed facts about the Butcher tableaux that
   qutip/solver/integrator/explicit_rk.pyx, verner7efficient.py and
   verner9efficient.py define (read from the source on every run as the exact
   doubles, Gen/C10_tab_*.v).  Property theorems only; the evaluations
   (vm_compute, exact integer arithmetic) are in Proofs/C10_tab_*.v and the
   enumeration argument in Proofs/C10_trees.v.

   Reading the statements: numbers are dyadic rationals (m, e) = m/2^e (every
   IEEE double is one); `dclose k x g tgt = true` is |x*g - tgt| <= 2^-k
   (theorem C10_dyadic_arithmetic_is_exact in Props/C10.v); Phi a t is the
   vector of elementary weights of the rooted tree t, gamma t its density. *)
From Coq Require Import List ZArith QArith Bool Lia.
Import ListNotations.
From QV Require Import Model.C10_trees Model.C10 Proofs.C10_trees Proofs.C10
  Proofs.C10_tab_small Proofs.C10_tab_vern7 Proofs.C10_tab_vern9
  Gen.C10_tab_euler Gen.C10_tab_rk4 Gen.C10_tab_vern7 Gen.C10_tab_vern9.

(* --------------------------------------------------------- tableaux --- *)

(* every number of the four tableaux is a dyadic rational that q2dy
   converts without loss; shapes as _init_coeff requires; a_ij = 0 for
   j >= i (the kernel reads only a[i, :i]); c_i = sum_j a_ij within 2^-44;
   the advertised orders are 1, 4, 7, 9 *)
Theorem C10_tableaux_wellformed :
  all_dyadic_m euler_a && all_dyadic_v euler_b && all_dyadic_v euler_c &&
  all_dyadic_m rk4_a && all_dyadic_v rk4_b && all_dyadic_v rk4_c = true /\
  all_dyadic_m vern7_a && all_dyadic_v vern7_b && all_dyadic_v vern7_c &&
  all_dyadic_v vern7_e && all_dyadic_m vern7_bi = true /\
  all_dyadic_m vern9_a && all_dyadic_v vern9_b && all_dyadic_v vern9_c &&
  all_dyadic_v vern9_e && all_dyadic_m vern9_bi = true /\
  shapes_ok eu_a eu_b eu_c && strictly_lower eu_a && rowsum_ok 50 eu_a eu_c &&
  shapes_ok r4_a r4_b r4_c && strictly_lower r4_a && rowsum_ok 50 r4_a r4_c = true /\
  Nat.eqb euler_order 1 && Nat.eqb rk4_order 4 = true /\
  Nat.eqb vern7_order 7 && shapes_ok v7_a v7_b v7_c && strictly_lower v7_a &&
  rowsum_ok 44 v7_a v7_c && Nat.eqb (length v7_e) (length v7_b) &&
  Nat.eqb (length v7_bi) (length v7_c) &&
  forallb (fun r => Nat.eqb (length r) 7) v7_bi = true /\
  Nat.eqb vern9_order 9 && shapes_ok v9_a v9_b v9_c && strictly_lower v9_a &&
  rowsum_ok 44 v9_a v9_c && Nat.eqb (length v9_e) (length v9_b) &&
  Nat.eqb (length v9_bi) (length v9_c) &&
  forallb (fun r => Nat.eqb (length r) 9) v9_bi = true.
Proof.
  split; [exact small_dyadic|]. split; [exact vern7_dyadic|]. split; [exact vern9_dyadic|].
  split; [exact small_struct|]. split; [exact small_orders|]. split; [exact vern7_struct|].
  exact vern9_struct.
Qed.
Print Assumptions C10_tableaux_wellformed.

(* order conditions: for EVERY rooted tree t (all values of the inductive
   type; plane trees cover all rooted trees) of order <= p,
   | sum_i b_i Phi_i(t) * gamma(t) - 1 | <= 2^-40 *)
Theorem C10_euler_order_conditions :
  forall t, (order t <= 1)%nat -> dclose 50 (ddot eu_b (Phi eu_a t)) (gamma t) 1 = true.
Proof. exact (order_check_all eu_a 50 eu_b 1 euler_order_check). Qed.
Print Assumptions C10_euler_order_conditions.

Theorem C10_rk4_order_conditions :
  forall t, (order t <= 4)%nat -> dclose 50 (ddot r4_b (Phi r4_a t)) (gamma t) 1 = true.
Proof. exact (order_check_all r4_a 50 r4_b 4 rk4_order_check). Qed.
Print Assumptions C10_rk4_order_conditions.

(* vern7: b to order 7, the embedded weights b - e to order 6, and the
   dense-output polynomial coefficient by coefficient in theta to order 6
   (column j of bi multiplies theta^(j+1); tolerance 2^-30 because the
   entries of bi reach 10^3) *)
Theorem C10_vern7_order_conditions :
  forall t, (order t <= 7)%nat ->
    dclose 40 (ddot v7_b (Phi v7_a t)) (gamma t) 1 = true /\
    ((order t <= 6)%nat -> dclose 40 (ddot v7_bh (Phi v7_a t)) (gamma t) 1 = true) /\
    ((order t <= 6)%nat -> forall j, (j < 7)%nat ->
       dclose 30 (ddot (column j v7_bi) (Phi v7_a t)) (gamma t)
              (dense_target j (order t)) = true).
Proof. exact (full_check_all v7_a 40 30 v7_b v7_bh v7_bi 7 7 6 6 vern7_full). Qed.
Print Assumptions C10_vern7_order_conditions.

(* vern9: b to order 9, b - e to order 8, dense output to order 8 *)
Theorem C10_vern9_order_conditions :
  forall t, (order t <= 9)%nat ->
    dclose 40 (ddot v9_b (Phi v9_a t)) (gamma t) 1 = true /\
    ((order t <= 8)%nat -> dclose 40 (ddot v9_bh (Phi v9_a t)) (gamma t) 1 = true) /\
    ((order t <= 8)%nat -> forall j, (j < 9)%nat ->
       dclose 30 (ddot (column j v9_bi) (Phi v9_a t)) (gamma t)
              (dense_target j (order t)) = true).
Proof. exact (full_check_all v9_a 40 30 v9_b v9_bh v9_bi 9 9 8 8 vern9_full). Qed.
Print Assumptions C10_vern9_order_conditions.

(* the checks are not vacuous: no method satisfies the conditions one
   order higher *)
Example C10_orders_are_sharp :
  order_check eu_a 1 eu_b 2 = false /\ order_check r4_a 7 r4_b 5 = false /\
  taylor_close 40 done 8 (stab_poly v7_tb done) = false /\
  taylor_close 40 done 10 (stab_poly v9_tb done) = false.
Proof.
  split; [exact euler_not_order2|]. split; [exact rk4_not_order5|].
  split; [exact vern7_taylor_sharp|exact vern9_taylor_sharp].
Qed.

(* local exactness for y' = L y: the polynomial of
   C10_linear_step_is_kernel_polynomial, computed by the kernel model itself
   on the real tableaux with dt = 1 (so x stands for dt*L), has the Taylor
   coefficients of exp(x): |p_j * j! - 1| <= 2^-40 for j <= order.
   Dense output at theta in {1/2, 1/4, 3/4, 1}: coefficients of
   exp(theta x) through x^(q-1), within 2^-30; at theta = 1 the Horner
   factors of _interpolate_step reproduce b (and 0 on the extra stages). *)
Theorem C10_taylor_coefficients :
  taylor_close 50 done 1 (stab_poly eu_tb done) = true /\
  taylor_close 50 done 4 (stab_poly r4_tb done) = true /\
  taylor_close 40 done 7 (stab_poly v7_tb done) = true /\
  taylor_close 40 done 9 (stab_poly v9_tb done) = true /\
  forallb (fun tau => taylor_close 30 tau 6 (dense_poly v7_tb done tau))
          [(1, 1); (1, 2); (3, 2); (1, 0)]%Z = true /\
  forallb (fun tau => taylor_close 30 tau 8 (dense_poly v9_tb done tau))
          [(1, 1); (1, 2); (3, 2); (1, 0)]%Z = true /\
  theta1_ok 36 v7_tb = true /\ theta1_ok 36 v9_tb = true.
Proof.
  split; [exact euler_taylor|]. split; [exact rk4_taylor|]. split; [exact vern7_taylor|].
  split; [exact vern9_taylor|]. split; [exact vern7_dense_taylor|].
  split; [exact vern9_dense_taylor|]. split; [exact vern7_theta1|exact vern9_theta1].
Qed.
Print Assumptions C10_taylor_coefficients.

