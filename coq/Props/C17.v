(* C17 - diffusive stochastic trajectories are determined by their noise
   record.  Property theorems only (noise bookkeeping part); proofs are in
   Proofs/C17.v, the scheme part is in Props/C17_sde.v.

   Quantifiers: every generator stream g, every shape (N_dw, n_ops), every
   history of queries (any list of dW / __call__ requests at any times
   t >= t0, on or off the grid), every record length and every number of
   operators, homodyne and heterodyne storage layout. *)
From Coq Require Import List ZArith Bool Arith Lia QArith Field.
Import ListNotations.
From QV Require Import Model.C17 Proofs.C17 Proofs.C17_fix.
Close Scope Q_scope.
Open Scope nat_scope.

(* The increments handed to the integrator for (t, N) are the segment
   [idx, idx+N) of the generator's stream, whatever was asked before
   (other dW requests, Wiener-process look-ups by feedback functions). *)
Theorem C17_increments_history_independent :
  forall g rows ops (history : list query) idx0 N,
    snd (w_dW g (fst (w_run g (w_init rows ops) history)) idx0 N)
    = map (slab_of g rows ops) (seq idx0 N).
Proof. exact dW_after_history. Qed.
Print Assumptions C17_increments_history_independent.

(* A run over any list of step counts reports, per output interval, the sum
   of the row-0 increments of exactly the steps it took, consecutive and
   without gap or overlap. *)
Theorem C17_reported_noise_is_sum_of_consumed_increments :
  forall g rows ops (steps : list nat) (history : list query),
    snd (int_run g (fst (w_run g (w_init rows ops) history)) 0 steps)
    = int_expected g rows ops 0 steps.
Proof.
  intros. apply int_run_spec. apply w_run_Inv. apply Inv_init.
Qed.
Print Assumptions C17_reported_noise_is_sum_of_consumed_increments.

(* Which time each internal step is taken at: over a run made of any list of
   integrate() calls with N_1, N_2, ... sub-steps, the k-th internal step sees
   the time t0 + k dt (k = 0, 1, 2, ... without gap or repeat), so the times
   at which H, the collapse operators and the Wiener feedback are evaluated do
   not depend on how the output grid cuts the run into integrate() calls. *)
Theorem C17_internal_steps_see_consecutive_times :
  forall (steps steps' : list nat) pos,
    concat (step_times pos steps) = seq pos (fold_right plus 0 steps) /\
    (fold_right plus 0 steps = fold_right plus 0 steps' ->
     concat (step_times pos steps) = concat (step_times pos steps')).
Proof.
  intros. split; [apply step_times_concat|apply step_times_grid_independent].
Qed.
Print Assumptions C17_internal_steps_see_consecutive_times.

(* Replay from a record: an array laid out like result.dW / result.measurement
   of a trajectory (any number n of stochastic operators, any length, homodyne
   (n, T) or heterodyne (n/2, 2, T) layout), given to PreSetWiener (shape
   test, heterodyne reshape, transposition), is accepted, entry (k, i) of the
   stored array is entry (i, k) of the record, every request (t_k, N) inside
   the record returns the recorded vectors, and the only scaling applied is
   the one flagged: by dt for a measurement record, and by 1/sqrt 2 as well
   when heterodyne - exactly the scaling that
   C17_measurement_record_determines_increments inverts entry by entry. *)
Theorem C17_preset_replays_record :
  forall (nl : list vec) n het meas,
    (forall v, In v nl -> length v = n) ->
    (het = true -> exists h, n = 2 * h) ->
    exists na p,
      res_dW nl n het = Some na /\
      preset_init na (length nl) n het meas = Some p /\
      p_noise p = map (fun v => [v]) nl /\
      p_scale_dt p = meas /\ p_scale_isqrt2 p = meas && het /\
      forall k N, k + N <= length nl ->
        p_dW p k N = Some (map (fun v => [v]) (slice nl k (k + N))).
Proof. exact (preset_replays_record 0%Z). Qed.
Print Assumptions C17_preset_replays_record.

Example C17_nonvacuous_preset_replays_record :
  let nl := [[1; 2; 3; 4]; [5; 6; 7; 8]; [9; 10; 11; 12]]%Z in
  (forall v, In v nl -> length v = 4) /\ (exists h, 4 = 2 * h) /\
  res_dW nl 4 true = Some (Hetero [[[1; 5; 9]; [2; 6; 10]]; [[3; 7; 11]; [4; 8; 12]]]%Z).
Proof.
  split; [|split; [exists 2; reflexivity|reflexivity]].
  intros v [<-|[<-|[<-|[]]]]; reflexivity.
Qed.

(* ... and with one integrator step per recorded interval the replay reports
   the recorded vector again. *)
Theorem C17_replay_reports_record :
  forall n (v : vec), length v = n -> vsum n (map row0 [[v]]) = v.
Proof. exact replay_reports_record. Qed.
Print Assumptions C17_replay_reports_record.

(* error branches of the totalised PreSetWiener *)
Theorem C17_preset_out_of_range_refused :
  forall (p : preset Z) k N, length (p_noise p) < k + N -> p_dW p k N = None.
Proof. exact (@p_dW_out_of_range Z). Qed.
Print Assumptions C17_preset_out_of_range_refused.

Theorem C17_preset_bad_shape_refused :
  forall (r : list (list Z)) (x : list (list (list Z))) T n meas,
    (rect r n T = false -> preset_init (Homo r) T n false meas = None) /\
    preset_init (Homo r) T n true meas = None /\
    preset_init (Hetero x) T n false meas = None.
Proof.
  intros. split; [apply preset_init_shape_error|apply preset_init_mode_error].
Qed.
Print Assumptions C17_preset_bad_shape_refused.

(* The reported Wiener process is the running sum of the reported
   increments: W[i][0] = 0, W[i][k] = sum_{j<k} noise[j][i], and
   W[i][k+1] - W[i][k] = dW[i][k]. *)
Theorem C17_wiener_process_is_running_sum :
  forall (nl : list vec) n,
    (forall v, In v nl -> length v = n) ->
    exists dWt,
      res_noiseT nl n = Some dWt /\ length dWt = n /\
      (forall i j, nth j (nth i dWt []) 0%Z = nth i (nth j nl []) 0%Z) /\
      res_wiener nl n false = Some (Homo (map wrow dWt)) /\
      res_wiener nl n true = Some (Hetero (pairup (map wrow dWt))) /\
      forall row, In row dWt ->
        length row = length nl /\
        (forall k, k <= length row -> nth k (wrow row) 0%Z = zsum (firstn k row)) /\
        (forall k, k < length row ->
           (nth (S k) (wrow row) 0 - nth k (wrow row) 0 = nth k row 0)%Z).
Proof.
  intros nl n Hn.
  destruct (res_wiener_spec nl n Hn) as (r & A & B & C & D & E & F).
  exists r. repeat (split; [assumption|]).
  intros row Hrow. split; [now apply C|].
  split; [intros k Hk; now apply wrow_running_sum|intros k Hk; now apply wrow_increment].
Qed.
Print Assumptions C17_wiener_process_is_running_sum.

(* Measurement record <-> increments.  Over any field, with r2 (the value
   used for 2**0.5) and s (used for 1/2**0.5) such that r2 * s = 1:
   measurement = <M> + dW_factor * dW / dt (StochasticTrajResult.measurement)
   is undone exactly by PreSetWiener's scaling (by dt, and by s for heterodyne)
   followed by the stepper's subtraction of (system expectation) * dt; the
   map dW -> measurement is an affine bijection for fixed <M> and dt <> 0. *)
Theorem C17_measurement_record_determines_increments :
  forall (F : Type) (f0 f1 : F) (fadd fmul fsub : F -> F -> F) (fopp : F -> F)
         (fdiv : F -> F -> F) (finv : F -> F),
    field_theory f0 f1 fadd fmul fsub fopp fdiv finv (@eq F) ->
    forall r2 s : F, fmul r2 s = f1 ->
    forall het e dt, dt <> f0 ->
      (forall dW,
         stepper_sub F fmul fsub
           (preset_scale F fmul s het (meas_value F fadd fmul finv (dW_factor F f1 r2 het) e dW dt) dt)
           (sys_expect F fmul s het e) dt = dW) /\
      (forall d1 d2,
         meas_value F fadd fmul finv (dW_factor F f1 r2 het) e d1 dt
         = meas_value F fadd fmul finv (dW_factor F f1 r2 het) e d2 dt -> d1 = d2) /\
      (forall m, exists dW, meas_value F fadd fmul finv (dW_factor F f1 r2 het) e dW dt = m).
Proof.
  intros F f0 f1 fadd fmul fsub fopp fdiv finv Fth r2 s Hrs het e dt Hdt.
  split.
  - intros dW. exact (measurement_roundtrip F f0 f1 fadd fmul fsub fopp fdiv finv Fth r2 s Hrs het e dW dt Hdt).
  - exact (measurement_bijection F f0 f1 fadd fmul fsub fopp fdiv finv Fth r2 s Hrs het e dt Hdt).
Qed.
Print Assumptions C17_measurement_record_determines_increments.

(* Wiener.__call__ (the Wiener process handed to feedback functions): after
   any history of dW requests and look-ups, the value at t is the running sum
   of the row-0 increments of the steps before t; in particular it does not
   depend on earlier look-ups, two look-ups at the same t agree, and the
   value at t0 is zero.  (Refuted before the fix of Wiener.__call__, see
   known_findings.json.) *)
Theorem C17_wiener_call_is_running_sum :
  forall g rows ops (history : list query) m den, 1 <= rows ->
    snd (w_call g (fst (w_run g (w_init rows ops) history)) (pyround m den))
    = vsum ops (map row0 (gen_noise g rows ops (pyround m den))).
Proof. intros. now apply call_running_sum. Qed.
Print Assumptions C17_wiener_call_is_running_sum.

Theorem C17_wiener_call_history_independent :
  forall g rows ops (h1 h2 : list query) m den, 1 <= rows ->
    snd (w_call g (fst (w_run g (w_init rows ops) h1)) (pyround m den))
    = snd (w_call g (fst (w_run g (w_init rows ops) h2)) (pyround m den)).
Proof. intros. rewrite !call_running_sum by assumption. reflexivity. Qed.
Print Assumptions C17_wiener_call_history_independent.

Example C17_nonvacuous_wiener_call :
  snd (w_call g_id (fst (w_run g_id (w_init 1 2) [QW 1 1; QdW 5 2 2; QW 1 1])) 2)
  = [4; 6]%Z
  /\ snd (w_call g_id (w_init 1 2) (pyround 0 1)) = vzero 2.
Proof. split; vm_compute; reflexivity. Qed.
