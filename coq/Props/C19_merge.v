(* C19 - merging / splitting exponents of equal rate and coupling operator
   leaves the reduced dynamics unchanged at EVERY truncation depth.
   Property theorems only; proofs are in Proofs/C19_merge.v.

   Setting.  Hierarchy A has the exponent list e1 :: e2 :: rest, where e1 and
   e2 can be combined (both bosonic, equal rate vk, equal coupling operator;
   any of the types R, I, RI), hierarchy B has combine2 e1 e2 :: rest - what
   BathExponent._combine produces (R + I -> RI, R + R -> R, ...).  Read from
   right to left this is the splitting of an exponent (RI -> R + I) or of a
   bath into two baths with the same Q.
   T maps the ADO (a, b, r...) of A to the ADO (a+b, r...) of B with weight
   (a+b)!/(a! b!).  The theorems say  T G_A = G_B T  column by column and
   cached operator by cached operator (every generator block applies ONE cached
   super-operator, so equality of these coefficients for every row functional
   z is equality of the two operators), T maps hierarchy A into hierarchy B
   and T restricted to rho_0 is the identity.  Hence rho_0(t) of A and of B
   solve the same linear ODE from the same initial value.

   Quantifiers: every commutative ring with 1j*1j = -1, every e1, e2, every
   list `rest` of bosonic exponents (any types, any dims), every depth D, every
   column ADO n', every row functional z, every cached operator bb.
   The other exponents may be of any types (fermionic ones must have their
   partner among them); the merged pair stands first in the list (any other
   position is reached by the re-ordering theorems of Props/C19.v and
   Props/C19_ferm.v). *)
From Coq Require Import List ZArith Bool Arith Lia Ring.
Import ListNotations.
From QV Require Import Model.C19 Model.C19_merge Proofs.C19 Proofs.C19_enum
  Proofs.C19_gen Proofs.C19_perm Proofs.C19_merge.

(* the column used below is exactly what HEOMSolver._rhs puts into that block
   column (rhs_ops is the model tied to the source by correspondence) *)
Theorem C19_column_tags_exact :
  forall dims D n' t, valid dims D n' ->
    (In t (col_tags dims D n') <->
     (In (idx_of (enum_spec dims D) (tag_row t), idx_of (enum_spec dims D) (tag_col t), t)
         (rhs_ops dims D (enum_spec dims D)) /\ tag_col t = n')).
Proof.
  intros dims D n' t Hv. rewrite (col_tags_spec dims D n' t Hv). split.
  - intros [Hok Hc]. split; [now apply rhs_ops_in_conv|assumption].
  - intros [Hin Hc]. split; [|assumption].
    destruct (rhs_ops_in _ _ _ _ Hin) as [_ Hok]. exact Hok.
Qed.
Print Assumptions C19_column_tags_exact.

Section AnyRing.
Variable C : Type.
Variables (c0 c1 : C) (cadd cmul : C -> C -> C) (cneg : C -> C) (ci : C)
          (cconj : C -> C) (ceqb : C -> C -> bool).
Hypothesis Rth : ring_theory c0 c1 cadd cmul (fun a b => cadd a (cneg b)) cneg eq.
Hypothesis ceqb_eq : forall a b, ceqb a b = true -> a = b.
Hypothesis ci_sq : cmul ci ci = cneg c1.

(* T G_A = G_B T, the other exponents of ANY types (bosonic, fermionic, mixed;
   both parities): the only requirement on them is that every fermionic one has
   its partner (sigma_bar_k_offset) inside `rest` *)
Theorem C19_merge_intertwines_any_rest :
  forall (e1 e2 : bexp C) (rest : list (bexp C)) (D : nat) (odd : bool),
    wf C e1 -> wf C e2 -> can_combine C ceqb e1 e2 = true ->
    e_dim C e1 = None -> e_dim C e2 = None ->
    (forall j o, fermionic (e_type C (nthe C c0 rest j)) = true ->
                 e_off C (nthe C c0 rest j) = Some o -> (0 <= Z.of_nat j + o)%Z) ->
    let expsA := e1 :: e2 :: rest in
    let expsB := combine2 C c0 cadd e1 e2 :: rest in
    forall (n' : label) (z : label -> C) (bb : sbasis),
      valid (heom_dims C expsA D) D n' ->
      col_sum C c0 c1 cadd cmul cneg ci cconj cmap merge_label merge_weight expsA odd
              (col_tags (heom_dims C expsA D) D n') z bb =
      cmul (natC C c0 c1 cadd (merge_weight n'))
           (col_sum C c0 c1 cadd cmul cneg ci cconj (fun x => x) (fun n => n) (fun _ => 1)
                    expsB odd (col_tags (heom_dims C expsB D) D (merge_label n')) z bb).
Proof.
  intros e1 e2 rest D odd W1 W2 Hc Hd1 Hd2 Hoff expsA expsB n' z bb Hv.
  exact (merge_intertwines C c0 c1 cadd cmul cneg ci cconj ceqb Rth ceqb_eq ci_sq
           e1 e2 rest D odd W1 W2 Hc Hd1 Hd2 Hoff n' z bb Hv).
Qed.

(* the all-bosonic special case (kept under its earlier name) *)
Theorem C19_merge_intertwines_bosonic_rest_partial :
  forall (e1 e2 : bexp C) (rest : list (bexp C)) (D : nat) (odd : bool),
    wf C e1 -> wf C e2 -> can_combine C ceqb e1 e2 = true ->
    e_dim C e1 = None -> e_dim C e2 = None ->
    Forall (fun e => fermionic (e_type C e) = false) rest ->
    let expsA := e1 :: e2 :: rest in
    let expsB := combine2 C c0 cadd e1 e2 :: rest in
    forall (n' : label) (z : label -> C) (bb : sbasis),
      valid (heom_dims C expsA D) D n' ->
      col_sum C c0 c1 cadd cmul cneg ci cconj cmap merge_label merge_weight expsA odd
              (col_tags (heom_dims C expsA D) D n') z bb =
      cmul (natC C c0 c1 cadd (merge_weight n'))
           (col_sum C c0 c1 cadd cmul cneg ci cconj (fun x => x) (fun n => n) (fun _ => 1)
                    expsB odd (col_tags (heom_dims C expsB D) D (merge_label n')) z bb).
Proof.
  intros e1 e2 rest D odd W1 W2 Hc Hd1 Hd2 Hr.
  apply C19_merge_intertwines_any_rest; try assumption.
  intros j o F _. rewrite (nthe_bos C c0 rest j Hr) in F. discriminate.
Qed.

(* T maps hierarchy A into hierarchy B, only rho_0 is mapped to rho_0, with
   weight 1 *)
Theorem C19_merge_map_fixes_rho0 :
  forall (e1 e2 : bexp C) (rest : list (bexp C)) (D : nat),
    e_dim C e1 = None -> e_dim C e2 = None ->
    let expsA := e1 :: e2 :: rest in
    let expsB := combine2 C c0 cadd e1 e2 :: rest in
    (forall n', valid (heom_dims C expsA D) D n' ->
                valid (heom_dims C expsB D) D (merge_label n')) /\
    (forall n', length n' = length expsA ->
                (merge_label n' = repeat 0 (length expsB) <-> n' = repeat 0 (length expsA))) /\
    merge_weight (repeat 0 (length expsA)) = 1.
Proof.
  intros e1 e2 rest D Hd1 Hd2 expsA expsB. split; [|split].
  - exact (merge_label_valid C c0 cadd e1 e2 rest D Hd1 Hd2).
  - intros n' Hl. exact (proj1 (merge_fixes_rho0 C c0 cadd e1 e2 rest n' Hl)).
  - reflexivity.
Qed.
End AnyRing.
Print Assumptions C19_merge_intertwines_any_rest.
Print Assumptions C19_merge_intertwines_bosonic_rest_partial.
Print Assumptions C19_merge_map_fixes_rho0.

(* non-vacuity: Gaussian integers satisfy the hypotheses (1j*1j = -1), and on a
   concrete R + I pair with a further RI exponent, depth 3, column ADO (1,1,1),
   cached operator spre(Q_0), both sides are the same NON-ZERO number *)
Example C19_nonvacuous_merge :
  gmul gi gi = gneg g1 /\
  let e1 := mkexp TR None 0 (2, 1)%Z (3, 0)%Z None None in
  let e2 := mkexp TI None 0 (1, -1)%Z (3, 0)%Z None None in
  let e3 := mkexp TRI None 1 (1, 2)%Z (1, 1)%Z (Some (2, 0)%Z) None in
  let z := fun n : label => ((Z.of_nat (lsum n) + 2)%Z, Z.of_nat (length n)) in
  can_combine G geqb e1 e2 = true /\
  valid (heom_dims G [e1; e2; e3] 3) 3 [1; 1; 1] /\
  col_sum G g0 g1 gadd gmul gneg gi gconj cmap merge_label merge_weight [e1; e2; e3] false
          (col_tags (heom_dims G [e1; e2; e3] 3) 3 [1; 1; 1]) z (BPre 0) = (4, -8)%Z /\
  gmul (natC G g0 g1 gadd (merge_weight [1; 1; 1]))
       (col_sum G g0 g1 gadd gmul gneg gi gconj (fun x => x) (fun n => n) (fun _ => 1)
                [combine2 G g0 gadd e1 e2; e3] false
                (col_tags (heom_dims G [combine2 G g0 gadd e1 e2; e3] 3) 3 [2; 1]) z (BPre 0))
  = (4, -8)%Z.
Proof.
  split; [reflexivity|]. cbv zeta. split; [reflexivity|]. split.
  - split; [reflexivity|]. split; [|simpl; lia].
    intros [|[|[|k]]] Hk; simpl in *; lia.
  - split; vm_compute; reflexivity.
Qed.

(* non-vacuity with a fermionic pair among the other exponents, odd parity: the
   partner condition holds (offsets +1, -1 inside `rest`) and both sides are the
   same NON-ZERO number for the cached operator spre(Q^dag) of the '-' exponent
   (index 3 before merging, 2 after) *)
Example C19_nonvacuous_merge_fermionic_rest :
  let e1 := mkexp TR None 0 (2, 1)%Z (3, 0)%Z None None in
  let e2 := mkexp TI None 0 (1, -1)%Z (3, 0)%Z None None in
  let fp := mkexp TPlus (Some 2) 1 (1, 2)%Z (1, 1)%Z None (Some 1%Z) in
  let fm := mkexp TMinus (Some 2) 1 (2, -1)%Z (1, -1)%Z None (Some (-1)%Z) in
  let z := fun n : label => ((Z.of_nat (lsum n) + 2)%Z, Z.of_nat (nth 0 n 0)) in
  (forall j o, fermionic (e_type G (nthe G g0 [fp; fm] j)) = true ->
               e_off G (nthe G g0 [fp; fm] j) = Some o -> (0 <= Z.of_nat j + o)%Z) /\
  col_sum G g0 g1 gadd gmul gneg gi gconj cmap merge_label merge_weight [e1; e2; fp; fm] true
          (col_tags (heom_dims G [e1; e2; fp; fm] 3) 3 [1; 1; 0; 1]) z (BPreD 2) = (-4, 8)%Z /\
  gmul (natC G g0 g1 gadd (merge_weight [1; 1; 0; 1]))
       (col_sum G g0 g1 gadd gmul gneg gi gconj (fun x => x) (fun n => n) (fun _ => 1)
                [combine2 G g0 gadd e1 e2; fp; fm] true
                (col_tags (heom_dims G [combine2 G g0 gadd e1 e2; fp; fm] 3) 3 [2; 0; 1]) z (BPreD 2))
  = (-4, 8)%Z.
Proof.
  cbv zeta. split.
  - intros [|[|j]] o F E.
    + cbv in E. injection E as <-. lia.
    + cbv in E. injection E as <-. lia.
    + exfalso. destruct j; cbv in F; discriminate.
  - split; vm_compute; reflexivity.
Qed.
