(* C10 - generator level and route instances over matrices of arbitrary
   dimension (MathComp).  Property theorems only; proofs in Proofs/C10_mx.v.
   R is any field with an involutive ring morphism conj and an element ii
   with conj ii = - ii (all that is assumed of the complex numbers). *)
From mathcomp Require Import all_ssreflect all_algebra.
From QV Require Import Base.MxHerm Proofs.C10_mx.
From QV Require Model.C10.
Import GRing.Theory.
Local Open Scope ring_scope.

(* ket vs density matrix: the right-hand side MESolver integrates for
   rho = psi psi^+ (no collapse operators) is what the SESolver right-hand
   side -iH induces on psi psi^+, for Hermitian H, any dimension *)
Theorem C10_ket_dm_same_generator :
  forall (R : fieldType) (conj : {rmorphism R -> R}), involutive conj ->
  forall (ii : R), conj ii = - ii ->
  forall n (H : 'M[R]_n) (psi : 'cV[R]_n), is_herm conj H ->
    me_act ii H (psi *m dag conj psi)
    = (se_rhs ii H *m psi) *m dag conj psi + psi *m dag conj (se_rhs ii H *m psi).
Proof. move=> R conj cK ii hi n H psi hH. by apply: ket_dm_generator. Qed.
Print Assumptions C10_ket_dm_same_generator.

(* Hermiticity and trace along the von Neumann generator *)
Theorem C10_generator_preserves_herm_and_trace :
  forall (R : fieldType) (conj : {rmorphism R -> R}), involutive conj ->
  forall (ii : R), conj ii = - ii ->
  forall n (H rho : 'M[R]_n), is_herm conj H ->
    (is_herm conj rho -> is_herm conj (me_act ii H rho)) /\ \tr (me_act ii H rho) = 0.
Proof.
  move=> R conj cK ii hi n H rho hH; split; last exact: me_act_trace.
  by move=> hr; apply: me_act_herm.
Qed.
Print Assumptions C10_generator_preserves_herm_and_trace.

(* propagator applied to the initial state = evolved state, at every stored
   time of a session of the Runge-Kutta integrator, any time dependence *)
Theorem C10_propagator_route_agrees :
  forall (R : fieldType) n m (tb : Model.C10.tableau R) (M : R -> 'M[R]_n)
         (ltb eqb : R -> R -> bool) fuel h ts (U0 : 'M[R]_n) (psi0 : 'M[R]_(n,m)) t0,
    List.map (option_map (fun p => (fst p, snd p *m psi0)))
             (mx_session tb M ltb eqb fuel h ts U0 t0)
    = mx_session tb M ltb eqb fuel h ts (U0 *m psi0) t0.
Proof. move=> *. exact: propagator_route_session. Qed.
Print Assumptions C10_propagator_route_agrees.

(* stacked (operator-ket / mesolve) route = operator route *)
Theorem C10_stacked_route_agrees :
  forall (R : fieldType) n (tb : Model.C10.tableau R) (act : R -> 'M[R]_n -> 'M[R]_n)
         (S : R -> 'M[R]_(n * n)) (ltb eqb : R -> R -> bool) fuel h ts (rho0 : 'M[R]_n) t0,
    (forall t X, cvec (act t X) = S t *m cvec X) ->
    List.map (option_map (fun p => (fst p, cvec (snd p))))
      (Model.C10.session R 'M[R]_n +%R *%R (fun a b => a - b) (fun a b => a / b) 0
               (fun c => c == 0) ltb eqb +%R *:%R act tb fuel h ts
               (Model.C10.set_initial_value R 'M[R]_n 0 rho0 t0))
    = mx_session tb S ltb eqb fuel h ts (cvec rho0) t0.
Proof. move=> *. exact: stacked_route_session. Qed.
Print Assumptions C10_stacked_route_agrees.

(* the linear-step theorems hold for complex matrices of every shape:
   y_front = sum_j p_j (dt M)^j y_prev, p = symbolic run at step size 1 *)
Theorem C10_matrix_step_taylor_form :
  forall (R : fieldType) n m (tb : Model.C10.tableau R) (M : 'M[R]_n) t (y : 'M[R]_(n,m)) dt,
    mx_step tb (fun _ => M) t y dt
    = Proofs.C10.peval R 'M[R]_(n,m) +%R *:%R 0 (fun v => dt *: (M *m v)) y
        (Model.C10.compute_step R (list R) +%R *%R 0 (fun c => c == 0)
           (Model.C10.padd R +%R) (Model.C10.pscal R *%R) (fun _ => Model.C10.pshift R 0)
           tb t [:: 1] 1).
Proof. move=> *. exact: mx_linear_step_taylor. Qed.
Print Assumptions C10_matrix_step_taylor_form.

Theorem C10_matrix_step_is_kernel_polynomial :
  forall (R : fieldType) n m (tb : Model.C10.tableau R) (M : 'M[R]_n) t (y : 'M[R]_(n,m)) dt,
    mx_step tb (fun _ => M) t y dt
    = Proofs.C10.peval R 'M[R]_(n,m) +%R *:%R 0 (mulmx M) y
        (Model.C10.compute_step R (list R) +%R *%R 0 (fun c => c == 0)
           (Model.C10.padd R +%R) (Model.C10.pscal R *%R) (fun _ => Model.C10.pshift R 0)
           tb t [:: 1] dt).
Proof. move=> *. exact: mx_linear_step. Qed.
Print Assumptions C10_matrix_step_is_kernel_polynomial.
