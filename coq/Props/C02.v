(* C02 - Qobj arithmetic is matrix arithmetic with consistent dimension
   bookkeeping.  Property theorems about the model of dimensions.py /
   qobj.py (Model/C02.v); proofs in Proofs/C02.v.  All statements are for
   every space / dimension structure (flat, compound, nested superoperator,
   with 1-dimensional factors, rectangular). *)
From Coq Require Import List ZArith NArith Bool Arith Lia.
Import ListNotations.
From QV Require Import Model.C02 Proofs.C02 Proofs.C02_nested.
Local Open Scope N_scope.

(* Python's == on dimension objects is structural equality of what they
   denote: hence an equivalence relation, and equal objects hash equal *)
Theorem C02_eq_is_structural :
  (forall a b : space, space_eqb a b = true <-> a = b) /\
  (forall a b : dims, dims_eqb a b = true <-> a = b).
Proof. split; [exact space_eqb_eq | exact dims_eqb_eq]. Qed.
Print Assumptions C02_eq_is_structural.

Theorem C02_eq_implies_hash_eq :
  (forall a b : space, space_eqb a b = true -> space_key a = space_key b) /\
  (forall a b : dims, dims_eqb a b = true -> dims_key a = dims_key b).
Proof. split; [exact eq_hash_space | exact eq_hash_dims]. Qed.
Print Assumptions C02_eq_implies_hash_eq.

(* in particular super-operator spaces that differ only in their
   representation tag are different (a Choi matrix is not added to a
   super-operator) *)
Theorem C02_superrep_distinguishes :
  forall f t r r', r <> r' -> space_eqb (Super f t r) (Super f t r') = false.
Proof.
  intros f t r r' H. apply space_eqb_neq. congruence.
Qed.
Print Assumptions C02_superrep_distinguishes.

(* the same specification written with an extra list layer, [[2,3]] for
   [2,3], constructs the same space *)
Theorem C02_extra_list_layer :
  forall tidy fuel l r, (forall x, In x l -> is_int x = true) -> l <> [] ->
    from_list tidy (S (S fuel)) [NL l] r = from_list tidy (S fuel) l r.
Proof. exact from_list_extra_layer. Qed.
Print Assumptions C02_extra_list_layer.

(* print / parse round trip for flat specifications *)
Theorem C02_flat_roundtrip :
  forall fuel r l, Forall (fun n => n <> 0) l -> (2 <= length l)%nat ->
    exists s, from_list false (S fuel) (map NI l) r = Ok s /\ as_list s = map NI l /\
              s = Compound (map sp l).
Proof. exact flat_roundtrip. Qed.
Print Assumptions C02_flat_roundtrip.

(* size is the product of the flat list of leaf dimensions; the strides
   list has one entry per leaf *)
Theorem C02_size_flat_step :
  forall s, prodN (flat s) = size s /\ length (step s) = length (flat s).
Proof. intros s. split; [apply flat_size | apply step_length]. Qed.
Print Assumptions C02_size_flat_step.

(* type inference is total and agrees with the shape: ket iff one column
   and more than one row, etc. *)
Theorem C02_type_agrees_with_shape :
  forall d,
    let '(r, c) := dims_shape d in
    (dims_type d = TScalar <-> r = 1 /\ c = 1) /\
    ((dims_type d = TKet \/ dims_type d = TOperKet) <-> r <> 1 /\ c = 1) /\
    ((dims_type d = TBra \/ dims_type d = TOperBra) <-> r = 1 /\ c <> 1) /\
    ((dims_type d = TOper \/ dims_type d = TSuper) <-> r <> 1 /\ c <> 1).
Proof. exact dims_type_shape. Qed.
Print Assumptions C02_type_agrees_with_shape.

(* d1 @ d2 is defined only when the labels compose (even if raw shapes
   agree), the result has the composed labels and the shape of the matrix
   product, and composition is associative *)
Theorem C02_matmul_composes :
  (forall a b c, dims_matmul a b = Ok c ->
     d_from a = d_to b /\ d_from c = d_from b /\ d_to c = d_to a /\
     dims_shape c = shape_matmul (dims_shape a) (dims_shape b)) /\
  (forall a b, d_from a <> d_to b -> dims_matmul a b = Err TypeError) /\
  (forall a b c ab bc, dims_matmul a b = Ok ab -> dims_matmul b c = Ok bc ->
     dims_matmul ab c = dims_matmul a bc).
Proof.
  split; [exact dims_matmul_spec|]. split; [exact dims_matmul_rejects | exact dims_matmul_assoc].
Qed.
Print Assumptions C02_matmul_composes.

(* + and - : accepted exactly for equal labels (so the data shapes agree);
   a number is promoted only next to a square object *)
Theorem C02_add_requires_equal_labels :
  (forall self d, (d = self -> qobj_add self (OQobj d) = ODims self) /\
                  (d <> self -> qobj_add self (OQobj d) = ORaise ValueError)) /\
  (forall self r, qobj_add self ONumber = ODims r ->
                  r = self /\ fst (dims_shape self) = snd (dims_shape self)).
Proof. split; [exact qobj_add_spec | exact qobj_add_number]. Qed.
Print Assumptions C02_add_requires_equal_labels.

(* Qobj @ Qobj : result labels / shape / scalar case / rejection *)
Theorem C02_qobj_matmul :
  forall a b,
    match qobj_matmul a b with
    | ODims c => d_from a = d_to b /\ dims_shape c = shape_matmul (dims_shape a) (dims_shape b)
                 /\ d_from c = d_from b /\ d_to c = d_to a /\ dims_type c <> TScalar
    | ONumberResult => d_from a = d_to b /\ size (d_to a) = 1 /\ size (d_from b) = 1
    | ORaise e => d_from a <> d_to b \/ e = NotImplementedError
    end.
Proof. exact qobj_matmul_spec. Qed.
Print Assumptions C02_qobj_matmul.

(* adjoint / transpose swap the labels and the shape; integer powers need a
   square operator with equal labels on both sides *)
Theorem C02_swap_and_pow :
  (forall d d', dims_swap d = Ok d' ->
     dims_shape d' = shape_swap (dims_shape d) /\ d_from d' = d_to d /\ d_to d' = d_from d) /\
  (forall self r, qobj_pow self = ODims r ->
     r = self /\ d_from self = d_to self /\ fst (dims_shape self) = snd (dims_shape self)).
Proof. split; [exact dims_swap_shape | exact qobj_pow_spec]. Qed.
Print Assumptions C02_swap_and_pow.

(* the inverse carries the exchanged labels (so A.inv() @ A and A @ A.inv()
   compose), needs a square raw matrix, and is rejected otherwise *)
Theorem C02_inv_exchanges_labels :
  (forall self r, qobj_inv self = ODims r ->
     d_from r = d_to self /\ d_to r = d_from self /\
     fst (dims_shape self) = snd (dims_shape self) /\
     dims_shape r = shape_swap (dims_shape self)) /\
  (forall self, fst (dims_shape self) <> snd (dims_shape self) ->
     qobj_inv self = ORaise TypeError).
Proof. split; [exact qobj_inv_spec | exact qobj_inv_rejects]. Qed.
Print Assumptions C02_inv_exchanges_labels.

(* printing a space as a nested list and parsing it again gives the same
   space: for every nesting depth (superoperator spaces over superoperator
   spaces, tensor products of superoperator spaces, 1-dimensional factors),
   both settings of auto_tidyup_dims, and a given or defaulted representation.
   wfb describes what the constructors build (Proofs/C02_nested.v). *)
Theorem C02_nested_roundtrip :
  forall tidy ro s fuel,
    wfb tidy (rep_of ro) s = true -> (sdepth s <= fuel)%nat ->
    from_list tidy fuel (as_list s) ro = Ok s.
Proof. exact nested_roundtrip. Qed.
Print Assumptions C02_nested_roundtrip.

(* overlap and matrix_element accept exactly the operands whose Hilbert-space
   labels agree (and raise TypeError otherwise) *)
Theorem C02_overlap_matrix_element_labels :
  (forall a b, qobj_overlap a b = ONumberResult <->
     exists p, state_spaces a = Some p /\ state_spaces b = Some p) /\
  (forall a b, qobj_overlap a b = ONumberResult \/ qobj_overlap a b = ORaise TypeError) /\
  (forall op bra ket, qobj_matrix_element op bra ket = ONumberResult <->
     dims_type op = TOper /\ vec_space bra = Some (d_to op) /\ vec_space ket = Some (d_from op)).
Proof.
  split; [exact qobj_overlap_spec|]. split; [exact qobj_overlap_total|].
  exact qobj_matrix_element_spec.
Qed.
Print Assumptions C02_overlap_matrix_element_labels.

(* a superoperator applied to an operator: vectorise (through the nested list
   form [op.dims, [1]]), multiply, devectorise (through the list form of the
   superoperator's row space) - the result carries the operator labels the
   superoperator maps to *)
Theorem C02_super_applied_to_operator :
  forall tidy fuel f t f' t',
    wfb tidy RSuper (Super f t RSuper) = true ->
    wfb tidy RSuper (Super f' t' RSuper) = true ->
    dims_type {| d_from := f; d_to := t |} = TOper ->
    size t' * size f' <> 1 ->
    (S (sdepth (Super f t RSuper)) <= fuel)%nat ->
    (sdepth (Super f' t' RSuper) <= fuel)%nat ->
    qobj_call tidy fuel {| d_from := Super f t RSuper; d_to := Super f' t' RSuper |}
                        {| d_from := f; d_to := t |}
    = ODims {| d_from := f'; d_to := t' |}.
Proof. exact call_super_on_oper. Qed.
Print Assumptions C02_super_applied_to_operator.

(* the hypotheses above are met: a superoperator space over a superoperator
   space tensored with another one, and a rectangular superoperator on a
   compound space applied to an operator *)
Example C02_nonvacuous_nested :
  let a := Compound [Simple 2; Field; Simple 3] in
  let s1 := Super a a RSuper in
  let s2 := Super (Simple 2) (Simple 2) RSuper in
  let big := Compound [Super s1 s1 RSuper; Super s2 s2 RSuper] in
  wfb true RSuper big = true /\ (sdepth big <= 3)%nat /\
  from_list true 3 (as_list big) (Some RSuper) = Ok big /\
  wfb true RSuper (Super (Simple 3) a RSuper) = true /\
  dims_type {| d_from := Simple 3; d_to := a |} = TOper /\
  qobj_call true 4 {| d_from := Super (Simple 3) a RSuper; d_to := Super (Simple 2) a RSuper |}
                   {| d_from := Simple 3; d_to := a |}
  = ODims {| d_from := Simple 2; d_to := a |}.
Proof. repeat split; vm_compute; try reflexivity; intros H; discriminate H. Qed.

(* non-vacuity: a rectangular superoperator-on-compound spec exists, is
   typed 'super', and composes with its adjoint's labels *)
Example C02_nonvacuous :
  exists d d', dims_of_list true 5 [NL [NL [NI 2; NI 3]; NL [NI 2; NI 3]]; NL [NL [NI 2]; NL [NI 2]]]
                            (Some RChoi) = Ok d /\
    dims_type d = TSuper /\ dims_shape d = (36, 4) /\ dims_superrep d = Some RChoi /\
    dims_swap d = Ok d' /\ exists c, dims_matmul d d' = Ok c /\ dims_shape c = (36, 36).
Proof.
  eexists. eexists. split; [vm_compute; reflexivity|].
  split; [vm_compute; reflexivity|]. split; [vm_compute; reflexivity|].
  split; [vm_compute; reflexivity|]. split; [vm_compute; reflexivity|].
  eexists. split; vm_compute; reflexivity.
Qed.
