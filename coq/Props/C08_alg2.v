(* C08 - the dual channel is the adjoint map for the Hilbert-Schmidt inner
   product, over any commutative ring with an involutive conjugation and for
   every output size m and input size n (also m <> n).  The entries
   D[(p,x),(q,y)] = conj J[(x,p),(y,q)] are what Props/C08_ext.v proves of
   Qobj.dual_chan.  Proofs: Proofs/C08_alg2.v. *)
From mathcomp Require Import all_ssreflect all_algebra.
From QV Require Import Proofs.C08_alg Proofs.C08_alg2.
Import GRing.Theory.
Local Open Scope ring_scope.

Theorem C08_dual_chan_is_hilbert_schmidt_adjoint :
  forall (R : comRingType) (conj : {rmorphism R -> R}), involutive conj ->
  forall (m n : nat) (J : T4c R m n) (X : 'M[R]_n) (Y : 'M[R]_m),
    \tr (adj conj Y *m apply_choi J X)
    = \tr (adj conj (apply_choi (dual_choi conj J) Y) *m X).
Proof. exact: dual_is_hs_adjoint. Qed.
Print Assumptions C08_dual_chan_is_hilbert_schmidt_adjoint.

(* the dual of the dual is the map itself *)
Theorem C08_dual_chan_involution :
  forall (R : comRingType) (conj : {rmorphism R -> R}), involutive conj ->
  forall (m n : nat) (J : T4c R m n) p x q y,
    dual_choi conj (dual_choi conj J) p x q y = J p x q y.
Proof. exact: dual_choi_invol. Qed.
Print Assumptions C08_dual_chan_involution.
