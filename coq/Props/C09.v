(* C09 - tensor-structure operations act on the subsystem indices they name.
   Property theorems only; proofs are in Proofs/C09.v.

   Quantifiers: every list of subsystem dimensions `dims` (any length, any
   positive entries: repeats and 1s included), every selection `sel` (any
   list of naturals; out-of-range entries simply select nothing in the index
   theorems, the error behaviour is `parse_inputs`), every order accepted by
   `_Indexer.__init__`, every list of stored entries inside the matrix, every
   payload type that is a commutative monoid under addition. *)
From Coq Require Import List Arith Bool Lia ZArith Ring.
Import ListNotations.
From QV Require Import Model.C09 Proofs.C09 Proofs.C09_ext.

(* 1. mixed radix numbers: digits/undigits are mutually inverse, with bounds *)
Theorem C09_mixed_radix_roundtrip :
  forall dims, allpos dims ->
    (forall n, n < prod dims ->
       valid dims (digits dims n) /\ undigits dims (digits dims n) = n) /\
    (forall ds, valid dims ds ->
       undigits dims ds < prod dims /\ digits dims (undigits dims ds) = ds).
Proof.
  intros dims Hp. split.
  - intros n Hn. split; [apply digits_valid|apply undigits_digits]; assumption.
  - intros ds Hv. split; [apply undigits_lt|apply digits_undigits]; assumption.
Qed.
Print Assumptions C09_mixed_radix_roundtrip.

Example C09_nonvacuous_mixed_radix :
  allpos [2; 1; 3; 3] /\ 13 < prod [2; 1; 3; 3] /\ digits [2; 1; 3; 3] 13 = [1; 0; 1; 1].
Proof. split; [repeat constructor|]. split; [simpl; lia|reflexivity]. Qed.

(* 2. _populate_tensor_table: output size = product of the kept dimensions,
      and kept * traced = whole *)
Theorem C09_tensor_table_sizes :
  forall dims sel,
    let mask := mask_of (length dims) sel in
    keep_size dims sel = prod (kept_dims dims mask) /\
    trace_size dims sel = prod (traced_dims dims mask) /\
    keep_size dims sel * trace_size dims sel = prod dims.
Proof.
  intros dims sel mask. rewrite keep_size_mask, trace_size_mask. fold mask.
  split; [reflexivity|split; [reflexivity|]].
  symmetry. apply prod_select_split. unfold mask. rewrite mask_of_length. reflexivity.
Qed.
Print Assumptions C09_tensor_table_sizes.

(* 3. _i2_k_t: (index of the kept digits, index of the traced digits) *)
Theorem C09_i2_k_t_splits_digits :
  forall dims sel n, allpos dims -> n < prod dims ->
    let mask := mask_of (length dims) sel in
    i2_k_t n (tensor_table dims sel) =
    (undigits (kept_dims dims mask) (select mask (digits dims n)),
     undigits (traced_dims dims mask) (select (map negb mask) (digits dims n))).
Proof.
  intros dims sel n Hp Hn mask. subst mask. rewrite tensor_table_mask.
  apply i2kt_digits; [exact Hp|rewrite mask_of_length; reflexivity|exact Hn].
Qed.
Print Assumptions C09_i2_k_t_splits_digits.

(* 4. _i2_k_t is a bijection [0,N) <-> [0,K) x [0,T) with inverse `merge` *)
Theorem C09_i2_k_t_bijection :
  forall dims sel, allpos dims ->
    let mask := mask_of (length dims) sel in
    let tab := tensor_table dims sel in
    (forall n, n < prod dims ->
       fst (i2_k_t n tab) < keep_size dims sel /\ snd (i2_k_t n tab) < trace_size dims sel /\
       merge dims mask (fst (i2_k_t n tab)) (snd (i2_k_t n tab)) = n) /\
    (forall r tau, r < keep_size dims sel -> tau < trace_size dims sel ->
       merge dims mask r tau < prod dims /\ i2_k_t (merge dims mask r tau) tab = (r, tau)).
Proof.
  intros dims sel Hp mask tab. unfold tab. rewrite tensor_table_mask, keep_size_mask, trace_size_mask.
  fold mask. assert (HL : length dims = length mask) by (unfold mask; rewrite mask_of_length; reflexivity).
  split.
  - intros n Hn. apply i2kt_range_merge; assumption.
  - intros r tau Hr Ht. apply merge_range_i2kt; assumption.
Qed.
Print Assumptions C09_i2_k_t_bijection.

(* 5. the partial trace loop of ptrace_csr / ptrace_csr_dense / ptrace_dia:
      out(r, c) = sum over the traced multi-index tau of M(merge r tau, merge c tau) *)
Theorem C09_ptrace_sums_over_traced_indices :
  forall (C : Type) (c0 : C) (cadd : C -> C -> C),
    (forall x y, cadd x y = cadd y x) ->
    (forall x y z, cadd x (cadd y z) = cadd (cadd x y) z) ->
    (forall x, cadd c0 x = x) ->
  forall dims sel E r c, allpos dims ->
    in_range C (prod dims) E -> r < keep_size dims sel -> c < keep_size dims sel ->
    den C c0 cadd (ptrace_loop C (tensor_table dims sel) E) r c =
    ptrace_spec C c0 cadd dims (mask_of (length dims) sel) (den C c0 cadd E) r c.
Proof.
  intros C c0 cadd Hc Ha H0 dims sel E r c Hp HE Hr Hcc.
  rewrite tensor_table_mask. rewrite keep_size_mask in Hr, Hcc.
  apply ptrace_loop_meaning; try assumption. rewrite mask_of_length. reflexivity.
Qed.
Print Assumptions C09_ptrace_sums_over_traced_indices.

Example C09_nonvacuous_ptrace :
  let E := [(1, 1, 5%Z); (4, 4, 7%Z); (0, 3, 2%Z); (5, 2, 1%Z); (3, 3, 9%Z)] in
  in_range Z (prod [2; 3]) E /\ allpos [2; 3] /\ keep_size [2; 3] [1] = 3 /\
  den Z 0%Z Z.add (ptrace_loop Z (tensor_table [2; 3] [1]) E) 1 1 = 12%Z /\
  ptrace_spec Z 0%Z Z.add [2; 3] (mask_of 2 [1]) (den Z 0%Z Z.add E) 1 1 = 12%Z.
Proof.
  simpl. repeat split; try reflexivity; repeat constructor; simpl; lia.
Qed.

(* 6. _Indexer: the flat index of the permuted object is obtained by moving
      digit order[i] to position i (early break of `single` included) *)
Theorem C09_indexer_moves_digits :
  forall dims order ix ds, indexer_init dims order = inr ix -> valid dims ds ->
    single ix (undigits dims ds) = undigits (gather order dims) (gather order ds) /\
    ix_new ix = gather order dims /\ ix_size ix = prod (gather order dims) /\
    valid (gather order dims) (gather order ds).
Proof. exact indexer_single_spec. Qed.
Print Assumptions C09_indexer_moves_digits.

Example C09_nonvacuous_indexer :
  exists ix, indexer_init [2; 3; 4] [1; 2; 0] = inr ix /\ valid [2; 3; 4] [1; 2; 3] /\
             single ix 23 = 23 /\ single ix 1 = 2.
Proof. eexists. split; [reflexivity|]. split; [repeat constructor|split; reflexivity]. Qed.

(* 7. ... and is a bijection of [0, N) *)
Theorem C09_indexer_bijective :
  forall dims order ix, indexer_init dims order = inr ix -> allpos dims ->
    (forall i, i < prod dims -> single ix i < prod dims) /\
    (forall i j, i < prod dims -> j < prod dims -> single ix i = single ix j -> i = j).
Proof. exact indexer_single_bijective. Qed.
Print Assumptions C09_indexer_bijective.

(* 8. permutation law: entry (i, j) of the input is entry (pi i, pi j) of the output *)
Theorem C09_permute_law :
  forall (C : Type) (c0 : C) (cadd : C -> C -> C) dims order ix E i j,
    indexer_init dims order = inr ix -> allpos dims ->
    in_range C (prod dims) E -> i < prod dims -> j < prod dims ->
    den C c0 cadd (perm_map C ix E) (single ix i) (single ix j) = den C c0 cadd E i j.
Proof. exact permute_law. Qed.
Print Assumptions C09_permute_law.

(* 9. the table look-ups of the dense-enough CSR path (`index.all()`) give the
      same entries as direct calls of `index.single()` *)
Theorem C09_csr_full_path_same_entries :
  forall (C : Type) ix E, in_range C (ix_size ix) E ->
    perm_full C (all_idx ix) (all_idx ix) E = perm_map C ix E.
Proof. exact perm_full_map. Qed.
Print Assumptions C09_csr_full_path_same_entries.

(* 10. permuting and permuting back with the inverse order is the identity,
       on indices and on the dimension labels *)
Theorem C09_permute_round_trip :
  forall dims order inv ix1 ix2,
    indexer_init dims order = inr ix1 ->
    indexer_init (gather order dims) inv = inr ix2 ->
    gather inv order = seq 0 (length dims) -> allpos dims ->
    gather inv (gather order dims) = dims /\
    forall i, i < prod dims -> single ix2 (single ix1 i) = i.
Proof. exact indexer_round_trip. Qed.
Print Assumptions C09_permute_round_trip.

Example C09_nonvacuous_round_trip :
  exists ix1 ix2, indexer_init [2; 1; 3] [2; 0; 1] = inr ix1 /\
    indexer_init (gather [2; 0; 1] [2; 1; 3]) [1; 2; 0] = inr ix2 /\
    gather [1; 2; 0] [2; 0; 1] = seq 0 3 /\ allpos [2; 1; 3].
Proof. do 2 eexists. repeat split; try reflexivity. repeat constructor. Qed.

(* 11. _tensor_contract_single sums the axis on which NumPy puts the diagonal
       of the two contracted indices, for every pair of tensor indices, in
       either order (fixed by 606fb68; before, the descending adjacent pair
       (2, 1) was a counterexample) *)
Theorem C09_contract_axis_correct :
  forall i j, contract_at_code i j = numpy_adv_axis i j.
Proof. exact contract_at_correct. Qed.
Print Assumptions C09_contract_axis_correct.

(* 12. Dimensions._tensor_order (np.lexsort((flat == 1, -steps))): for any
       step/dims lists the order is a permutation of the positions and lists
       them by decreasing step, ties: dimension > 1 first, then position *)
Theorem C09_tensor_order_is_sorting_permutation :
  forall st fl, length st = length fl ->
    Permutation.Permutation (tensor_order st fl) (seq 0 (length st)) /\
    Sorted.Sorted (fun x y => t_le x y = true) (t_sort (t_items st fl)).
Proof. exact tensor_order_perm_sorted. Qed.
Print Assumptions C09_tensor_order_is_sorting_permutation.

(* 13. ... and for kets, bras and operators the tensor indices are exactly in
       the order of flatten(dims), for every dims list, 1-dimensional factors
       included (fixed by 9408e56; before, dims [2; 1; 3] was a counterexample) *)
Theorem C09_tensor_perm_label_order :
  forall fl fr, allpos fl -> allpos fr ->
    get_tensor_perm (steps fl) (steps fr) fl fr = seq 0 (length fl + length fr) /\
    get_tensor_shape (steps fl) (steps fr) fl fr = fl ++ fr.
Proof. exact tensor_perm_simple. Qed.
Print Assumptions C09_tensor_perm_label_order.

Example C09_nonvacuous_tensor_perm :
  allpos [2; 1; 3] /\ allpos [1; 1; 2] /\
  tensor_order (steps [2; 1; 3]) [2; 1; 3] = [0; 1; 2] /\
  tensor_order (steps_super [1; 3] [5; 7]) ([1; 3] ++ [5; 7]) = [2; 3; 0; 1].
Proof. repeat split; try reflexivity; repeat constructor. Qed.

(* 14. tensor_swap (kets, bras, operators): the entry with flat index f goes to
       the flat index obtained by exchanging the named digits, for every dims
       list (1-dimensional factors included), every list of pairs, every entry *)
Theorem C09_tensor_swap_exchanges_named_digits :
  forall fl fr pairs f, allpos fl -> allpos fr ->
    (forall p, In p pairs -> fst p < length fl + length fr /\ snd p < length fl + length fr) ->
    tensor_swap_index (steps fl) (steps fr) fl fr pairs f = tensor_swap_spec fl fr pairs f.
Proof. exact tensor_swap_index_correct. Qed.
Print Assumptions C09_tensor_swap_exchanges_named_digits.

Example C09_nonvacuous_tensor_swap :
  allpos [2; 1; 3] /\ allpos [1] /\
  map (tensor_swap_index (steps [2; 1; 3]) (steps [1]) [2; 1; 3] [1] [(1, 2)]) (seq 0 6) = seq 0 6 /\
  map (tensor_swap_index (steps [2; 1; 3]) (steps [1]) [2; 1; 3] [1] [(0, 2)]) (seq 0 6) = [0; 2; 4; 1; 3; 5].
Proof. repeat split; try reflexivity; repeat constructor. Qed.

(* 15. reshuffle, both directions, any number s of single-space factors:
       _to_tensor_of_super turns (rows L, columns R) into (row, column) pairs,
       _to_super_of_tensor undoes it, and the two are mutually inverse *)
Theorem C09_reshuffle_round_trips :
  forall L R : list nat, length L = length R ->
    gather (tensor_of_super_order (length L)) (L ++ R) = interleave L R /\
    gather (super_of_tensor_order (repeat 1 (length L))) (interleave L R) = L ++ R /\
    gather (tensor_of_super_order (length L))
           (gather (super_of_tensor_order (repeat 1 (length L))) (interleave L R)) = interleave L R /\
    gather (super_of_tensor_order (repeat 1 (length L)))
           (gather (tensor_of_super_order (length L)) (L ++ R)) = L ++ R.
Proof.
  intros L R H. destruct (reshuffle_round_trips L R H) as [A B].
  split; [apply tensor_of_super_interleaves; exact H|].
  split; [apply super_of_tensor_deinterleaves; exact H|]. split; assumption.
Qed.
Print Assumptions C09_reshuffle_round_trips.

Example C09_nonvacuous_reshuffle_round_trip :
  interleave [10; 11; 12] [20; 21; 22] = [10; 20; 11; 21; 12; 22] /\
  tensor_of_super_order 3 = [0; 3; 1; 4; 2; 5] /\
  super_of_tensor_order (repeat 1 3) = [0; 2; 4; 1; 3; 5].
Proof. repeat split; reflexivity. Qed.

(* 15b. reshuffle twice on a tensor of superoperators over composite spaces
        gives one superoperator space per subsystem, in order *)
Theorem C09_reshuffle_twice_splits_subsystems :
  forall ls rs : list (list nat),
    Forall2 (fun l r => length l = length r) ls rs ->
    gather (tensor_of_super_order (length (concat ls)))
           (gather (super_of_tensor_order (map (@length nat) ls)) (tensor_of_supers_labels ls rs))
    = interleave (concat ls) (concat rs).
Proof. exact reshuffle_twice_splits_subsystems. Qed.
Print Assumptions C09_reshuffle_twice_splits_subsystems.

(* 15c. the Compound branch of the PRIVATE _to_tensor_of_super (reshuffle()
        never dispatches a Compound there, so this cannot be observed through
        the public API): right when every factor is over at most 2
        subsystems ... *)
Theorem C09_private_tos_compound_small_factors :
  forall ls rs : list (list nat),
    Forall2 (fun l r => length l = length r) ls rs ->
    Forall (fun l => length l <= 2) ls ->
    gather (tos_compound_order 0 (map (@length nat) ls)) (tensor_of_supers_labels ls rs)
    = per_factor_interleave ls rs.
Proof. intros ls rs H S. exact (tos_compound_small_factors ls rs H S []). Qed.
Print Assumptions C09_private_tos_compound_small_factors.

(* ... and wrong for a factor over 3 subsystems.  Full statement that does NOT
   hold for the current code: the theorem above without the `<= 2` hypothesis *)
Theorem C09_private_tos_compound_refuted :
  exists ls rs : list (list nat),
    Forall2 (fun l r => length l = length r) ls rs /\
    gather (tos_compound_order 0 (map (@length nat) ls)) (tensor_of_supers_labels ls rs)
    <> per_factor_interleave ls rs.
Proof. exact tos_compound_three_subsystems_wrong. Qed.
Print Assumptions C09_private_tos_compound_refuted.

(* 16. expand_operator, for every register size N and every duplicate-free
       in-range target list: new_order is a permutation of 0..N-1 which sends
       entry i of any per-subsystem list laid out as [operand factors...,
       identities...] to subsystem targets[i] and the j-th identity to the
       j-th subsystem that is not a target *)
Theorem C09_expand_order_places_factors :
  forall N targets, NoDup targets -> (forall t, In t targets -> t < N) ->
    let no := expand_new_order N targets in
    length no = N /\ NoDup no /\ (forall o, In o no -> o < N) /\
    (forall ds i, i < length targets -> nth (nth i targets 0) (gather no ds) 0 = nth i ds 0) /\
    (forall ds j, j < N - length targets ->
       nth (nth j (rest_pos N targets) 0) (gather no ds) 0 = nth (length targets + j) ds 0).
Proof.
  intros N targets ND HB no. destruct (expand_order_perm N targets ND HB) as [A B].
  split; [apply expand_order_length|]. split; [exact A|]. split; [exact B|]. split.
  - intros ds i Hi. apply (expand_gather_targets N targets ND HB ds i Hi).
  - intros ds j Hj. apply (expand_gather_rest N targets ND HB ds j Hj).
Qed.
Print Assumptions C09_expand_order_places_factors.

Example C09_nonvacuous_expand_order :
  NoDup [3; 0] /\ (forall t, In t [3; 0] -> t < 5) /\ expand_new_order 5 [3; 0] = [1; 2; 3; 0; 4].
Proof.
  split; [repeat constructor; simpl; intuition lia|]. split; [|reflexivity].
  intros t [H|[H|[]]]; lia.
Qed.

(* 16b. the structure handed to permute.dimensions becomes dims, the order is
        always accepted, and the flat index with digits ds (operand factors
        first) goes to the index whose digit at subsystem targets[i] is ds[i] *)
Theorem C09_expand_operator_index_map :
  forall dims targets, allpos dims -> NoDup targets ->
    (forall t, In t targets -> t < length dims) ->
    gather (expand_new_order (length dims) targets) (expand_pre_dims dims targets) = dims /\
    exists ix,
      indexer_init (expand_pre_dims dims targets) (expand_new_order (length dims) targets) = inr ix /\
      forall ds, valid (expand_pre_dims dims targets) ds ->
        let es := gather (expand_new_order (length dims) targets) ds in
        single ix (undigits (expand_pre_dims dims targets) ds) = undigits dims es /\
        valid dims es /\
        (forall i, i < length targets -> nth (nth i targets 0) es 0 = nth i ds 0) /\
        (forall j, j < length dims - length targets ->
           nth (nth j (rest_pos (length dims) targets) 0) es 0 = nth (length targets + j) ds 0).
Proof.
  intros dims targets Hp ND HB. split; [apply expand_structure_is_dims; assumption|].
  destruct (expand_indexer_accepts dims targets Hp ND HB) as [ix Hix].
  exists ix. split; [exact Hix|]. intros ds Hv.
  exact (expand_index_map dims targets ix ds ND HB Hix Hv).
Qed.
Print Assumptions C09_expand_operator_index_map.

(* 17. product theorem: the partial trace of a Kronecker product of square
       factors is the Kronecker product of the kept factors times the traces
       of the others - any number of factors, any dims (1s and repeats), any
       selection, any commutative semiring of entries *)
Theorem C09_ptrace_of_product :
  forall (C : Type) (c0 c1 : C) (cadd cmul : C -> C -> C),
    semi_ring_theory c0 c1 cadd cmul (@eq C) ->
  forall (As : list (mat C)) dims mask r c,
    allpos dims -> length As = length dims -> length dims = length mask ->
    r < prod (kept_dims dims mask) -> c < prod (kept_dims dims mask) ->
    ptrace_spec C c0 cadd dims mask (kron_list C c1 cmul As dims) r c =
    cmul (tr_list C c0 c1 cadd cmul (select (map negb mask) As) (traced_dims dims mask))
         (kron_list C c1 cmul (select mask As) (kept_dims dims mask) r c).
Proof. exact ptrace_of_product. Qed.
Print Assumptions C09_ptrace_of_product.

(* 18. ... and therefore what the sparse partial-trace loop returns on any
       storage of a product state *)
Theorem C09_sparse_ptrace_of_product :
  forall (C : Type) (c0 c1 : C) (cadd cmul : C -> C -> C),
    semi_ring_theory c0 c1 cadd cmul (@eq C) ->
  forall (As : list (mat C)) dims sel E r c,
    allpos dims -> length As = length dims -> in_range C (prod dims) E ->
    (forall i j, i < prod dims -> j < prod dims ->
       den C c0 cadd E i j = kron_list C c1 cmul As dims i j) ->
    r < keep_size dims sel -> c < keep_size dims sel ->
    let mask := mask_of (length dims) sel in
    den C c0 cadd (ptrace_loop C (tensor_table dims sel) E) r c =
    cmul (tr_list C c0 c1 cadd cmul (select (map negb mask) As) (traced_dims dims mask))
         (kron_list C c1 cmul (select mask As) (kept_dims dims mask) r c).
Proof.
  intros C c0 c1 cadd cmul SR As dims sel E r c Hp HA HE HM Hr Hc mask.
  assert (HL : length dims = length mask) by (unfold mask; rewrite mask_of_length; reflexivity).
  rewrite (C09_ptrace_sums_over_traced_indices C c0 cadd (SRadd_comm SR) (SRadd_assoc SR)
             (SRadd_0_l SR) dims sel E r c Hp HE Hr Hc).
  fold mask. rewrite keep_size_mask in Hr, Hc. fold mask in Hr, Hc.
  rewrite (ptrace_spec_ext C c0 cadd dims mask _ (kron_list C c1 cmul As dims) r c Hp HL HM Hr Hc).
  apply ptrace_of_product; assumption.
Qed.
Print Assumptions C09_sparse_ptrace_of_product.

Example C09_nonvacuous_product :
  let A : mat Z := fun i j => Z.of_nat (1 + i + 2 * j) in
  let B : mat Z := fun i j => Z.of_nat (3 + 2 * i + j) in
  ptrace_spec Z 0%Z Z.add [2; 3] [true; false] (kron_list Z 1%Z Z.mul [A; B] [2; 3]) 1 0 = 36%Z /\
  tr_list Z 0%Z 1%Z Z.add Z.mul [B] [3] = 18%Z /\ A 1 0 = 2%Z.
Proof. vm_compute. repeat split; reflexivity. Qed.

(* 19. reshuffle, tensor of superoperators -> superoperator of the tensor
       space (_to_super_of_tensor): for ANY number of factors, each over a
       space with any number of subsystems, the permutation it builds brings
       the row ("to") labels of all factors, in factor order, in front of the
       column ("from") labels of all factors.  ls/rs are the row/column labels
       of the factors as laid out in the flat dims of the tensor of supers
       (rows of a factor first, then its columns). *)
Theorem C09_reshuffle_groups_row_and_column_indices :
  forall ls rs : list (list nat),
    Forall2 (fun l r => length l = length r) ls rs ->
    gather (super_of_tensor_order (map (@length nat) ls)) (tensor_of_supers_labels ls rs)
    = concat ls ++ concat rs.
Proof. exact super_of_tensor_groups. Qed.
Print Assumptions C09_reshuffle_groups_row_and_column_indices.

Example C09_nonvacuous_reshuffle_groups :
  (* cnot-like factor over [2;2] (rows 10 11, columns 20 21) and a
     one-subsystem factor (row 12, column 22) *)
  Forall2 (fun l r : list nat => length l = length r) [[10; 11]; [12]] [[20; 21]; [22]] /\
  tensor_of_supers_labels [[10; 11]; [12]] [[20; 21]; [22]] = [10; 11; 20; 21; 12; 22] /\
  super_of_tensor_order [2; 1] = [0; 1; 4; 2; 3; 5].
Proof. repeat split; repeat constructor. Qed.

(* 20. partial_transpose: the dense (reshape/transpose) and the sparse (index
       arithmetic) method put every entry at the same place *)
Theorem C09_partial_transpose_methods_agree :
  forall dims mask, allpos dims -> length mask = length dims ->
  forall m n, m < prod dims -> n < prod dims ->
    pt_dense_index dims mask (m * prod dims + n) =
    fst (pt_sparse_index dims mask m n) * prod dims + snd (pt_sparse_index dims mask m n).
Proof. exact pt_methods_agree. Qed.
Print Assumptions C09_partial_transpose_methods_agree.

(* 21. ... the new row index has the old column digit where the mask is set and
       the old row digit elsewhere (symmetrically for the column index) ... *)
Theorem C09_partial_transpose_exchanges_masked_digits :
  forall dims mask, allpos dims -> length mask = length dims ->
  forall m n, m < prod dims -> n < prod dims ->
    digits dims (fst (pt_sparse_index dims mask m n)) = choose mask (digits dims m) (digits dims n) /\
    digits dims (snd (pt_sparse_index dims mask m n)) = choose mask (digits dims n) (digits dims m).
Proof. exact pt_sparse_digits. Qed.
Print Assumptions C09_partial_transpose_exchanges_masked_digits.

(* 22. ... it is an involution of the index pairs ... *)
Theorem C09_partial_transpose_involution :
  forall dims mask, allpos dims -> length mask = length dims ->
  forall m n, m < prod dims -> n < prod dims ->
    let p := pt_sparse_index dims mask m n in
    fst p < prod dims /\ snd p < prod dims /\ pt_sparse_index dims mask (fst p) (snd p) = (m, n).
Proof. exact pt_sparse_involution. Qed.
Print Assumptions C09_partial_transpose_involution.

(* 23. ... and entry (i, j) of the input is entry pt(i, j) of the output *)
Theorem C09_partial_transpose_entries :
  forall dims mask, allpos dims -> length mask = length dims ->
  forall (C : Type) (c0 : C) (cadd : C -> C -> C) E i j,
    in_range C (prod dims) E -> i < prod dims -> j < prod dims ->
    den C c0 cadd (pt_entries_sparse C dims mask E)
        (fst (pt_sparse_index dims mask i j)) (snd (pt_sparse_index dims mask i j))
    = den C c0 cadd E i j.
Proof. exact pt_entries_law. Qed.
Print Assumptions C09_partial_transpose_entries.

Example C09_nonvacuous_partial_transpose :
  allpos [2; 3] /\ pt_sparse_index [2; 3] [true; false] 1 5 = (4, 2) /\
  pt_sparse_index [2; 3] [true; false] 4 2 = (1, 5) /\ pt_idx [true; false] = [2; 1; 0; 3].
Proof. repeat split; try reflexivity; repeat constructor. Qed.

(* 24. subsystem_apply (_one_subsystem_apply): the block / sub-block / offset
       decomposition of a flat index is exactly (digits of the subsystems
       before idx, digit of subsystem idx, digits of the subsystems after),
       for every dims list: the channel acts on digit idx of the row and of
       the column index and on nothing else *)
Theorem C09_subsystem_apply_block_split :
  forall hi d lo H x L,
    allpos (hi ++ d :: lo) -> valid hi H -> x < d -> valid lo L ->
    let dims := hi ++ d :: lo in
    let idx := length hi in
    let i := undigits dims (H ++ x :: L) in
    sa_split dims idx i = (undigits hi H, x, undigits lo L) /\
    sa_join dims idx (undigits hi H) x (undigits lo L) = i /\
    i < prod dims.
Proof. exact sa_split_is_digit_split. Qed.
Print Assumptions C09_subsystem_apply_block_split.

Example C09_nonvacuous_subsystem_apply :
  allpos ([2; 1] ++ 3 :: [2]) /\ valid [2; 1] [1; 0] /\ valid [2] [1] /\
  sa_split [2; 1; 3; 2] 2 (undigits [2; 1; 3; 2] [1; 0; 2; 1]) = (1, 2, 1).
Proof. repeat split; try reflexivity; repeat constructor. Qed.

(* 25. tensor(): the loop `out = kron(out, arg)` (left nested, pairwise
       _data.kron) is the Kronecker product of the list - any number of
       factors, rectangular factors (kets, bras) included, any commutative
       semiring of entries.  For square factors this is the kron_list of the
       product theorem (17, 18). *)
Theorem C09_tensor_loop_is_kronecker_product :
  forall (C : Type) (c0 c1 : C) (cadd cmul : C -> C -> C),
    semi_ring_theory c0 c1 cadd cmul (@eq C) ->
  forall (As : list (mat C)) rd cd i j,
    allpos rd -> allpos cd -> length As = length rd -> length As = length cd ->
    tensor_data C c1 cmul As rd cd i j = kron_rc C c1 cmul As rd cd i j /\
    kron_rc C c1 cmul As rd rd i j = kron_list C c1 cmul As rd i j.
Proof.
  intros C c0 c1 cadd cmul SR As rd cd i j Hr Hc Lr Lc. split.
  - exact (tensor_data_is_kron_rc C c0 c1 cadd cmul SR As rd cd i j Hr Hc Lr Lc).
  - exact (kron_rc_square C c1 cmul As rd i j).
Qed.
Print Assumptions C09_tensor_loop_is_kronecker_product.

Example C09_nonvacuous_tensor_loop :
  let A : mat Z := fun i j => Z.of_nat (1 + i + 2 * j) in
  let B : mat Z := fun i j => Z.of_nat (3 + 2 * i + j) in
  let V : mat Z := fun i j => Z.of_nat (5 + i) in
  allpos [2; 3; 2] /\ allpos [2; 3; 1] /\
  tensor_data Z 1%Z Z.mul [A; B; V] [2; 3; 2] [2; 3; 1] 7 4 = 96%Z /\
  kron_rc Z 1%Z Z.mul [A; B; V] [2; 3; 2] [2; 3; 1] 7 4 = 96%Z.
Proof. repeat split; try reflexivity; repeat constructor. Qed.

(* 26. kron_csr: the stored entries it produces mean kron2 of the meanings of
       the two operands *)
Theorem C09_kron_csr_meaning :
  forall (C : Type) (c0 c1 : C) (cadd cmul : C -> C -> C),
    semi_ring_theory c0 c1 cadd cmul (@eq C) ->
  forall nrr ncr EL ER i j, 0 < nrr -> 0 < ncr ->
    Forall (fun e : entry C => fst (fst e) < nrr /\ snd (fst e) < ncr) ER ->
    den C c0 cadd (kron_csr_entries C cmul nrr ncr EL ER) i j =
    kron2 C cmul (den C c0 cadd EL) (den C c0 cadd ER) nrr ncr i j.
Proof. exact kron_csr_meaning. Qed.
Print Assumptions C09_kron_csr_meaning.

Example C09_nonvacuous_kron_csr :
  let EL := [(0, 1, 2%Z); (1, 0, 3%Z)] in
  let ER := [(0, 0, 5%Z); (2, 1, 7%Z)] in
  Forall (fun e : entry Z => fst (fst e) < 3 /\ snd (fst e) < 2) ER /\
  den Z 0%Z Z.add (kron_csr_entries Z Z.mul 3 2 EL ER) 5 1 = 21%Z.
Proof. split; [repeat constructor|reflexivity]. Qed.

(* 27. super_tensor = reshuffle(tensor(map reshuffle args)): for any number of
       superoperator / operator-ket factors over any numbers of subsystems,
       the row labels of all factors end up first (in factor order), then all
       column labels - the labels of the superoperator over the tensor space *)
Theorem C09_super_tensor_label_flow :
  forall ls rs : list (list nat),
    Forall2 (fun l r => length l = length r) ls rs ->
    gather (super_of_tensor_order (repeat 1 (length (concat ls))))
           (concat (map (fun p => gather (tensor_of_super_order (length (fst p))) (fst p ++ snd p))
                        (combine ls rs)))
    = concat ls ++ concat rs.
Proof. exact super_tensor_label_flow. Qed.
Print Assumptions C09_super_tensor_label_flow.

Example C09_nonvacuous_super_tensor :
  Forall2 (fun l r : list nat => length l = length r) [[10; 11]; [12]] [[20; 21]; [22]] /\
  concat (map (fun p : list nat * list nat =>
                 gather (tensor_of_super_order (length (fst p))) (fst p ++ snd p))
              (combine [[10; 11]; [12]] [[20; 21]; [22]])) = [10; 20; 11; 21; 12; 22].
Proof. split; [repeat constructor|reflexivity]. Qed.

(* 28. tensor_swap for EVERY Qobj type (kets, bras, operators, operator-kets,
       superoperators; 1-dimensional factors included): with mo the memory
       order of the tensor axes (axis a carries dims label mo[a]), the entry
       whose label digits are Ld goes to the entry whose label digits are Ld
       with the named pairs exchanged, laid out in the same memory order with
       the exchanged dims.  (The result is then read with the new dims, whose
       memory order is the same whenever it is fixed by the structure: always
       for kets/bras/operators - theorem 13 -, and for superoperator sides
       without 1-dimensional subsystems - theorem 29.) *)
Theorem C09_tensor_swap_any_type :
  forall stl str fl fr pairs Ld,
    length stl = length fl -> length str = length fr -> valid (fl ++ fr) Ld ->
    (forall p, In p pairs -> fst p < length (fl ++ fr) /\ snd p < length (fl ++ fr)) ->
    let mo := memory_order stl str fl fr in
    tensor_swap_index stl str fl fr pairs (undigits (gather mo (fl ++ fr)) (gather mo Ld)) =
    undigits (gather mo (apply_swaps (fl ++ fr) pairs)) (gather mo (apply_swaps Ld pairs)).
Proof. exact tensor_swap_any_type. Qed.
Print Assumptions C09_tensor_swap_any_type.

Example C09_nonvacuous_tensor_swap_super :
  (* super side [[2],[3]] | operator-ket column [1]: labels (l=2, r=3), memory (r, l) *)
  memory_order (steps_super [2] [3]) (steps [1]) [2; 3] [1] = [1; 0; 2] /\
  valid ([2; 3] ++ [1]) [1; 0; 0] /\
  tensor_swap_index (steps_super [2] [3]) (steps [1]) [2; 3] [1] [(0, 1)]
     (undigits (gather [1; 0; 2] [2; 3; 1]) (gather [1; 0; 2] [1; 0; 0])) = 3.
Proof. repeat split; try reflexivity; repeat constructor. Qed.

(* 29. superoperator sides: when the row space has no 1-dimensional subsystem
       the tensor axes are the column labels followed by the row labels
       (column stacking), whatever the dimensions *)
Theorem C09_tensor_order_super_column_stacking :
  forall l r, allpos l -> Forall (fun d => 2 <= d) l -> allpos r ->
    tensor_order (steps_super l r) (l ++ r) = seq (length l) (length r) ++ seq 0 (length l).
Proof. exact tensor_order_super_column_stacking. Qed.
Print Assumptions C09_tensor_order_super_column_stacking.

Example C09_nonvacuous_super_order :
  allpos [2; 4] /\ Forall (fun d => 2 <= d) [2; 4] /\ allpos [6; 1; 8] /\
  tensor_order (steps_super [2; 4] [6; 1; 8]) ([2; 4] ++ [6; 1; 8]) = [2; 3; 4; 0; 1].
Proof. repeat split; try reflexivity; repeat constructor; lia. Qed.

(* 30. tensor_contract, _tensor_contract_dense: whatever positions the earlier
       contractions removed, the pair handed to _tensor_contract_single points
       at the two axes that carry the requested labels (both in range, and
       distinct), for every list of pairs with distinct labels *)
Theorem C09_contract_relabel_points_at_labels :
  forall pairs axis,
    NoDup axis -> NoDup (pair_labels pairs) -> (forall x, In x (pair_labels pairs) -> In x axis) ->
    relabel_ok axis pairs (contract_relabel axis pairs).
Proof. exact contract_relabel_ok. Qed.
Print Assumptions C09_contract_relabel_points_at_labels.

Example C09_nonvacuous_contract_relabel :
  NoDup (pair_labels [(3, 1); (0, 4)]) /\ contract_relabel (seq 0 6) [(3, 1); (0, 4)] = [(3, 1); (0, 2)] /\
  relabel_ok (seq 0 6) [(3, 1); (0, 4)] [(3, 1); (0, 2)].
Proof.
  split; [repeat constructor; simpl; intuition lia|]. split; [reflexivity|].
  simpl. repeat split; lia.
Qed.

(* 31. ... and what is left after all contractions are the uncontracted axes in
       their original order (so the final reshape by the contracted dims reads
       them in the memory order of the input) *)
Theorem C09_contract_leaves_other_axes_in_order :
  forall pairs axis, NoDup axis ->
    final_axes axis pairs = filter (fun x => negb (memb x (pair_labels pairs))) axis.
Proof. exact final_axes_spec. Qed.
Print Assumptions C09_contract_leaves_other_axes_in_order.

Example C09_nonvacuous_contract_final :
  NoDup (seq 0 6) /\ final_axes (seq 0 6) [(3, 1); (0, 4)] = [2; 5].
Proof. split; [apply seq_NoDup|reflexivity]. Qed.

(* 32. tensor_contract for every Qobj type (superoperators and operator-kets
       included): the dims labels of the pairs are sent to the tensor axes that
       carry them (mo[tp[x]] = x), every step contracts the positions that
       currently hold those axes, and the remaining tensor axes keep the memory
       order of the input *)
Theorem C09_tensor_contract_positions :
  forall stl str fl fr pairs,
    length stl = length fl -> length str = length fr ->
    NoDup (pair_labels pairs) ->
    (forall x, In x (pair_labels pairs) -> x < length (fl ++ fr)) ->
    let n := length (fl ++ fr) in
    let mo := memory_order stl str fl fr in
    let tp := get_tensor_perm stl str fl fr in
    let tpairs := map (fun p => (nth (fst p) tp 0, nth (snd p) tp 0)) pairs in
    (forall x, In x (pair_labels pairs) -> nth x tp 0 < n /\ nth (nth x tp 0) mo 0 = x) /\
    relabel_ok (seq 0 n) tpairs (contract_relabel (seq 0 n) tpairs) /\
    final_axes (seq 0 n) tpairs
      = filter (fun a => negb (memb a (map (fun x => nth x tp 0) (pair_labels pairs)))) (seq 0 n).
Proof. exact tensor_contract_positions. Qed.
Print Assumptions C09_tensor_contract_positions.

Example C09_nonvacuous_tensor_contract_super :
  (* operator-ket [[[2; 3]; [2; 3]]; [1]]: labels l0 l1 r0 r1 | 1, memory order r0 r1 l0 l1 *)
  get_tensor_perm (steps_super [2; 3] [2; 3]) (steps [1]) [2; 3; 2; 3] [1] = [2; 3; 0; 1; 4] /\
  NoDup (pair_labels [(3, 1)]) /\
  contract_relabel (seq 0 5) [(1, 3)] = [(1, 3)] /\
  final_axes (seq 0 5) [(1, 3)] = [0; 2; 4].
Proof. repeat split; try reflexivity. repeat constructor; simpl; intuition lia. Qed.
