(* C05 - tensor / superoperator lifts of QobjEvo, division, copy and pickling.
   Generic theorems hold for every Alg and every maps handed to
   QobjEvo.linear_map that are additive and homogeneous ([lin]); the instance
   theorems are on the 4x4 Gaussian-integer universe G4 of Proofs/C05_g4.v
   (operators of the 2-dimensional space in the top-left block). *)
From Coq Require Import List ZArith Bool.
Import ListNotations.
From QV Require Import Model.C05 Model.C05_g4 Proofs.C05 Proofs.C05_lifts Proofs.C05_g4.

(* spre(A) * spost(B) of time-dependent A, B (sprepost) *)
Theorem C05_sprepost_pointwise :
  forall (A : Alg) (T : TimeS A) fpre fpost (a b : qx A T) t,
    lin A fpre -> lin A fpost -> wfx A T a -> wfx A T b ->
    qe_call A T (build A T (x_sprepost A T fpre fpost a b)) t
    = mmul A (tr_sem A fpre (sem A T a t)) (tr_sem A fpost (sem A T b t)).
Proof.
  intros A T fpre fpost a b t Hp Hq Ha Hb. rewrite qe_call_V.
  apply (pointwise A T (x_sprepost A T fpre fpost a b) t). apply wfx_sprepost; assumption.
Qed.
Print Assumptions C05_sprepost_pointwise.

(* lindblad_dissipator(a, b) of time-dependent a, b *)
Theorem C05_lindblad_dissipator_pointwise :
  forall (A : Alg) (T : TimeS A) fpre fpost h (a b : qx A T) t,
    lin A fpre -> lin A fpost -> wfx A T a -> wfx A T b ->
    qe_call A T (build A T (x_dissipator A T fpre fpost h a b)) t
    = diss_val A fpre fpost h (sem A T a t) (sem A T b t).
Proof.
  intros A T fpre fpost h a b t Hp Hq Ha Hb. rewrite qe_call_V.
  rewrite (pointwise A T _ t (wfx_dissipator A T fpre fpost h a b Hp Hq Ha Hb)).
  apply sem_dissipator.
Qed.
Print Assumptions C05_lindblad_dissipator_pointwise.

(* liouvillian(H, c_ops) with a time-dependent H and time-dependent c_ops:
   -1j (spre(H(t)) - spost(H(t))) + sum_k D[c_k(t)] (+ the zero terms `sum` adds) *)
Theorem C05_liouvillian_pointwise :
  forall (A : Alg) (T : TimeS A) fpre fpost mi h (H : qx A T) cs t,
    lin A fpre -> lin A fpost -> wfx A T H -> Forall (wfx A T) cs ->
    qe_call A T (build A T (x_liouvillian A T fpre fpost mi h H cs)) t
    = lio_val A fpre fpost mi h (sem A T H t) (map (fun c => sem A T c t) cs).
Proof.
  intros A T fpre fpost mi h H cs t Hp Hq HH Hcs. rewrite qe_call_V.
  rewrite (pointwise A T _ t (wfx_liouvillian A T fpre fpost mi h H cs Hp Hq HH Hcs)).
  apply sem_liouvillian.
Qed.
Print Assumptions C05_liouvillian_pointwise.

(* tensor(A, B) of time-dependent A, B *)
Theorem C05_tensor_pointwise :
  forall (A : Alg) (T : TimeS A) fl fr (a b : qx A T) t,
    lin A fl -> lin A fr -> wfx A T a -> wfx A T b ->
    qe_call A T (build A T (x_tensor A T fl fr a b)) t
    = mmul A (tr_sem A fl (sem A T a t)) (tr_sem A fr (sem A T b t)).
Proof.
  intros A T fl fr a b t Hp Hq Ha Hb. rewrite qe_call_V.
  apply (pointwise A T (x_tensor A T fl fr a b) t). apply wfx_sprepost; assumption.
Qed.
Print Assumptions C05_tensor_pointwise.

(* the maps spre, spost, tensor(., 1), tensor(1, .), tensor(q, .), tensor(., q)
   of the universe G4 are additive and homogeneous: the hypotheses above are
   satisfiable by the real lifts *)
Theorem C05_lift_maps_linear :
  lin G4 t_spre /\ lin G4 t_spost /\ lin G4 t_tens_l /\ lin G4 t_tens_r /\
  (forall q, lin G4 (t_tens_ql q)) /\ (forall q, lin G4 (t_tens_qr q)).
Proof.
  destruct lift_maps_ok as (H1 & H2 & H3 & H4 & H5 & H6). unfold lin.
  split; [split; [exact H1|reflexivity]|].
  split; [split; [exact H2|reflexivity]|].
  split; [split; [exact H3|reflexivity]|].
  split; [split; [exact H4|reflexivity]|].
  split; intros q; (split; [auto|reflexivity]).
Qed.
Print Assumptions C05_lift_maps_linear.

(* on G4: tensor(A, B)(t) is the Kronecker product of the values, and
   sprepost(A, B)(t) is kron_transpose(B(t), A(t)) *)
Theorem C05_tensor_is_kronecker :
  forall (a b : qx G4 ZT4) t x y,
    wfx G4 ZT4 a -> wfx G4 ZT4 b -> sem G4 ZT4 a t = emb x -> sem G4 ZT4 b t = emb y ->
    qe_call G4 ZT4 (build G4 ZT4 (x_tensor G4 ZT4 t_tens_l t_tens_r a b)) t = kron2 x y /\
    qe_call G4 ZT4 (build G4 ZT4 (x_sprepost G4 ZT4 t_spre t_spost a b)) t = kron2 (trans2 y) x.
Proof.
  intros a b t x y Ha Hb Ea Eb.
  destruct C05_lift_maps_linear as (H1 & H2 & H3 & H4 & _).
  split.
  - rewrite (C05_tensor_pointwise G4 ZT4 t_tens_l t_tens_r a b t H3 H4 Ha Hb), Ea, Eb.
    apply kron2_tensor.
  - rewrite (C05_sprepost_pointwise G4 ZT4 t_spre t_spost a b t H1 H2 Ha Hb), Ea, Eb.
    apply sprepost_kron.
Qed.
Print Assumptions C05_tensor_is_kronecker.
Example C05_nonvacuous_lifts :
  let a := @XFunc G4 ZT4 (fun w t => emb (wf_fun w t)) wnone in
  let b := @XPair G4 ZT4 (emb wB) (@CFun G4 ZT4 (fun _ t => gi t 1) wnone) in
  wfx G4 ZT4 a /\ wfx G4 ZT4 b /\
  sem G4 ZT4 a 2%Z = emb (wf_fun wnone 2%Z) /\
  map (kind_of G4 ZT4) (build G4 ZT4 (x_liouvillian G4 ZT4 t_spre t_spost (gi 0 (-1)) (gi 1 0) a [b]))
  <> [] /\
  qe_call G4 ZT4 (build G4 ZT4 (x_tensor G4 ZT4 t_tens_l t_tens_r a b)) 2%Z <> z4.
Proof.
  cbv zeta. split; [exact I|]. split; [exact I|]. split; [reflexivity|].
  split; vm_compute; discriminate.
Qed.

(* a / z multiplies by the Python-computed 1/z: whenever that number is the
   inverse of z, z times the result is the operand's value *)
Theorem C05_division_law :
  forall (A : Alg) (T : TimeS A) (x : qx A T) z zi t,
    wfx A T x -> cmul A zi z = c1 A ->
    mscale A z (qe_call A T (build A T (XMulNum x zi)) t) = sem A T x t.
Proof. intros. rewrite qe_call_V. apply division_value; assumption. Qed.
Print Assumptions C05_division_law.
Example C05_nonvacuous_division : gmul (gi 0 (-1)) (gi 0 1) = g1 /\ wfx G2 ZT w_tree.
Proof. split; [reflexivity|exact w_tree_wfx]. Qed.

(* copy() and pickling rebuild the same list of terms: same object, same meaning
   under every argument dictionary *)
Theorem C05_copy_pickle_identity :
  forall (A : Alg) (T : TimeS A) (x : qx A T) ov t,
    build A T (XCopy x) = build A T x /\ semo A T ov (XCopy x) t = semo A T ov x t.
Proof. intros. split; reflexivity. Qed.
Print Assumptions C05_copy_pickle_identity.
