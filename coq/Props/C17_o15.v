(* C17 - the order-1.5 strong Taylor update (Taylor15.step and the explicit
   part of Taylor15_imp.step), read from the current source by
   tools/tx_c17_o15.py into Gen/C17_taylor15.v: the new state is a function
   of the state and of the increments dw_i and second integrals dz_i of the
   stochastic operators alone.  Proofs in Proofs/C17_o15.v.

   Outside: dz_i = 0.5 (dW[0,i] + dW[1,i]/sqrt 3) dt is formed by the stepper
   from the two rows of the increment slab (pinned textually by the
   translator); the linear solve that ends Taylor15_imp.step; the meaning of
   the terms Lia, L0bi, LiLjbk, L0a of ssystem.pyx (abstract here; their
   cache discipline is Props/C17_sys.v); the strong order itself [NUM]. *)
From Coq Require Import List ZArith Bool Arith Lia.
Import ListNotations.
From QV Require Import Model.C17_sde Model.C17_o15 Proofs.C17_o15 Gen.C17_taylor15.

(* for EVERY well-formed program of the update language, any scalars, state
   space and system *)
Theorem C17_order15_step_determined_by_increments :
  forall (K V : Type) (A : alg K V) (third : K) (Sy : sys15 K V) (state : V) (dt : K)
         (dw1 dz1 dw2 dz2 : nat -> K),
    (forall i, i < n15 Sy -> dw1 i = dw2 i /\ dz1 i = dz2 i) ->
    forall (p : prog) (zero : V), prog_ok p = true ->
      step15 A third Sy state dt dw1 dz1 p zero = step15 A third Sy state dt dw2 dz2 p zero.
Proof. exact @step15_determined. Qed.
Print Assumptions C17_order15_step_determined_by_increments.

(* the two programs read from the source are well formed (checked on the
   generated terms, so re-checked whenever the source changes) *)
Theorem C17_taylor15_programs_well_formed :
  prog_ok taylor15_prog = true /\ prog_ok taylor15_imp_prog = true.
Proof. split; vm_compute; reflexivity. Qed.
Print Assumptions C17_taylor15_programs_well_formed.

(* hence: Taylor15.step / the explicit part of Taylor15_imp.step *)
Theorem C17_taylor15_step_determined_by_increments :
  forall (K V : Type) (A : alg K V) (third : K) (Sy : sys15 K V) (state : V) (dt : K)
         (dw1 dz1 dw2 dz2 : nat -> K) (zero : V),
    (forall i, i < n15 Sy -> dw1 i = dw2 i /\ dz1 i = dz2 i) ->
    step15 A third Sy state dt dw1 dz1 taylor15_prog zero
    = step15 A third Sy state dt dw2 dz2 taylor15_prog zero /\
    step15 A third Sy state dt dw1 dz1 taylor15_imp_prog zero
    = step15 A third Sy state dt dw2 dz2 taylor15_imp_prog zero.
Proof.
  intros K V A third Sy state dt dw1 dz1 dw2 dz2 zero H.
  split; apply step15_determined; try exact H; apply C17_taylor15_programs_well_formed.
Qed.
Print Assumptions C17_taylor15_step_determined_by_increments.

(* non-vacuity: over the integers with a two-operator toy system the
   generated update is not a constant function of the increments, and it does
   not look at dw_2 *)
Definition zalg : alg Z Z :=
  {| k0 := 0%Z; k1 := 1%Z; kadd := Z.add; kmul := Z.mul; ksub := Z.sub; kopp := Z.opp;
     half := 2%Z; quarter := 1%Z; vadd := Z.add; vscale := Z.mul |}.
Definition zsys : sys15 Z Z :=
  {| n15 := 2; t_a := fun v => (v + 1)%Z; t_L0a := fun v => (2 * v)%Z;
     t_b := fun i v => (v + Z.of_nat i)%Z; t_La := fun i v => (3 * v + Z.of_nat i)%Z;
     t_L0b := fun i v => (v - Z.of_nat i)%Z;
     t_Lb := fun i j v => (v + Z.of_nat (i + 2 * j))%Z;
     t_LLb := fun i j k v => (v + Z.of_nat (i + 3 * j + 5 * k))%Z |}.

Example C17_nonvacuous_taylor15 :
  let f := fun dw => step15 zalg 3%Z zsys 5%Z 2%Z dw (fun i => Z.of_nat (S i)) taylor15_prog 0%Z in
  f (fun i => Z.of_nat (i + 1)) <> f (fun i => Z.of_nat (i + 2)) /\
  f (fun i => Z.of_nat (i + 1)) = f (fun i => if Nat.eqb i 2 then 99%Z else Z.of_nat (i + 1)).
Proof. split; vm_compute; [discriminate|reflexivity]. Qed.
