(* C17 - scheme part: every modelled integration scheme (Euler, Platen,
   Milstein, predictor-corrector; with or without measurement input) keeps
   the trace at one and keeps Hermiticity, at every step, for every
   dimension, Hamiltonian, set of monitored / unmonitored collapse operators,
   step size and increments.  Property theorems only; proofs are in
   Proofs/C17_sde.v (generic) and Proofs/C17_lindblad.v (open-system terms).

   Not proved here (analysis, [NUM] in DESIGN.md): strong order of
   convergence and the common limit of the schemes; the order-1.5 schemes,
   the implicit schemes and Rouchon's scheme are not modelled. *)
From Coq Require Import Ring_theory.
From mathcomp Require Import all_ssreflect all_algebra.
From QV Require Import Model.C17_sde Proofs.C17_sde Proofs.C17_lindblad.
Set Implicit Arguments.
Unset Strict Implicit.
Unset Printing Implicit Defensive.
Import GRing.Theory.
Local Open Scope ring_scope.

(* Generic statement: scalars K form a commutative ring, tr is linear, the
   drift is traceless, the diffusion terms b_i and the terms L_i b_j are
   traceless on states of trace one, and half + half = 1.  Then one step of
   each scheme, and any number of steps with any increments, maps trace-one
   states to trace-one states. *)
Theorem C17_schemes_preserve_trace :
  forall (K V : Type) (A : alg K V) (S : sys K V) (tr : V -> K),
    ring_theory (k0 A) (k1 A) (kadd A) (kmul A) (ksub A) (kopp A) (@eq K) ->
    (forall x y, tr (vadd A x y) = kadd A (tr x) (tr y)) ->
    (forall c x, tr (vscale A c x) = kmul A c (tr x)) ->
    kadd A (half A) (half A) = k1 A ->
    (forall v, tr (drift S v) = k0 A) ->
    (forall i v, tr v = k1 A -> tr (diff S i v) = k0 A) ->
    (forall i j v, tr v = k1 A -> tr (Lbij S i j v) = k0 A) ->
    forall meas state dt, tr state = k1 A ->
      (forall dW, tr (euler_step A S meas state dt dW) = k1 A) /\
      (forall sdt isdt4 dW, tr (platen_step A S meas state dt sdt isdt4 dW) = k1 A) /\
      (forall dW, tr (milstein_step A S meas state dt dW) = k1 A) /\
      (forall alpha eta alpha_nz dW,
         tr (predcorr_step A S meas alpha eta alpha_nz state dt dW) = k1 A) /\
      (forall dWs : list (nat -> K),
         tr (run_steps (fun st dW => euler_step A S meas st dt dW) state dWs) = k1 A).
Proof.
  move=> K V A S tr Kth Hadd Hsc Hh Ha Hb HLb meas state dt H1.
  split; first by move=> dW; apply: (euler_trace A S tr).
  split; first by move=> sdt isdt4 dW; apply: (platen_trace A S tr).
  split; first by move=> dW; apply: (milstein_trace A S tr).
  split; first by move=> al et nz dW; apply: (predcorr_trace A S tr).
  move=> dWs. apply: (@run_steps_inv K V (fun v => tr v = k1 A)) => // st dW Hst.
  by apply: (euler_trace A S tr).
Qed.
Print Assumptions C17_schemes_preserve_trace.

(* The open-system terms of ssystem.pyx satisfy those hypotheses, over any
   commutative ring with an involutive conjugation, for every dimension n,
   every H, sc_ops, c_ops (no Hermiticity of H needed for the trace). *)
Theorem C17_lindblad_schemes_trace_one :
  forall (R : comRingType) (imag halfr : R), halfr + halfr = 1 ->
  forall (conj : {rmorphism R -> R}) (n : nat) (H : 'M[R]_n) (sc_ops c_ops : seq 'M[R]_n)
         (rho : 'M[R]_n) meas dt,
    \tr rho = 1 ->
    let A := mc_alg halfr n in
    let S := mc_sys conj imag halfr H sc_ops c_ops in
    (forall dW, \tr (euler_step A S meas rho dt dW) = 1) /\
    (forall sdt isdt4 dW, \tr (platen_step A S meas rho dt sdt isdt4 dW) = 1) /\
    (forall dW, \tr (milstein_step A S meas rho dt dW) = 1) /\
    (forall alpha eta alpha_nz dW,
       \tr (predcorr_step A S meas alpha eta alpha_nz rho dt dW) = 1) /\
    (forall dWs : list (nat -> R),
       \tr (run_steps (fun st dW => euler_step A S meas st dt dW) rho dWs) = 1).
Proof.
  move=> R imag halfr half2 conj n H sc_ops c_ops rho meas dt H1 A S.
  apply: (@C17_schemes_preserve_trace R 'M[R]_n A S (fun v => \tr v)) => //.
  - exact: mc_ring.
  - exact: mc_tr_add.
  - exact: mc_tr_scale.
  - move=> v. exact: (mc_tr_a conj imag half2).
  - move=> i v. exact: mc_tr_b.
  - move=> i j v. exact: mc_tr_Lb.
Qed.
Print Assumptions C17_lindblad_schemes_trace_one.

Example C17_nonvacuous_trace_one (R : comRingType) :
  \tr (1%:M : 'M[R]_1) = 1.
Proof. by rewrite mxtrace1. Qed.

(* Hermiticity: with a Hermitian H, real dt and real increments (and real
   square-root constants / alpha / eta), every scheme maps Hermitian states to
   Hermitian states; with measurement input too, the subtracted expectation
   value being a real part. *)
Theorem C17_lindblad_schemes_keep_hermiticity :
  forall (R : comRingType) (conj : {rmorphism R -> R}), involutive conj ->
  forall (imag halfr : R), conj imag = - imag -> conj halfr = halfr ->
  forall (n : nat) (H : 'M[R]_n) (sc_ops c_ops : seq 'M[R]_n) (rho : 'M[R]_n) meas dt,
    herm conj H -> herm conj rho -> real conj dt ->
    let A := mc_alg halfr n in
    let S := mc_sys conj imag halfr H sc_ops c_ops in
    (forall dW, (forall i, real conj (dW i)) -> herm conj (euler_step A S meas rho dt dW)) /\
    (forall sdt isdt4 dW, real conj sdt -> real conj isdt4 -> (forall i, real conj (dW i)) ->
       herm conj (platen_step A S meas rho dt sdt isdt4 dW)) /\
    (forall dW, (forall i, real conj (dW i)) -> herm conj (milstein_step A S meas rho dt dW)) /\
    (forall alpha eta alpha_nz dW, real conj alpha -> real conj eta ->
       (forall i, real conj (dW i)) ->
       herm conj (predcorr_step A S meas alpha eta alpha_nz rho dt dW)).
Proof.
  move=> R conj conjK imag halfr ci ch n H sc_ops c_ops rho meas dt HH Hr Hdt A S.
  have Padd : forall x y, herm conj x -> herm conj y -> herm conj (vadd A x y)
    by move=> x y; exact: herm_add.
  have Psc : forall c x, real conj c -> herm conj x -> herm conj (vscale A c x)
    by move=> c x; exact: herm_scale.
  have Radd : forall x y, real conj x -> real conj y -> real conj (kadd A x y)
    by move=> x y; exact: real_add.
  have Rmul : forall x y, real conj x -> real conj y -> real conj (kmul A x y)
    by move=> x y; exact: real_mul.
  have Rsub : forall x y, real conj x -> real conj y -> real conj (ksub A x y)
    by move=> x y; exact: real_sub.
  have Ropp : forall x, real conj x -> real conj (kopp A x) by move=> x; exact: real_opp.
  have R1 : real conj (k1 A) by exact: real_1.
  have Rh : real conj (half A) by exact: ch.
  have Rq : real conj (quarter A) by apply: real_mul; exact: ch.
  have Pa : forall v, herm conj v -> herm conj (drift S v)
    by move=> v Hv; apply: mc_P_a.
  have Pb : forall i v, herm conj v -> herm conj (diff S i v)
    by move=> i v Hv; apply: mc_P_b.
  have PLb : forall i j v, herm conj v -> herm conj (Lbij S i j v)
    by move=> i j v Hv; apply: mc_P_Lb.
  have Rex : forall i v, herm conj v -> real conj (expect_re S i v)
    by move=> i v Hv; apply: mc_R_ex.
  split; first by move=> dW HdW; apply: (euler_closed A S (@herm _ conj n) (real conj)).
  split; first by move=> sdt isdt4 dW Hs Hi HdW;
    apply: (platen_closed A S (@herm _ conj n) (real conj)).
  split; first by move=> dW HdW;
    apply: (milstein_closed A S (@herm _ conj n) (real conj)).
  move=> al et nz dW Hal Het HdW.
  by apply: (predcorr_closed A S (@herm _ conj n) (real conj)).
Qed.
Print Assumptions C17_lindblad_schemes_keep_hermiticity.

Example C17_nonvacuous_hermitian (R : comRingType) (conj : {rmorphism R -> R}) :
  herm conj (1%:M : 'M[R]_2) /\ real conj (1 : R).
Proof.
  split; last exact: rmorph1.
  by rewrite /herm /dagger trmx1 map_mx1.
Qed.

(* Each scheme step is a function of the state and of the increments of the
   stochastic operators only: two increment records that agree on
   dW_0 .. dW_{n-1} (n = number of stochastic operators) give the same new
   state - with any scalars, state space and system (also with measurement
   input).  Together with C17_increments_history_independent (Props/C17.v)
   this is "the trajectory is determined by its noise record" for the
   modelled schemes. *)
Theorem C17_step_determined_by_increments :
  forall (K V : Type) (A : alg K V) (S : sys K V) meas state dt (dW1 dW2 : nat -> K),
    (forall i, (i < nops S)%coq_nat -> dW1 i = dW2 i) ->
    euler_step A S meas state dt dW1 = euler_step A S meas state dt dW2 /\
    milstein_step A S meas state dt dW1 = milstein_step A S meas state dt dW2 /\
    (forall sdt isdt4, platen_step A S meas state dt sdt isdt4 dW1
                       = platen_step A S meas state dt sdt isdt4 dW2) /\
    (forall alpha eta alpha_nz, predcorr_step A S meas alpha eta alpha_nz state dt dW1
                                = predcorr_step A S meas alpha eta alpha_nz state dt dW2).
Proof.
  move=> K V A S meas state dt dW1 dW2 H.
  split; first exact: euler_determined.
  split; first exact: milstein_determined.
  split; first by move=> sdt isdt4; exact: platen_determined.
  by move=> al et nz; exact: predcorr_determined.
Qed.
Print Assumptions C17_step_determined_by_increments.
