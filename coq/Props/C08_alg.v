(* C08 - channel representations describe one and the same map: algebra.
   Over ANY commutative ring R with an involutive ring morphism conj (the only
   thing assumed of the complex numbers), any output size m and input size n.
   A supermatrix is the tensor  S b a j i = S[(b*m+a), (j*n+i)]  and a Choi
   matrix  J i a j b = J[(i*m+a), (j*m+b)]  (Props/C08.v proves these are
   the entries the implementation's reshapes produce).  Proofs: Proofs/C08_alg.v.
   Oracles (hypotheses of the theorems that use them): a decomposition
   J = sum_k s_k^2 u_k v_k^dag with conj s_k = s_k (eigen-decomposition /
   SVD + square root); a ring element i with i*i = -1, conj i = -i. *)
From mathcomp Require Import all_ssreflect all_algebra all_field.
From mathcomp Require Import mxtens.
From QV Require Import Proofs.C08_alg.
Import GRing.Theory Num.Def Num.Theory.
Local Open Scope ring_scope.

(* the reshuffled supermatrix IS the Choi matrix J = sum_ij E_ij (x) L(E_ij) of
   the map L : X |-> unvec (S vec X): entry ((i,a),(j,b)) = L(E_ij)[a,b] *)
Theorem C08_shuffled_super_is_choi_matrix :
  forall (R : comRingType) (m n : nat) (S : T4s R m n) i a j b,
    choi_of_super S i a j b = apply_super S (delta_mx i j) a b.
Proof. exact: choi_of_super_is_choi. Qed.
Print Assumptions C08_shuffled_super_is_choi_matrix.

(* supermatrix and Choi matrix act identically on every operator, both ways *)
Theorem C08_super_and_choi_same_action :
  forall (R : comRingType) (m n : nat) (S : T4s R m n) (J : T4c R m n) (X : 'M[R]_n),
    apply_choi (choi_of_super S) X = apply_super S X /\
    apply_super (super_of_choi J) X = apply_choi J X.
Proof. by move=> R m n S J X; split. Qed.
Print Assumptions C08_super_and_choi_same_action.

(* the Choi tensor is determined by the action: two Choi matrices of one map
   are equal, so every predicate of the map is a predicate of J *)
Theorem C08_choi_faithful :
  forall (R : comRingType) (m n : nat) (J1 J2 : T4c R m n),
    (forall X, apply_choi J1 X = apply_choi J2 X) -> forall i a j b, J1 i a j b = J2 i a j b.
Proof. exact: apply_choi_inj. Qed.
Print Assumptions C08_choi_faithful.

(* kraus_to_choi (entries sum_k K[a,i] conj K[b,j]) is the Choi matrix of
   X |-> sum_k K X K^dag, and acts as that map; stated for pairs (L_k, R_k),
   Kraus operators are the case L = R *)
Theorem C08_operator_sum_choi :
  forall (R : comRingType) (conj : {rmorphism R -> R}) (m n r : nat)
         (L Rr : 'I_r -> 'M[R]_(m, n)),
    (forall i a j b, pair_choi conj L Rr i a j b = apply_pair conj L Rr (delta_mx i j) a b) /\
    (forall X, apply_choi (pair_choi conj L Rr) X = apply_pair conj L Rr X).
Proof.
move=> R conj m n r L Rr; split=> [i a j b|X].
- exact: pair_choi_is_choi.
- exact: apply_pair_choi.
Qed.
Print Assumptions C08_operator_sum_choi.

(* given the decomposition oracle, the operators s_k u_k / s_k v_k rebuild J:
   kraus_to_choi (choi_to_kraus J) = J (u = v, eigen-decomposition of a
   positive J) and the generalized Kraus pair of _generalized_kraus (SVD) *)
Theorem C08_decomposition_roundtrip :
  forall (R : comRingType) (conj : {rmorphism R -> R}) (m n r : nat) (J : T4c R m n)
         (s : 'I_r -> R) (u v : 'I_r -> 'I_n -> 'I_m -> R),
    (forall k, conj (s k) = s k) ->
    (forall i a j b, J i a j b = \sum_k s k * s k * (u k i a * conj (v k j b))) ->
    forall i a j b,
      pair_choi conj (fun k => \matrix_(a, i) (s k * u k i a))
                     (fun k => \matrix_(b, j) (s k * v k j b)) i a j b = J i a j b.
Proof. exact: pair_of_decomposition. Qed.
Print Assumptions C08_decomposition_roundtrip.

Example C08_nonvacuous_decomposition :
  exists (J : T4c int_comRing 2 2) (s : 'I_1 -> int) (u : 'I_1 -> 'I_2 -> 'I_2 -> int),
    (forall k, idfun (s k) = s k) /\ s ord0 = 2 /\
    (forall i a j b, J i a j b = \sum_k s k * s k * (u k i a * idfun (u k j b))).
Proof.
exists (fun _ _ _ _ => 4), (fun _ => 2), (fun _ _ _ => 1); split=> //; split=> // i a j b.
by rewrite big_ord_recl big_ord0.
Qed.

(* Stinespring: with A = sum_k L_k (x) |k>, B = sum_k R_k (x) |k>,
   Tr_2 (A X B^dag) = sum_k L_k X R_k^dag *)
Theorem C08_stinespring_action :
  forall (R : comRingType) (conj : {rmorphism R -> R}) (m n r : nat)
         (L Rr : 'I_r -> 'M[R]_(m, n)) (X : 'M[R]_n),
    ptrace_last (stine_block L *m X *m adj conj (stine_block Rr)) = apply_pair conj L Rr X.
Proof. exact: stinespring_action. Qed.
Print Assumptions C08_stinespring_action.

(* trace preserving  <->  Tr_out J = 1_in (the test of Qobj.istp) *)
Theorem C08_tp_iff_partial_trace_identity :
  forall (R : comRingType) (m n : nat) (J : T4c R m n),
    (forall i j, \sum_a J i a j a = (i == j)%:R) <->
    (forall X, \tr (apply_choi J X) = \tr X).
Proof. exact: tp_iff. Qed.
Print Assumptions C08_tp_iff_partial_trace_identity.

(* Hermiticity preserving  <->  J Hermitian (the test of Qobj.ishp) *)
Theorem C08_hp_iff_choi_hermitian :
  forall (R : comRingType) (conj : {rmorphism R -> R}), involutive conj ->
  forall (m n : nat) (J : T4c R m n),
    (forall i a j b, J j b i a = conj (J i a j b)) <->
    (forall X, apply_choi J (adj conj X) = adj conj (apply_choi J X)).
Proof. exact: hp_iff. Qed.
Print Assumptions C08_hp_iff_choi_hermitian.

(* n-qubit Pauli strings (Kronecker products of the 1-qubit table):
   B^dag B = 2^nq 1 and B B^dag = 2^nq 1, for every number of qubits *)
Theorem C08_pauli_orthogonal_complete :
  forall (R : comRingType) (conj : {rmorphism R -> R}) (ii : R),
    ii * ii = -1 -> conj ii = - ii ->
    forall nq : nat,
      (forall k l : {ffun 'I_nq -> 'I_4},
         \sum_x \sum_y conj (pstr ii k x y) * pstr ii l x y
         = (if k == l then (2 ^ nq)%:R else 0)) /\
      (forall x y x' y' : {ffun 'I_nq -> 'I_2},
         \sum_k pstr ii k x y * conj (pstr ii k x' y')
         = (if (x == x') && (y == y') then (2 ^ nq)%:R else 0)).
Proof.
move=> R conj ii H1 H2 nq; split.
- exact: pauli_orthogonal.
- exact: pauli_complete.
Qed.
Print Assumptions C08_pauli_orthogonal_complete.

Example C08_nonvacuous_pauli :
  exists ii : algC, ii * ii = -1 /\ conjC ii = - ii.
Proof. by exists 'i; split; [rewrite -expr2 sqrCi | exact: conjCi]. Qed.

(* chi = B^dag J B, choi = B chi B^dag / shape[0]: there and back is the
   identity up to the factor (2^nq)^2 = 4^nq = shape[0] that _chi_to_choi
   divides out, in both directions, for every number of qubits *)
Theorem C08_chi_choi_roundtrips :
  forall (R : comRingType) (conj : {rmorphism R -> R}) (ii : R),
    ii * ii = -1 -> conj ii = - ii ->
    forall nq : nat,
      (forall J xy xy', of_chi_t conj (pb ii (nq:=nq)) (to_chi_t conj (pb ii (nq:=nq)) J) xy xy'
                        = (2 ^ nq)%:R * (2 ^ nq)%:R * J xy xy') /\
      (forall C k l, to_chi_t conj (pb ii (nq:=nq)) (of_chi_t conj (pb ii (nq:=nq)) C) k l
                     = (2 ^ nq)%:R * (2 ^ nq)%:R * C k l).
Proof.
move=> R conj ii H1 H2 nq; split=> [J xy xy'|C k l].
- exact: pauli_chi_to_choi_to_chi.
- exact: pauli_choi_to_chi_to_choi.
Qed.
Print Assumptions C08_chi_choi_roundtrips.
