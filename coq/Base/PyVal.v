(* Python's tri-state flag values (None / True / False) with the semantics of
   `and`, `or`, `not` and the conditional expression: `a and b` returns `b`
   if `a` is truthy and `a` otherwise, etc.  Used by the generated flag
   expressions of Gen/C03_flags.v. *)
From Coq Require Import Bool String List.
Import ListNotations.

Inductive pyval := PNone | PBool (b : bool).

Definition truthy (v : pyval) : bool := match v with PBool true => true | _ => false end.
Definition py_and (a b : pyval) : pyval := if truthy a then b else a.
Definition py_or (a b : pyval) : pyval := if truthy a then a else b.
Definition py_not (a : pyval) : pyval := PBool (negb (truthy a)).
Definition py_if (c a b : pyval) : pyval := if truthy c then a else b.

(* the inputs a flag expression can refer to *)
Record fenv := {
  fa_h : pyval;        (* cached isherm of the first operand (self / A / accumulated) *)
  fa_u : pyval;        (* cached isunitary of the first operand *)
  fb_h : pyval;        (* cached isherm of the second operand (other / B / arg) *)
  fb_u : pyval;
  p_real : bool;       (* `<scalar>.imag == 0` *)
  p_unitmod : bool;    (* `abs(abs(<scalar>) - 1) < atol` *)
  p_abs_lt1 : bool;    (* `abs(<scalar>) - 1 < atol` (no outer abs) *)
  p_same_dims : bool   (* `self.rhs.dims == state.dims` *)
}.

(* data-layer operation named in a Qobj(...) construction *)
Inductive dop :=
| DCopy | DAdd | DSub | DMul | DNeg | DMatmul | DMatmulOuter | DPow | DAdjoint | DConj
| DTranspose | DProject | DExpm | DLogm | DPermute | DTransform | DKron | DKronIdL
| DKronTIdR | DKronT | DScaledId | DEvolved
| DSymm          (* x + x^dagger *)
| DSymmHalf      (* (x + x^dagger) * 0.5 *)
| DSymmNormTr    (* h / tr h with h = x + x^dagger *)
| DOther.
