(* Tier A base: matrices over a field with an involutive ring morphism
   `conj`; adjoint, Hermitian and unitary predicates and their algebra. *)
From mathcomp Require Import all_ssreflect all_algebra.
From mathcomp Require Import mxtens.
Set Implicit Arguments. Unset Strict Implicit. Unset Printing Implicit Defensive.
Import GRing.Theory.
Local Open Scope ring_scope.

Section Herm.
Variable R : fieldType.
Variable conj : {rmorphism R -> R}.
Hypothesis conjK : involutive conj.

Definition dag m n (A : 'M[R]_(m,n)) : 'M[R]_(n,m) := map_mx conj A^T.
Definition cj m n (A : 'M[R]_(m,n)) : 'M[R]_(m,n) := map_mx conj A.

Lemma dagK m n (A : 'M[R]_(m,n)) : dag (dag A) = A.
Proof. by apply/matrixP=> i j; rewrite !mxE conjK. Qed.
Lemma dag_inj m n : injective (@dag m n).
Proof. exact: (can_inj (@dagK m n)). Qed.
Lemma dag_add m n (A B : 'M[R]_(m,n)) : dag (A + B) = dag A + dag B.
Proof. by apply/matrixP=> i j; rewrite !mxE rmorphD. Qed.
Lemma dag_opp m n (A : 'M[R]_(m,n)) : dag (- A) = - dag A.
Proof. by apply/matrixP=> i j; rewrite !mxE rmorphN. Qed.
Lemma dag_sub m n (A B : 'M[R]_(m,n)) : dag (A - B) = dag A - dag B.
Proof. by rewrite dag_add dag_opp. Qed.
Lemma dag_scale m n z (A : 'M[R]_(m,n)) : dag (z *: A) = conj z *: dag A.
Proof. by apply/matrixP=> i j; rewrite !mxE rmorphM. Qed.
Lemma dag_mul m n p (A : 'M[R]_(m,n)) (B : 'M[R]_(n,p)) : dag (A *m B) = dag B *m dag A.
Proof. by rewrite /dag trmx_mul map_mxM. Qed.
Lemma dag1 n : dag (1%:M : 'M[R]_n) = 1%:M.
Proof. by rewrite /dag trmx1 map_mx1. Qed.
Lemma dag_scalar n z : dag (z%:M : 'M[R]_n) = (conj z)%:M.
Proof. by rewrite /dag tr_scalar_mx map_scalar_mx. Qed.
Lemma dag_tens m n p q (A : 'M[R]_(m,n)) (B : 'M[R]_(p,q)) : dag (A *t B) = dag A *t dag B.
Proof. by rewrite /dag trmx_tens map_mxT. Qed.
Lemma dag_tr m n (A : 'M[R]_(m,n)) : dag A^T = cj A.
Proof. by rewrite /dag /cj trmxK. Qed.
Lemma dag_cj m n (A : 'M[R]_(m,n)) : dag (cj A) = A^T.
Proof. by apply/matrixP=> i j; rewrite !mxE conjK. Qed.
Lemma cj_mul m n p (A : 'M[R]_(m,n)) (B : 'M[R]_(n,p)) : cj (A *m B) = cj A *m cj B.
Proof. by rewrite /cj map_mxM. Qed.
Lemma cj1 n : cj (1%:M : 'M[R]_n) = 1%:M.
Proof. by rewrite /cj map_mx1. Qed.
Lemma cjK m n (A : 'M[R]_(m,n)) : cj (cj A) = A.
Proof. by apply/matrixP=> i j; rewrite !mxE conjK. Qed.
Lemma tr_dag n (A : 'M[R]_n) : \tr (dag A) = conj (\tr A).
Proof. by rewrite /mxtrace rmorph_sum; apply: eq_bigr=> i _; rewrite !mxE. Qed.

Definition is_herm n (A : 'M[R]_n) : Prop := dag A = A.
Definition is_unitary n (A : 'M[R]_n) : Prop := A *m dag A = 1%:M.

(* --- Hermitian *)
Lemma herm_add n (A B : 'M[R]_n) : is_herm A -> is_herm B -> is_herm (A + B).
Proof. by rewrite /is_herm dag_add=> -> ->. Qed.
Lemma herm_sub n (A B : 'M[R]_n) : is_herm A -> is_herm B -> is_herm (A - B).
Proof. by rewrite /is_herm dag_sub=> -> ->. Qed.
Lemma herm_opp n (A : 'M[R]_n) : is_herm (- A) <-> is_herm A.
Proof.
rewrite /is_herm dag_opp; split=> [H|->//].
by apply: oppr_inj.
Qed.
Lemma herm_scale n z (A : 'M[R]_n) : conj z = z -> is_herm A -> is_herm (z *: A).
Proof. by rewrite /is_herm dag_scale=> -> ->. Qed.
Lemma herm_scale_inv n z (A : 'M[R]_n) :
  conj z = z -> z != 0 -> is_herm (z *: A) -> is_herm A.
Proof.
rewrite /is_herm dag_scale=> -> nz H.
by apply: (scalerI nz).
Qed.
Lemma herm_dag n (A : 'M[R]_n) : is_herm (dag A) <-> is_herm A.
Proof.
by rewrite /is_herm dagK; split=> H; exact: esym.
Qed.
Lemma herm_cj n (A : 'M[R]_n) : is_herm (cj A) <-> is_herm A.
Proof.
rewrite /is_herm dag_cj; split=> H.
  by rewrite /dag H; exact: cjK.
by rewrite -{1}H /dag /cj map_trmx trmxK.
Qed.
Lemma herm_tr n (A : 'M[R]_n) : is_herm A^T <-> is_herm A.
Proof.
rewrite /is_herm dag_tr; split=> H.
  by rewrite /dag -H; exact: cjK.
by rewrite -{2}H /dag /cj map_trmx trmxK.
Qed.
Lemma herm_tens m n (A : 'M[R]_m) (B : 'M[R]_n) :
  is_herm A -> is_herm B -> is_herm (A *t B).
Proof. by rewrite /is_herm dag_tens=> -> ->. Qed.
Lemma herm1 n : is_herm (1%:M : 'M[R]_n).
Proof. exact: dag1. Qed.
Lemma herm_sandwich n (S A : 'M[R]_n) : is_herm A -> is_herm (S *m A *m dag S).
Proof. by rewrite /is_herm !dag_mul dagK mulmxA=> ->. Qed.
Lemma herm_outer n (u : 'cV[R]_n) : dag (u *m dag u) = u *m dag u.
Proof. by rewrite dag_mul dagK. Qed.
Lemma herm_trace_real n (A : 'M[R]_n) : is_herm A -> conj (\tr A) = \tr A.
Proof. by move=> H; rewrite -tr_dag H. Qed.
Lemma herm_diag_real n (A : 'M[R]_n) i : is_herm A -> conj (A i i) = A i i.
Proof. by move=> H; rewrite -{2}H !mxE. Qed.

(* --- unitary *)
Lemma unitaryC n (A : 'M[R]_n) : is_unitary A -> dag A *m A = 1%:M.
Proof. by move=> H; apply: mulmx1C. Qed.
Lemma unitary_mul n (A B : 'M[R]_n) : is_unitary A -> is_unitary B -> is_unitary (A *m B).
Proof.
rewrite /is_unitary dag_mul=> HA HB.
by rewrite mulmxA -(mulmxA A) HB mulmx1.
Qed.
Lemma unitary_opp n (A : 'M[R]_n) : is_unitary (- A) <-> is_unitary A.
Proof. by rewrite /is_unitary dag_opp mulNmx mulmxN opprK. Qed.
Lemma unitary_dag n (A : 'M[R]_n) : is_unitary (dag A) <-> is_unitary A.
Proof.
rewrite /is_unitary dagK; split=> H; first by apply: mulmx1C.
exact: unitaryC.
Qed.
Lemma cj_dag m n (A : 'M[R]_(m,n)) : cj (dag A) = A^T.
Proof. by rewrite /dag -/(cj _) cjK. Qed.
Lemma unitary_cj n (A : 'M[R]_n) : is_unitary (cj A) <-> is_unitary A.
Proof.
rewrite /is_unitary dag_cj; split=> H.
  by apply: (can_inj (@cjK _ _)); rewrite cj_mul cj_dag cj1.
by rewrite -(cj_dag A) -cj_mul H cj1.
Qed.
Lemma dagT m n (A : 'M[R]_(m,n)) : (dag A)^T = cj A.
Proof. by rewrite /dag map_trmx trmxK. Qed.
Lemma unitary_tr n (A : 'M[R]_n) : is_unitary A^T <-> is_unitary A.
Proof.
rewrite /is_unitary dag_tr; split=> H.
  by apply: mulmx1C; apply: trmx_inj; rewrite trmx_mul trmx1 dagT.
by have H2 := unitaryC H; rewrite -(dagT A) -trmx_mul H2 trmx1.
Qed.
Lemma unitary1 n : is_unitary (1%:M : 'M[R]_n).
Proof. by rewrite /is_unitary dag1 mulmx1. Qed.
Lemma unitary_scale n z (A : 'M[R]_n) :
  is_unitary A -> (is_unitary (z *: A) <-> (z * conj z)%:M = (1%:M : 'M[R]_n)).
Proof.
rewrite /is_unitary dag_scale -scalemxAl -scalemxAr scalerA=> ->.
by rewrite scale_scalar_mx mulr1.
Qed.
Lemma scale_unitmod_same n z (A : 'M[R]_n) :
  z * conj z = 1 -> (is_unitary (z *: A) <-> is_unitary A).
Proof.
move=> Hz; rewrite /is_unitary dag_scale -scalemxAl -scalemxAr scalerA.
by rewrite Hz scale1r.
Qed.

Lemma tens11 m n : (1%:M : 'M[R]_m) *t (1%:M : 'M[R]_n) = 1%:M.
Proof.
apply/matrixP=> i j.
case: (mxtens_indexP i)=> i0 i1; case: (mxtens_indexP j)=> j0 j1.
by rewrite tensmxE !mxE -natrM mulnb (inj_eq (can_inj (@mxtens_indexK m n))) xpair_eqE.
Qed.
Lemma unitary_tens m n (A : 'M[R]_m) (B : 'M[R]_n) :
  is_unitary A -> is_unitary B -> is_unitary (A *t B).
Proof. by rewrite /is_unitary dag_tens tensmx_mul=> -> ->; rewrite tens11. Qed.
Lemma unitary_sandwich n (S A : 'M[R]_n) :
  is_unitary S -> (is_unitary (S *m A *m dag S) <-> is_unitary A).
Proof.
move=> HS; have HS' := unitaryC HS.
rewrite /is_unitary !dag_mul dagK !mulmxA; split=> H.
  have: dag S *m (S *m A *m dag S *m S *m dag A *m dag S) *m S = dag S *m 1%:M *m S by rewrite H.
  rewrite mulmx1 HS' !mulmxA HS' mul1mx -!mulmxA HS' mulmx1.
  by rewrite (mulmxA (dag S)) HS' mul1mx.
by rewrite -(mulmxA _ (dag S) S) HS' mulmx1 -(mulmxA S A) H mulmx1.
Qed.
Lemma herm_sandwich_inv n (S A : 'M[R]_n) :
  is_unitary S -> is_herm (S *m A *m dag S) -> is_herm A.
Proof.
move=> HS; have HS' := unitaryC HS.
rewrite /is_herm !dag_mul dagK mulmxA=> H.
have: dag S *m (S *m dag A *m dag S) *m S = dag S *m (S *m A *m dag S) *m S by rewrite H.
by rewrite !mulmxA HS' !mul1mx -!mulmxA HS' !mulmx1.
Qed.

(* powers *)
Fixpoint mpow n (A : 'M[R]_n) (k : nat) : 'M[R]_n :=
  if k is k'.+1 then A *m mpow A k' else 1%:M.
Lemma mpow_comm n (A : 'M[R]_n) k : A *m mpow A k = mpow A k *m A.
Proof. by elim: k=> [|k IH] /=; rewrite ?mulmx1 ?mul1mx // -mulmxA -IH. Qed.
Lemma dag_mpow n (A : 'M[R]_n) k : dag (mpow A k) = mpow (dag A) k.
Proof. by elim: k=> [|k IH] /=; rewrite ?dag1 // dag_mul IH -mpow_comm. Qed.
Lemma herm_mpow n (A : 'M[R]_n) k : is_herm A -> is_herm (mpow A k).
Proof. by rewrite /is_herm dag_mpow=> ->. Qed.
Lemma unitary_mpow n (A : 'M[R]_n) k : is_unitary A -> is_unitary (mpow A k).
Proof. by move=> H; elim: k=> [|k IH] /=; [exact: unitary1|exact: unitary_mul]. Qed.

(* blocks of 1 (x) A and A (x) 1 *)
Lemma herm_tens1l m n (A : 'M[R]_n) :
  (0 < m)%N -> (is_herm ((1%:M : 'M[R]_m) *t A) <-> is_herm A).
Proof.
case: m=> // m _; split=> H; last by apply: herm_tens=> //; exact: herm1.
apply/matrixP=> i j.
have := congr1 (fun M : 'M_(m.+1 * n) => M (mxtens_index (ord0, i)) (mxtens_index (ord0, j))) H.
by rewrite dag_tens dag1 !tensmxE !mxE eqxx !mul1r.
Qed.
Lemma herm_tens1r m n (A : 'M[R]_n) :
  (0 < m)%N -> (is_herm (A *t (1%:M : 'M[R]_m)) <-> is_herm A).
Proof.
case: m=> // m _; split=> H; last by apply: herm_tens=> //; exact: herm1.
apply/matrixP=> i j.
have := congr1 (fun M : 'M_(n * m.+1) => M (mxtens_index (i, ord0)) (mxtens_index (j, ord0))) H.
by rewrite dag_tens dag1 !tensmxE !mxE eqxx !mulr1.
Qed.

(* z.1 *)
Lemma herm_scalar n z : (0 < n)%N ->
  (is_herm (z%:M : 'M[R]_n) <-> conj z = z).
Proof.
case: n=> // n _; rewrite /is_herm dag_scalar; split=> [H|->//].
by have := congr1 (fun M : 'M_n.+1 => M ord0 ord0) H; rewrite !mxE eqxx !mulr1n.
Qed.
Lemma unitary_scalar n z : (0 < n)%N ->
  (is_unitary (z%:M : 'M[R]_n) <-> z * conj z = 1).
Proof.
case: n=> // n _; rewrite /is_unitary dag_scalar -scalar_mxM; split=> [H|->//].
by have := congr1 (fun M : 'M_n.+1 => M ord0 ord0) H; rewrite !mxE eqxx !mulr1n.
Qed.

(* a rank-one product is not unitary in dimension >= 2 *)
Lemma outer_not_unitary n (u : 'cV[R]_n) (v : 'rV[R]_n) :
  (1 < n)%N -> ~ is_unitary (u *m v).
Proof.
move=> n1 H.
have: (\rank (1%:M : 'M[R]_n) <= \rank (u *m v))%N.
  by rewrite -H mxrankM_maxl.
rewrite mxrank1=> le.
have: (\rank (u *m v) <= 1)%N by apply: (leq_trans (mxrankM_maxr _ _)); exact: rank_leq_row.
by move=> le1; move: (leq_trans le le1); rewrite leqNgt n1.
Qed.

End Herm.
