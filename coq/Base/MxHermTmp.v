(* Tier A base: matrices over a field with an involutive ring morphism
   `conj`; adjoint, Hermitian and unitary predicates and their algebra. *)
From mathcomp Require Import all_ssreflect all_algebra.
From mathcomp Require Import mxtens.
Set Implicit Arguments. Unset Strict Implicit. Unset Printing Implicit Defensive.
Import GRing.Theory.
Local Open Scope ring_scope.

Section Herm.
Variable R : fieldType.
Variable conj : {rmorphism R -> R}.
Hypothesis conjK : involutive conj.

Definition dag m n (A : 'M[R]_(m,n)) : 'M[R]_(n,m) := map_mx conj A^T.
Definition cj m n (A : 'M[R]_(m,n)) : 'M[R]_(m,n) := map_mx conj A.

Lemma dagK m n (A : 'M[R]_(m,n)) : dag (dag A) = A.
Proof. by apply/matrixP=> i j; rewrite !mxE conjK. Qed.
Lemma dag_inj m n : injective (@dag m n).
Proof. exact: (can_inj (@dagK m n)). Qed.
Lemma dag_add m n (A B : 'M[R]_(m,n)) : dag (A + B) = dag A + dag B.
Proof. by apply/matrixP=> i j; rewrite !mxE rmorphD. Qed.
Lemma dag_opp m n (A : 'M[R]_(m,n)) : dag (- A) = - dag A.
Proof. by apply/matrixP=> i j; rewrite !mxE rmorphN. Qed.
Lemma dag_sub m n (A B : 'M[R]_(m,n)) : dag (A - B) = dag A - dag B.
Proof. by rewrite dag_add dag_opp. Qed.
Lemma dag_scale m n z (A : 'M[R]_(m,n)) : dag (z *: A) = conj z *: dag A.
Proof. by apply/matrixP=> i j; rewrite !mxE rmorphM. Qed.
Lemma dag_mul m n p (A : 'M[R]_(m,n)) (B : 'M[R]_(n,p)) : dag (A *m B) = dag B *m dag A.
Proof. by rewrite /dag trmx_mul map_mxM. Qed.
Lemma dag1 n : dag (1%:M : 'M[R]_n) = 1%:M.
Proof. by rewrite /dag trmx1 map_mx1. Qed.
Lemma dag_scalar n z : dag (z%:M : 'M[R]_n) = (conj z)%:M.
Proof. by rewrite /dag tr_scalar_mx map_scalar_mx. Qed.
Lemma dag_tens m n p q (A : 'M[R]_(m,n)) (B : 'M[R]_(p,q)) : dag (A *t B) = dag A *t dag B.
Proof. by rewrite /dag trmx_tens map_mxT. Qed.
Lemma dag_tr m n (A : 'M[R]_(m,n)) : dag A^T = cj A.
Proof. by rewrite /dag /cj trmxK. Qed.
Lemma dag_cj m n (A : 'M[R]_(m,n)) : dag (cj A) = A^T.
Proof. by apply/matrixP=> i j; rewrite !mxE conjK. Qed.
Lemma cj_mul m n p (A : 'M[R]_(m,n)) (B : 'M[R]_(n,p)) : cj (A *m B) = cj A *m cj B.
Proof. by rewrite /cj map_mxM. Qed.
Lemma cj1 n : cj (1%:M : 'M[R]_n) = 1%:M.
Proof. by rewrite /cj map_mx1. Qed.
Lemma cjK m n (A : 'M[R]_(m,n)) : cj (cj A) = A.
Proof. by apply/matrixP=> i j; rewrite !mxE conjK. Qed.
Lemma tr_dag n (A : 'M[R]_n) : \tr (dag A) = conj (\tr A).
Proof. by rewrite /mxtrace rmorph_sum; apply: eq_bigr=> i _; rewrite !mxE. Qed.

Definition is_herm n (A : 'M[R]_n) : Prop := dag A = A.
Definition is_unitary n (A : 'M[R]_n) : Prop := A *m dag A = 1%:M.

(* --- Hermitian *)
Lemma herm_add n (A B : 'M[R]_n) : is_herm A -> is_herm B -> is_herm (A + B).
Proof. by rewrite /is_herm dag_add=> -> ->. Qed.
Lemma herm_sub n (A B : 'M[R]_n) : is_herm A -> is_herm B -> is_herm (A - B).
Proof. by rewrite /is_herm dag_sub=> -> ->. Qed.
Lemma herm_opp n (A : 'M[R]_n) : is_herm (- A) <-> is_herm A.
Proof.
rewrite /is_herm dag_opp; split=> [H|->//].
by apply: oppr_inj.
Qed.
Lemma herm_scale n z (A : 'M[R]_n) : conj z = z -> is_herm A -> is_herm (z *: A).
Proof. by rewrite /is_herm dag_scale=> -> ->. Qed.
Lemma herm_scale_inv n z (A : 'M[R]_n) :
  conj z = z -> z != 0 -> is_herm (z *: A) -> is_herm A.
Proof.
rewrite /is_herm dag_scale=> -> nz H.
by apply: (scalerI nz).
Qed.
Lemma herm_dag n (A : 'M[R]_n) : is_herm (dag A) <-> is_herm A.
Proof.
by rewrite /is_herm dagK; split=> H; exact: esym.
Qed.
Lemma herm_cj n (A : 'M[R]_n) : is_herm (cj A) <-> is_herm A.
Proof.
rewrite /is_herm dag_cj; split=> H.
  by rewrite /dag H; exact: cjK.
by rewrite -{1}H /dag /cj map_trmx trmxK.
Qed.
Lemma herm_tr n (A : 'M[R]_n) : is_herm A^T <-> is_herm A.
Proof.
rewrite /is_herm dag_tr; split=> H.
  by rewrite /dag -H; exact: cjK.
by rewrite -{2}H /dag /cj map_trmx trmxK.
Qed.
Lemma herm_tens m n (A : 'M[R]_m) (B : 'M[R]_n) :
  is_herm A -> is_herm B -> is_herm (A *t B).
Proof. by rewrite /is_herm dag_tens=> -> ->. Qed.
Lemma herm1 n : is_herm (1%:M : 'M[R]_n).
Proof. exact: dag1. Qed.
Lemma herm_sandwich n (S A : 'M[R]_n) : is_herm A -> is_herm (S *m A *m dag S).
Proof. by rewrite /is_herm !dag_mul dagK mulmxA=> ->. Qed.
Lemma herm_outer n (u : 'cV[R]_n) : dag (u *m dag u) = u *m dag u.
Proof. by rewrite dag_mul dagK. Qed.
Lemma herm_trace_real n (A : 'M[R]_n) : is_herm A -> conj (\tr A) = \tr A.
Proof. by move=> H; rewrite -tr_dag H. Qed.
Lemma herm_diag_real n (A : 'M[R]_n) i : is_herm A -> conj (A i i) = A i i.
Proof. by move=> H; rewrite -{2}H !mxE. Qed.

(* --- unitary *)
Lemma unitaryC n (A : 'M[R]_n) : is_unitary A -> dag A *m A = 1%:M.
Proof. by move=> H; apply: mulmx1C. Qed.
Lemma unitary_mul n (A B : 'M[R]_n) : is_unitary A -> is_unitary B -> is_unitary (A *m B).
Proof.
rewrite /is_unitary dag_mul=> HA HB.
by rewrite mulmxA -(mulmxA A) HB mulmx1.
Qed.
Lemma unitary_opp n (A : 'M[R]_n) : is_unitary (- A) <-> is_unitary A.
Proof. by rewrite /is_unitary dag_opp mulNmx mulmxN opprK. Qed.
Lemma unitary_dag n (A : 'M[R]_n) : is_unitary (dag A) <-> is_unitary A.
Proof.
rewrite /is_unitary dagK; split=> H; first by apply: mulmx1C.
exact: unitaryC.
Qed.
Lemma cj_dag m n (A : 'M[R]_(m,n)) : cj (dag A) = A^T.
Proof. by rewrite /dag -/(cj _) cjK. Qed.
Lemma unitary_cj n (A : 'M[R]_n) : is_unitary (cj A) <-> is_unitary A.
Proof.
rewrite /is_unitary dag_cj; split=> H.
  by apply: (can_inj (@cjK _ _)); rewrite cj_mul cj_dag cj1.
by rewrite -(cj_dag A) -cj_mul H cj1.
Qed.
Lemma dagT m n (A : 'M[R]_(m,n)) : (dag A)^T = cj A.
Proof. by rewrite /dag map_trmx trmxK. Qed.
Lemma unitary_tr n (A : 'M[R]_n) : is_unitary A^T <-> is_unitary A.
Proof.
rewrite /is_unitary dag_tr; split=> H.
  by apply: mulmx1C; apply: trmx_inj; rewrite trmx_mul trmx1 dagT.
by have H2 := unitaryC H; rewrite -(dagT A) -trmx_mul H2 trmx1.
Qed.
Lemma unitary1 n : is_unitary (1%:M : 'M[R]_n).
Proof. by rewrite /is_unitary dag1 mulmx1. Qed.
End Herm.
