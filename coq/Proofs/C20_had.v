(* C20 - hadamard_transform: the entry formula (-1)^popcount(i & j) of the
   code is the N-fold tensor power of the one-qubit Hadamard matrix, for every
   number of qubits, and the Kernighan bit-count loop counts the set bits. *)
From Coq Require Import List ZArith NArith PArith Bool Arith Lia.
Import ListNotations.
From QV Require Import Model.C20.

Fixpoint popP (p : positive) : nat :=
  match p with xH => 1 | xO q => popP q | xI q => S (popP q) end.
Definition popN (x : N) : nat := match x with N0 => 0 | Npos p => popP p end.

Lemma pland_diag p : Pos.land p p = Npos p.
Proof. induction p as [q IH|q IH|]; simpl; try rewrite IH; reflexivity. Qed.

(* ---- x & (x - 1) clears exactly the lowest set bit *)
Lemma popN_double x : popN (Pos.Ndouble x) = popN x.
Proof. destruct x; reflexivity. Qed.

Lemma pop_clear_lowest p : popN (N.land (Npos p) (Pos.pred_N p)) = pred (popP p).
Proof.
  induction p as [q IH|q IH|]; [| |reflexivity].
  - (* 2q+1: predecessor 2q, and = 2 (q & q) *)
    cbn. rewrite pland_diag. reflexivity.
  - (* 2q: predecessor 2(q-1)+1, and = 2 (q & (q-1)) *)
    destruct q as [r|r|].
    + cbn. rewrite pland_diag. reflexivity.
    + cbn in IH. cbn. rewrite popN_double. exact IH.
    + reflexivity.
Qed.

Lemma popP_pos p : (1 <= popP p)%nat.
Proof. induction p; simpl; lia. Qed.

Lemma popP_le_size p : (popP p <= Pos.to_nat (Pos.size p))%nat.
Proof. induction p; simpl; lia. Qed.

Lemma hamming_loop_pop : forall fuel x, (popN x <= fuel)%nat -> hamming_loop fuel x = popN x.
Proof.
  induction fuel as [|f IH]; intros x H.
  - destruct x as [|p]; [reflexivity|]. simpl in H. pose proof (popP_pos p). lia.
  - destruct x as [|p]; [reflexivity|]. cbn [hamming_loop N.eqb].
    replace (N.pred (Npos p)) with (Pos.pred_N p) by reflexivity.
    pose proof (popP_pos p) as Hp. simpl in H.
    rewrite IH.
    + rewrite pop_clear_lowest. simpl. lia.
    + rewrite pop_clear_lowest. lia.
Qed.

Lemma hamming_distance_pop x : hamming_distance x = popN x.
Proof.
  unfold hamming_distance. apply hamming_loop_pop.
  destruct x as [|p]; [simpl; lia|]. simpl. pose proof (popP_le_size p). lia.
Qed.

(* ---- bit count of an AND, one bit at a time *)
Lemma popN_land_step i j :
  popN (N.land i j) = (popN (N.land (N.div2 i) (N.div2 j))
                       + (if N.odd i && N.odd j then 1 else 0))%nat.
Proof.
  destruct i as [|[p|p|]], j as [|[q|q|]]; simpl; try reflexivity; try lia;
    try (destruct (Pos.land p q); simpl; lia).
Qed.

Lemma sgn_add a b : sgn (a + b) = (sgn a * sgn b)%Z.
Proof.
  unfold sgn. rewrite Nat.even_add.
  destruct (Nat.even a), (Nat.even b); reflexivity.
Qed.

(* main statement *)
Lemma hpow_formula : forall n i j, (i < 2 ^ N.of_nat n)%N -> (j < 2 ^ N.of_nat n)%N ->
  hpow n i j = sgn (popN (N.land i j)).
Proof.
  induction n as [|n IH]; intros i j Hi Hj.
  - simpl in Hi, Hj. assert (i = 0%N) by lia. assert (j = 0%N) by lia. subst. reflexivity.
  - cbn [hpow]. rewrite popN_land_step, sgn_add.
    rewrite Nat2N.inj_succ, N.pow_succ_r' in Hi, Hj.
    rewrite IH.
    + unfold h1. destruct (N.odd i && N.odd j); reflexivity.
    + rewrite N.div2_div. apply N.div_lt_upper_bound; lia.
    + rewrite N.div2_div. apply N.div_lt_upper_bound; lia.
Qed.

Lemma hadamard_sign_is_tensor_power n i j :
  (i < 2 ^ N.of_nat n)%N -> (j < 2 ^ N.of_nat n)%N -> hadamard_sign i j = hpow n i j.
Proof.
  intros Hi Hj. unfold hadamard_sign. rewrite hamming_distance_pop. symmetry.
  now apply hpow_formula.
Qed.

(* symmetric (the isherm=True literal) *)
Lemma hadamard_sign_sym i j : hadamard_sign i j = hadamard_sign j i.
Proof. unfold hadamard_sign. now rewrite N.land_comm. Qed.
