(* C20 - state_number_enumerate / enr_state_dictionaries / enr_destroy:
   the restricted enumeration yields exactly the admissible states, each once,
   in increasing standard (mixed radix) order, and the ENR lowering operators
   never miss a dictionary key. *)
From Coq Require Import List ZArith Bool Arith Lia Sorted.
Import ListNotations.
From QV Require Import Model.C20.
Open Scope Z_scope.

Definition inrange (ps : list (Z * Z)) : Prop := Forall (fun p => 0 <= snd p < fst p) ps.
Fixpoint tot (ps : list (Z * Z)) : Z := match ps with [] => 0 | p :: r => snd p + tot r end.
Fixpoint rk (ps : list (Z * Z)) : Z :=
  match ps with [] => 0 | p :: r => snd p + fst p * rk r end.
Fixpoint cap (ps : list (Z * Z)) : Z := match ps with [] => 1 | p :: r => fst p * cap r end.

Lemma rk_bounds ps : inrange ps -> 0 <= rk ps < cap ps.
Proof.
  induction 1 as [|p r Hp Hr IH]; simpl; [lia|]. nia.
Qed.

Lemma cap_fst a b : map fst a = map fst b -> cap a = cap b.
Proof.
  revert b. induction a as [|x a IH]; intros [|y b] H; simpl in *; try discriminate; [reflexivity|].
  injection H as H1 H2. rewrite H1. f_equal. now apply IH.
Qed.

(* one step: the invariant is kept and the rank strictly grows *)
Lemma bump_inv E : forall ps nexc ps' n',
  inrange ps -> nexc = tot ps -> bump ps E nexc = Some (ps', n') ->
  inrange ps' /\ map fst ps' = map fst ps /\ n' = tot ps' /\ n' <= E /\ rk ps < rk ps'.
Proof.
  induction ps as [|[d s] rest IH]; intros nexc ps' n' Hr Hn Hb; [discriminate|].
  apply Forall_cons_iff in Hr as [Hp Hrest]. simpl in Hp, Hn. cbn [bump] in Hb.
  destruct ((E <? nexc + 1) || (d <=? s + 1)) eqn:C.
  - destruct (bump rest E (nexc + 1 - (s + 1))) as [[r n]|] eqn:B; [|discriminate].
    injection Hb as <- <-.
    destruct (IH (nexc + 1 - (s + 1)) r n Hrest ltac:(lia) B) as (I1 & I2 & I3 & I4 & I5).
    split; [constructor; [simpl; lia|exact I1]|].
    split; [simpl; now rewrite I2|]. split; [simpl; lia|]. split; [lia|]. simpl. nia.
  - injection Hb as <- <-. apply orb_false_iff in C as [C1 C2].
    apply Z.ltb_ge in C1. apply Z.leb_gt in C2.
    split; [constructor; [simpl; lia|exact Hrest]|].
    split; [reflexivity|]. split; [simpl; lia|]. split; [lia|]. simpl. lia.
Qed.

(* order on states with the same dimensions: compare the most significant
   (= last in the reversed list) differing mode *)
Fixpoint ltl (a b : list (Z * Z)) : Prop :=
  match a, b with
  | p :: ra, q :: rb => ltl ra rb \/ (ra = rb /\ snd p < snd q)
  | _, _ => False
  end.

Lemma tot_nonneg ps : inrange ps -> 0 <= tot ps.
Proof. induction 1 as [|p r Hp Hr IH]; simpl; lia. Qed.

(* the step goes to the least admissible state above the current one *)
Lemma bump_next E : forall ps t nexc,
  inrange ps -> inrange t -> map fst ps = map fst t -> nexc = tot ps -> tot t <= E ->
  ltl ps t ->
  exists ps' n', bump ps E nexc = Some (ps', n') /\ (ps' = t \/ ltl ps' t).
Proof.
  induction ps as [|[d s] rest IH]; intros t nexc Hr Ht Hd Hn HE Hl; [destruct Hl|].
  destruct t as [|[d' u] trest]; [destruct Hl|].
  simpl in Hd. injection Hd as Hd1 Hd2. subst d'.
  apply Forall_cons_iff in Hr as [Hp Hrest]. apply Forall_cons_iff in Ht as [Hq Htrest].
  simpl in Hp, Hq, HE, Hn. pose proof (tot_nonneg _ Htrest) as Hnn.
  cbn [bump].
  destruct ((E <? nexc + 1) || (d <=? s + 1)) eqn:C.
  - destruct Hl as [Hl|[Heq Hlt]].
    + destruct (IH trest (nexc + 1 - (s + 1)) Hrest Htrest Hd2
                   ltac:(lia) ltac:(lia) Hl) as (r & n & B & Hor).
      rewrite B. exists ((d, 0) :: r), n. split; [reflexivity|].
      destruct Hor as [->|Hlt].
      * destruct (Z.eq_dec u 0) as [->|Hne]; [now left|right; simpl; right; split; [reflexivity|lia]].
      * right. simpl. now left.
    + exfalso. subst trest. simpl in Hlt.
      apply orb_true_iff in C as [C|C]; [apply Z.ltb_lt in C|apply Z.leb_le in C]; lia.
  - exists ((d, s + 1) :: rest), (nexc + 1). split; [reflexivity|].
    destruct Hl as [Hl|[Heq Hlt]].
    + right. simpl. now left.
    + subst trest. simpl in Hlt.
      destruct (Z.eq_dec (s + 1) u) as [<-|Hne]; [now left|right; simpl; right; split; [reflexivity|lia]].
Qed.

Lemma zeros_le t : inrange t ->
  let z := map (fun p => (fst p, 0)) t in z = t \/ ltl z t.
Proof.
  induction 1 as [|[d u] r Hp Hr IH]; simpl in *; [now left|].
  destruct IH as [IH|IH].
  - destruct (Z.eq_dec u 0) as [->|Hne]; [left; now rewrite IH|].
    right. right. split; [exact IH|simpl; lia].
  - right. now left.
Qed.

(* ------------------------------------------------------------ the loop *)
Lemma enum_loop_complete E : forall fuel ps t nexc,
  inrange ps -> inrange t -> map fst ps = map fst t -> nexc = tot ps -> tot t <= E ->
  (ps = t \/ ltl ps t) -> cap ps <= Z.of_nat fuel + rk ps ->
  In (occ t) (fst (enum_loop fuel ps E nexc)).
Proof.
  induction fuel as [|f IH]; intros ps t nexc Hr Ht Hd Hn HE Hor Hc.
  - pose proof (rk_bounds ps Hr). lia.
  - simpl. destruct (bump ps E nexc) as [[ps' n']|] eqn:B.
    + destruct (enum_loop f ps' E n') as [l ok] eqn:L. simpl.
      destruct Hor as [->|Hl]; [now left|right].
      destruct (bump_next E ps t nexc Hr Ht Hd Hn HE Hl) as (p2 & n2 & B2 & Hor2).
      rewrite B in B2. injection B2 as <- <-.
      destruct (bump_inv E ps nexc ps' n' Hr Hn B) as (I1 & I2 & I3 & I4 & I5).
      replace l with (fst (enum_loop f ps' E n')) by now rewrite L.
      apply IH; try assumption; [congruence|].
      rewrite (cap_fst ps' ps I2). lia.
    + simpl. destruct Hor as [->|Hl]; [now left|].
      destruct (bump_next E ps t nexc Hr Ht Hd Hn HE Hl) as (p2 & n2 & B2 & _). congruence.
Qed.

Lemma enum_loop_terminates E : forall fuel ps nexc,
  inrange ps -> nexc = tot ps -> cap ps <= Z.of_nat fuel + rk ps ->
  snd (enum_loop fuel ps E nexc) = true.
Proof.
  induction fuel as [|f IH]; intros ps nexc Hr Hn Hc.
  - pose proof (rk_bounds ps Hr). lia.
  - simpl. destruct (bump ps E nexc) as [[ps' n']|] eqn:B; [|reflexivity].
    destruct (bump_inv E ps nexc ps' n' Hr Hn B) as (I1 & I2 & I3 & I4 & I5).
    pose proof (IH ps' n' I1 I3) as H. rewrite (cap_fst ps' ps I2) in H.
    destruct (enum_loop f ps' E n') as [l ok]. cbn [snd] in *. apply H. lia.
Qed.

Lemma enum_loop_sound E : forall fuel ps nexc st,
  inrange ps -> nexc = tot ps -> tot ps <= E ->
  In st (fst (enum_loop fuel ps E nexc)) ->
  exists qs, st = occ qs /\ inrange qs /\ map fst qs = map fst ps /\ tot qs <= E.
Proof.
  induction fuel as [|f IH]; intros ps nexc st Hr Hn HE Hin; [destruct Hin|].
  simpl in Hin. destruct (bump ps E nexc) as [[ps' n']|] eqn:B.
  - destruct (bump_inv E ps nexc ps' n' Hr Hn B) as (I1 & I2 & I3 & I4 & I5).
    destruct (enum_loop f ps' E n') as [l ok] eqn:L. simpl in Hin.
    destruct Hin as [<-|Hin]; [exists ps; auto|].
    destruct (IH ps' n' st I1 I3 ltac:(lia)) as (qs & Q1 & Q2 & Q3 & Q4).
    + now rewrite L.
    + exists qs. repeat split; try assumption. congruence.
  - simpl in Hin. destruct Hin as [<-|[]]. exists ps; auto.
Qed.

(* ranks strictly increase along the enumeration: no state is yielded twice
   and the order is the standard one *)
Fixpoint enum_ps (fuel : nat) (ps : list (Z * Z)) (E nexc : Z) : list (list (Z * Z)) :=
  match fuel with
  | O => []
  | S f => match bump ps E nexc with
           | None => [ps]
           | Some (ps', n') => ps :: enum_ps f ps' E n'
           end
  end.

Lemma enum_loop_ps E : forall fuel ps nexc,
  fst (enum_loop fuel ps E nexc) = map occ (enum_ps fuel ps E nexc).
Proof.
  induction fuel as [|f IH]; intros ps nexc; [reflexivity|]. simpl.
  destruct (bump ps E nexc) as [[ps' n']|]; [|reflexivity].
  specialize (IH ps' n'). destruct (enum_loop f ps' E n'). simpl in *. now rewrite IH.
Qed.

Lemma enum_ps_sorted E : forall fuel ps nexc,
  inrange ps -> nexc = tot ps ->
  Forall (fun q => rk ps <= rk q) (enum_ps fuel ps E nexc) /\
  StronglySorted (fun a b => rk a < rk b) (enum_ps fuel ps E nexc).
Proof.
  induction fuel as [|f IH]; intros ps nexc Hr Hn; [split; constructor|].
  simpl. destruct (bump ps E nexc) as [[ps' n']|] eqn:B.
  - destruct (bump_inv E ps nexc ps' n' Hr Hn B) as (I1 & I2 & I3 & I4 & I5).
    destruct (IH ps' n' I1 I3) as (F & S).
    split.
    + constructor; [lia|]. eapply Forall_impl; [|exact F]. simpl. intros; lia.
    + constructor; [exact S|]. eapply Forall_impl; [|exact F]. simpl. intros; lia.
  - split; [constructor; [lia|constructor]|constructor; constructor].
Qed.

(* --------------------------------------------- user-level formulation *)
Fixpoint zsum (l : list Z) : Z := match l with [] => 0 | x :: r => x + zsum r end.
Definition admissible (dims st : list Z) (E : Z) : Prop :=
  Forall2 (fun d s => 0 <= s < d) dims st /\ zsum st <= E.
Definition mk (dims st : list Z) : list (Z * Z) := rev (combine dims st).

Lemma tot_app a b : tot (a ++ b) = tot a + tot b.
Proof. induction a as [|x a IH]; simpl; lia. Qed.
Lemma zsum_app a b : zsum (a ++ b) = zsum a + zsum b.
Proof. induction a as [|x a IH]; simpl; lia. Qed.

Lemma occ_app a x : occ (a ++ [x]) = snd x :: occ a.
Proof. unfold occ. rewrite map_app, rev_app_distr. reflexivity. Qed.

Lemma adm_mk dims st : Forall2 (fun d s => 0 <= s < d) dims st ->
  inrange (mk dims st) /\ map fst (mk dims st) = rev dims /\
  tot (mk dims st) = zsum st /\ occ (mk dims st) = st.
Proof.
  induction 1 as [|d s dims st Hp HF IH]; [repeat split; constructor|].
  destruct IH as (I1 & I2 & I3 & I4). unfold mk in *. simpl.
  split; [apply Forall_app; split; [exact I1|constructor; [simpl; lia|constructor]]|].
  split; [rewrite map_app, I2; reflexivity|].
  split; [rewrite tot_app, I3; simpl; lia|].
  rewrite occ_app, I4. reflexivity.
Qed.

Lemma occ_adm qs : inrange qs ->
  Forall2 (fun d s => 0 <= s < d) (rev (map fst qs)) (occ qs) /\ zsum (occ qs) = tot qs.
Proof.
  induction 1 as [|[d s] r Hp Hr IH]; [split; constructor|].
  destruct IH as (I1 & I2). unfold occ in *. simpl.
  split; [apply Forall2_app; [exact I1|constructor; [simpl in Hp; lia|constructor]]|].
  rewrite zsum_app, I2. simpl. lia.
Qed.

Lemma mk_zeros (dims : list Z) :
  mk dims (map (fun _ : Z => 0) dims) = rev (map (fun d : Z => (d, 0)) dims).
Proof. unfold mk. f_equal. induction dims as [|d r IH]; simpl; [reflexivity|now rewrite IH]. Qed.

Lemma cap_rev_dims dims : Forall (fun d => 1 <= d) dims ->
  cap (rev (map (fun d => (d, 0)) dims)) = fold_right (fun d acc => Z.max d 1 * acc) 1 dims.
Proof.
  intros H.
  assert (G : forall l, cap (rev l) = cap l).
  { induction l as [|x l IH]; [reflexivity|]. simpl.
    assert (A : forall a b, cap (a ++ b) = cap a * cap b).
    { induction a as [|y a IHa]; intros b; simpl; [destruct (cap b); reflexivity|rewrite IHa; lia]. }
    rewrite A, IH. simpl. lia. }
  rewrite G. induction H as [|d r Hd Hr IH]; [reflexivity|].
  simpl. rewrite IH. f_equal. lia.
Qed.

Lemma map_fst_zeros (dims : list Z) :
  map fst (rev (map (fun d : Z => (d, 0)) dims)) = rev dims.
Proof. rewrite map_rev, map_map. simpl. now rewrite map_id. Qed.

Lemma inrange_zeros dims : Forall (fun d => 1 <= d) dims ->
  inrange (rev (map (fun d => (d, 0)) dims)) /\ tot (rev (map (fun d => (d, 0)) dims)) = 0.
Proof.
  induction 1 as [|d r Hd Hr IH]; [split; [constructor|reflexivity]|].
  destruct IH as (I1 & I2). simpl. split.
  - apply Forall_app. split; [exact I1|constructor; [simpl; lia|constructor]].
  - rewrite tot_app, I2. reflexivity.
Qed.

Lemma same_dims_zeros (t : list (Z * Z)) dims :
  map fst t = rev dims -> map (fun p => (fst p, 0)) t = rev (map (fun d => (d, 0)) dims).
Proof.
  intros H. rewrite <- map_rev, <- H, map_map. reflexivity.
Qed.

(* main theorem: with all dimensions >= 1 and E >= 0 the enumeration run
   completes and yields exactly the admissible states *)
Theorem enumerate_exact dims E : Forall (fun d => 1 <= d) dims -> 0 <= E ->
  exists l, state_number_enumerate dims E = Ok (l, true) /\
            forall st, In st l <-> admissible dims st E.
Proof.
  intros Hd HE. unfold state_number_enumerate.
  destruct dims as [|d0 dr] eqn:Edims.
  { exists [[]]. split; [reflexivity|]. intros st. split.
    - intros [<-|[]]. split; [constructor|simpl; lia].
    - intros (A1 & _). inversion A1. now left. }
  rewrite <- Edims in *.
  set (ps0 := rev (map (fun d => (d, 0)) dims)).
  destruct (inrange_zeros dims Hd) as (Z1 & Z2). fold ps0 in Z1, Z2.
  assert (Hcap : cap ps0 <= Z.of_nat (enum_fuel dims) + rk ps0).
  { unfold enum_fuel. unfold ps0 at 1. rewrite cap_rev_dims by assumption.
    pose proof (rk_bounds _ Z1).
    assert (0 <= fold_right (fun d acc => Z.max d 1 * acc) 1 dims).
    { clear. induction dims; simpl; lia. }
    lia. }
  pose proof (enum_loop_terminates E (enum_fuel dims) ps0 0 Z1 (eq_sym Z2) Hcap) as Hok.
  destruct (enum_loop (enum_fuel dims) ps0 E 0) as [l ok] eqn:L. simpl in Hok. subst ok.
  exists l. split; [reflexivity|]. intros st. split.
  - intros Hin.
    destruct (enum_loop_sound E (enum_fuel dims) ps0 0 st Z1 (eq_sym Z2) ltac:(lia)) as (qs & -> & Q2 & Q3 & Q4).
    + now rewrite L.
    + destruct (occ_adm qs Q2) as (A1 & A2). split; [|lia].
      rewrite Q3 in A1. unfold ps0 in A1. rewrite map_fst_zeros, rev_involutive in A1. exact A1.
  - intros (A1 & A2). destruct (adm_mk dims st A1) as (M1 & M2 & M3 & M4).
    rewrite <- M4. replace l with (fst (enum_loop (enum_fuel dims) ps0 E 0)) by now rewrite L.
    apply enum_loop_complete; try assumption.
    + unfold ps0. now rewrite map_fst_zeros.
    + now rewrite Z2.
    + lia.
    + pose proof (zeros_le (mk dims st) M1) as Hz. simpl in Hz.
      rewrite (same_dims_zeros _ dims M2) in Hz. exact Hz.
Qed.

(* the yielded states are pairwise different and in increasing mixed-radix
   order (rank = standard index of the state in the full space) *)
Theorem enumerate_sorted dims E : Forall (fun d => 1 <= d) dims ->
  let ps0 := rev (map (fun d => (d, 0)) dims) in
  fst (enum_loop (enum_fuel dims) ps0 E 0) = map occ (enum_ps (enum_fuel dims) ps0 E 0) /\
  StronglySorted (fun a b => rk a < rk b) (enum_ps (enum_fuel dims) ps0 E 0).
Proof.
  intros Hd ps0. split; [apply enum_loop_ps|].
  destruct (inrange_zeros dims Hd) as (Z1 & Z2).
  exact (proj2 (enum_ps_sorted E (enum_fuel dims) ps0 0 Z1 (eq_sym Z2))).
Qed.

(* ------------------------------------------------------ ENR dictionaries *)
Lemma list_eqb_eq a : forall b, list_eqb a b = true <-> a = b.
Proof.
  induction a as [|x a IH]; intros [|y b]; simpl; split; intros H; try discriminate; try reflexivity.
  - apply andb_prop in H as [H1 H2]. apply Z.eqb_eq in H1. apply IH in H2. congruence.
  - injection H as -> ->. rewrite Z.eqb_refl. now apply IH.
Qed.

Lemma index_of_In s : forall l k, In s l ->
  exists n, index_of s l k = Some (k + n)%nat /\ nth_error l n = Some s.
Proof.
  induction l as [|x l IH]; intros k Hin; [destruct Hin|]. simpl.
  destruct (list_eqb s x) eqn:Q.
  - apply list_eqb_eq in Q. subst x. exists 0%nat. split; [f_equal; lia|reflexivity].
  - destruct Hin as [->|Hin]; [rewrite (proj2 (list_eqb_eq s s) eq_refl) in Q; discriminate|].
    destruct (IH (S k) Hin) as (n & I1 & I2). exists (S n). split; [rewrite I1; f_equal; lia|exact I2].
Qed.

Lemma set_nth_Forall2 dims : forall st idx v,
  Forall2 (fun d s => 0 <= s < d) dims st -> 0 <= v <= nth idx st 0 ->
  Forall2 (fun d s => 0 <= s < d) dims (set_nth idx v st).
Proof.
  induction dims as [|d dr IH]; intros st idx v H Hv; inversion H; subst; [destruct idx; simpl; constructor|].
  destruct idx; simpl in *; constructor; try assumption; [lia|]. now apply IH.
Qed.

Lemma set_nth_zsum : forall st idx v, (idx < length st)%nat ->
  zsum (set_nth idx v st) = zsum st - nth idx st 0 + v.
Proof.
  induction st as [|x st IH]; intros idx v H; simpl in H; [lia|].
  destruct idx; simpl; [lia|]. rewrite IH by lia. lia.
Qed.

(* lowering one mode of an admissible state gives an admissible state *)
Lemma lower_admissible dims st E idx :
  admissible dims st E -> 0 < nth idx st 0 ->
  admissible dims (set_nth idx (nth idx st 0 - 1) st) E.
Proof.
  intros (A1 & A2) Hpos. split; [apply set_nth_Forall2; [exact A1|lia]|].
  assert (idx < length st)%nat.
  { destruct (Nat.lt_ge_cases idx (length st)) as [|G]; [assumption|].
    rewrite nth_overflow in Hpos by assumption. lia. }
  rewrite set_nth_zsum by assumption. lia.
Qed.

(* enr_destroy never hits a missing key, and every stored element is the
   full-space matrix element between the two states it connects *)
Theorem enr_destroy_restriction dims E l idx :
  (forall st, In st l <-> admissible dims st E) ->
  Forall (fun x => exists n2 n1 s t1 t2,
            x = Ok (n2, n1, s) /\ nth_error l n1 = Some t1 /\ nth_error l n2 = Some t2 /\
            0 < s /\ full_destroy_rad idx t2 t1 = s)
         (enr_destroy_mode l idx).
Proof.
  intros Hl. unfold enr_destroy_mode.
  assert (G : forall k (l1 : list (list Z)), (forall st, In st l1 -> In st l) ->
     (forall n st, nth_error l1 n = Some st -> nth_error l (k + n) = Some st) ->
     Forall (fun x => exists n2 n1 s t1 t2,
            x = Ok (n2, n1, s) /\ nth_error l n1 = Some t1 /\ nth_error l n2 = Some t2 /\
            0 < s /\ full_destroy_rad idx t2 t1 = s)
       (concat (map (fun p : nat * list Z =>
          let (n1, st) := p in
          let s := nth idx st 0 in
          if 0 <? s then
            match state2idx l (set_nth idx (s - 1) st) with
            | Some n2 => [Ok (n2, n1, s)]
            | None => [Err EKey]
            end
          else []) (combine (seq k (length l1)) l1)))).
  { intros k l1. revert k. induction l1 as [|st l1 IH]; intros k Hsub Hnth; [constructor|].
    simpl. apply Forall_app. split.
    - destruct (0 <? nth idx st 0) eqn:Q; [|constructor]. apply Z.ltb_lt in Q.
      assert (Hin : In st l) by (apply Hsub; now left).
      pose proof (lower_admissible dims st E idx (proj1 (Hl st) Hin) Q) as Hlow.
      apply Hl in Hlow. unfold state2idx.
      destruct (index_of_In _ l 0%nat Hlow) as (n2 & I1 & I2). rewrite I1.
      constructor; [|constructor].
      exists (0 + n2)%nat, k, (nth idx st 0), st, (set_nth idx (nth idx st 0 - 1) st).
      split; [reflexivity|]. split; [specialize (Hnth 0%nat st eq_refl); now rewrite Nat.add_0_r in Hnth|].
      split; [exact I2|]. split; [exact Q|].
      unfold full_destroy_rad. rewrite (proj2 (list_eqb_eq _ _) eq_refl).
      replace (0 <? nth idx st 0) with true by (symmetry; now apply Z.ltb_lt). reflexivity.
    - apply IH; [intros; apply Hsub; now right|].
      intros n s Hn. specialize (Hnth (S n) s Hn). now rewrite Nat.add_succ_r in Hnth. }
  apply (G 0%nat l); [auto|auto].
Qed.

(* ------------------------------------------------ basis / dims2idx (states.py) *)
Lemma dims2idx_bound : forall dims ns p, dims2idx dims ns = Ok p ->
  0 <= p < fold_right Z.mul 1 dims /\ Forall2 (fun d n => 0 <= n < d) dims ns.
Proof.
  induction dims as [|d dr IH]; intros [|n nr] p H; simpl in H; try discriminate.
  - injection H as <-. split; [simpl; lia|constructor].
  - destruct ((0 <=? n) && (n <? d)) eqn:C; [|discriminate].
    destruct (dims2idx dr nr) as [q|] eqn:Q; [|discriminate]. injection H as <-.
    apply andb_prop in C as [C1 C2]. apply Z.leb_le in C1. apply Z.ltb_lt in C2.
    destruct (IH nr q Q) as (B & F). split; [simpl; nia|constructor; [lia|exact F]].
Qed.

Lemma dims2idx_injective : forall dims a b p,
  dims2idx dims a = Ok p -> dims2idx dims b = Ok p -> a = b.
Proof.
  induction dims as [|d dr IH]; intros [|x a] [|y b] p Ha Hb; simpl in Ha, Hb; try discriminate;
    [reflexivity|].
  destruct ((0 <=? x) && (x <? d)) eqn:Cx; [|discriminate].
  destruct ((0 <=? y) && (y <? d)) eqn:Cy; [|discriminate].
  destruct (dims2idx dr a) as [qa|] eqn:Qa; [|discriminate].
  destruct (dims2idx dr b) as [qb|] eqn:Qb; [|discriminate].
  injection Ha as Ha. injection Hb as Hb.
  destruct (dims2idx_bound dr a qa Qa) as (Ba & _).
  destruct (dims2idx_bound dr b qb Qb) as (Bb & _).
  assert (x = y) by nia. subst y. assert (qa = qb) by lia. subst qb.
  f_equal. exact (IH a b qa Qa Qb).
Qed.

Lemma dims2idx_total : forall dims ns, Forall2 (fun d n => 0 <= n < d) dims ns ->
  exists p, dims2idx dims ns = Ok p.
Proof.
  induction 1 as [|d n dr nr Hp HF IH]; [exists 0; reflexivity|].
  destruct IH as (q & Q). simpl. rewrite Q.
  replace ((0 <=? n) && (n <? d)) with true; [eexists; reflexivity|].
  symmetry. apply andb_true_intro. split; [apply Z.leb_le|apply Z.ltb_lt]; lia.
Qed.
