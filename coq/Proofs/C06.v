(* C06 - proofs about the model in Model/C06.v *)
From Coq Require Import List ZArith Bool Lia Field QArith Qcanon Qround Floats.
Import ListNotations.
From QV Require Import Model.C06.

Open Scope Z_scope.
Ltac Zify.zify_post_hook ::= Z.to_euclidean_division_equations.

Definition two63 : Z := 9223372036854775808.

Lemma zlen_nonneg {A} (l : list A) : 0 <= zlen l.
Proof. unfold zlen. lia. Qed.

(* ------------------------------------------------------------ binary search *)
Section BinarySearch.
  Context {T : Type}.
  Variable N : num T.
  Variable g : list T.
  Variable x : T.
  Let n := zlen g.
  Let at_ (i : Z) := zn g i (n0 N).

  (* loop invariant of _binary_search; tlist[n] is a virtual +infinity *)
  Definition bs_inv (low high : Z) : Prop :=
    0 <= low /\ low < high /\ high <= n /\
    nltb N x (at_ low) = false /\
    (high < n -> nltb N x (at_ high) = true).

  Lemma bs_loop_spec :
    n < two63 ->
    forall (f : nat) (low high : Z),
      bs_inv low high ->
      high - low <= 2 ^ Z.of_nat f ->
      let r := bs_loop N g x (S f) low high in
      bs_inv (fst (fst r)) (snd (fst r)) /\
      fst (fst r) + 1 = snd (fst r) /\
      (1 <= snd r)%nat.
  Proof.
    intros Hn. unfold two63 in Hn.
    induction f as [|f IH]; intros low high Hinv Hw.
    - destruct Hinv as (H0 & H1 & H2 & H3 & H4).
      change (2 ^ Z.of_nat 0) with 1 in Hw.
      assert (E : (low + 1) mod two64 = high) by (unfold two64; lia).
      cbn [bs_loop]. rewrite E, Z.eqb_refl. cbn. repeat split; auto; lia.
    - pose proof Hinv as (H0 & H1 & H2 & H3 & H4).
      rewrite Nat2Z.inj_succ, Z.pow_succ_r in Hw by lia.
      set (p := 2 ^ Z.of_nat f) in *.
      assert (Hp : 0 < p) by (apply Z.pow_pos_nonneg; lia).
      remember (S f) as f1 eqn:Ef1.
      cbn [bs_loop].
      assert (E1 : (low + 1) mod two64 = low + 1) by (unfold two64; lia).
      rewrite E1.
      destruct (low + 1 =? high) eqn:Eq.
      + apply Z.eqb_eq in Eq. cbn. repeat split; auto; lia.
      + apply Z.eqb_neq in Eq.
        assert (E2 : (low + high) mod two64 = low + high) by (unfold two64; lia).
        rewrite E2.
        set (m := (low + high) / 2).
        assert (Hm : low < m < high) by (unfold m; lia).
        subst f1.
        destruct (nltb N x (zn g m (n0 N))) eqn:Ec.
        * apply IH.
          -- unfold bs_inv. repeat split; try lia; auto.
          -- unfold m. lia.
        * apply IH.
          -- unfold bs_inv. repeat split; try lia; auto.
          -- unfold m. lia.
  Qed.

  (* _binary_search: for ANY comparison function and ANY array of length
     1 <= n < 2^63 whose first element is not above x, the loop ends because
     low+1 = high (not because the 64-step budget ran out) and returns an
     index i with  not (x < t[i])  and  x < t[i+1]  (or i = n-1). *)
  Lemma binary_search_spec :
    1 <= n -> n < two63 ->
    nltb N x (at_ 0) = false ->
    let i := binary_search N g x in
    0 <= i < n /\ nltb N x (at_ i) = false /\
    (i + 1 < n -> nltb N x (at_ (i + 1)) = true) /\
    (1 <= snd (bs_loop N g x 64 0 (zlen g)))%nat.
  Proof.
    intros H1 Hn H0.
    assert (Hinv : bs_inv 0 n).
    { unfold bs_inv. repeat split; try lia; auto. }
    assert (Hw : n - 0 <= 2 ^ Z.of_nat 63).
    { unfold two63 in Hn. change (2 ^ Z.of_nat 63) with 9223372036854775808. lia. }
    pose proof (bs_loop_spec Hn 63%nat 0 n Hinv Hw) as (A & B & C).
    fold n. unfold binary_search. fold n.
    set (r := bs_loop N g x 64 0 n) in *.
    destruct A as (A0 & A1 & A2 & A3 & A4).
    repeat split; try lia; auto.
    intros Hi. rewrite B. apply A4. lia.
  Qed.
End BinarySearch.

(* ------------------------------------------------------------ list helpers *)
Lemma zget_in {A} (l : list A) (i : Z) (d : A) :
  0 <= i < zlen l -> zget l i = Val (zn l i d).
Proof.
  intros H. unfold zget, zn, zlen in *.
  assert (E1 : (0 <=? i) = true) by (apply Z.leb_le; lia).
  assert (E2 : (i <? Z.of_nat (length l)) = true) by (apply Z.ltb_lt; lia).
  rewrite E1, E2. cbn.
  assert (Hl : (Z.to_nat i < length l)%nat) by lia.
  destruct (nth_error l (Z.to_nat i)) eqn:E.
  - f_equal. symmetry. apply nth_error_nth. exact E.
  - apply nth_error_None in E. lia.
Qed.

Lemma zget_out {A} (l : list A) (i : Z) :
  ~ (0 <= i < zlen l) -> zget l i = IndexError.
Proof.
  intros H. unfold zget.
  destruct (0 <=? i) eqn:E1; destruct (i <? zlen l) eqn:E2; cbn; auto.
  apply Z.leb_le in E1. apply Z.ltb_lt in E2. lia.
Qed.

Lemma zn_app_l {A} (l m : list A) (i : Z) (d : A) :
  0 <= i < zlen l -> zn (l ++ m) i d = zn l i d.
Proof. intros H. unfold zn, zlen in *. apply app_nth1. lia. Qed.

Lemma zlen_app {A} (l m : list A) : zlen (l ++ m) = zlen l + zlen m.
Proof. unfold zlen. rewrite app_length. lia. Qed.

Lemma zn_cons {A} (a : A) (l : list A) (i : Z) (d : A) :
  0 < i -> zn (a :: l) i d = zn l (i - 1) d.
Proof.
  intros H. unfold zn.
  replace (Z.to_nat i) with (S (Z.to_nat (i - 1))) by lia. reflexivity.
Qed.

Section Diffs.
  Context {T : Type}.
  Variable N : num T.

  Lemma diffs_len (l : list T) : zlen (diffs N l) = Z.max 0 (zlen l - 1).
  Proof.
    unfold zlen. induction l as [|a [|b l] IH]; cbn [diffs length] in *; try lia.
  Qed.

  Lemma diffs_nth (l : list T) : forall k d,
    0 <= k -> k + 1 < zlen l ->
    zn (diffs N l) k d = nsub N (zn l (k + 1) d) (zn l k d).
  Proof.
    induction l as [|a [|b l] IH]; intros k d H0 H1.
    - unfold zlen in H1; cbn in H1; lia.
    - unfold zlen in H1; cbn in H1; lia.
    - destruct (Z.eq_dec k 0) as [->|Hk].
      + reflexivity.
      + change (diffs N (a :: b :: l)) with (nsub N b a :: diffs N (b :: l)).
        rewrite (zn_cons (nsub N b a) (diffs N (b :: l)) k) by lia.
        rewrite (zn_cons a (b :: l) (k + 1)) by lia.
        rewrite (zn_cons a (b :: l) k) by lia.
        rewrite IH.
        * replace (k + 1 - 1) with (k - 1 + 1) by lia. reflexivity.
        * lia.
        * unfold zlen in *. cbn [length] in *. lia.
  Qed.

  Lemma cdiffs_len (l : list (cplx (T:=T))) : zlen (cdiffs N l) = Z.max 0 (zlen l - 1).
  Proof.
    unfold zlen. induction l as [|a [|b l] IH]; cbn [cdiffs length] in *; try lia.
  Qed.

  Lemma cdiffs_nth (l : list (cplx (T:=T))) : forall k d,
    0 <= k -> k + 1 < zlen l ->
    zn (cdiffs N l) k d = csub N (zn l (k + 1) d) (zn l k d).
  Proof.
    induction l as [|a [|b l] IH]; intros k d H0 H1.
    - unfold zlen in H1; cbn in H1; lia.
    - unfold zlen in H1; cbn in H1; lia.
    - destruct (Z.eq_dec k 0) as [->|Hk].
      + reflexivity.
      + change (cdiffs N (a :: b :: l)) with (csub N b a :: cdiffs N (b :: l)).
        rewrite (zn_cons (csub N b a) (cdiffs N (b :: l)) k) by lia.
        rewrite (zn_cons a (b :: l) (k + 1)) by lia.
        rewrite (zn_cons a (b :: l) k) by lia.
        rewrite IH.
        * replace (k + 1 - 1) with (k - 1 + 1) by lia. reflexivity.
        * lia.
        * unfold zlen in *. cbn [length] in *. lia.
  Qed.

  Lemma zip_with_nth {A B C} (f : A -> B -> C) (l : list A) : forall (m : list B) k da db dc,
    0 <= k -> k < zlen l -> k < zlen m ->
    zn (zip_with f l m) k dc = f (zn l k da) (zn m k db).
  Proof.
    induction l as [|a l IH]; intros m k da db dc H0 H1 H2.
    - unfold zlen in H1; cbn in H1; lia.
    - destruct m as [|b m].
      + unfold zlen in H2; cbn in H2; lia.
      + destruct (Z.eq_dec k 0) as [->|Hk].
        * reflexivity.
        * cbn [zip_with]. rewrite !zn_cons by lia. apply IH.
          -- lia.
          -- unfold zlen in *. cbn [length] in *. lia.
          -- unfold zlen in *. cbn [length] in *. lia.
  Qed.

  Lemma zip_with_len {A B C} (f : A -> B -> C) (l : list A) : forall (m : list B),
    zlen (zip_with f l m) = Z.min (zlen l) (zlen m).
  Proof.
    unfold zlen. induction l as [|a l IH]; intros [|b m]; cbn [zip_with length]; try lia.
    specialize (IH m). lia.
  Qed.
End Diffs.

(* --------------------------------------------------- _call: index logic *)
Section Call.
  Context {T : Type}.
  Variable N : num T.
  (* laws of the comparison of non-NaN doubles (strict weak order) *)
  Hypothesis Hle : forall a b, nleb N a b = negb (nltb N b a).
  Hypothesis Hirr : forall a, nltb N a a = false.
  Hypothesis Htr : forall a b c,
    nltb N a b = true -> nltb N b c = true -> nltb N a c = true.
  Hypothesis Hntr : forall a b c,
    nltb N a b = false -> nltb N b c = false -> nltb N a c = false.

  Variable g : list T.
  Let n := zlen g.
  Let at_ (i : Z) := zn g i (n0 N).

  Definition increasing : Prop :=
    forall i j, 0 <= i -> i < j -> j < n -> nltb N (at_ i) (at_ j) = true.
  Hypothesis Hinc : increasing.

  (* t lies in the half-open cell [g_k, g_{k+1}) *)
  Definition in_cell (t : T) (k : Z) : Prop :=
    0 <= k /\ k + 1 < n /\ nltb N t (at_ k) = false /\ nltb N t (at_ (k + 1)) = true.

  Lemma lt_asym a b : nltb N a b = true -> nltb N b a = false.
  Proof.
    intros H. destruct (nltb N b a) eqn:E; auto.
    pose proof (Htr a b a H E) as H1. rewrite Hirr in H1. discriminate.
  Qed.

  Lemma cell_unique t k i :
    in_cell t k -> 0 <= i < n -> nltb N t (at_ i) = false ->
    (i + 1 < n -> nltb N t (at_ (i + 1)) = true) -> i = k.
  Proof.
    intros (K0 & K1 & K2 & K3) Hi Hi1 Hi2.
    destruct (Z.lt_trichotomy i k) as [Hlt|[Heq|Hgt]]; auto; exfalso.
    - assert (Hi3 : nltb N t (at_ (i + 1)) = true) by (apply Hi2; lia).
      destruct (Z.eq_dec (i + 1) k) as [E|E].
      + rewrite E in Hi3. congruence.
      + assert (H : nltb N (at_ (i + 1)) (at_ k) = true) by (apply Hinc; lia).
        pose proof (Htr _ _ _ Hi3 H). congruence.
    - destruct (Z.eq_dec (k + 1) i) as [E|E].
      + rewrite E in K3. congruence.
      + assert (H : nltb N (at_ (k + 1)) (at_ i) = true) by (apply Hinc; lia).
        pose proof (Htr _ _ _ K3 H). congruence.
  Qed.

  Lemma in_cell_branches t k :
    in_cell t k ->
    (nleb N t (at_ 0) = true -> k = 0) /\ nleb N (at_ (n - 1)) t = false.
  Proof.
    intros (K0 & K1 & K2 & K3). split.
    - intros H. rewrite Hle in H. apply negb_true_iff in H.
      destruct (Z.eq_dec k 0) as [E|E]; auto. exfalso.
      assert (H1 : nltb N (at_ 0) (at_ k) = true) by (apply Hinc; lia).
      pose proof (Hntr _ _ _ H K2). congruence.
    - rewrite Hle. apply negb_false_iff.
      destruct (Z.eq_dec (k + 1) (n - 1)) as [E|E].
      + rewrite <- E. exact K3.
      + assert (H1 : nltb N (at_ (k + 1)) (at_ (n - 1)) = true) by (apply Hinc; lia).
        exact (Htr _ _ _ K3 H1).
  Qed.

  Lemma sample_in_cell k : 0 <= k -> k + 1 < n -> in_cell (at_ k) k.
  Proof.
    intros H0 H1. unfold in_cell. repeat split; auto.
    apply Hinc; lia.
  Qed.

  (* the binary search lands in the cell that contains t *)
  Lemma binary_idx t k :
    n < two63 -> in_cell t k -> nleb N t (at_ 0) = false ->
    binary_search N g t = k.
  Proof.
    intros Hn Hc Hlo.
    pose proof Hc as (K0 & K1 & K2 & K3).
    rewrite Hle in Hlo. apply negb_false_iff in Hlo. apply lt_asym in Hlo.
    assert (H1 : 1 <= zlen g) by (fold n; lia).
    pose proof (binary_search_spec N g t H1 Hn Hlo) as (A & B & C & _).
    apply (cell_unique t k _ Hc A B C).
  Qed.

  Variable o : inter (T:=T).
  Hypothesis Htl : i_tlist o = g.
  Hypothesis Hn1 : 1 <= n.

  Lemma call_with_unfold idxf t :
    call_with N idxf o t =
      if nleb N t (at_ 0) then zget (last_row o) 0
      else if nleb N (at_ (n - 1)) t then zget (last_row o) (n - 1)
      else
        let idx := idxf o t in
        if order o =? 0 then zget (zn (i_poly o) 0 []) idx
        else match zget g idx with
             | Val ti => Val (horner N (column N (i_poly o) idx) (nsub N t ti))
             | IndexError => IndexError
             end.
  Proof.
    unfold call_with. rewrite Htl. fold n.
    rewrite (zget_in g 0 (n0 N)) by (fold n; lia).
    rewrite (zget_in g (n - 1) (n0 N)) by (fold n; lia).
    reflexivity.
  Qed.

  (* constant outside the grid, whatever the order and the index path *)
  Lemma call_below idxf t :
    nleb N t (at_ 0) = true -> call_with N idxf o t = zget (last_row o) 0.
  Proof. intros H. rewrite call_with_unfold, H. reflexivity. Qed.

  Lemma call_above idxf t :
    nleb N t (at_ 0) = false -> nleb N (at_ (n - 1)) t = true ->
    call_with N idxf o t = zget (last_row o) (n - 1).
  Proof. intros H1 H2. rewrite call_with_unfold, H1, H2. reflexivity. Qed.

  (* order 0 *)
  Lemma call0_cell idxf c t k :
    i_poly o = [c] -> zlen c = n -> in_cell t k ->
    (nleb N t (at_ 0) = false -> idxf o t = k) ->
    call_with N idxf o t = Val (zn c k (c0 N)).
  Proof.
    intros Hp Hc Hcell Hidx.
    pose proof (in_cell_branches t k Hcell) as (B1 & B2).
    pose proof Hcell as (K0 & K1 & _).
    rewrite call_with_unfold. unfold last_row, order. rewrite Hp. cbn [last].
    destruct (nleb N t (at_ 0)) eqn:E.
    - rewrite (B1 eq_refl). apply zget_in. lia.
    - rewrite B2. cbv zeta. rewrite (Hidx eq_refl).
      change (zlen [c] - 1 =? 0) with true. cbv iota.
      change (zn [c] 0 []) with c. apply zget_in. lia.
  Qed.

  (* order >= 1: Horner evaluation of column k at t - g_k *)
  Lemma callp_cell idxf t k :
    order o <> 0 -> in_cell t k -> nleb N t (at_ 0) = false -> idxf o t = k ->
    call_with N idxf o t =
      Val (horner N (column N (i_poly o) k) (nsub N t (at_ k))).
  Proof.
    intros Ho Hcell Hlo Hidx.
    pose proof (in_cell_branches t k Hcell) as (_ & B2).
    pose proof Hcell as (K0 & K1 & _).
    rewrite call_with_unfold, Hlo, B2. cbv zeta. rewrite Hidx.
    apply Z.eqb_neq in Ho. rewrite Ho.
    rewrite (zget_in g k (n0 N)) by (fold n; lia). reflexivity.
  Qed.

End Call.

(* ----------------------------------------------------- Horner, order 1 *)
Section FieldPart.
  Context {T : Type}.
  Variable N : num T.
  (* exact arithmetic: the operations form a field *)
  Hypothesis Hfield :
    field_theory (n0 N) (n1 N) (nadd N) (nmul N) (nsub N)
                 (fun x => nsub N (n0 N) x) (ndiv N) (fun x => ndiv N (n1 N) x) eq.
  Add Field NField : Hfield.

  Lemma horner_snoc col s f :
    horner N (col ++ [s]) f = cadd N (cscale N (horner N col f) f) s.
  Proof. unfold horner. rewrite fold_left_app. reflexivity. Qed.

  (* at factor 0 the Horner loop returns the constant coefficient *)
  Lemma horner_zero col :
    col <> [] -> horner N col (n0 N) = last col (c0 N).
  Proof.
    destruct col as [|a col] using rev_ind; [congruence|]. intros _.
    rewrite horner_snoc, last_last.
    destruct (horner N col (n0 N)) as [hr hi]. destruct a as [ar ai].
    unfold cadd, cscale. cbn [fst snd]. f_equal; ring.
  Qed.

  Lemma sub_self a : nsub N a a = n0 N.
  Proof. ring. Qed.

  Lemma sub_zero_eq a b : nsub N a b = n0 N -> a = b.
  Proof.
    intros H. replace a with (nadd N (nsub N a b) b) by ring. rewrite H. ring.
  Qed.

  Lemma horner2 (s c : cplx (T:=T)) f :
    horner N [s; c] f =
      (nadd N (nmul N (fst s) f) (fst c), nadd N (nmul N (snd s) f) (snd c)).
  Proof.
    destruct s as [sr si]. destruct c as [cr ci].
    unfold horner, cadd, cscale, c0. cbn [fold_left fst snd]. f_equal; ring.
  Qed.

  (* the value v produced for slope (c1 - c0)/(g1 - g0) is the linear
     interpolant: (v - c0) (g1 - g0) = (c1 - c0) (t - g0), per component *)
  Lemma lin_interp (a0 a1 g0 g1 t : T) :
    g0 <> g1 ->
    let v := nadd N (nmul N (nmul N (nsub N a1 a0) (ndiv N (n1 N) (nsub N g1 g0)))
                         (nsub N t g0)) a0 in
    nmul N (nsub N v a0) (nsub N g1 g0) = nmul N (nsub N a1 a0) (nsub N t g0).
  Proof.
    intros Hg v. unfold v. field.
    intros H. apply Hg. symmetry. apply sub_zero_eq. exact H.
  Qed.

  (* laws of the comparison *)
  Hypothesis Hle : forall a b, nleb N a b = negb (nltb N b a).
  Hypothesis Hirr : forall a, nltb N a a = false.
  Hypothesis Htr : forall a b c,
    nltb N a b = true -> nltb N b c = true -> nltb N a c = true.
  Hypothesis Hntr : forall a b c,
    nltb N a b = false -> nltb N b c = false -> nltb N a c = false.

  Variable g : list T.
  Hypothesis Hinc : increasing N g.
  Let n := zlen g.
  Let at_ (i : Z) := zn g i (n0 N).

  (* order 1 built by __init__ *)
  Variable c : list (cplx (T:=T)).
  Hypothesis Hc : zlen c = n.
  Hypothesis Hn2 : 2 <= n.

  Lemma init1_shape :
    i_tlist (init01 N 1 c g) = g /\
    i_poly (init01 N 1 c g) =
      [zip_with (cdivr N) (cdiffs N (c ++ [(nm1 N, n0 N)])) (diffs N (g ++ [nm1 N])); c].
  Proof.
    unfold init01. fold n.
    replace (Z.min 1 (n - 1)) with 1 by lia.
    change (1 <=? 0) with false. cbv iota. split; reflexivity.
  Qed.

  Lemma init1_column k :
    0 <= k -> k + 1 < n ->
    column N (i_poly (init01 N 1 c g)) k =
      [cdivr N (csub N (zn c (k + 1) (c0 N)) (zn c k (c0 N)))
               (nsub N (at_ (k + 1)) (at_ k));
       zn c k (c0 N)].
  Proof.
    intros H0 H1. destruct init1_shape as (_ & Ep). rewrite Ep.
    unfold column. cbn [map]. f_equal.
    assert (L1 : zlen (c ++ [(nm1 N, n0 N)]) = n + 1).
    { rewrite zlen_app, Hc. reflexivity. }
    assert (L2 : zlen (g ++ [nm1 N]) = n + 1).
    { rewrite zlen_app. reflexivity. }
    rewrite (zip_with_nth (cdivr N) _ _ k (c0 N) (n0 N) (c0 N)).
    - rewrite cdiffs_nth by lia. rewrite diffs_nth by lia.
      rewrite !zn_app_l by (try rewrite Hc; fold n; lia). reflexivity.
    - lia.
    - rewrite cdiffs_len, L1. lia.
    - rewrite diffs_len, L2. lia.
  Qed.

  (* between samples: the linear interpolant, for any index path that
     returns the right cell *)
  Lemma call1_cell idxf t k :
    in_cell N g t k -> nleb N t (at_ 0) = false ->
    idxf (init01 N 1 c g) t = k ->
    exists v, call_with N idxf (init01 N 1 c g) t = Val v /\
      let ck := zn c k (c0 N) in let ck1 := zn c (k + 1) (c0 N) in
      let dg := nsub N (at_ (k + 1)) (at_ k) in let dt := nsub N t (at_ k) in
      nmul N (nsub N (fst v) (fst ck)) dg = nmul N (nsub N (fst ck1) (fst ck)) dt /\
      nmul N (nsub N (snd v) (snd ck)) dg = nmul N (nsub N (snd ck1) (snd ck)) dt.
  Proof.
    intros Hcell Hlo Hidx.
    pose proof Hcell as (K0 & K1 & _).
    destruct init1_shape as (Htl & Ep).
    assert (Hn1 : 1 <= zlen g) by (fold n; lia).
    assert (Ho : order (init01 N 1 c g) <> 0).
    { unfold order. rewrite Ep. unfold zlen. cbn. lia. }
    assert (Hg : at_ k <> at_ (k + 1)).
    { intros E. assert (H : nltb N (at_ k) (at_ (k + 1)) = true) by (apply Hinc; lia).
      rewrite E, Hirr in H. discriminate. }
    pose proof (callp_cell N Hle Hirr Htr Hntr g Hinc (init01 N 1 c g) Htl Hn1
                  idxf t k Ho Hcell Hlo Hidx) as Hcall.
    fold (at_ k) in Hcall.
    rewrite init1_column in Hcall by lia. rewrite horner2 in Hcall.
    eexists. split; [exact Hcall|].
    unfold cdivr, csub. cbn [fst snd]. split; apply lin_interp; exact Hg.
  Qed.
End FieldPart.

(* ------------------------------------------------ the exact instance NQ *)
Lemma NQ_le : forall a b, nleb NQ a b = negb (nltb NQ b a).
Proof.
  intros a b. cbn. unfold Qcleb, Qcltb, Qccompare.
  rewrite <- (Qcompare_antisym (this a) (this b)).
  destruct (this a ?= this b)%Q; reflexivity.
Qed.

Lemma NQ_irr : forall a, nltb NQ a a = false.
Proof.
  intros a. cbn. unfold Qcltb, Qccompare.
  assert (E : (this a ?= this a)%Q = Eq) by (apply Qeq_alt; reflexivity).
  rewrite E. reflexivity.
Qed.

Lemma Qcltb_lt a b : Qcltb a b = true <-> (a < b)%Qc.
Proof.
  rewrite Qclt_alt. unfold Qcltb. destruct (a ?= b)%Qc; split; congruence.
Qed.

Lemma Qcltb_ge a b : Qcltb a b = false <-> (b <= a)%Qc.
Proof.
  split; intros H.
  - apply Qcnot_lt_le. intros H1. apply Qcltb_lt in H1. congruence.
  - destruct (Qcltb a b) eqn:E; auto. apply Qcltb_lt in E.
    exfalso. exact (Qcle_not_lt _ _ H E).
Qed.

Lemma NQ_tr : forall a b c,
  nltb NQ a b = true -> nltb NQ b c = true -> nltb NQ a c = true.
Proof.
  intros a b c H1 H2. cbn in *. apply Qcltb_lt in H1. apply Qcltb_lt in H2.
  apply Qcltb_lt. exact (Qclt_trans _ _ _ H1 H2).
Qed.

Lemma NQ_ntr : forall a b c,
  nltb NQ a b = false -> nltb NQ b c = false -> nltb NQ a c = false.
Proof.
  intros a b c H1 H2. cbn in *. apply Qcltb_ge in H1. apply Qcltb_ge in H2.
  apply Qcltb_ge. exact (Qcle_trans _ _ _ H2 H1).
Qed.

Lemma NQ_field :
  field_theory (n0 NQ) (n1 NQ) (nadd NQ) (nmul NQ) (nsub NQ)
               (fun x => nsub NQ (n0 NQ) x) (ndiv NQ) (fun x => ndiv NQ (n1 NQ) x) eq.
Proof.
  cbn. constructor.
  - constructor; intros; try ring.
  - intros H. discriminate H.
  - intros p q. unfold Qcdiv. ring.
  - intros p Hp. unfold Qcdiv. rewrite Qcmult_1_l. apply Qcmult_inv_l. exact Hp.
Qed.

(* small concrete grids: [increasing] by enumeration of index pairs *)
Ltac small_increasing idxs :=
  let i := fresh "i" in let j := fresh "j" in
  let H0 := fresh in let H1 := fresh in let H2 := fresh in
  let Hi := fresh in let Hj := fresh in
  intros i j H0 H1 H2; unfold zlen in H2; cbn [length] in H2;
  assert (Hi : In i idxs) by (cbn [In]; lia);
  assert (Hj : In j idxs) by (cbn [In]; lia);
  cbn [In] in Hi, Hj;
  repeat (destruct Hi as [Hi|Hi]; [subst i|]); try contradiction;
  repeat (destruct Hj as [Hj|Hj]; [subst j|]); try contradiction;
  try lia; vm_compute; reflexivity.

(* witnesses of the two repaired defects, on the OLD rules (old_call,
   old_NQ / old_NF).
   -- defect 1 (logic, visible in exact arithmetic; fixed by b254917):
      _prepare accepted a grid as uniform with np.allclose's default
      atol = 1e-8 / rtol = 1e-5 *)
Definition bad_grid1 : list Qc := [qc 0 1; qc 1 1000000000; qc 4 1000000000].
Definition bad_vals1 : list (Qc * Qc) :=
  [(qc 10 1, qc 0 1); (qc 20 1, qc 0 1); (qc 30 1, qc 0 1)].

Lemma bad_grid1_increasing : increasing NQ bad_grid1.
Proof. unfold bad_grid1. small_increasing [0; 1; 2]. Qed.

Lemma old_uniform_detection_refuted :
  exists (g : list Qc) (c : list (Qc * Qc)) (t : Qc) (k : Z),
    increasing NQ g /\ zlen c = zlen g /\ in_cell NQ g t k /\
    old_call old_NQ (init01 old_NQ 0 c g) t <> Val (zn c k (c0 NQ)).
Proof.
  exists bad_grid1, bad_vals1, (qc 25 10000000000), 1.
  split; [exact bad_grid1_increasing|]. split; [reflexivity|]. split.
  - unfold in_cell. repeat split; try (vm_compute; congruence).
  - vm_compute. intros H. discriminate H.
Qed.

Lemma old_uniform_detection_indexerror :
  exists (g : list Qc) (c : list (Qc * Qc)) (t : Qc) (k : Z),
    increasing NQ g /\ zlen c = zlen g /\ in_cell NQ g t k /\
    old_call old_NQ (init01 old_NQ 0 c g) t = IndexError.
Proof.
  exists bad_grid1, bad_vals1, (qc 35 10000000000), 1.
  split; [exact bad_grid1_increasing|]. split; [reflexivity|]. split.
  - unfold in_cell. repeat split; try (vm_compute; congruence).
  - vm_compute. reflexivity.
Qed.

(* relative tolerance: spacings 1 and 1 + 2^-17 pass the test as well *)
Definition bad_grid2 : list Qc := [qc 0 1; qc 1 1; qc 262145 131072; qc 196609 65536].
Definition bad_vals2 : list (Qc * Qc) :=
  [(qc 0 1, qc 0 1); (qc 1 1, qc 0 1); (qc 2 1, qc 0 1); (qc 3 1, qc 0 1)].

Lemma old_uniform_detection_rtol_refuted :
  increasing NQ bad_grid2 /\ in_cell NQ bad_grid2 (qc 524289 262144) 1 /\
  old_call old_NQ (init01 old_NQ 0 bad_vals2 bad_grid2) (qc 524289 262144) = Val (qc 2 1, qc 0 1).
Proof.
  split; [unfold bad_grid2; small_increasing [0; 1; 2; 3]|]. split.
  - unfold in_cell. repeat split; try (vm_compute; congruence).
  - vm_compute. reflexivity.
Qed.

(* -- defect 2 (rounding, visible in the float instance; fixed by 4ce1843):
      the truncated
      quotient (t - t0)/dt falls one short AT a sample time.
      grid = numpy.linspace(0, 0.7, 5), sample index 3 *)
Definition lin5 : list float :=
  [0x0.0p+0; 0x1.6666666666666p-3; 0x1.6666666666666p-2;
   0x1.0ccccccccccccp-1; 0x1.6666666666666p-1]%float.
Definition vals5 : list (float * float) :=
  [(0, 0); (1, 0); (2, 0); (3, 0); (4, 0)]%float.

Definition res_tag (r : res (float * float)) : Z :=
  match r with Val (a, _) => ftrunc a | IndexError => -1 end.

Lemma old_uniform_truncation_refuted :
  exists (g : list float) (c : list (float * float)) (k : Z),
    increasing NF g /\ zlen c = zlen g /\ 0 <= k < zlen g /\
    old_call old_NF (init01 old_NF 0 c g) (zn g k 0%float) <> Val (zn c k (c0 NF)).
Proof.
  exists lin5, vals5, 3.
  split; [unfold lin5; small_increasing [0; 1; 2; 3; 4]|].
  split; [reflexivity|]. split; [vm_compute; split; congruence|].
  intros H. apply (f_equal res_tag) in H. vm_compute in H. discriminate H.
Qed.

(* ------------------------------------------------ FunctionCoefficient *)
Section FuncProofs.
  Context {V : Type}.

  Lemma lookup_app (b a : dict V) k :
    lookup (b ++ a) k = match lookup b k with Some v => Some v | None => lookup a k end.
  Proof.
    induction b as [|[k' v] b IH]; cbn; auto.
    destruct (Nat.eqb k k'); auto.
  Qed.

  Lemma lookup_filter (p : nat -> bool) (d : dict V) k :
    lookup (filter (fun kv => p (fst kv)) d) k = if p k then lookup d k else None.
  Proof.
    induction d as [|[k' v] d IH]; cbn.
    - destruct (p k); reflexivity.
    - destruct (p k') eqn:Ep; cbn.
      + destruct (Nat.eqb k k') eqn:Ek; auto.
        apply Nat.eqb_eq in Ek. subst k'. rewrite Ep. reflexivity.
      + destruct (Nat.eqb k k') eqn:Ek; auto.
        apply Nat.eqb_eq in Ek. subst k'. rewrite Ep in IH |- *. exact IH.
  Qed.

  Definition allowed (ps : option (list nat)) (k : nat) : bool :=
    match ps with None => true | Some l => memb k l end.

  Lemma lookup_restrict ps (d : dict V) k :
    lookup (restrict ps d) k = if allowed ps k then lookup d k else None.
  Proof.
    destruct ps as [l|]; cbn [restrict allowed]; auto.
    apply (lookup_filter (fun k => memb k l)).
  Qed.

  Definition orelse (a b : option V) := match a with Some v => Some v | None => b end.

  (* arguments of the object returned by replace_arguments *)
  Lemma fc_replace_lookup (o : fcoeff (V:=V)) (a kw : dict V) k :
    lookup (fc_args (fst (fc_replace o a kw))) k =
      orelse (if allowed (fc_params o) k then orelse (lookup a k) (lookup kw k) else None)
             (lookup (fc_args o) k).
  Proof.
    unfold fc_replace.
    pose proof (lookup_restrict (fc_params o) (merge kw a) k) as H.
    unfold merge in *. rewrite lookup_app in H. fold (orelse (lookup a k) (lookup kw k)) in H.
    destruct (restrict (fc_params o) (a ++ kw)) as [|x r] eqn:E.
    - cbn [fst]. cbn [lookup] in H. rewrite <- H. reflexivity.
    - cbn [fst fc_args]. rewrite lookup_app, H. reflexivity.
  Qed.

  Lemma fc_replace_same_iff (o : fcoeff (V:=V)) (a kw : dict V) :
    snd (fc_replace o a kw) = true -> fst (fc_replace o a kw) = o.
  Proof.
    unfold fc_replace. destruct (restrict (fc_params o) (merge kw a)); cbn; congruence.
  Qed.

  Lemma fc_replace_keeps_sig (o : fcoeff (V:=V)) (a kw : dict V) :
    fc_pythonic (fst (fc_replace o a kw)) = fc_pythonic o /\
    fc_params (fst (fc_replace o a kw)) = fc_params o.
  Proof.
    unfold fc_replace. destruct (restrict (fc_params o) (merge kw a)); cbn; auto.
  Qed.

  Lemma fc_init_lookup (s : fsig) (st : style) (args : dict V) k :
    lookup (fc_args (fc_init s st args)) k =
      if allowed (snd (cfp s st)) k then lookup args k else None.
  Proof.
    unfold fc_init. destruct (cfp s st) as [py ps]. cbn [fc_args snd].
    apply lookup_restrict.
  Qed.

  Lemma fc_init_params (s : fsig) (st : style) (args : dict V) :
    fc_params (fc_init s st args) = snd (cfp s st) /\
    fc_pythonic (fc_init s st args) = fst (cfp s st).
  Proof. unfold fc_init. destruct (cfp s st). cbn. auto. Qed.

  (* arguments given by replacement = arguments given at construction *)
  Lemma fc_paths_agree (s : fsig) (st : style) (args1 args2 kw : dict V) k :
    lookup (fc_args (fst (fc_replace (fc_init s st args1) args2 kw))) k =
    lookup (fc_args (fc_init s st (merge args1 (merge kw args2)))) k.
  Proof.
    rewrite fc_replace_lookup, !fc_init_lookup.
    destruct (fc_init_params s st args1) as (-> & _).
    unfold merge. rewrite !lookup_app. unfold orelse.
    destruct (allowed (snd (cfp s st)) k); auto.
  Qed.

  Context {R : Type}.
  Variable func : Z -> (nat -> option V) -> R.
  Hypothesis func_ext : forall t l1 l2, (forall k, l1 k = l2 k) -> func t l1 = func t l2.

  Lemma fc_call_is_replace (o : fcoeff (V:=V)) t (a kw : dict V) :
    fc_call func o t a kw = fc_eval func (fst (fc_replace o a kw)) t.
  Proof.
    unfold fc_call. destruct a as [|x a]; [destruct kw as [|y kw]|]; auto.
    unfold fc_replace, merge. cbn [app].
    destruct (fc_params o); cbn; reflexivity.
  Qed.

  (* value seen with call-time arguments = value of the coefficient built
     with those arguments from the start *)
  Lemma fc_call_paths_agree (s : fsig) (st : style) (args1 args2 kw : dict V) t :
    fc_call func (fc_init s st args1) t args2 kw =
    fc_eval func (fc_init s st (merge args1 (merge kw args2))) t.
  Proof.
    rewrite fc_call_is_replace. unfold fc_eval. apply func_ext.
    intros k. apply fc_paths_agree.
  Qed.
End FuncProofs.

(* decision table of coefficient_function_parameters *)
Lemma cfp_table (s : fsig) :
  cfp s SDict = (false, None) /\
  cfp s SPythonic = (true, if f_has_kw s then None else Some (tl (f_params s))) /\
  cfp s SAuto = (if nat_list_eqb (f_params s) [0%nat; 1%nat] && negb (f_has_kw s)
                 then cfp s SDict else cfp s SPythonic).
Proof.
  unfold cfp. repeat split.
  destruct (nat_list_eqb (f_params s) [0%nat; 1%nat] && negb (f_has_kw s)); reflexivity.
Qed.

(* ------------------------------------------------ packaged hypotheses *)
Definition order_laws {T} (N : num T) : Prop :=
  (forall a b, nleb N a b = negb (nltb N b a)) /\
  (forall a, nltb N a a = false) /\
  (forall a b c, nltb N a b = true -> nltb N b c = true -> nltb N a c = true) /\
  (forall a b c, nltb N a b = false -> nltb N b c = false -> nltb N a c = false).

Definition field_laws {T} (N : num T) : Prop :=
  field_theory (n0 N) (n1 N) (nadd N) (nmul N) (nsub N)
               (fun x => nsub N (n0 N) x) (ndiv N) (fun x => ndiv N (n1 N) x) eq.

Lemma NQ_order_laws : order_laws NQ.
Proof. repeat split; [exact NQ_le|exact NQ_irr|exact NQ_tr|exact NQ_ntr]. Qed.

Lemma init1_rows {T} (N : num T) (c : list (cplx (T:=T))) (g : list T) :
  zlen c = zlen g -> 2 <= zlen g ->
  forall row, In row (i_poly (init01 N 1 c g)) -> zlen row = zlen g.
Proof.
  intros Hc Hn row Hin.
  assert (Ep : i_poly (init01 N 1 c g) =
      [zip_with (cdivr N) (cdiffs N (c ++ [(nm1 N, n0 N)])) (diffs N (g ++ [nm1 N])); c]).
  { unfold init01. replace (Z.min 1 (zlen g - 1)) with 1 by lia. reflexivity. }
  rewrite Ep in Hin.
  destruct Hin as [E|[E|[]]]; subst row; auto.
  rewrite zip_with_len, cdiffs_len, diffs_len, !zlen_app, Hc.
  unfold zlen at 2 4. cbn [length]. lia.
Qed.

(* ------------------------------------------- the index used by _call *)
Section FixedIndex.
  Context {T : Type}.
  Variable N : num T.
  Hypothesis Hle : forall a b, nleb N a b = negb (nltb N b a).
  Hypothesis Hirr : forall a, nltb N a a = false.
  Hypothesis Htr : forall a b c,
    nltb N a b = true -> nltb N b c = true -> nltb N a c = true.
  Hypothesis Hntr : forall a b c,
    nltb N a b = false -> nltb N b c = false -> nltb N a c = false.

  Variable g : list T.
  Hypothesis Hinc : increasing N g.
  Let n := zlen g.
  Let at_ (i : Z) := zn g i (n0 N).

  (* the repaired index is the cell containing t WHATEVER the stored dt, the
     float quotient and the cast produce: no hypothesis on nnz, ndiv, nsub,
     ntrunc, natol, nrtol *)
  Lemma real_idx_cell (o : inter (T:=T)) t k :
    i_tlist o = g -> n < two63 ->
    in_cell N g t k -> nleb N t (at_ 0) = false ->
    real_idx N o t = k.
  Proof.
    intros Htl Hn Hcell Hlo. unfold real_idx. rewrite Htl. cbv zeta.
    destruct (nnz N (i_dt o)).
    - set (idx := ntrunc N (ndiv N (nsub N t (zn g 0 (n0 N))) (i_dt o)) mod two64).
      assert (Hidx : 0 <= idx < two64).
      { unfold idx. apply Z.mod_pos_bound. reflexivity. }
      destruct ((zlen g - 1 <=? idx) || nltb N t (zn g idx (n0 N))
                || nleb N (zn g (idx + 1) (n0 N)) t) eqn:E.
      + eapply binary_idx; eauto.
      + apply orb_false_iff in E. destruct E as (E & E3).
        apply orb_false_iff in E. destruct E as (E1 & E2).
        apply Z.leb_gt in E1.
        rewrite Hle in E3. apply negb_false_iff in E3.
        eapply (cell_unique N Hle Hirr Htr Hntr g Hinc t k idx Hcell); auto.
        lia.
    - eapply binary_idx; eauto.
  Qed.

  (* sample reproduction / knot value for any index function that finds the
     cell (generic form of call0_samples and callp_knot) *)
  Variable idxf : inter (T:=T) -> T -> Z.
  Variable o : inter (T:=T).
  Hypothesis Htl : i_tlist o = g.
  Hypothesis Hidxf : forall t k,
    in_cell N g t k -> nleb N t (at_ 0) = false -> idxf o t = k.

  Lemma samples0_generic c k :
    1 <= n -> i_poly o = [c] -> zlen c = n -> 0 <= k < n ->
    call_with N idxf o (at_ k) = Val (zn c k (c0 N)).
  Proof.
    intros Hn1 Hp Hc Hk.
    destruct (Z.eq_dec k 0) as [E0|E0].
    - subst k. erewrite call_below; eauto.
      + unfold last_row. rewrite Hp. cbn [last]. apply zget_in. lia.
      + rewrite Hle, Hirr. reflexivity.
    - destruct (Z.eq_dec k (n - 1)) as [E1|E1].
      + subst k. erewrite call_above; eauto.
        * unfold last_row. rewrite Hp. cbn [last]. apply zget_in. lia.
        * rewrite Hle. apply negb_false_iff. apply Hinc; lia.
        * rewrite Hle, Hirr. reflexivity.
      + assert (Hcell : in_cell N g (at_ k) k) by (apply sample_in_cell; auto; lia).
        eapply call0_cell; eauto.
  Qed.

  Hypothesis Hfield : field_laws N.

  Lemma knot_generic k :
    2 <= n -> i_poly o <> [] ->
    (forall row, In row (i_poly o) -> zlen row = n) ->
    0 <= k < n ->
    call_with N idxf o (at_ k) = Val (zn (last_row o) k (c0 N)).
  Proof.
    intros Hn2 Hp Hrows Hk.
    assert (Hn1 : 1 <= zlen g) by (fold n; lia).
    assert (Hlast : zlen (last_row o) = n).
    { apply Hrows. unfold last_row.
      destruct (i_poly o) as [|r rs]; [congruence|].
      apply (@exists_last _ (r :: rs)) in Hp. destruct Hp as (l' & a & E).
      rewrite E, last_last. apply in_or_app. right. left. reflexivity. }
    destruct (Z.eq_dec k 0) as [E0|E0].
    - subst k. erewrite call_below; eauto.
      + apply zget_in. lia.
      + rewrite Hle, Hirr. reflexivity.
    - destruct (Z.eq_dec k (n - 1)) as [E1|E1].
      + subst k. erewrite call_above; eauto.
        * apply zget_in. lia.
        * rewrite Hle. apply negb_false_iff. apply Hinc; lia.
        * rewrite Hle, Hirr. reflexivity.
      + assert (Hcell : in_cell N g (at_ k) k) by (apply sample_in_cell; auto; lia).
        assert (Hlo : nleb N (at_ k) (zn g 0 (n0 N)) = false).
        { rewrite Hle. apply negb_false_iff. apply Hinc; lia. }
        destruct (Z.eq_dec (order o) 0) as [Eo|Eo].
        * unfold order in Eo.
          destruct (i_poly o) as [|c [|c2 rest]] eqn:Ep; [congruence| |].
          -- assert (Hc : zlen c = zlen g) by (apply Hrows; left; reflexivity).
             erewrite call0_cell with (c := c) (k := k); eauto.
             unfold last_row. rewrite Ep. reflexivity.
          -- unfold zlen in Eo. cbn [length] in Eo. lia.
        * erewrite callp_cell with (k := k); eauto.
          fold (at_ k). rewrite (sub_self N Hfield). f_equal.
          rewrite (horner_zero N Hfield).
          -- unfold column, last_row.
             destruct (i_poly o) as [|r rs]; [congruence|].
             apply (@exists_last _ (r :: rs)) in Hp. destruct Hp as (l' & a & E).
             rewrite E, map_app. cbn [map]. rewrite !last_last. reflexivity.
          -- unfold column. destruct (i_poly o); [congruence|discriminate].
  Qed.
End FixedIndex.

